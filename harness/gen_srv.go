package main

import (
	"fmt"
	"math/rand"
	"strings"
)

// C17: scenarios for the server lifecycle. The generator tracks what the scenario holds back so that every step waits
// for an event that a correct server produces (no step depends on time).
func genSrvScenario(rng *rand.Rand, cfg string) string {
	onAccept, tracer := cfg[2] == '1', cfg[4] == '1'
	var steps []string
	alive := map[int]bool{}    // accepted and, as far as the scenario goes, still served
	open := map[int]bool{}     // client side open
	blocked := map[int]bool{}  // handler blocked
	traced := map[int]bool{}   // held in the tracer
	rejected := map[int]bool{} // refused by the accept callback
	var rejects []string
	nextClient, nextID := 1, 1
	held := 0
	shutdown := "" // "", "pending", "done"
	cancelled := false
	n := 3 + rng.Intn(12)
	if rng.Intn(40) == 0 {
		steps = append(steps, "sh0")
		shutdown = "done"
	}
	pick := func(m map[int]bool, pred func(int) bool) int {
		var ks []int
		for k, v := range m {
			if v && pred(k) {
				ks = append(ks, k)
			}
		}
		if len(ks) == 0 {
			return 0
		}
		// deterministic order
		for i := range ks {
			for j := i + 1; j < len(ks); j++ {
				if ks[j] < ks[i] {
					ks[i], ks[j] = ks[j], ks[i]
				}
			}
		}
		return ks[rng.Intn(len(ks))]
	}
	free := func(k int) bool { return !blocked[k] && !traced[k] }
	for tries := 0; len(steps) < n && tries < 400; tries++ {
		switch rng.Intn(14) {
		case 0, 1, 2: // connect
			if held != 0 || nextClient > 7 {
				continue
			}
			k := nextClient
			nextClient++
			rej := onAccept && rng.Intn(5) == 0
			if rej {
				rejects = append(rejects, fmt.Sprint(k))
				rejected[k] = true
			}
			if onAccept && shutdown == "" && !cancelled && rng.Intn(6) == 0 {
				steps = append(steps, fmt.Sprintf("ch%d", k))
				held = k
				open[k] = true
				continue
			}
			steps = append(steps, fmt.Sprintf("c%d", k))
			if shutdown == "" && !cancelled {
				open[k] = true
				if !rej {
					alive[k] = true
				}
			}
		case 3:
			if held != 0 && shutdown != "pending" {
				steps = append(steps, "ra")
				if !rejected[held] && shutdown == "" && !cancelled {
					alive[held] = true
				}
				held = 0
			}
		case 4, 5: // plain request
			k := pick(open, free)
			if k == 0 || k == held {
				continue
			}
			steps = append(steps, fmt.Sprintf("q%d.%d", k, nextID))
			nextID++
		case 6: // blocking handler
			k := pick(alive, free)
			if k == 0 || shutdown == "pending" {
				continue
			}
			steps = append(steps, fmt.Sprintf("s%d.%d", k, nextID))
			nextID++
			blocked[k] = true
		case 7:
			k := pick(blocked, func(int) bool { return true })
			if k == 0 {
				continue
			}
			steps = append(steps, fmt.Sprintf("f%d", k))
			delete(blocked, k)
			if cancelled {
				alive[k] = false
			}
			if shutdown == "pending" {
				// closed by the next sweep, whenever that is: nothing more is asked of this connection
				alive[k] = false
				open[k] = false
			}
		case 8: // panicking handler
			k := pick(alive, free)
			if k == 0 || shutdown == "pending" || rng.Intn(2) == 0 {
				continue
			}
			steps = append(steps, fmt.Sprintf("p%d.%d", k, nextID))
			nextID++
			alive[k] = false
		case 9: // tracer hold
			if !tracer {
				continue
			}
			if k := pick(traced, func(int) bool { return true }); k != 0 && rng.Intn(2) == 0 {
				steps = append(steps, fmt.Sprintf("rt%d", k))
				delete(traced, k)
				if shutdown != "" {
					alive[k] = false
				}
				continue
			}
			k := pick(alive, free)
			if k == 0 || shutdown == "pending" {
				continue
			}
			steps = append(steps, fmt.Sprintf("t%d.%d", k, nextID))
			nextID++
			traced[k] = true
		case 10: // disconnect
			k := pick(open, free)
			if k == 0 || k == held || shutdown == "pending" {
				continue
			}
			steps = append(steps, fmt.Sprintf("d%d", k))
			open[k] = false
			alive[k] = false
		case 11: // shutdown
			if shutdown == "" && !cancelled && len(steps) >= 2 {
				nb := 0
				for _, v := range blocked {
					if v {
						nb++
					}
				}
				if nb > 0 && rng.Intn(3) == 0 {
					steps = append(steps, "shx", "j")
					shutdown = "done"
					if rng.Intn(2) == 0 {
						// the caller tries again after the first call gave up
						steps = append(steps, "sh")
						shutdown = "pending"
					}
					for k := range alive {
						if !blocked[k] {
							alive[k] = false
						}
					}
				} else {
					steps = append(steps, "sh")
					shutdown = "pending"
				}
				continue
			}
			if shutdown == "pending" {
				// finish what is blocked, then join
				for k := range blocked {
					if blocked[k] {
						steps = append(steps, fmt.Sprintf("f%d", k))
						delete(blocked, k)
						open[k] = false
					}
				}
				steps = append(steps, "j")
				shutdown = "done"
				for k := range alive {
					alive[k] = false
				}
			}
		case 12: // cancel the serve context
			if cancelled || held != 0 || shutdown == "pending" || rng.Intn(3) != 0 {
				continue
			}
			steps = append(steps, "x")
			cancelled = true
			for k := range alive {
				if !blocked[k] {
					alive[k] = false
				}
			}
		case 13:
			if shutdown == "pending" {
				for k := range blocked {
					if blocked[k] {
						steps = append(steps, fmt.Sprintf("f%d", k))
						delete(blocked, k)
						open[k] = false
					}
				}
				steps = append(steps, "j")
				shutdown = "done"
				for k := range alive {
					alive[k] = false
				}
			}
		}
	}
	if shutdown == "pending" && rng.Intn(2) == 0 {
		for k := range blocked {
			if blocked[k] {
				steps = append(steps, fmt.Sprintf("f%d", k))
			}
		}
		steps = append(steps, "j")
	}
	rj := "-"
	if len(rejects) > 0 {
		rj = strings.Join(rejects, ",")
	}
	return fmt.Sprintf("srv %s %s %s", cfg, rj, strings.Join(steps, ";"))
}

var srvTemplates = []string{
	"- c1;c2;s1.4;g2.9;h2.9;f1;q1.5;q2.6",
	"- c1;m1.100;g1.7;h1.7;q1.8;c2;w2.9;w1.10",
	"- c1;he1.4;q1.5;he1.7;c2;he2.8;q1.9;sh;j",
	"1 ch1;xh;ra",
	"- c1;dh1;c2;rc1;q2.1;d2",
	"- c1;c2;dh2;c3;q1.1;rc2;q3.2",
	"- c1;q1.7;d1;c2;q2.9;sh;j",
	"2 c1;c2;c3;q1.5;d1;c4;sh;j",
	"- c1;q1.5;d1",
	"- c1;s1.11;sh;f1;j",
	"- c1;c2;s1.11;t2.22;sh;rt2;f1;j",
	"- c1;ch2;sh;j;ra",
	"- c1;x;c2",
	"- c1;p1.4;c2;q2.6",
	"- c1;s1.8;shx;j;f1;q1.9",
	"- sh0;c1",
	"- c1;c2;c3;d2;c4;d1;d3;c5;d4;d5;c6",
	"1,3 c1;c2;c3;c4;q2.1;q4.2;d2;c5",
	"- c1;s1.3;x;f1;c2",
	"- c1;t1.5;sh;j;rt1",
	"- c1;c2;p1.1;p2.2;c3;q3.3;sh;j;c4",
	"- c1;c2;s1.1;s2.2;sh;f2;f1;j;q1.3",
	"2 c1;ch2;ra;c3;q3.4",
	"- ch1;ra;q1.1;x",
	"- sh;j",
	"- sh;j;c1",
	"- x;c1",
	"- c1;d1;sh;j",
	"- c1;b1.5;sh;rb1;j",
	"- c1;c2;b1.5;q2.6;sh;rb1;j;c3",
	"- c1;b1.5;x;rb1",
	"- c1;b1.7;rb1;q1.8;d1",
	"- c1;g1.9;d1;c2;q2.5",
	"- c1;c2;g1.9;q2.5;d1;q2.6;c3;g3.8;c4;q4.7;q2.8",
	"- c1;s1.8;shx;j;sh;f1;j",
	"- c1;c2;s1.8;shx;j;shx;j;f1;q1.9;sh;j",
}

// the scenarios of C15 that go through server.Serve: a fragment left behind by one connection must not reach another
var srvTemplatesC15 = []string{
	"- c1;g1.9;d1;c2;q2.5",
	"- c1;c2;g1.9;q2.5;d1;q2.6;c3;g3.8;c4;q4.7;q2.8",
	"- c1;q1.1;g1.2;d1;c2;q2.3;q2.4",
	"- c1;g1.5;h1.5;q1.6;c2;g2.7;q1.8;h2.7;d1;d2",
	"- c1;m1.100;q1.7;c2;m2.200;q1.8;m1.300;d1;q2.9",
	"- c1;m1.100;g1.7;h1.7;q1.8;c2;w2.9;w1.10",
	"- c1;he1.4;q1.5;he1.7;c2;he2.8;q1.9;sh;j",
	"- c1;c2;s1.4;g2.9;h2.9;f1;q1.5;q2.6",
}

func init() {
	generators["C17"] = func(tier string, rng *rand.Rand, shard, nshards int, emit emitter) {
		var cfgs []string
		for i := 0; i < 32; i++ {
			cfgs = append(cfgs, fmt.Sprintf("%05b", i))
		}
		{
			for i, c := range cfgs {
				if i%nshards != shard {
					continue
				}
				for _, t := range srvTemplates {
					emit("srv " + c + " " + t)
				}
			}
		}
		n := 40
		switch tier {
		case "thorough":
			n = 1500
		case "race":
			n = 25
		}
		for i := 0; i < n; i++ {
			emit(genSrvScenario(rng, cfgs[rng.Intn(32)]))
		}
	}
}
