package main

// Execution of packet-level operations against the real code (in-process).

import (
	"fmt"
	"reflect"
	"strconv"
	"strings"
	"sync"

	"github.com/aldas/go-modbus-client/packet"
)

type parseFn func([]byte) string

func wrapReq[T any](f func([]byte) (T, error)) parseFn {
	return func(d []byte) string {
		v, err := f(d)
		if err != nil {
			s := errStr(err)
			if !isNilValue(any(v)) {
				s += " VALUE-NONNIL"
			}
			return s
		}
		if isNilValue(any(v)) {
			return "NIL-VALUE-NIL-ERROR"
		}
		out := "ok " + reqStr(any(v))
		// a decoded request is a value of its own: what happens to the receive buffer afterwards (the server's assembler
		// and the client reuse theirs) does not reach into it
		saved := append([]byte{}, d[:cap(d)]...)
		full := d[:cap(d)]
		for i := range full {
			full[i] ^= 0xFF
		}
		if again := "ok " + reqStr(any(v)); again != out {
			out += " ALIASES-INPUT"
		}
		copy(full, saved)
		return out
	}
}

func wrapResp[T any](f func([]byte) (T, error)) parseFn {
	return func(d []byte) string {
		v, err := f(d)
		if err != nil {
			s := errStr(err)
			if !isNilValue(any(v)) {
				s += " VALUE-NONNIL"
			}
			return s
		}
		if isNilValue(any(v)) {
			return "NIL-VALUE-NIL-ERROR"
		}
		return "ok " + respStr(any(v))
	}
}

var parseEntries = map[string]parseFn{
	"mbap": func(d []byte) string {
		h, err := packet.ParseMBAPHeader(d)
		if err != nil {
			s := errStr(err)
			if !isNilValue(h) {
				s += " VALUE-NONNIL"
			}
			return s
		}
		return fmt.Sprintf("ok tid=%d", h.TransactionID)
	},
	"looks": func(d []byte) string {
		n, err := packet.LooksLikeModbusTCP(d, false)
		return fmt.Sprintf("n=%d %s", n, errStr(err))
	},
	"looksU": func(d []byte) string {
		n, err := packet.LooksLikeModbusTCP(d, true)
		return fmt.Sprintf("n=%d %s", n, errStr(err))
	},
	"aserrT":  func(d []byte) string { return errStr(packet.AsTCPErrorPacket(d)) },
	"aserrR":  func(d []byte) string { return errStr(packet.AsRTUErrorPacket(d)) },
	"aserrRC": func(d []byte) string { return errStr(packet.AsRTUErrorPacketWithCRC(d)) },

	"reqT":   wrapReq(packet.ParseTCPRequest),
	"reqR":   wrapReq(packet.ParseRTURequest),
	"reqRC":  wrapReq(packet.ParseRTURequestWithCRC),
	"respT":  wrapResp(packet.ParseTCPResponse),
	"respR":  wrapResp(packet.ParseRTUResponse),
	"respRC": wrapResp(packet.ParseRTUResponseWithCRC),

	"reqT.1":  wrapReq(packet.ParseReadCoilsRequestTCP),
	"reqT.2":  wrapReq(packet.ParseReadDiscreteInputsRequestTCP),
	"reqT.3":  wrapReq(packet.ParseReadHoldingRegistersRequestTCP),
	"reqT.4":  wrapReq(packet.ParseReadInputRegistersRequestTCP),
	"reqT.5":  wrapReq(packet.ParseWriteSingleCoilRequestTCP),
	"reqT.6":  wrapReq(packet.ParseWriteSingleRegisterRequestTCP),
	"reqT.15": wrapReq(packet.ParseWriteMultipleCoilsRequestTCP),
	"reqT.16": wrapReq(packet.ParseWriteMultipleRegistersRequestTCP),
	"reqT.17": wrapReq(packet.ParseReadServerIDRequestTCP),
	"reqT.23": wrapReq(packet.ParseReadWriteMultipleRegistersRequestTCP),

	"reqR.1":  wrapReq(packet.ParseReadCoilsRequestRTU),
	"reqR.2":  wrapReq(packet.ParseReadDiscreteInputsRequestRTU),
	"reqR.3":  wrapReq(packet.ParseReadHoldingRegistersRequestRTU),
	"reqR.4":  wrapReq(packet.ParseReadInputRegistersRequestRTU),
	"reqR.5":  wrapReq(packet.ParseWriteSingleCoilRequestRTU),
	"reqR.6":  wrapReq(packet.ParseWriteSingleRegisterRequestRTU),
	"reqR.15": wrapReq(packet.ParseWriteMultipleCoilsRequestRTU),
	"reqR.16": wrapReq(packet.ParseWriteMultipleRegistersRequestRTU),
	"reqR.17": wrapReq(packet.ParseReadServerIDRequestRTU),
	"reqR.23": wrapReq(packet.ParseReadWriteMultipleRegistersRequestRTU),

	"respT.1":  wrapResp(packet.ParseReadCoilsResponseTCP),
	"respT.2":  wrapResp(packet.ParseReadDiscreteInputsResponseTCP),
	"respT.3":  wrapResp(packet.ParseReadHoldingRegistersResponseTCP),
	"respT.4":  wrapResp(packet.ParseReadInputRegistersResponseTCP),
	"respT.5":  wrapResp(packet.ParseWriteSingleCoilResponseTCP),
	"respT.6":  wrapResp(packet.ParseWriteSingleRegisterResponseTCP),
	"respT.15": wrapResp(packet.ParseWriteMultipleCoilsResponseTCP),
	"respT.16": wrapResp(packet.ParseWriteMultipleRegistersResponseTCP),
	"respT.17": wrapResp(packet.ParseReadServerIDResponseTCP),
	"respT.23": wrapResp(packet.ParseReadWriteMultipleRegistersResponseTCP),

	"respR.1":  wrapResp(packet.ParseReadCoilsResponseRTU),
	"respR.2":  wrapResp(packet.ParseReadDiscreteInputsResponseRTU),
	"respR.3":  wrapResp(packet.ParseReadHoldingRegistersResponseRTU),
	"respR.4":  wrapResp(packet.ParseReadInputRegistersResponseRTU),
	"respR.5":  wrapResp(packet.ParseWriteSingleCoilResponseRTU),
	"respR.6":  wrapResp(packet.ParseWriteSingleRegisterResponseRTU),
	"respR.15": wrapResp(packet.ParseWriteMultipleCoilsResponseRTU),
	"respR.16": wrapResp(packet.ParseWriteMultipleRegistersResponseRTU),
	"respR.17": wrapResp(packet.ParseReadServerIDResponseRTU),
	"respR.23": wrapResp(packet.ParseReadWriteMultipleRegistersResponseRTU),
}

var allParseEntries []string

func init() {
	for k := range parseEntries {
		allParseEntries = append(allParseEntries, k)
	}
	sortStrings(allParseEntries)
}

// guarded runs f and turns a panic into the marker PANIC
func guarded(f func() string) (s string) {
	defer func() {
		if r := recover(); r != nil {
			s = "PANIC"
		}
	}()
	return f()
}

// withSpare returns a slice of len(data) whose spare capacity holds `spare`
func withSpare(data, spare []byte) []byte {
	buf := make([]byte, len(data)+len(spare))
	copy(buf, data)
	copy(buf[len(data):], spare)
	return buf[:len(data):len(buf)]
}

// the two exported sentinel errors are pointers to structs: a parser that fills one of them in changes what every later
// caller sees
var (
	pristineTooShort = *packet.ErrTCPDataTooShort
	pristineNotTCP   = *packet.ErrIsNotTCPPacket
)

var parseMu sync.Mutex

func sentinelsTouched() bool {
	touched := *packet.ErrTCPDataTooShort != pristineTooShort || *packet.ErrIsNotTCPPacket != pristineNotTCP
	if touched {
		*packet.ErrTCPDataTooShort = pristineTooShort
		*packet.ErrIsNotTCPPacket = pristineNotTCP
	}
	return touched
}

func execParse(entry string, data, spare []byte) string {
	f, ok := parseEntries[entry]
	if !ok {
		return "NOENTRY"
	}
	// (the sentinels are process wide and the shards run in one process: one parse operation at a time, so that the
	// operation that touched them is the one that is blamed)
	parseMu.Lock()
	defer parseMu.Unlock()
	// a relative first: the same length and the same first twelve bytes, everything after them complemented (a result
	// remembered under too short a key would be handed out for this input)
	if len(data) > 12 {
		tw := append([]byte{}, data...)
		for i := 12; i < len(tw); i++ {
			tw[i] ^= 0xFF
		}
		_ = guarded(func() string { return f(withSpare(tw, nil)) })
		sentinelsTouched()
	}
	a := guarded(func() string { return f(withSpare(data, nil)) })
	if sentinelsTouched() {
		a += " SENTINEL-MUTATED"
	}
	b := guarded(func() string { return f(withSpare(data, spare)) })
	if sentinelsTouched() {
		b += " SENTINEL-MUTATED"
	}
	return a + " || " + b
}

type newArgs struct {
	fc      uint8
	framing string
	tid     uint16
	unit    uint8
	addr    uint16
	qty     uint16
	state   bool
	waddr   uint16
	data    []byte
	coils   []bool
}

func atoi(s string) int {
	n, err := strconv.Atoi(s)
	if err != nil {
		panic("bad number in op: " + s)
	}
	return n
}

func dataTok(s string) []byte {
	if strings.HasPrefix(s, "z") {
		return make([]byte, atoi(s[1:]))
	}
	return unhx(s)
}

func parseNewArgs(ts []string) newArgs {
	return newArgs{
		fc: uint8(atoi(ts[0])), framing: ts[1], tid: uint16(atoi(ts[2])), unit: uint8(atoi(ts[3])),
		addr: uint16(atoi(ts[4])), qty: uint16(atoi(ts[5])), state: ts[6] == "1", waddr: uint16(atoi(ts[7])),
		data: dataTok(ts[8]), coils: bitsOf(ts[9]),
	}
}

// construct calls the library constructor and sets the transaction id explicitly
func construct(a newArgs) (packet.Request, error) {
	if n := len(a.data); n > 0 && n < 4096 {
		// the caller's payload is the front of a larger scratch buffer (spare capacity behind it)
		d := make([]byte, n, n+48)
		copy(d, a.data)
		for i := n; i < cap(d); i++ {
			d[:cap(d)][i] = 0xEE
		}
		a.data = d
	}
	tcp := a.framing == "t"
	switch a.fc {
	case 1:
		if tcp {
			r, err := packet.NewReadCoilsRequestTCP(a.unit, a.addr, a.qty)
			if err != nil {
				return nil, err
			}
			r.TransactionID = a.tid
			return r, nil
		}
		r, err := packet.NewReadCoilsRequestRTU(a.unit, a.addr, a.qty)
		if err != nil {
			return nil, err
		}
		return r, nil
	case 2:
		if tcp {
			r, err := packet.NewReadDiscreteInputsRequestTCP(a.unit, a.addr, a.qty)
			if err != nil {
				return nil, err
			}
			r.TransactionID = a.tid
			return r, nil
		}
		r, err := packet.NewReadDiscreteInputsRequestRTU(a.unit, a.addr, a.qty)
		if err != nil {
			return nil, err
		}
		return r, nil
	case 3:
		if tcp {
			r, err := packet.NewReadHoldingRegistersRequestTCP(a.unit, a.addr, a.qty)
			if err != nil {
				return nil, err
			}
			r.TransactionID = a.tid
			return r, nil
		}
		r, err := packet.NewReadHoldingRegistersRequestRTU(a.unit, a.addr, a.qty)
		if err != nil {
			return nil, err
		}
		return r, nil
	case 4:
		if tcp {
			r, err := packet.NewReadInputRegistersRequestTCP(a.unit, a.addr, a.qty)
			if err != nil {
				return nil, err
			}
			r.TransactionID = a.tid
			return r, nil
		}
		r, err := packet.NewReadInputRegistersRequestRTU(a.unit, a.addr, a.qty)
		if err != nil {
			return nil, err
		}
		return r, nil
	case 5:
		if tcp {
			r, err := packet.NewWriteSingleCoilRequestTCP(a.unit, a.addr, a.state)
			if err != nil {
				return nil, err
			}
			r.TransactionID = a.tid
			return r, nil
		}
		r, err := packet.NewWriteSingleCoilRequestRTU(a.unit, a.addr, a.state)
		if err != nil {
			return nil, err
		}
		return r, nil
	case 6:
		if tcp {
			r, err := packet.NewWriteSingleRegisterRequestTCP(a.unit, a.addr, a.data)
			if err != nil {
				return nil, err
			}
			r.TransactionID = a.tid
			return r, nil
		}
		r, err := packet.NewWriteSingleRegisterRequestRTU(a.unit, a.addr, a.data)
		if err != nil {
			return nil, err
		}
		return r, nil
	case 15:
		if tcp {
			r, err := packet.NewWriteMultipleCoilsRequestTCP(a.unit, a.addr, a.coils)
			if err != nil {
				return nil, err
			}
			r.TransactionID = a.tid
			return r, nil
		}
		r, err := packet.NewWriteMultipleCoilsRequestRTU(a.unit, a.addr, a.coils)
		if err != nil {
			return nil, err
		}
		return r, nil
	case 16:
		if tcp {
			r, err := packet.NewWriteMultipleRegistersRequestTCP(a.unit, a.addr, a.data)
			if err != nil {
				return nil, err
			}
			r.TransactionID = a.tid
			return r, nil
		}
		r, err := packet.NewWriteMultipleRegistersRequestRTU(a.unit, a.addr, a.data)
		if err != nil {
			return nil, err
		}
		return r, nil
	case 17:
		if tcp {
			r, err := packet.NewReadServerIDRequestTCP(a.unit)
			if err != nil {
				return nil, err
			}
			r.TransactionID = a.tid
			return r, nil
		}
		r, err := packet.NewReadServerIDRequestRTU(a.unit)
		if err != nil {
			return nil, err
		}
		return r, nil
	case 23:
		if tcp {
			r, err := packet.NewReadWriteMultipleRegistersRequestTCP(a.unit, a.addr, a.qty, a.waddr, a.data)
			if err != nil {
				return nil, err
			}
			r.TransactionID = a.tid
			return r, nil
		}
		r, err := packet.NewReadWriteMultipleRegistersRequestRTU(a.unit, a.addr, a.qty, a.waddr, a.data)
		if err != nil {
			return nil, err
		}
		return r, nil
	}
	return nil, fmt.Errorf("no constructor for function %d", a.fc)
}

// twin returns the arguments of a near relative of a request: same function, address and quantity, other unit and
// transaction id (and the other coil state / other payload bytes)
func twin(a newArgs, k int) newArgs {
	t := a
	t.unit ^= uint8(0x55 + k)
	t.tid ^= uint16(0x0F0F + k)
	if k > 0 {
		t.addr ^= 0x00FF
		t.state = !t.state
		t.data = append([]byte{}, a.data...)
		for i := range t.data {
			t.data[i] ^= 0xFF
		}
		t.coils = append([]bool{}, a.coils...)
		for i := range t.coils {
			t.coils[i] = !t.coils[i]
		}
	}
	return t
}

func execNewreq(ts []string) string {
	a := parseNewArgs(ts)
	// what a caller did to an earlier request made with the same arguments (it re-targeted it: every exported field
	// and every payload byte changed) is its own business: the next request made with these arguments is a new value
	as := a
	as.data, as.coils = append([]byte{}, a.data...), append([]bool{}, a.coils...) // the library may keep the caller's slice
	if rs, err := construct(as); err == nil {
		_ = rs.Bytes()
		scribbleValue(reflect.ValueOf(rs))
		_ = rs.Bytes()
	}
	// ... and a request is a value of its own: what was constructed and encoded before it, and what is encoded after it, leaves no
	// trace in its frame (a relative is built and encoded first, another one afterwards)
	if r0, err := construct(twin(a, 0)); err == nil {
		_ = r0.Bytes()
	}
	r, err := construct(a)
	if err != nil {
		s := errStr(err)
		if !isNilValue(r) {
			s += " VALUE-NONNIL"
		}
		return s
	}
	frame := r.Bytes()
	first := hx(frame)
	out := fmt.Sprintf("ok bytes=%s explen=%d", first, r.ExpectedResponseLength())
	if r2, err := construct(twin(a, 1)); err == nil {
		_ = r2.Bytes()
	}
	if hx(frame) != first {
		return "FRAME-REWRITTEN-BY-LATER-CALL " + out
	}
	if again := hx(r.Bytes()); again != first {
		return "ENCODING-NOT-STABLE second=" + again + " " + out
	}
	// the bytes handed out are the caller's: it writes into them, and the request (and a new request made from the same
	// arguments) still encodes to the same frame
	for i := range frame {
		frame[i] ^= 0xFF
	}
	if again := hx(r.Bytes()); again != first {
		return "ENCODING-NOT-STABLE after-the-caller-wrote-into-the-frame second=" + again + " " + out
	}
	if r3, err := construct(a); err == nil {
		if again := hx(r3.Bytes()); again != first {
			return "ENCODING-NOT-STABLE after-the-caller-wrote-into-the-frame new-request=" + again + " " + out
		}
	}
	return out
}

// scribbleValue changes everything a caller can change in a value it was given: exported integer and bool fields, the
// bytes of exported slices
func scribbleValue(v reflect.Value) {
	defer func() { _ = recover() }()
	switch v.Kind() {
	case reflect.Ptr, reflect.Interface:
		if !v.IsNil() {
			scribbleValue(v.Elem())
		}
	case reflect.Struct:
		for i := 0; i < v.NumField(); i++ {
			if v.Type().Field(i).PkgPath == "" {
				scribbleValue(v.Field(i))
			}
		}
	case reflect.Uint8, reflect.Uint16, reflect.Uint32, reflect.Uint64, reflect.Uint:
		if v.CanSet() {
			v.SetUint(v.Uint() ^ 0xA5)
		}
	case reflect.Bool:
		if v.CanSet() {
			v.SetBool(!v.Bool())
		}
	case reflect.Slice:
		for i := 0; i < v.Len(); i++ {
			scribbleValue(v.Index(i))
		}
	}
}

func rtEntries(framing string, fc uint8) [][2]string {
	if framing == "t" {
		return [][2]string{{fmt.Sprintf("reqT.%d", fc), ""}, {"reqT", ""}}
	}
	return [][2]string{{fmt.Sprintf("reqR.%d", fc), ""}, {"reqR", ""}, {"reqRC", ""}, {fmt.Sprintf("reqR.%d", fc), "strip"}}
}

func execRt(ts []string) string {
	a := parseNewArgs(ts)
	r, err := construct(a)
	if err != nil {
		return errStr(err)
	}
	bs := r.Bytes()
	parts := []string{"ok bytes=" + hx(bs)}
	if again := r.Bytes(); hx(again) != hx(bs) {
		// encoding a request does not change it: a second encoding (a retry) is the same frame
		parts[0] = "ENCODING-NOT-STABLE second=" + hx(again) + " " + parts[0]
	}
	for _, e := range rtEntries(a.framing, a.fc) {
		d := bs
		name := e[0]
		if e[1] == "strip" {
			d = bs[:len(bs)-2]
			name += "-nocrc"
		}
		f := parseEntries[e[0]]
		dd := withSpare(d, nil)
		parts = append(parts, name+"="+guarded(func() string { return f(dd) }))
	}
	return strings.Join(parts, " | ")
}

func execCls(ts []string) string {
	k := atoi(ts[len(ts)-1])
	a := parseNewArgs(ts[:len(ts)-1])
	r, err := construct(a)
	if err != nil {
		return errStr(err)
	}
	bs := r.Bytes()
	if k > len(bs) {
		k = len(bs)
	}
	return parseEntries["looks"](withSpare(bs[:k], nil))
}

func execHdr(h, body []byte) string {
	n, err := packet.LooksLikeModbusTCP(withSpare(h, nil), false)
	l := fmt.Sprintf("n=%d %s", n, errStr(err))
	if err != nil {
		return l
	}
	take := n - len(h)
	if take < 0 {
		take = 0
	}
	if take > len(body) {
		take = len(body)
	}
	data := withSpare(append(append([]byte{}, h...), body[:take]...), nil)
	v, perr := packet.ParseTCPRequest(data)
	if perr != nil {
		eb := " eb=none"
		type byteser interface{ Bytes() []byte }
		if b, ok := perr.(byteser); ok {
			eb = " eb=" + hx(b.Bytes())
		}
		return l + " | " + errStr(perr) + eb
	}
	return l + " | ok " + reqStr(v)
}

func execIscoil(fc string, data []byte, start, addr uint16) string {
	var v bool
	var err error
	// the byte count FIELD of a response value built by hand need not agree with the payload: the payload is the data
	bl := uint8(len(data))
	switch variantOf(hx(data)+fmt.Sprint(start, addr)) % 5 {
	case 0:
		bl = 0
	case 1:
		bl = uint8(len(data) / 2)
	}
	if fc == "1" {
		v, err = packet.ReadCoilsResponse{UnitID: 1, CoilsByteLength: bl, Data: data}.IsCoilSet(start, addr)
	} else if fc == "2" {
		v, err = packet.ReadDiscreteInputsResponse{UnitID: 1, InputsByteLength: bl, Data: data}.IsInputSet(start, addr)
	} else {
		v, err = packet.ReadDiscreteInputsResponse{UnitID: 1, InputsByteLength: bl, Data: data}.IsCoilSet(start, addr)
	}
	if err != nil {
		return errStr(err)
	}
	return "ok " + b01(v)
}

func execErrbytes(ts []string) string {
	tid, unit, fc, code := uint16(atoi(ts[1])), uint8(atoi(ts[2])), uint8(atoi(ts[3])), uint8(atoi(ts[4]))
	// relatives first: the same unit and function with other codes (16 and 1 away)
	for _, d := range []uint8{0x10, 0x01, 0x80} {
		_ = packet.ErrorResponseTCP{TransactionID: tid, UnitID: unit, Function: fc, Code: code ^ d}.Bytes()
		_ = packet.ErrorResponseRTU{UnitID: unit, Function: fc, Code: code ^ d}.Bytes()
	}
	if ts[0] == "t" {
		return hx(packet.ErrorResponseTCP{TransactionID: tid, UnitID: unit, Function: fc, Code: code}.Bytes())
	}
	return hx(packet.ErrorResponseRTU{UnitID: unit, Function: fc, Code: code}.Bytes())
}

// execPacketOp executes one packet-level op; ok=false when the kind is not a packet op
func execPacketOp(ts []string) (string, bool) {
	switch ts[0] {
	case "crc":
		return strconv.Itoa(int(packet.CRC16(unhx(ts[1])))), true
	case "newreq":
		return execNewreq(ts[1:]), true
	case "rt":
		return execRt(ts[1:]), true
	case "parse":
		return execParse(ts[1], unhx(ts[2]), unhx(ts[3])), true
	case "iscoil":
		return execIscoil(ts[1], unhx(ts[2]), uint16(atoi(ts[3])), uint16(atoi(ts[4]))), true
	case "c2b":
		// the coils are a sub-slice of a longer slice of the caller (a pattern written in chunks): what follows them
		// stays as it is
		bits := bitsOf(ts[1])
		full := make([]bool, len(bits)+24)
		copy(full, bits)
		for i := len(bits); i < len(full); i++ {
			full[i] = true
		}
		out := hx(packet.CoilsToBytes(full[:len(bits)]))
		for i := len(bits); i < len(full); i++ {
			if !full[i] {
				return "CALLER-SLICE-WRITTEN " + out, true
			}
		}
		for i := range bits {
			if full[i] != bits[i] {
				return "CALLER-SLICE-WRITTEN " + out, true
			}
		}
		return out, true
	case "errbytes":
		return execErrbytes(ts[1:]), true
	case "cls":
		return execCls(ts[1:]), true
	case "hdr":
		return execHdr(unhx(ts[1]), unhx(ts[2])), true
	case "encresp":
		return execEncResp(ts[1:]), true
	case "newreqp":
		return execNewreqP(ts[1:]), true
	case "errpbytes":
		e := packet.ErrorParseRTU{Message: "x", Packet: packet.ErrorResponseRTU{UnitID: uint8(atoi(ts[1])), Function: uint8(atoi(ts[2])), Code: uint8(atoi(ts[3]))}}
		return hx(e.Bytes()), true
	}
	return "", false
}

// encresp <fc> <t|r> <tid> <unit> <bl> <data>: a byte-count response value with the given (possibly inconsistent) fields
func execEncResp(ts []string) string {
	fc, tcp, tid, unit, bl, d := atoi(ts[0]), ts[1] == "t", uint16(atoi(ts[2])), uint8(atoi(ts[3])), uint8(atoi(ts[4])), unhx(ts[5])
	h := packet.MBAPHeader{TransactionID: tid}
	var r packet.Response
	switch fc {
	case 1:
		b := packet.ReadCoilsResponse{UnitID: unit, CoilsByteLength: bl, Data: d}
		if tcp {
			r = packet.ReadCoilsResponseTCP{MBAPHeader: h, ReadCoilsResponse: b}
		} else {
			r = packet.ReadCoilsResponseRTU{ReadCoilsResponse: b}
		}
	case 2:
		b := packet.ReadDiscreteInputsResponse{UnitID: unit, InputsByteLength: bl, Data: d}
		if tcp {
			r = packet.ReadDiscreteInputsResponseTCP{MBAPHeader: h, ReadDiscreteInputsResponse: b}
		} else {
			r = packet.ReadDiscreteInputsResponseRTU{ReadDiscreteInputsResponse: b}
		}
	case 3:
		b := packet.ReadHoldingRegistersResponse{UnitID: unit, RegisterByteLen: bl, Data: d}
		if tcp {
			r = packet.ReadHoldingRegistersResponseTCP{MBAPHeader: h, ReadHoldingRegistersResponse: b}
		} else {
			r = packet.ReadHoldingRegistersResponseRTU{ReadHoldingRegistersResponse: b}
		}
	case 4:
		b := packet.ReadInputRegistersResponse{UnitID: unit, RegisterByteLen: bl, Data: d}
		if tcp {
			r = packet.ReadInputRegistersResponseTCP{MBAPHeader: h, ReadInputRegistersResponse: b}
		} else {
			r = packet.ReadInputRegistersResponseRTU{ReadInputRegistersResponse: b}
		}
	case 23:
		b := packet.ReadWriteMultipleRegistersResponse{UnitID: unit, RegisterByteLen: bl, Data: d}
		if tcp {
			r = packet.ReadWriteMultipleRegistersResponseTCP{MBAPHeader: h, ReadWriteMultipleRegistersResponse: b}
		} else {
			r = packet.ReadWriteMultipleRegistersResponseRTU{ReadWriteMultipleRegistersResponse: b}
		}
	default:
		return "BADOP"
	}
	return hx(r.Bytes())
}

// newreqp <pid> <newreq args>: the exported ProtocolID field of the constructed TCP request is set before encoding
func execNewreqP(ts []string) string {
	pid := uint16(atoi(ts[0]))
	a := parseNewArgs(ts[1:])
	r, err := construct(a)
	if err != nil {
		return errStr(err)
	}
	// every *RequestTCP type embeds packet.MBAPHeader: set the field through reflection
	v := reflect.ValueOf(r)
	if v.Kind() == reflect.Ptr {
		if f := v.Elem().FieldByName("ProtocolID"); f.IsValid() && f.CanSet() {
			f.SetUint(uint64(pid))
		}
	}
	bs := r.Bytes()
	n, lerr := packet.LooksLikeModbusTCP(bs, false)
	return fmt.Sprintf("ok bytes=%s cls=n=%d %s", hx(bs), n, errStr(lerr))
}
