package main

func execExtraOp(ts []string) (string, bool) {
	switch ts[0] {
	case "regs":
		return execRegs(ts), true
	}
	return "", false
}
