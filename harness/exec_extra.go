package main

func execExtraOp(ts []string) (string, bool) {
	return "", false
}
