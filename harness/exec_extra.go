package main

func execExtraOp(ts []string) (string, bool) {
	switch ts[0] {
	case "regs":
		return execRegs(ts), true
	case "split":
		return execSplit(ts), true
	case "extract":
		return execExtract(ts), true
	case "xf":
		return execXf(ts), true
	case "dor":
		return execDor(ts), true
	case "do":
		return execDo(ts), true
	case "asm":
		return execAsm(ts), true
	case "srv":
		return execSrv(ts), true
	case "connrace":
		return execConnRace(ts), true
	case "conc":
		return execConc(ts), true
	case "lockfacts":
		return execLockFacts(ts), true
	}
	return "", false
}
