package main

// `srv` operations (C17): a scripted scenario against the real server.Server on a loopback listener.
//
//	srv <cfg> <reject> <steps>
//	  cfg     5 characters 0/1: OnServeFunc, OnErrorFunc, OnAcceptConnFunc, OnCloseConnFunc set?, custom assembler with RawReadTracer?
//	  reject  `-` or comma separated client numbers the accept callback refuses
//	  steps   `;` separated, executed one after the other; every step waits for an observable event, never for time:
//	    c<k>        client k connects; waits until the server has tracked or rejected it
//	    ch<k>       client k connects and the accept callback is held inside the callback (needs OnAcceptConnFunc)
//	    ra          the held accept callback returns
//	    q<k>.<id>   request <id> (handler returns at once); waits for the reply
//	    s<k>.<id>   request <id> whose handler blocks; waits until the handler has started
//	    f<k>        lets the blocked handler of client k return; waits for the reply
//	    p<k>.<id>   request <id> whose handler panics; waits for the connection to end
//	    t<k>.<id>   request <id>; the connection goroutine is held in RawReadTracer.Read right after reading it
//	    rt<k>       the held tracer returns; waits for the reply or the end of the connection
//	    d<k>        client k disconnects; waits until the server has cleaned up
//	    sh0         Shutdown is called before Serve (only as the first step)
//	    sh / shx    Shutdown starts in its own goroutine (context of 5 s / 200 ms)
//	    j           waits for Shutdown to return
//	    x           the context given to Serve is cancelled; waits for Serve to return
//
// output: `<observation per step>,... # serve=<r> close=<k:n:flag;...> live=<n>`
// Every wait has a long deadline (failure detection only): `to` in an observation means it expired.

import (
	"context"
	"errors"
	"fmt"
	"io"
	"log"
	"net"
	"os"
	"os/exec"
	"sort"
	"strconv"
	"strings"
	"sync"
	"sync/atomic"
	"time"

	"github.com/aldas/go-modbus-client/packet"
	"github.com/aldas/go-modbus-client/server"
)

// srvWait is the deadline of every wait (failure detection only). Once a wait of a scenario has expired the scenario has
// failed; the waits after it are short, so that a server that hangs everywhere does not cost a deadline per step.
var srvWait = 15 * time.Second

type srvEnv struct {
	mu           sync.Mutex
	connecting   int            // the client number whose connection is being accepted
	addrToClient map[string]int // remote address -> client number
	acceptCount  map[int]uint64 // count argument given to the accept callback
	closeCalls   map[int][]bool // isServerShutdown flags of the close callback calls
	handlerStart map[int]bool   // request id -> handler entered
	holdAccept   map[int]chan struct{}
	acceptHeld   map[int]bool
	holdClose    map[int]chan struct{} // client number -> released: the close callback of that connection is held
	closeHeld    map[int]bool
	blockHandler map[int]chan struct{} // request id -> released
	holdTracer   map[int]chan struct{} // request id -> released
	tracerHeld   map[int]bool
	reject       map[int]bool
	ctxCancelled bool // the scenario has cancelled the context it gave to Serve
}

func (e *srvEnv) with(f func()) {
	e.mu.Lock()
	defer e.mu.Unlock()
	f()
}

func waitUntil(cond func() bool) bool {
	deadline := time.Now().Add(srvWait)
	for {
		if cond() {
			return true
		}
		if time.Now().After(deadline) {
			return false
		}
		time.Sleep(150 * time.Microsecond)
	}
}

type srvHandler struct{ e *srvEnv }

func (h *srvHandler) Handle(ctx context.Context, received packet.Request) (packet.Response, error) {
	req, ok := received.(*packet.ReadHoldingRegistersRequestTCP)
	if !ok {
		return nil, packet.NewErrorParseTCP(packet.ErrIllegalFunction, "nope")
	}
	id := int(req.StartAddress)
	var block chan struct{}
	h.e.with(func() {
		h.e.handlerStart[id] = true
		block = h.e.blockHandler[id]
	})
	switch req.UnitID {
	case 2:
		if block != nil {
			<-block
		}
		// a handler that looks at its context when its backend has answered: unless the scenario cancelled the context it
		// gave to Serve, nobody has a reason to cancel a handler that was started
		scenarioCancelled := false
		h.e.with(func() { scenarioCancelled = h.e.ctxCancelled })
		if ctx.Err() != nil && !scenarioCancelled {
			return nil, errors.New("handler: the context of a started handler was cancelled")
		}
	case 3:
		panic("handler panic requested by the scenario")
	case 5:
		// the handler fails with an ordinary error: the client is told so (server failure), the connection lives on
		return nil, errors.New("the device behind the handler did not answer")
	case 6:
		return nil, fmt.Errorf("handler: %w", errors.New("wrapped failure"))
	}
	return packet.ReadHoldingRegistersResponseTCP{
		MBAPHeader: req.MBAPHeader,
		ReadHoldingRegistersResponse: packet.ReadHoldingRegistersResponse{
			UnitID: req.UnitID, RegisterByteLen: 2, Data: []byte{byte(id >> 8), byte(id)},
		},
	}, nil
}

// assembler with the optional RawReadTracer interface
type tracingAssembler struct {
	inner server.PacketAssembler
	e     *srvEnv
}

const bigReply = 12 << 20

// a request for unit 4 is answered with the ordinary reply followed by padding up to bigReply bytes: the write
// blocks until the client drains its side
func padBig(received []byte, reply []byte) []byte {
	if len(received) >= 12 && received[6] == 4 && len(reply) == 11 {
		out := make([]byte, bigReply)
		copy(out, reply)
		return out
	}
	return reply
}

func (a *tracingAssembler) ReceiveRead(ctx context.Context, received []byte, bytesRead int) ([]byte, bool) {
	reply, cl := a.inner.ReceiveRead(ctx, received, bytesRead)
	return padBig(received, reply), cl
}

// the same without the optional RawReadTracer interface
type paddingAssembler struct{ inner server.PacketAssembler }

func (a *paddingAssembler) ReceiveRead(ctx context.Context, received []byte, bytesRead int) ([]byte, bool) {
	reply, cl := a.inner.ReceiveRead(ctx, received, bytesRead)
	return padBig(received, reply), cl
}

func (a *tracingAssembler) Read(data []byte, n int, err error) {
	if n >= 10 {
		id := int(data[8])<<8 | int(data[9])
		var hold chan struct{}
		a.e.with(func() {
			hold = a.e.holdTracer[id]
			if hold != nil {
				a.e.tracerHeld[id] = true
			}
		})
		if hold != nil {
			<-hold
		}
	}
}

type srvClient struct {
	conn net.Conn
}

func fc3Frame(id int, unit int) []byte {
	return []byte{byte(id >> 8), byte(id), 0, 0, 0, 6, byte(unit), 3, byte(id >> 8), byte(id), 0, 1}
}

// read the reply to request id: r<id> | eof | to | bad<hex>
func (c *srvClient) readReply(id int) string {
	if c == nil || c.conn == nil {
		return "nc"
	}
	buf := make([]byte, 0, 32)
	tmp := make([]byte, 32)
	_ = c.conn.SetReadDeadline(time.Now().Add(srvWait))
	for len(buf) < 11 {
		n, err := c.conn.Read(tmp)
		buf = append(buf, tmp[:n]...)
		if err != nil {
			if len(buf) >= 11 {
				break
			}
			var ne net.Error
			if errors.As(err, &ne) && ne.Timeout() {
				return "to"
			}
			if len(buf) > 0 {
				return fmt.Sprintf("cut%x", buf)
			}
			return "eof"
		}
	}
	want := []byte{byte(id >> 8), byte(id), 0, 0, 0, 5, buf[6], 3, 2, byte(id >> 8), byte(id)}
	if string(buf) == string(want) {
		return fmt.Sprintf("r%d", id)
	}
	return fmt.Sprintf("bad%x", buf)
}

// serverEndStillOpen: the client has seen the end of the stream. A socket that was closed answers further bytes with a
// reset, after which writing fails; a socket that was only shut down for writing keeps taking them.
func (c *srvClient) serverEndStillOpen() bool {
	for i := 0; i < 20; i++ {
		if _, err := c.conn.Write([]byte{0}); err != nil {
			return false
		}
		time.Sleep(50 * time.Millisecond)
	}
	return true
}

// has the server closed the connection? (a read that ends without data)
func (c *srvClient) waitClosed() bool {
	_ = c.conn.SetReadDeadline(time.Now().Add(srvWait))
	tmp := make([]byte, 8)
	n, err := c.conn.Read(tmp)
	if err == nil || n > 0 {
		return false
	}
	var ne net.Error
	if errors.As(err, &ne) && ne.Timeout() {
		return false
	}
	return true
}

func runSrv(ts []string) string {
	if len(ts) != 4 || len(ts[1]) != 5 {
		return "BADOP"
	}
	log.SetOutput(io.Discard)
	cfg := ts[1]
	e := &srvEnv{
		addrToClient: map[string]int{}, acceptCount: map[int]uint64{}, closeCalls: map[int][]bool{},
		handlerStart: map[int]bool{}, holdAccept: map[int]chan struct{}{}, acceptHeld: map[int]bool{}, holdClose: map[int]chan struct{}{}, closeHeld: map[int]bool{},
		blockHandler: map[int]chan struct{}{}, holdTracer: map[int]chan struct{}{}, tracerHeld: map[int]bool{},
		reject: map[int]bool{},
	}
	if ts[2] != "-" {
		for _, r := range strings.Split(ts[2], ",") {
			k, _ := strconv.Atoi(r)
			e.reject[k] = true
		}
	}
	srv := &server.Server{ReadTimeout: 2 * time.Millisecond}
	var served atomic.Bool
	if cfg[0] == '1' {
		srv.OnServeFunc = func(addr net.Addr) { served.Store(true) }
	}
	if cfg[1] == '1' {
		srv.OnErrorFunc = func(err error) {}
	}
	if cfg[2] == '1' {
		srv.OnAcceptConnFunc = func(ctx context.Context, remoteAddr net.Addr, connectionCount uint64) error {
			_ = srv.Addr() // a callback may ask the server about itself
			var k int
			var hold chan struct{}
			e.with(func() {
				k = e.connecting
				e.addrToClient[remoteAddr.String()] = k
				e.acceptCount[k] = connectionCount
				hold = e.holdAccept[k]
				if hold != nil {
					e.acceptHeld[k] = true
				}
			})
			if hold != nil {
				<-hold
			}
			if e.reject[k] {
				return errors.New("rejected by the scenario")
			}
			return nil
		}
	}
	if cfg[3] == '1' {
		srv.OnCloseConnFunc = func(ctx context.Context, remoteAddr net.Addr, isServerShutdown bool) {
			var hold chan struct{}
			e.with(func() {
				k, ok := e.addrToClient[remoteAddr.String()]
				if !ok {
					k = -1
				}
				e.closeCalls[k] = append(e.closeCalls[k], isServerShutdown)
				hold = e.holdClose[k]
				if hold != nil {
					e.closeHeld[k] = true
				}
			})
			if hold != nil {
				<-hold
			}
		}
	}
	h := &srvHandler{e}
	hasBig := strings.Contains(";"+ts[3], ";b")
	if cfg[4] == '1' {
		srv.AssemblerCreatorFunc = func(handler server.ModbusHandler) server.PacketAssembler {
			return &tracingAssembler{inner: &server.ModbusTCPAssembler{Handler: handler}, e: e}
		}
	} else if hasBig {
		srv.AssemblerCreatorFunc = func(handler server.ModbusHandler) server.PacketAssembler {
			return &paddingAssembler{inner: &server.ModbusTCPAssembler{Handler: handler}}
		}
	}
	if hasBig {
		srv.WriteTimeout = 120 * time.Second // the default of 50 ms would cut a reply that a slow client drains later
	}
	// every scenario process listens on its own loopback address: a port number released by one scenario cannot
	// be picked up by the listener of another one while this scenario checks that it refuses connections
	pid := os.Getpid()
	ip := fmt.Sprintf("127.%d.%d.%d", 1+(pid>>16)&63, (pid>>8)&255, pid&255)
	listener, err := net.Listen("tcp", ip+":0")
	if err != nil {
		listener, err = net.Listen("tcp", "127.0.0.1:0")
	}
	if err != nil {
		return "e-listen"
	}
	addr := listener.Addr().String()
	if variantOf(strings.Join(ts, " "))%2 == 1 {
		// Serve(ctx, listener, handler) takes ANY net.Listener: one that reports its own error once it is closed
		listener = &ownErrListener{Listener: listener}
	}
	ctx, cancel := context.WithCancel(context.Background())
	defer cancel()
	serveRet := make(chan error, 1)
	serveStarted := false
	startServe := func() {
		if !serveStarted {
			serveStarted = true
			go func() { serveRet <- srv.Serve(ctx, listener, h) }()
		}
	}
	serveResult := ""
	classify := func(err error) string {
		switch {
		case err == nil:
			return "nil"
		case errors.Is(err, server.ErrServerClosed):
			return "closed"
		default:
			return "err"
		}
	}
	pollServe := func(wait bool) {
		if serveResult != "" {
			return
		}
		if wait {
			select {
			case err := <-serveRet:
				serveResult = classify(err)
			case <-time.After(srvWait):
				serveResult = "hang"
			}
			return
		}
		select {
		case err := <-serveRet:
			serveResult = classify(err)
		default:
		}
	}

	clients := map[int]*srvClient{}
	tracked := map[int]bool{} // clients the driver believes are tracked by the server
	live := func() int64 {
		n := int64(0)
		for _, t := range tracked {
			if t {
				n++
			}
		}
		return n
	}
	settle := func() bool { return waitUntil(func() bool { return srv.VerifActiveConnectionCount() == live() }) }
	closeCbSettled := func(k int) bool {
		if cfg[3] != '1' {
			return true
		}
		return waitUntil(func() bool {
			ok := false
			e.with(func() { ok = len(e.closeCalls[k]) > 0 })
			return ok
		})
	}
	pendingID := map[int]int{}   // client -> id of the request in flight
	bigPending := map[int]bool{} // client -> the server is blocked writing a big reply to it
	isBusy := func(k int) bool {
		if bigPending[k] {
			return true
		}
		_, busy := e.blockHandler[pendingID[k]]
		return busy && pendingID[k] != 0
	}
	heldInTracer := func(k int) bool {
		held := false
		e.with(func() { _, held = e.holdTracer[pendingID[k]] })
		return held && pendingID[k] != 0
	}
	var shutdownRet chan error
	shutdownResult := ""
	shutdownStarted := false
	cancelled := false
	var obs []string
	dial := func(k int) (*srvClient, bool) {
		e.with(func() { e.connecting = k })
		c, err := net.DialTimeout("tcp", addr, srvWait)
		if err != nil {
			return nil, false
		}
		e.with(func() { e.addrToClient[c.LocalAddr().String()] = k })
		if tc, ok := c.(*net.TCPConn); ok && hasBig {
			_ = tc.SetReadBuffer(64 << 10) // a fixed, small receive buffer: what the server cannot send stays in its Write
		}
		return &srvClient{conn: c}, true
	}
	countStr := func(k int) string {
		if cfg[2] != '1' {
			return ""
		}
		s := ""
		e.with(func() { s = strconv.FormatUint(e.acceptCount[k], 10) })
		return s
	}
	for _, st := range strings.Split(ts[3], ";") {
		if st == "" {
			continue
		}
		arg := strings.TrimLeft(st, "abcdefghijklmnopqrstuvwxyz")
		verb := st[:len(st)-len(arg)]
		k, id := 0, 0
		if arg != "" {
			p := strings.Split(arg, ".")
			k, _ = strconv.Atoi(p[0])
			if len(p) > 1 {
				id, _ = strconv.Atoi(p[1])
			}
		}
		o := ""
		if st != "sh0" {
			if !serveStarted && shutdownStarted {
				// Serve after Shutdown: it returns at once and closes the listener; wait for that, not for time
				startServe()
				pollServe(true)
			}
			startServe()
		}
		switch {
		case st == "sh0":
			// Shutdown before Serve has been called
			o = func() (r string) {
				defer func() {
					if rec := recover(); rec != nil {
						r = "panic"
					}
				}()
				sctx, scancel := context.WithTimeout(context.Background(), time.Second)
				defer scancel()
				if err := srv.Shutdown(sctx); err != nil {
					return "err"
				}
				return "nil"
			}()
			shutdownStarted = true
			shutdownResult = o
			obs = append(obs, o)
			continue
		}
		switch verb {
		case "c", "ch":
			hold := verb == "ch" && cfg[2] == '1'
			if hold {
				e.with(func() { e.holdAccept[k] = make(chan struct{}) })
			}
			c, ok := dial(k)
			if !ok {
				o = "x"
				break
			}
			clients[k] = c
			if hold {
				if waitUntil(func() bool { r := false; e.with(func() { r = e.acceptHeld[k] }); return r }) {
					o = "h" + countStr(k)
				} else {
					o = "to"
				}
				break
			}
			if e.reject[k] && cfg[2] == '1' {
				if c.waitClosed() {
					o = "r" + countStr(k)
					if c.serverEndStillOpen() {
						o = "r-NOT-CLOSED-the-server-end-still-takes-bytes"
					}
				} else {
					o = "to"
				}
				break
			}
			// tracked, or closed because the listener's backlog accepted it while the server was going down
			tracked[k] = true
			if settle() {
				o = "a" + countStr(k)
			} else {
				tracked[k] = false
				if c.waitClosed() {
					o = "z" + countStr(k)
				} else {
					o = "to"
				}
			}
		case "ra":
			for kk, ch := range e.holdAccept {
				e.with(func() { delete(e.holdAccept, kk) })
				close(ch)
				if e.reject[kk] {
					if clients[kk].waitClosed() {
						o = "r"
						if clients[kk].serverEndStillOpen() {
							o = "r-NOT-CLOSED-the-server-end-still-takes-bytes"
						}
					} else {
						o = "to"
					}
					break
				}
				// either the server tracks the connection or it closes it (a shutdown has happened meanwhile)
				o = "to"
				want := live() + 1
				c := clients[kk]
				deadline := time.Now().Add(srvWait)
				tmp := make([]byte, 8)
				for time.Now().Before(deadline) {
					if srv.VerifActiveConnectionCount() == want {
						tracked[kk] = true
						o = "a"
						break
					}
					_ = c.conn.SetReadDeadline(time.Now().Add(time.Millisecond))
					n, err := c.conn.Read(tmp)
					var ne net.Error
					if err != nil && n == 0 && !(errors.As(err, &ne) && ne.Timeout()) {
						o = "z"
						closeCbSettled(kk)
						break
					}
				}
			}
		case "q":
			c := clients[k]
			if c == nil {
				o = "nc"
				break
			}
			if _, err := c.conn.Write(fc3Frame(id, 1)); err != nil {
				o = "eof"
				break
			}
			o = c.readReply(id)
		case "he":
			// a request whose handler returns an ordinary error: answered with the server-failure exception
			c := clients[k]
			if c == nil {
				o = "nc"
				break
			}
			unit := 5 + id%2
			if _, err := c.conn.Write(fc3Frame(id, unit)); err != nil {
				o = "eof"
				break
			}
			{
				want := []byte{byte(id >> 8), byte(id), 0, 0, 0, 3, byte(unit), 0x83, 4}
				got := make([]byte, 9)
				_ = c.conn.SetReadDeadline(time.Now().Add(srvWait))
				if n, err := io.ReadFull(c.conn, got); err != nil {
					var ne net.Error
					if errors.As(err, &ne) && ne.Timeout() {
						o = "to"
					} else if n == 0 {
						o = "eof"
					} else {
						o = fmt.Sprintf("cut%x", got[:n])
					}
				} else if string(got) == string(want) {
					o = fmt.Sprintf("r%d", id)
				} else {
					o = fmt.Sprintf("bad%x", got)
				}
			}
		case "w":
			// the client writes its request and shuts down its sending side right behind it (it reads replies until the end
			// of the stream): the request is answered, then the connection ends
			c := clients[k]
			if c == nil {
				o = "nc"
				break
			}
			if _, err := c.conn.Write(fc3Frame(id, 1)); err != nil {
				o = "eof"
				break
			}
			if tc, ok := c.conn.(*net.TCPConn); ok {
				_ = tc.CloseWrite()
			}
			o = c.readReply(id)
			if o == fmt.Sprintf("r%d", id) && !c.waitClosed() {
				o = "st-open"
			}
			_ = c.conn.Close()
			{
				wasTracked := tracked[k]
				tracked[k] = false
				if wasTracked && (!shutdownStarted || shutdownResult != "") {
					if !settle() {
						o += "-stuck"
					}
					if !closeCbSettled(k) {
						o = "nocb"
					}
				}
			}
		case "m":
			// a client that sends early: 25 requests (ids id..id+24) in ONE write of exactly 300 bytes - what one read of
			// the connection loop can take - and then waits for the 25 replies
			c := clients[k]
			if c == nil {
				o = "nc"
				break
			}
			var burst, want []byte
			for j := 0; j < 25; j++ {
				burst = append(burst, fc3Frame(id+j, 1)...)
				want = append(want, byte((id+j)>>8), byte(id+j), 0, 0, 0, 5, 1, 3, 2, byte((id+j)>>8), byte(id+j))
			}
			if _, err := c.conn.Write(burst); err != nil {
				o = "eof"
				break
			}
			got := make([]byte, len(want))
			_ = c.conn.SetReadDeadline(time.Now().Add(srvWait))
			if n, err := io.ReadFull(c.conn, got); err != nil {
				var ne net.Error
				if errors.As(err, &ne) && ne.Timeout() {
					o = "to"
				} else if n == 0 {
					o = "eof"
				} else {
					o = fmt.Sprintf("cut%x", got[:n])
				}
				break
			}
			if string(got) == string(want) {
				o = fmt.Sprintf("r%dx25", id)
			} else {
				o = fmt.Sprintf("bad%x", got)
			}
		case "s":
			c := clients[k]
			if c == nil {
				o = "nc"
				break
			}
			e.with(func() { e.blockHandler[id] = make(chan struct{}) })
			pendingID[k] = id
			if _, err := c.conn.Write(fc3Frame(id, 2)); err != nil {
				o = "eof"
				break
			}
			if waitUntil(func() bool { r := false; e.with(func() { r = e.handlerStart[id] }); return r }) {
				o = "st"
			} else {
				o = "to"
			}
		case "f":
			id = pendingID[k]
			var ch chan struct{}
			e.with(func() { ch = e.blockHandler[id]; delete(e.blockHandler, id) })
			if ch != nil {
				close(ch)
			}
			o = clients[k].readReply(id)
			if cancelled && tracked[k] {
				// the serve context is gone: the connection ends after this exchange
				tracked[k] = false
				if !settle() {
					o += "-stuck"
				}
			}
		case "p":
			c := clients[k]
			if c == nil {
				o = "nc"
				break
			}
			if _, err := c.conn.Write(fc3Frame(id, 3)); err != nil {
				o = "eof"
				break
			}
			o = c.readReply(id)
			if o == "eof" {
				tracked[k] = false
				if !shutdownStarted || shutdownResult != "" {
					if !settle() {
						o = "eof-stuck"
					}
					closeCbSettled(k)
				}
			}
		case "t":
			c := clients[k]
			if c == nil {
				o = "nc"
				break
			}
			pendingID[k] = id
			if cfg[4] != '1' {
				// no tracer configured: an ordinary request
				if _, err := c.conn.Write(fc3Frame(id, 1)); err != nil {
					o = "eof"
					break
				}
				o = c.readReply(id)
				break
			}
			e.with(func() { e.holdTracer[id] = make(chan struct{}) })
			if _, err := c.conn.Write(fc3Frame(id, 1)); err != nil {
				o = "eof"
				break
			}
			if waitUntil(func() bool { r := false; e.with(func() { r = e.tracerHeld[id] }); return r }) {
				o = "tr"
			} else {
				o = "to"
			}
		case "rt":
			id = pendingID[k]
			var ch chan struct{}
			e.with(func() { ch = e.holdTracer[id]; delete(e.holdTracer, id) })
			if ch == nil {
				o = "-"
				break
			}
			close(ch)
			o = clients[k].readReply(id)
			if o != "eof" && tracked[k] && cancelled {
				tracked[k] = false // the serve context is gone: the connection ends after this exchange
				if !settle() {
					o += "-stuck"
				}
			}
			if o == "eof" {
				tracked[k] = false
				started := false
				// the connection is over: did the handler run?
				if !shutdownStarted || shutdownResult != "" {
					settle()
					closeCbSettled(k)
				} else {
					time.Sleep(30 * time.Millisecond)
				}
				e.with(func() { started = e.handlerStart[id] })
				if started {
					o = "eof+h"
				}
			}
		case "d":
			c := clients[k]
			if c == nil {
				o = "nc"
				break
			}
			_ = c.conn.Close()
			wasTracked := tracked[k]
			tracked[k] = false
			o = "ok"
			if wasTracked && (!shutdownStarted || shutdownResult != "") {
				if !settle() {
					o = "stuck"
				}
				if !closeCbSettled(k) {
					o = "nocb"
				}
			}
		case "dh":
			// client k disconnects and the close callback of its connection is held inside the callback
			c := clients[k]
			if c == nil {
				o = "nc"
				break
			}
			if cfg[3] != '1' {
				_ = c.conn.Close()
				wasTracked := tracked[k]
				tracked[k] = false
				o = "ok"
				if wasTracked && !settle() {
					o = "stuck"
				}
				break
			}
			e.with(func() { e.holdClose[k] = make(chan struct{}) })
			_ = c.conn.Close()
			tracked[k] = false
			if waitUntil(func() bool { r := false; e.with(func() { r = e.closeHeld[k] }); return r }) {
				o = "hc"
			} else {
				o = "to"
			}
		case "rc":
			var ch chan struct{}
			e.with(func() { ch = e.holdClose[k]; delete(e.holdClose, k) })
			if ch != nil {
				close(ch)
			}
			o = "ok"
			if !settle() {
				o = "stuck"
			}
		case "sh", "shx":
			d := 5 * time.Second
			if verb == "shx" {
				d = 200 * time.Millisecond
			}
			shutdownRet = make(chan error, 1)
			shutdownStarted = true
			shutdownResult = ""
			go func() {
				sctx, scancel := context.WithTimeout(context.Background(), d)
				defer scancel()
				shutdownRet <- srv.Shutdown(sctx)
			}()
			o = "st"
			// synchronise on events, not on time: Serve returns once the listener is closed (unless the accept loop is
			// held inside the accept callback), and the first sweep closes every connection that is not busy
			if len(e.holdAccept) == 0 {
				pollServe(true)
			}
			for kk := range tracked {
				if !tracked[kk] {
					continue
				}
				if isBusy(kk) {
					continue
				}
				if !clients[kk].waitClosed() {
					o = "st-open"
				}
			}
			// detection power only: give a wrongly impatient Shutdown two scan periods to show itself
			select {
			case err := <-shutdownRet:
				shutdownRet <- err
			case <-time.After(120 * time.Millisecond):
			}
		case "j":
			if shutdownRet == nil {
				o = "-"
				break
			}
			select {
			case err := <-shutdownRet:
				switch {
				case err == nil:
					o = "nil"
				case errors.Is(err, context.DeadlineExceeded):
					o = "ctx"
				default:
					o = "err"
				}
			case <-time.After(srvWait):
				o = "to"
			}
			shutdownResult = o
			if o == "nil" || o == "ctx" || o == "err" {
				// everything that was idle has been closed by Shutdown; a Shutdown that did not give up leaves nothing
				// ("err": a repeated call reports the error of closing the closed listener after its sweep)
				for kk := range tracked {
					if tracked[kk] {
						if isBusy(kk) && o == "ctx" {
							continue
						}
						if heldInTracer(kk) {
							continue // closed by Shutdown, but its goroutine cannot clean up before the tracer returns
						}
						tracked[kk] = false
					}
				}
				if !settle() {
					o += "-stuck"
				}
				pollServe(false)
			}
		case "x":
			cancelled = true
			e.with(func() { e.ctxCancelled = true })
			cancel()
			pollServe(true)
			o = serveResult
			// every connection goroutine ends at its next loop iteration unless its handler is blocked
			for kk := range tracked {
				if tracked[kk] {
					if isBusy(kk) {
						continue
					}
					if heldInTracer(kk) {
						continue
					}
					tracked[kk] = false
				}
			}
			if !settle() {
				o += "-stuck"
			}
		case "xh":
			// the context given to Serve is cancelled while a held accept callback keeps Serve from returning: no wait here
			cancelled = true
			e.with(func() { e.ctxCancelled = true })
			cancel()
			o = "ok"
		case "g":
			// the first 7 bytes of a request and nothing more (a client that gives up or pauses in the middle of a frame)
			c := clients[k]
			if c == nil {
				o = "nc"
				break
			}
			_, _ = c.conn.Write(fc3Frame(id, 1)[:7])
			time.Sleep(3 * time.Millisecond) // let the server read the fragment (detection power only)
			o = "ok"
		case "h":
			// the rest of the request begun by `g`, after a pause (a server that gives up on the frame shows itself)
			c := clients[k]
			if c == nil {
				o = "nc"
				break
			}
			time.Sleep(250 * time.Millisecond)
			if _, err := c.conn.Write(fc3Frame(id, 1)[7:]); err != nil {
				o = "eof"
				break
			}
			o = c.readReply(id)
		case "b":
			// a request whose (padded) reply does not fit into the socket buffers: the server blocks in Write
			c := clients[k]
			if c == nil {
				o = "nc"
				break
			}
			pendingID[k] = id
			if _, err := c.conn.Write(fc3Frame(id, 4)); err != nil {
				o = "eof"
				break
			}
			// only the 11 bytes of the reply proper: the rest stays in the socket, the server stays blocked in Write
			head := make([]byte, 11)
			_ = c.conn.SetReadDeadline(time.Now().Add(srvWait))
			if _, err := io.ReadFull(c.conn, head); err != nil {
				var ne net.Error
				if errors.As(err, &ne) && ne.Timeout() {
					o = "to"
				} else {
					o = "eof"
				}
				break
			}
			want := []byte{byte(id >> 8), byte(id), 0, 0, 0, 5, 4, 3, 2, byte(id >> 8), byte(id)}
			if string(head) == string(want) {
				o = "bw"
				bigPending[k] = true
			} else {
				o = fmt.Sprintf("bad%x", head)
			}
		case "rb":
			if !bigPending[k] {
				o = "-"
				break
			}
			delete(bigPending, k)
			id = pendingID[k]
			rest := bigReply - 11
			buf := make([]byte, 1<<16)
			_ = clients[k].conn.SetReadDeadline(time.Now().Add(4 * srvWait))
			for rest > 0 {
				n, err := clients[k].conn.Read(buf)
				rest -= n
				if err != nil {
					break
				}
			}
			if rest == 0 {
				o = fmt.Sprintf("r%d", id)
			} else {
				o = "cut"
			}
			if tracked[k] && (cancelled || o == "cut") {
				tracked[k] = false
				if !shutdownStarted || shutdownResult != "" {
					if !settle() {
						o += "-stuck"
					}
				}
			}
		default:
			o = "?"
		}
		if o == "to" || o == "hang" || o == "nocb" || strings.HasSuffix(o, "stuck") {
			srvWait = time.Second
		}
		obs = append(obs, o)
	}
	// wind down: release whatever is still held, end the server, let every connection finish
	startServe()
	e.with(func() {
		for id, ch := range e.blockHandler {
			close(ch)
			delete(e.blockHandler, id)
		}
		for id, ch := range e.holdTracer {
			close(ch)
			delete(e.holdTracer, id)
		}
		for k, ch := range e.holdAccept {
			close(ch)
			delete(e.holdAccept, k)
		}
		for k, ch := range e.holdClose {
			close(ch)
			delete(e.holdClose, k)
		}
	})
	if shutdownRet != nil && shutdownResult == "" {
		select {
		case <-shutdownRet:
		case <-time.After(srvWait):
		}
	}
	cancel()
	for _, c := range clients {
		if c != nil && c.conn != nil {
			_ = c.conn.Close()
		}
	}
	pollServe(true)
	waitUntil(func() bool { return srv.VerifActiveConnectionCount() == 0 })
	// accepted connections: every one must have had its close callback by now
	accepted := map[int]bool{}
	for k := range clients {
		accepted[k] = true
	}
	if cfg[3] == '1' {
		waitUntil(func() bool {
			ok := true
			e.with(func() {
				for k := range accepted {
					if e.reject[k] && cfg[2] == '1' {
						continue
					}
					if len(e.closeCalls[k]) == 0 {
						ok = false
					}
				}
			})
			return ok
		})
		time.Sleep(2 * time.Millisecond) // a second (wrong) call would follow at once
	}
	var cl []string
	e.with(func() {
		var ks []int
		for k := range e.closeCalls {
			ks = append(ks, k)
		}
		sort.Ints(ks)
		for _, k := range ks {
			fl := ""
			for _, f := range e.closeCalls[k] {
				if f {
					fl += "s"
				} else {
					fl += "n"
				}
			}
			cl = append(cl, fmt.Sprintf("%d:%s", k, fl))
		}
	})
	if len(cl) == 0 {
		cl = []string{"-"}
	}
	return fmt.Sprintf("%s # serve=%s close=%s live=%d", strings.Join(obs, ","), serveResult, strings.Join(cl, ";"),
		srv.VerifActiveConnectionCount())
}

// every scenario runs in a child process: a crash of the server is an observation, not the end of the run
func execSrv(ts []string) string {
	if os.Getenv("VERIF_SRV_CHILD") == "1" {
		return runSrv(ts)
	}
	out := ""
	for attempt := 0; attempt < 3; attempt++ {
		out = execSrvChild(ts)
		// a child that died without a Go panic (killed, out of memory, could not start) says nothing about the server
		if out != "e-spawn" && out != "CRASH " && out != "HANG" {
			break
		}
		time.Sleep(300 * time.Millisecond)
	}
	return out
}

func execSrvChild(ts []string) string {
	cmd := exec.Command(os.Args[0], "exec")
	cmd.Env = append(os.Environ(), "VERIF_SRV_CHILD=1")
	cmd.Stdin = strings.NewReader(strings.Join(ts, " ") + "\n")
	var out, errb strings.Builder
	cmd.Stdout = &out
	cmd.Stderr = &errb
	done := make(chan error, 1)
	if err := cmd.Start(); err != nil {
		return "e-spawn"
	}
	go func() { done <- cmd.Wait() }()
	select {
	case err := <-done:
		if err != nil {
			first := ""
			for _, l := range strings.Split(errb.String(), "\n") {
				if strings.HasPrefix(l, "panic:") || strings.HasPrefix(l, "fatal error:") {
					first = strings.ReplaceAll(strings.ReplaceAll(l, " ", "_"), "\t", "_")
					break
				}
			}
			return "CRASH " + first
		}
	case <-time.After(240 * time.Second):
		_ = cmd.Process.Kill()
		return "HANG"
	}
	line := strings.TrimRight(out.String(), "\n")
	if i := strings.IndexByte(line, '\t'); i >= 0 {
		return line[i+1:]
	}
	return "e-child-output"
}

// ownErrListener is a caller-supplied listener whose Accept, once the listener was closed, fails with an error of its
// own (not net.ErrClosed)
type ownErrListener struct {
	net.Listener
	closed atomic.Bool
}

var errOwnListenerClosed = errors.New("own listener: closed")

func (l *ownErrListener) Accept() (net.Conn, error) {
	c, err := l.Listener.Accept()
	if err != nil && l.closed.Load() {
		return nil, errOwnListenerClosed
	}
	if err == nil {
		c = &eagerDeadlineConn{Conn: c}
	}
	return c, err
}

// eagerDeadlineConn is a connection of such a listener: a Read that delivers bytes reports, together with them, that its
// deadline has passed (io.Reader: "may return n > 0 and a non-nil error"; the bytes count)
type eagerDeadlineConn struct {
	net.Conn
}

func (c *eagerDeadlineConn) Read(p []byte) (int, error) {
	n, err := c.Conn.Read(p)
	if n > 0 && err == nil {
		return n, os.ErrDeadlineExceeded
	}
	return n, err
}

func (l *ownErrListener) Close() error {
	l.closed.Store(true)
	return l.Listener.Close()
}
