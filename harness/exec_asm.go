package main

// `asm` operations: reads fed to one server.ModbusTCPAssembler (one connection).

import (
	"context"
	"errors"
	"fmt"
	"strings"

	"github.com/aldas/go-modbus-client/packet"
	"github.com/aldas/go-modbus-client/server"
)

func devBytes(addr uint16, n int) []byte {
	b := make([]byte, n)
	for i := range b {
		b[i] = byte((int(addr) + i) % 256)
	}
	return b
}

// devResponse is the conforming device used as handler; must agree with Driver/Asm.lean
func devResponse(received packet.Request) (packet.Response, bool) {
	switch r := received.(type) {
	case *packet.ReadCoilsRequestTCP:
		n := (int(r.Quantity) + 7) / 8
		return packet.ReadCoilsResponseTCP{MBAPHeader: r.MBAPHeader, ReadCoilsResponse: packet.ReadCoilsResponse{UnitID: r.UnitID, CoilsByteLength: uint8(n), Data: devBytes(r.StartAddress, n)}}, true
	case *packet.ReadDiscreteInputsRequestTCP:
		n := (int(r.Quantity) + 7) / 8
		return packet.ReadDiscreteInputsResponseTCP{MBAPHeader: r.MBAPHeader, ReadDiscreteInputsResponse: packet.ReadDiscreteInputsResponse{UnitID: r.UnitID, InputsByteLength: uint8(n), Data: devBytes(r.StartAddress, n)}}, true
	case *packet.ReadHoldingRegistersRequestTCP:
		n := 2 * int(r.Quantity)
		data := devBytes(r.StartAddress, n)
		if r.UnitID%2 == 1 {
			// a device that serves from one register bank: the payload slice reaches to the end of the bank, the byte count
			// says how much of it is the answer
			data = append(data, 0xEE, 0xEE, 0xEE)
		}
		return packet.ReadHoldingRegistersResponseTCP{MBAPHeader: r.MBAPHeader, ReadHoldingRegistersResponse: packet.ReadHoldingRegistersResponse{UnitID: r.UnitID, RegisterByteLen: uint8(n), Data: data}}, true
	case *packet.ReadInputRegistersRequestTCP:
		n := 2 * int(r.Quantity)
		return packet.ReadInputRegistersResponseTCP{MBAPHeader: r.MBAPHeader, ReadInputRegistersResponse: packet.ReadInputRegistersResponse{UnitID: r.UnitID, RegisterByteLen: uint8(n), Data: devBytes(r.StartAddress, n)}}, true
	case *packet.WriteSingleCoilRequestTCP:
		return packet.WriteSingleCoilResponseTCP{MBAPHeader: r.MBAPHeader, WriteSingleCoilResponse: packet.WriteSingleCoilResponse{UnitID: r.UnitID, StartAddress: r.Address, CoilState: r.CoilState}}, true
	case *packet.WriteSingleRegisterRequestTCP:
		return packet.WriteSingleRegisterResponseTCP{MBAPHeader: r.MBAPHeader, WriteSingleRegisterResponse: packet.WriteSingleRegisterResponse{UnitID: r.UnitID, Address: r.Address, Data: r.Data}}, true
	case *packet.WriteMultipleCoilsRequestTCP:
		return packet.WriteMultipleCoilsResponseTCP{MBAPHeader: r.MBAPHeader, WriteMultipleCoilsResponse: packet.WriteMultipleCoilsResponse{UnitID: r.UnitID, StartAddress: r.StartAddress, CoilCount: r.CoilCount}}, true
	case *packet.WriteMultipleRegistersRequestTCP:
		return packet.WriteMultipleRegistersResponseTCP{MBAPHeader: r.MBAPHeader, WriteMultipleRegistersResponse: packet.WriteMultipleRegistersResponse{UnitID: r.UnitID, StartAddress: r.StartAddress, RegisterCount: r.RegisterCount}}, true
	case *packet.ReadServerIDRequestTCP:
		return packet.ReadServerIDResponseTCP{MBAPHeader: r.MBAPHeader, ReadServerIDResponse: packet.ReadServerIDResponse{UnitID: r.UnitID, Status: 0xFF, ServerID: []byte{r.UnitID, 1}}}, true
	case *packet.ReadWriteMultipleRegistersRequestTCP:
		n := 2 * int(r.ReadQuantity)
		return packet.ReadWriteMultipleRegistersResponseTCP{MBAPHeader: r.MBAPHeader, ReadWriteMultipleRegistersResponse: packet.ReadWriteMultipleRegistersResponse{UnitID: r.UnitID, RegisterByteLen: uint8(n), Data: devBytes(r.ReadStartAddress, n)}}, true
	}
	return nil, false
}

func unitOf(received packet.Request) uint8 {
	bs := received.Bytes()
	if len(bs) > 6 {
		return bs[6]
	}
	return 0
}

type scriptedHandler struct {
	kind  string
	delay func()
}

func (h scriptedHandler) Handle(ctx context.Context, received packet.Request) (packet.Response, error) {
	if h.delay != nil {
		h.delay()
	}
	if ctx.Err() != nil {
		// a handler that looks at its context (it would pass it on to a backend): nobody has cancelled anything here
		return nil, errors.New("handler: context is done: " + ctx.Err().Error())
	}
	kind := h.kind
	if kind == "mix" {
		switch unitOf(received) % 4 {
		case 1:
			kind = "typed"
		case 2:
			kind = "generic"
		default:
			kind = "dev"
		}
	}
	switch kind {
	case "typed":
		return nil, packet.NewErrorParseTCP(packet.ErrIllegalDataAddress, "no such address")
	case "typedp":
		// a typed error that already carries a (foreign) packet: only its code may reach the reply; wrapped once
		e := &packet.ErrorParseTCP{Message: "busy", Packet: packet.ErrorResponseTCP{TransactionID: 0x0BAD, UnitID: 0xEE, Function: 0x55, Code: 6}}
		return nil, fmt.Errorf("handler: %w", e)
	case "generic":
		if unitOf(received)%2 == 0 {
			// the helper that failed returned (nil pointer of the response type, error): the error is what counts
			return (*packet.ReadHoldingRegistersResponseTCP)(nil), errors.New("database is down")
		}
		if unitOf(received)%3 == 0 {
			// ... or a half-filled response value next to the error
			r, _ := devResponse(received)
			return r, errors.New("database is down")
		}
		return nil, errors.New("database is down")
	case "panic":
		panic("handler panics")
	}
	r, ok := devResponse(received)
	if !ok {
		return nil, errors.New("unknown request type")
	}
	return r, nil
}

func execAsm(ts []string) string {
	h := scriptedHandler{kind: ts[1]}
	asm := &server.ModbusTCPAssembler{Handler: h}
	outs := []string{}
	// the connection loop hands the assembler a sub-slice of its ONE 300 byte read buffer: every read overwrites the
	// bytes of the read before it
	buf := make([]byte, 300)
	for i := range buf {
		buf[i] = 0xEE
	}
	for _, c := range strings.Split(ts[2], "|") {
		chunk := unhx(c)
		n := copy(buf, chunk)
		var reply []byte
		var closeConn bool
		panicked := false
		func() {
			defer func() {
				if r := recover(); r != nil {
					panicked = true
				}
			}()
			reply, closeConn = asm.ReceiveRead(context.Background(), buf[0:n], n)
		}()
		if panicked {
			outs = append(outs, "PANIC")
			break
		}
		outs = append(outs, fmt.Sprintf("%s/%s", hx(reply), b01(closeConn)))
		if closeConn {
			break
		}
	}
	return strings.Join(outs, ",")
}
