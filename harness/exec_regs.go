package main

// `regs` operations: sequences of typed accessor calls on packet.Registers.

import (
	"fmt"
	modbus "github.com/aldas/go-modbus-client"
	"math"
	"strings"

	"github.com/aldas/go-modbus-client/packet"
)

func f32Str(v float32) string {
	// the bit pattern, also for NaNs (signalling ones included): the value read has the bits that were on the wire
	return fmt.Sprintf("f32:%d", math.Float32bits(v))
}

func f64Str(v float64) string {
	return fmt.Sprintf("f64:%d", math.Float64bits(v))
}

// accessOne performs one accessor call; op = name@addr[/x[/y]]
// values handed out earlier stay what they were: retained collects, for results that refer to memory (byte slices,
// strings), a function that renders the retained value again
type retainer struct {
	again []func() string
	first []string
	index []int
}

func (t *retainer) keep(i int, first string, again func() string) {
	if t == nil {
		return
	}
	t.again, t.first, t.index = append(t.again, again), append(t.first, first), append(t.index, i)
}

func accessOne(r *packet.Registers, op string) (out string) {
	return accessOneR(r, op, nil, 0)
}

func accessOneR(r *packet.Registers, op string, keep *retainer, idx int) (out string) {
	defer func() {
		if rec := recover(); rec != nil {
			out = "PANIC"
		}
	}()
	at := strings.IndexByte(op, '@')
	name := op[:at]
	args := strings.Split(op[at+1:], "/")
	addr := uint16(atoi(args[0]))
	x0, x1 := 0, 0
	if len(args) > 1 {
		x0 = atoi(args[1])
	}
	if len(args) > 2 {
		x1 = atoi(args[2])
	}
	res := func(s string, err error) string {
		if err != nil {
			return errStr(err)
		}
		return "ok " + s
	}
	if name == "wbo" {
		// the view is configured again in the middle of the sequence
		if r.WithByteOrder(packet.ByteOrder(addr)) != r {
			return "ok set OTHER-VALUE-RETURNED"
		}
		return "ok set"
	}
	if strings.HasPrefix(name, "F") {
		// the same read through Field.ExtractFrom of the request builder
		ft, ok := map[string]modbus.FieldType{"bit": modbus.FieldTypeBit, "byte": modbus.FieldTypeByte, "u8": modbus.FieldTypeUint8,
			"i8": modbus.FieldTypeInt8, "u16": modbus.FieldTypeUint16, "i16": modbus.FieldTypeInt16, "u32": modbus.FieldTypeUint32,
			"u32o": modbus.FieldTypeUint32, "i32": modbus.FieldTypeInt32, "i32o": modbus.FieldTypeInt32, "u64": modbus.FieldTypeUint64,
			"u64o": modbus.FieldTypeUint64, "i64": modbus.FieldTypeInt64, "i64o": modbus.FieldTypeInt64, "f32": modbus.FieldTypeFloat32,
			"f32o": modbus.FieldTypeFloat32, "f64": modbus.FieldTypeFloat64, "f64o": modbus.FieldTypeFloat64,
			"str": modbus.FieldTypeString, "stro": modbus.FieldTypeString}[name[1:]]
		if !ok {
			return "NOACC"
		}
		f := modbus.Field{Name: "f", Address: addr, Type: ft}
		switch name[1:] {
		case "bit":
			f.Bit = uint8(x0)
		case "byte", "u8", "i8":
			f.FromHighByte = x0 != 0
		case "str":
			f.Length = uint8(x0)
		case "stro":
			f.Length, f.ByteOrder = uint8(x0), packet.ByteOrder(x1)
		case "u32o", "i32o", "u64o", "i64o", "f32o", "f64o":
			f.ByteOrder = packet.ByteOrder(x0)
		}
		v, err := f.ExtractFrom(r)
		if err != nil {
			return errStr(err)
		}
		if sv, ok := v.(string); ok {
			keep.keep(idx, valueStr(sv), func() string { return valueStr(sv) })
		}
		return "ok " + valueStr(v)
	}
	switch name {
	case "bit":
		v, err := r.Bit(addr, uint8(x0))
		return res("bool:"+b01(v), err)
	case "byte":
		v, err := r.Byte(addr, x0 != 0)
		return res(fmt.Sprintf("u8:%d", v), err)
	case "u8":
		v, err := r.Uint8(addr, x0 != 0)
		return res(fmt.Sprintf("u8:%d", v), err)
	case "i8":
		v, err := r.Int8(addr, x0 != 0)
		return res(fmt.Sprintf("i8:%d", v), err)
	case "u16":
		v, err := r.Uint16(addr)
		return res(fmt.Sprintf("u16:%d", v), err)
	case "i16":
		v, err := r.Int16(addr)
		return res(fmt.Sprintf("i16:%d", v), err)
	case "u32":
		v, err := r.Uint32(addr)
		return res(fmt.Sprintf("u32:%d", v), err)
	case "u32o":
		v, err := r.Uint32WithByteOrder(addr, packet.ByteOrder(x0))
		return res(fmt.Sprintf("u32:%d", v), err)
	case "i32":
		v, err := r.Int32(addr)
		return res(fmt.Sprintf("i32:%d", v), err)
	case "i32o":
		v, err := r.Int32WithByteOrder(addr, packet.ByteOrder(x0))
		return res(fmt.Sprintf("i32:%d", v), err)
	case "u64":
		v, err := r.Uint64(addr)
		return res(fmt.Sprintf("u64:%d", v), err)
	case "u64o":
		v, err := r.Uint64WithByteOrder(addr, packet.ByteOrder(x0))
		return res(fmt.Sprintf("u64:%d", v), err)
	case "i64":
		v, err := r.Int64(addr)
		return res(fmt.Sprintf("i64:%d", v), err)
	case "i64o":
		v, err := r.Int64WithByteOrder(addr, packet.ByteOrder(x0))
		return res(fmt.Sprintf("i64:%d", v), err)
	case "f32":
		v, err := r.Float32(addr)
		return res(f32Str(v), err)
	case "f32o":
		v, err := r.Float32WithByteOrder(addr, packet.ByteOrder(x0))
		return res(f32Str(v), err)
	case "f64":
		v, err := r.Float64(addr)
		return res(f64Str(v), err)
	case "f64o":
		v, err := r.Float64WithByteOrder(addr, packet.ByteOrder(x0))
		return res(f64Str(v), err)
	case "str":
		v, err := r.String(addr, uint8(x0))
		if err == nil {
			keep.keep(idx, "str:"+hx([]byte(v)), func() string { return "str:" + hx([]byte(v)) })
		}
		return res("str:"+hx([]byte(v)), err)
	case "stro":
		v, err := r.StringWithByteOrder(addr, uint8(x0), packet.ByteOrder(x1))
		if err == nil {
			keep.keep(idx, "str:"+hx([]byte(v)), func() string { return "str:" + hx([]byte(v)) })
		}
		return res("str:"+hx([]byte(v)), err)
	case "reg":
		v, err := r.Register(addr)
		out := res("raw:"+hx(v), err)
		if err == nil {
			// the bytes handed out are the caller's: it writes into them and appends to them
			for i := range v {
				v[i] ^= 0xFF
			}
			_ = append(v, 0xEE, 0xEE)
			mine := "raw:" + hx(v)
			keep.keep(idx, mine, func() string { return "raw:" + hx(v) })
		}
		return out
	case "dreg":
		v, err := r.DoubleRegister(addr, packet.ByteOrder(x0))
		out := res("raw:"+hx(v), err)
		if err == nil {
			// the bytes handed out are the caller's: it writes into them and appends to them
			for i := range v {
				v[i] ^= 0xFF
			}
			_ = append(v, 0xEE, 0xEE)
			mine := "raw:" + hx(v)
			keep.keep(idx, mine, func() string { return "raw:" + hx(v) })
		}
		return out
	case "qreg":
		v, err := r.QuadRegister(addr, packet.ByteOrder(x0))
		out := res("raw:"+hx(v), err)
		if err == nil {
			// the bytes handed out are the caller's: it writes into them and appends to them
			for i := range v {
				v[i] ^= 0xFF
			}
			_ = append(v, 0xEE, 0xEE)
			mine := "raw:" + hx(v)
			keep.keep(idx, mine, func() string { return "raw:" + hx(v) })
		}
		return out
	}
	return "NOACC"
}

func execRegs(ts []string) string {
	data, spare := unhx(ts[1]), unhx(ts[2])
	start, order := uint16(atoi(ts[3])), atoi(ts[4])
	ops := strings.Split(ts[5], ";")
	var sib *packet.Registers
	wantSibling := true
	mk := func() (*packet.Registers, []byte, error) {
		d := withSpare(data, spare)
		if wantSibling {
			// a second view of the same payload, taken first and left unconfigured
			wantSibling = false
			sib, _ = packet.NewRegisters(d, start)
		}
		r, err := packet.NewRegisters(d, start)
		if err != nil {
			return nil, d, err
		}
		if order != 0 {
			// configured twice (first with another order): the last configuration is the one that counts
			if variantOf(ts[1]+ts[5])%2 == 1 {
				r = r.WithByteOrder(packet.ByteOrder(order ^ 3))
			}
			r = r.WithByteOrder(packet.ByteOrder(order))
		}
		return r, d, nil
	}
	r, d, err := mk()
	if err != nil {
		s := errStr(err)
		if r != nil {
			s += " VALUE-NONNIL"
		}
		return s
	}
	seq := make([]string, len(ops))
	kept := &retainer{}
	for i, op := range ops {
		seq[i] = accessOneR(r, op, kept, i)
	}
	for k, again := range kept.again {
		if again() != kept.first[k] {
			seq[kept.index[k]] += " CHANGED-BY-A-LATER-READ"
		}
	}
	if sib != nil && order != 0 {
		// two views of one response are independent: configuring one does not reconfigure the other
		plain, err2 := packet.NewRegisters(withSpare(data, spare), start)
		if err2 == nil {
			for _, op := range ops {
				if accessOne(sib, op) != accessOne(plain, op) {
					seq[0] += " OTHER-VIEW-OF-THE-RESPONSE-RECONFIGURED"
					break
				}
			}
		}
	}
	after := hx(d[:len(data)])
	solo := make([]string, len(ops))
	cur := -1
	for i, op := range ops {
		r2, _, _ := mk()
		if cur >= 0 {
			// alone = on a fresh view configured with the order in force at this point of the sequence
			r2 = r2.WithByteOrder(packet.ByteOrder(cur))
		}
		solo[i] = accessOne(r2, op)
		if strings.HasPrefix(op, "wbo@") {
			cur = atoi(op[4:])
		}
	}
	return strings.Join(seq, ";") + " | " + strings.Join(solo, ";") + " after=" + after
}
