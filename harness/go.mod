module verifharness

go 1.22

require github.com/aldas/go-modbus-client v0.0.0

replace github.com/aldas/go-modbus-client => /repo
