package main

import (
	"fmt"
	"math/rand"
	"strings"
)

func init() {
	generators["C15"] = genC15
	generators["C16"] = genC16
}

// a request frame for the server: valid ones of each function, unsupported codes, illegal quantities,
// inconsistent byte counts
func serverFrame(rng *rand.Rand, class int) []byte {
	tid := tidv(rng)
	unit := u8(rng)
	switch class {
	case 0: // valid request of a supported function (FC17 rarely: the classifier rejects it, known finding)
		fc := supportedFCs[rng.Intn(10)]
		if fc == 17 && rng.Intn(8) != 0 {
			fc = 3
		}
		return mbapFrame(tid, unit, validRequestPDU(rng, fc))
	case 1: // unsupported function 1..127
		fc := 1 + rng.Intn(127)
		for isSupported(fc) {
			fc = 1 + rng.Intn(127)
		}
		return mbapFrame(tid, unit, append([]byte{byte(fc)}, rbytes(rng, 2+rng.Intn(6))...))
	case 2: // out of range quantity / coil value
		fc := []int{1, 2, 3, 4, 5, 15, 16, 23}[rng.Intn(8)]
		pdu := validRequestPDU(rng, fc)
		q := []int{0, 126, 2001, 1969, 124, 65535, 0x1234, 0x0100, 0xFE00, 0x00FF, 0x7F00}[rng.Intn(11)]
		if fc == 23 && rng.Intn(2) == 0 && len(pdu) > 8 {
			pdu[7], pdu[8] = byte(q>>8), byte(q)
		} else {
			pdu[3], pdu[4] = byte(q>>8), byte(q)
		}
		return mbapFrame(tid, unit, pdu)
	case 3: // truncated body (header consistent)
		fc := supportedFCs[rng.Intn(10)]
		pdu := validRequestPDU(rng, fc)
		k := 2 + rng.Intn(len(pdu))
		if k > len(pdu) {
			k = len(pdu)
		}
		return mbapFrame(tid, unit, pdu[:k])
	default: // inconsistent byte count
		fc := []int{15, 16, 23}[rng.Intn(3)]
		pdu := validRequestPDU(rng, fc)
		pos := 5
		if fc == 23 {
			pos = 9
		}
		pdu[pos] = byte(int(pdu[pos]) + []int{1, -1, 2, 100}[rng.Intn(4)])
		return mbapFrame(tid, unit, pdu)
	}
}

func isSupported(fc int) bool {
	for _, s := range supportedFCs {
		if s == fc {
			return true
		}
	}
	return false
}

func chunksToken(chunks [][]byte) string {
	parts := []string{}
	for _, c := range chunks {
		if len(c) > 0 {
			parts = append(parts, hx(c))
		}
	}
	return strings.Join(parts, "|")
}

// segment cuts the stream at the given positions; chunks longer than 300 bytes are split (the
// connection loop reads into a 300 byte buffer)
func segment(stream []byte, cuts []int) [][]byte {
	out := [][]byte{}
	prev := 0
	add := func(b []byte) {
		for len(b) > 300 {
			out = append(out, b[:300])
			b = b[300:]
		}
		if len(b) > 0 {
			out = append(out, b)
		}
	}
	for _, c := range cuts {
		if c <= prev || c >= len(stream) {
			continue
		}
		add(stream[prev:c])
		prev = c
	}
	add(stream[prev:])
	return out
}

var handlerKinds = []string{"dev", "dev", "mix", "typed", "typedp", "generic"}

func genC15(tier string, rng *rand.Rand, shard, nshards int, emit emitter) {
	count := 2500
	if tier == "thorough" {
		count = 60000
	}
	if tier == "sample" {
		count = 300 // segmented streams for the properties that look at the same code from another side (C16, C18)
	} else {
		// through server.Serve: what one connection leaves behind must not reach another one
		for c := 0; c < 32; c++ {
			if c%nshards != shard {
				continue
			}
			for _, t := range srvTemplatesC15 {
				emit(fmt.Sprintf("srv %05b %s", c, t))
			}
		}
	}
	// a client that sends early: many short requests delivered by one read (up to the 25 that fill the 300-byte read
	// buffer exactly), by two reads, and 25 followed by more
	for i, k := range []int{15, 16, 17, 18, 20, 23, 24, 25, 26, 33, 50} {
		if !mine(i, shard, nshards) {
			continue
		}
		stream := []byte{}
		for j := 0; j < k; j++ {
			stream = append(stream, mbapFrame(tidv(rng), u8(rng), validRequestPDU(rng, []int{1, 2, 3, 4, 5, 6}[rng.Intn(6)]))...)
		}
		for _, h := range []string{"dev", "typed", "generic"} {
			emit(fmt.Sprintf("asm %s %s", h, chunksToken(segment(stream, nil))))
			emit(fmt.Sprintf("asm %s %s", h, chunksToken(segment(stream, []int{1 + rng.Intn(len(stream)-1)}))))
			emit(fmt.Sprintf("asm %s %s", h, chunksToken(segment(stream, []int{12 * (1 + rng.Intn(k-1))}))))
		}
	}
	for i := 0; i < count/40+4; i++ {
		if !mine(i, shard, nshards) {
			continue
		}
		// FC16 whose register values spell a complete read request, cut right in front of them (and elsewhere)
		inner := mbapFrame(tidv(rng), u8(rng), validRequestPDU(rng, []int{3, 4, 1, 6}[rng.Intn(4)]))
		if len(inner)%2 == 1 {
			inner = append(inner, 0)
		}
		a := u16(rng)
		pdu := append([]byte{16, byte(a >> 8), byte(a), 0, byte(len(inner) / 2), byte(len(inner))}, inner...)
		outer := mbapFrame(tidv(rng), u8(rng), pdu)
		next := serverFrame(rng, 0)
		stream := append(append([]byte{}, outer...), next...)
		h := handlerKinds[rng.Intn(len(handlerKinds))]
		for _, cuts := range [][]int{{13}, {13, len(outer)}, {12}, {8, 13}, {13, 13 + len(inner)/2}} {
			emit(fmt.Sprintf("asm %s %s", h, chunksToken(segment(stream, cuts))))
		}
	}
	for i := 0; i < count; i++ {
		if !mine(i, shard, nshards) {
			continue
		}
		k := 1 + rng.Intn(5)
		stream := []byte{}
		bounds := []int{}
		for j := 0; j < k; j++ {
			class := 0
			if rng.Intn(4) == 0 {
				class = 1 + rng.Intn(4)
			}
			f := serverFrame(rng, class)
			if len(stream)+len(f) > 700 {
				break
			}
			stream = append(stream, f...)
			bounds = append(bounds, len(stream))
		}
		h := handlerKinds[rng.Intn(len(handlerKinds))]
		n := len(stream)
		// lock-step: every frame in its own read
		emit(fmt.Sprintf("asm %s %s", h, chunksToken(segment(stream, bounds))))
		// everything at once (a client that sends early)
		emit(fmt.Sprintf("asm %s %s", h, chunksToken(segment(stream, nil))))
		// every single cut (sampled for long streams), pairs, all cut sets of short streams
		for c := 1; c < n; c++ {
			if n <= 40 || tier == "thorough" || c <= 14 || rng.Intn(n/12+1) == 0 || containsInt(bounds, c) || containsInt(bounds, c+1) || containsInt(bounds, c-1) {
				emit(fmt.Sprintf("asm %s %s", h, chunksToken(segment(stream, []int{c}))))
			}
		}
		for p := 0; p < 10; p++ {
			a := 1 + rng.Intn(n-1)
			b := a + 1 + rng.Intn(n)
			emit(fmt.Sprintf("asm %s %s", h, chunksToken(segment(stream, []int{a, b, b + 1 + rng.Intn(20)}))))
		}
		if n <= 16 {
			for mask := 1; mask < 1<<uint(n-1); mask++ {
				if tier != "thorough" && rng.Intn(16) != 0 {
					continue
				}
				cuts := []int{}
				for b := 0; b < n-1; b++ {
					if mask&(1<<uint(b)) != 0 {
						cuts = append(cuts, b+1)
					}
				}
				emit(fmt.Sprintf("asm %s %s", h, chunksToken(segment(stream, cuts))))
			}
		}
		// byte by byte
		if rng.Intn(5) == 0 && n <= 80 {
			cuts := []int{}
			for c := 1; c < n; c++ {
				cuts = append(cuts, c)
			}
			emit(fmt.Sprintf("asm %s %s", h, chunksToken(segment(stream, cuts))))
		}
	}
}

func containsInt(xs []int, v int) bool {
	for _, x := range xs {
		if x == v {
			return true
		}
	}
	return false
}

func genC16(tier string, rng *rand.Rand, shard, nshards int, emit emitter) {
	count := 30000
	if tier == "thorough" {
		count = 600000
	}
	// end to end through server.Serve: a panicking handler must end its own connection only, in every callback
	// configuration (the scenarios and their oracle are those of C17)
	for c := 0; c < 32; c++ {
		if c%nshards != shard {
			continue
		}
		cfg := fmt.Sprintf("%05b", c)
		for _, t := range []string{"- c1;c2;p1.1;q2.2;c3;q3.3", "- c1;p1.4;c2;q2.6;d2", "- c1;c2;q1.1;p2.2;q1.3;p1.4;c3;q3.5;sh;j"} {
			emit("srv " + cfg + " " + t)
		}
		// malformed / unfinished input of one connection must not disturb the connections accepted after it ended
		for _, t := range srvTemplatesC15 {
			emit("srv " + cfg + " " + t)
		}
	}
	// requests that arrive in pieces, pipelined requests (judged like C15: the same single reply, nothing for a part)
	genC15("sample", rng, shard, nshards, emit)
	{
		k := 0
		for _, fc := range []int{1, 2, 3, 4, 5, 6} {
			for plen := 2; plen <= 4; plen++ {
				for _, ftid := range []int{1, 5, 100, 125, 0xFF00, 0x0100} {
					k++
					if !mine(k, shard, nshards) {
						continue
					}
					// a truncated request (header consistent) followed by a frame whose first bytes would pass as a quantity
					a := u16(rng)
					short := mbapFrame(tidv(rng), u8(rng), []byte{byte(fc), byte(a >> 8), byte(a), 0, 1}[:plen])
					follow := mbapFrame(ftid, u8(rng), validRequestPDU(rng, 3))
					hh := []string{"dev", "typed", "generic"}[k%3]
					emit(fmt.Sprintf("asm %s %s", hh, hx(append(append([]byte{}, short...), follow...))))
					emit(fmt.Sprintf("asm %s %s|%s", hh, hx(short), hx(follow)))
				}
			}
		}
	}
	i := 0
	// every function code 1..127 once with each handler
	for fc := 1; fc <= 255; fc++ {
		for _, h := range []string{"dev", "typed", "typedp", "generic", "panic"} {
			i++
			if !mine(i, shard, nshards) {
				continue
			}
			var f []byte
			if isSupported(fc) {
				f = mbapFrame(tidv(rng), u8(rng), validRequestPDU(rng, fc))
			} else {
				f = mbapFrame(tidv(rng), u8(rng), append([]byte{byte(fc)}, rbytes(rng, 4)...))
			}
			emit(fmt.Sprintf("asm %s %s", h, hx(f)))
		}
	}
	// complete frames that are longer than any legal request but fit one read (MBAP length 250..294): an unsupported
	// function with a long body, a supported one followed by padding
	for _, L := range []int{250, 252, 253, 254, 255, 256, 257, 260, 270, 280, 290, 293} {
		for _, fc := range []int{0x2b, 0x64, 7, 8, 3, 1, 6, 16, 127} {
			i++
			if !mine(i, shard, nshards) {
				continue
			}
			var pdu []byte
			if isSupported(fc) {
				pdu = validRequestPDU(rng, fc)
				if len(pdu) < L-1 {
					pdu = append(pdu, rbytes(rng, L-1-len(pdu))...)
				}
			} else {
				pdu = append([]byte{byte(fc)}, rbytes(rng, L-2)...)
			}
			f := mbapFrame(tidv(rng), u8(rng), pdu)
			h := []string{"dev", "typed", "generic", "mix"}[i%4]
			emit(fmt.Sprintf("asm %s %s", h, hx(f)))
			emit(fmt.Sprintf("asm %s %s", h, chunksToken(segment(append(append([]byte{}, f...), serverFrame(rng, 0)...), []int{len(f)}))))
			emit(fmt.Sprintf("asm %s %s", h, chunksToken(segment(f, []int{1 + rng.Intn(len(f)-1)}))))
		}
	}
	for k := 0; k < count; k++ {
		i++
		if !mine(i, shard, nshards) {
			continue
		}
		class := rng.Intn(5)
		f := serverFrame(rng, class)
		if len(f) > 300 {
			continue
		}
		h := []string{"dev", "dev", "typed", "generic", "mix", "panic"}[rng.Intn(6)]
		emit(fmt.Sprintf("asm %s %s", h, hx(f)))
	}
}
