package main

import (
	"fmt"
	"math/rand"
	"strings"
)

// C14: programs of Do / Connect / Close calls for 2..8 goroutines sharing one client
func genConcOp(rng *rand.Rand, kind string, nthreads, ncalls int, pClose, pOpen float64) string {
	var progs []string
	for t := 0; t < nthreads; t++ {
		m := 1 + rng.Intn(ncalls)
		var calls []string
		for j := 0; j < m; j++ {
			x := rng.Float64()
			switch {
			case x < pClose:
				calls = append(calls, "c")
			case x < pClose+pOpen && kind != "s":
				if rng.Intn(3) == 0 {
					calls = append(calls, "x") // a Connect that fails
				} else {
					calls = append(calls, "o")
				}
			default:
				calls = append(calls, fmt.Sprintf("d%d", t*100+j+1))
			}
		}
		progs = append(progs, strings.Join(calls, "."))
	}
	return fmt.Sprintf("conc %s %s", kind, strings.Join(progs, "|"))
}

func init() {
	generators["C14"] = func(tier string, rng *rand.Rand, shard, nshards int, emit emitter) {
		if shard == 0 {
			emit("lockfacts Client")
			emit("lockfacts SerialClient")
			emit("connrace 4")
			emit("connrace 8")
		}
		// several hundred goroutines queue for one client at the same moment (a counter of waiters that is too narrow
		// wraps around only then): one request each
		if tier != "race" {
			for i, nt := range []int{300, 520} {
				if i%nshards == shard || nshards == 1 {
					for _, kind := range []string{"t", "r"} {
						emit(genConcOp(rng, kind, nt, 1, 0, 0))
					}
				}
			}
		}
		n := 40
		if tier == "thorough" {
			n = 1200
		}
		if tier == "race" {
			n = 200
		}
		for i := 0; i < n; i++ {
			kind := []string{"t", "t", "r", "s"}[rng.Intn(4)]
			nthreads := 2 + rng.Intn(7)
			ncalls := 1 + rng.Intn(8)
			if kind == "s" { // the serial client sleeps 30 ms after every write
				nthreads = 2 + rng.Intn(4)
				ncalls = 1 + rng.Intn(3)
			}
			switch rng.Intn(3) {
			case 0: // requests only: maximal contention on the exchange
				emit(genConcOp(rng, kind, nthreads, ncalls, 0, 0))
			case 1:
				emit(genConcOp(rng, kind, nthreads, ncalls, 0.1, 0.15))
			default:
				emit(genConcOp(rng, kind, nthreads, ncalls, 0.25, 0.3))
			}
		}
	}
}
