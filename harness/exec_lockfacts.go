package main

// `lockfacts <Type>`: the lock discipline of the client types, extracted from the current source with go/ast.
// output: one entry per method of the type, `;`-separated:
//    name,exported 0|1,locksOnEntry 0|1,touchesTransport 0|1,callee+callee+...
// followed by ` # ` and the non-method functions of the package that mention the transport field
// (constructors New*/default* excluded). locksOnEntry = the first statement is <recv>.mu.Lock() and the
// second is defer <recv>.mu.Unlock(). The verdict is computed by the Lean driver.

import (
	"go/ast"
	"go/parser"
	"go/token"
	"os"
	"path/filepath"
	"sort"
	"strings"
)

func execLockFacts(ts []string) string {
	if len(ts) != 2 {
		return "BADOP"
	}
	typ := ts[1]
	field := map[string]string{"Client": "conn", "SerialClient": "serialPort"}[typ]
	if field == "" {
		return "BADOP"
	}
	fset := token.NewFileSet()
	entries, err := os.ReadDir(repoDir())
	if err != nil {
		return "e-readdir"
	}
	var methods []string
	var outside []string
	for _, e := range entries {
		n := e.Name()
		if e.IsDir() || !strings.HasSuffix(n, ".go") || strings.HasSuffix(n, "_test.go") {
			continue
		}
		f, err := parser.ParseFile(fset, filepath.Join(repoDir(), n), nil, 0)
		if err != nil {
			return "e-parse"
		}
		for _, d := range f.Decls {
			fd, ok := d.(*ast.FuncDecl)
			if !ok || fd.Body == nil {
				continue
			}
			recvName, recvType := "", ""
			if fd.Recv != nil && len(fd.Recv.List) == 1 {
				t := fd.Recv.List[0].Type
				if st, ok := t.(*ast.StarExpr); ok {
					t = st.X
				}
				if id, ok := t.(*ast.Ident); ok {
					recvType = id.Name
				}
				if len(fd.Recv.List[0].Names) == 1 {
					recvName = fd.Recv.List[0].Names[0].Name
				}
			}
			if recvType != typ {
				// a function or a method of another type that reaches into the field
				if recvType == "" && !strings.HasPrefix(fd.Name.Name, "New") && !strings.HasPrefix(fd.Name.Name, "default") &&
					!strings.HasPrefix(fd.Name.Name, "With") {
					touches := false
					ast.Inspect(fd.Body, func(n ast.Node) bool {
						if se, ok := n.(*ast.SelectorExpr); ok && se.Sel.Name == field {
							touches = true
						}
						return true
					})
					if touches {
						outside = append(outside, fd.Name.Name)
					}
				}
				continue
			}
			isSel := func(e ast.Expr, path ...string) bool {
				// recv.mu.Lock -> path = mu, Lock
				for i := len(path) - 1; i >= 0; i-- {
					se, ok := e.(*ast.SelectorExpr)
					if !ok || se.Sel.Name != path[i] {
						return false
					}
					e = se.X
				}
				id, ok := e.(*ast.Ident)
				return ok && id.Name == recvName
			}
			locks := 0
			if len(fd.Body.List) >= 2 {
				if es, ok := fd.Body.List[0].(*ast.ExprStmt); ok {
					if ce, ok := es.X.(*ast.CallExpr); ok && isSel(ce.Fun, "mu", "Lock") {
						if ds, ok := fd.Body.List[1].(*ast.DeferStmt); ok && isSel(ds.Call.Fun, "mu", "Unlock") {
							locks = 1
						}
					}
				}
			}
			touches := 0
			callees := map[string]bool{}
			ast.Inspect(fd.Body, func(n ast.Node) bool {
				switch x := n.(type) {
				case *ast.SelectorExpr:
					if id, ok := x.X.(*ast.Ident); ok && id.Name == recvName && x.Sel.Name == field {
						touches = 1
					}
				case *ast.CallExpr:
					if se, ok := x.Fun.(*ast.SelectorExpr); ok {
						if id, ok := se.X.(*ast.Ident); ok && id.Name == recvName {
							callees[se.Sel.Name] = true
						}
					}
				case *ast.GoStmt:
					// a goroutine started inside a method would escape the lock
					callees["<go>"] = true
				}
				return true
			})
			var cs []string
			for c := range callees {
				cs = append(cs, c)
			}
			sort.Strings(cs)
			exp := 0
			if ast.IsExported(fd.Name.Name) {
				exp = 1
			}
			methods = append(methods, strings.Join([]string{fd.Name.Name, itoa(exp), itoa(locks), itoa(touches), strings.Join(cs, "+")}, ","))
		}
	}
	sort.Strings(methods)
	sort.Strings(outside)
	return strings.Join(methods, ";") + " # " + strings.Join(outside, "+")
}

func itoa(i int) string {
	if i == 0 {
		return "0"
	}
	return "1"
}
