package main

import (
	"fmt"
	"math/rand"
	"strings"
)

func init() {
	generators["C04"] = genC04
	generators["C13"] = genC13
}

var accNames = []string{"bit", "byte", "u8", "i8", "u16", "i16", "u32", "u32o", "i32", "i32o", "u64", "u64o", "i64", "i64o",
	"f32", "f32o", "f64", "f64o", "str", "stro", "reg", "dreg", "qreg"}

var orders = []int{0, 1, 2, 5, 6, 9, 10, 4, 8, 3, 7, 11, 15, 12, 13, 14}

func accOp(rng *rand.Rand, name string, addr int) string {
	o := orders[rng.Intn(len(orders))]
	switch name {
	case "bit":
		b := rng.Intn(16)
		if rng.Intn(12) == 0 {
			b = 16 + rng.Intn(240)
		}
		return fmt.Sprintf("bit@%d/%d", addr, b)
	case "byte", "u8", "i8":
		return fmt.Sprintf("%s@%d/%d", name, addr, rng.Intn(2))
	case "u32o", "i32o", "u64o", "i64o", "f32o", "f64o", "dreg", "qreg":
		return fmt.Sprintf("%s@%d/%d", name, addr, o)
	case "str":
		return fmt.Sprintf("str@%d/%d", addr, strLen(rng))
	case "stro":
		return fmt.Sprintf("stro@%d/%d/%d", addr, strLen(rng), o)
	}
	return fmt.Sprintf("%s@%d", name, addr)
}

func strLen(rng *rand.Rand) int {
	switch rng.Intn(4) {
	case 0:
		return 1 + rng.Intn(8)
	case 1:
		return pick(rng, []int{1, 2, 3, 127, 128, 249, 250, 251, 254, 255})
	}
	return 1 + rng.Intn(255)
}

func regPayload(rng *rand.Rand, n int) []byte {
	d := rbytes(rng, 2*n)
	switch rng.Intn(4) {
	case 0: // printable text with NULs
		for i := range d {
			d[i] = byte(0x41 + rng.Intn(26))
			if rng.Intn(9) == 0 {
				d[i] = 0
			}
		}
	case 1: // distinct bytes so that a wrong register is noticed
		for i := range d {
			d[i] = byte(i + 1)
		}
	}
	if n >= 2 && rng.Intn(5) == 0 {
		// float patterns that arithmetic does not preserve: signalling and quiet NaNs with payloads, infinities, -0, denormals
		pats := [][]byte{{0x7f, 0xa0, 0x00, 0x01}, {0xff, 0xa0, 0x00, 0x01}, {0x7f, 0x80, 0x00, 0x01}, {0x7f, 0xc0, 0x12, 0x34}, {0x7f, 0x80, 0, 0},
			{0x80, 0, 0, 0}, {0, 0, 0, 1}, {0x7f, 0xf4, 0, 0, 0, 0, 0, 1}, {0xff, 0xf0, 0, 0, 0, 0, 0x12, 0x34}, {0x7f, 0xf8, 0, 0, 0, 0, 0, 0}, {0x80, 0, 0, 0, 0, 0, 0, 0}}
		p := pats[rng.Intn(len(pats))]
		if len(p) <= len(d) {
			off := 2 * rng.Intn((len(d)-len(p))/2+1)
			if rng.Intn(2) == 0 {
				// little endian / low word first layouts of the same value
				q := append([]byte{}, p...)
				for i, j := 0, len(q)-1; i < j; i, j = i+1, j-1 {
					q[i], q[j] = q[j], q[i]
				}
				p = q
			}
			copy(d[off:], p)
		}
	}
	return d
}

// window positions: at 0, ending at 65536, around 32768, and boundaries
func windowStarts(rng *rand.Rand, n int) []int {
	s := []int{0, 1, 2, 3, 65536 - n, 65536 - n - 1, 65536 - n - 2, 32768 - n, 32768, 32767, 1000}
	s = append(s, pick(rng, boundaries16()), rng.Intn(65536))
	out := []int{}
	for _, v := range s {
		if v >= 0 && v+n <= 65536 {
			out = append(out, v)
		}
	}
	return out
}

func addrsAround(rng *rand.Rand, st, n int) []int {
	seen := map[int]bool{}
	add := func(a int) {
		if a >= 0 && a <= 65535 {
			seen[a] = true
		}
	}
	for d := -4; d <= 4; d++ {
		add(st + d)
		add(st + n + d)
		add(st + 32768 + d)
		add(st - 32768 + d)
	}
	for k := 0; k < 6; k++ {
		add(st + rng.Intn(n))
	}
	add(0)
	add(65535)
	add(rng.Intn(65536))
	out := []int{}
	for a := range seen {
		out = append(out, a)
	}
	return out
}

func genC04(tier string, rng *rand.Rand, shard, nshards int, emit emitter) {
	// typed access through the field definitions of a request built by hand (one Registers view shared by all fields)
	{
		nx := 2000
		if tier == "thorough" {
			nx = 40000
		}
		genXf(rng, "r", nx, shard, nshards, emit)
	}
	i := 0
	sizes := []int{}
	for n := 1; n <= 125; n++ {
		if tier == "thorough" || n <= 9 || n%11 == 0 || n >= 123 {
			sizes = append(sizes, n)
		}
	}
	for _, n := range sizes {
		for _, st := range windowStarts(rng, n) {
			i++
			if !mine(i, shard, nshards) {
				continue
			}
			for _, order := range orders {
				if tier != "thorough" && rng.Intn(3) != 0 {
					continue
				}
				d := regPayload(rng, n)
				sp := []byte{}
				if rng.Intn(2) == 0 {
					sp = poison(rng)
				}
				for _, a := range addrsAround(rng, st, n) {
					ops := []string{}
					for _, name := range accNames {
						if tier == "thorough" || rng.Intn(2) == 0 {
							ops = append(ops, accOp(rng, name, a))
						}
						if name != "reg" && name != "dreg" && name != "qreg" && rng.Intn(4) == 0 {
							// the same read through a field definition (Field.ExtractFrom), which leaves the order to the view
							// when the field does not set one
							ops = append(ops, "F"+accOp(rng, name, a))
						}
					}
					if len(ops) == 0 {
						ops = append(ops, accOp(rng, "u16", a))
					}
					emit(fmt.Sprintf("regs %s %s %d %d %s", hx(d), hx(sp), st, order, strings.Join(ops, ";")))
				}
			}
		}
	}
	// malformed payloads
	for _, l := range []int{0, 1, 3, 5, 251} {
		if mine(l, shard, nshards) {
			emit(fmt.Sprintf("regs %s - %d 0 u16@%d", hx(rbytes(rng, l)), rng.Intn(100), rng.Intn(100)))
		}
	}
}

func genC13(tier string, rng *rand.Rand, shard, nshards int, emit emitter) {
	// field extraction through the builder: mixed byte orders, overlaps, repeats (judged like C05: every value is the
	// direct decoding of the memory, so it cannot depend on what was extracted before)
	nx := 3000
	if tier == "thorough" {
		nx = 60000
	}
	genXf(rng, "r", nx, shard, nshards, emit)
	genXf(rng, "c", nx/2, shard, nshards, emit)
	for i := 0; i < nx; i++ {
		if !mine(i, shard, nshards) {
			continue
		}
		fs := genFieldList(rng, false, false)
		emit(fmt.Sprintf("extract %d %d %d %d %s", 4+rng.Intn(4), rng.Intn(2), -1, rng.Intn(100000), fieldsToken(fs)))
		if i%8 == 0 {
			// coil and discrete-input requests made by the builder (they carry their request: the quantity is known), replies
			// whose unused bits are set: extraction reads the response, it does not tidy it up
			cs := genFieldList(rng, true, false)
			emit(fmt.Sprintf("extract %d %d %d %d %s", rng.Intn(4), rng.Intn(2), -1, 2*rng.Intn(50000)+1, fieldsToken(cs)))
		}
	}
	count := 6000
	if tier == "thorough" {
		count = 150000
	}
	for i := 0; i < count; i++ {
		if !mine(i, shard, nshards) {
			continue
		}
		n := 1 + rng.Intn(20)
		if rng.Intn(5) == 0 {
			n = 1 + rng.Intn(125)
		}
		sts := windowStarts(rng, n)
		st := sts[rng.Intn(len(sts))]
		d := regPayload(rng, n)
		k := 1 + rng.Intn(12)
		ops := []string{}
		for j := 0; j < k; j++ {
			a := st + rng.Intn(n)
			if rng.Intn(10) == 0 {
				a = st + n - 1 + rng.Intn(3)
			}
			if a > 65535 {
				a = 65535
			}
			name := accNames[rng.Intn(len(accNames))]
			if rng.Intn(3) == 0 {
				name = []string{"str", "stro"}[rng.Intn(2)]
			}
			op := accOp(rng, name, a)
			if rng.Intn(3) == 0 && name != "reg" && name != "dreg" && name != "qreg" {
				op = "F" + op // the same read through Field.ExtractFrom: it must leave no trace on the Registers either
			}
			ops = append(ops, op)
			if rng.Intn(4) == 0 {
				ops = append(ops, op) // repeat the same read
			}
		}
		// a permutation of the same reads in the second half of the sequence
		if rng.Intn(2) == 0 {
			perm := rng.Perm(len(ops))
			if rng.Intn(3) == 0 {
				// ... after the view has been configured again (also with "no order" = 0)
				ops = append(ops, fmt.Sprintf("wbo@%d", append([]int{0, 0}, orders...)[rng.Intn(len(orders)+2)]))
			}
			for _, p := range perm {
				ops = append(ops, ops[p])
			}
		}
		if rng.Intn(6) == 0 {
			// configured (again) before anything is read
			ops = append([]string{fmt.Sprintf("wbo@%d", append([]int{0, 0}, orders...)[rng.Intn(len(orders)+2)])}, ops...)
		}
		order := orders[rng.Intn(len(orders))]
		sp := []byte{}
		if rng.Intn(2) == 0 {
			sp = poison(rng)
		}
		emit(fmt.Sprintf("regs %s %s %d %d %s", hx(d), hx(sp), st, order, strings.Join(ops, ";")))
	}
}

// genXf emits `xf` operations: ExtractFields on hand-built requests - fields in any order, before the start address,
// beyond the payload, overlapping, repeated, of either kind
func genXf(rng *rand.Rand, kind string, count int, shard, nshards int, emit emitter) {
	for i := 0; i < count; i++ {
		if !mine(i, shard, nshards) {
			continue
		}
		var payload []byte
		span := 0 // addresses the payload covers
		if kind == "c" {
			nb := 1 + rng.Intn(4)
			if rng.Intn(6) == 0 {
				nb = 1 + rng.Intn(250)
			}
			payload = rbytes(rng, nb)
			span = 8 * nb
		} else {
			n := 1 + rng.Intn(20)
			if rng.Intn(6) == 0 {
				n = 1 + rng.Intn(125)
			}
			payload = regPayload(rng, n)
			span = n
			if rng.Intn(40) == 0 {
				payload = payload[:len(payload)-1] // odd number of bytes: no register view
			}
		}
		start := rng.Intn(65536 - span)
		switch rng.Intn(6) {
		case 0:
			start = 0
		case 1:
			start = 65536 - span
		case 2:
			start = rng.Intn(4)
		}
		nf := 1 + rng.Intn(8)
		if rng.Intn(8) == 0 {
			nf = 15 + rng.Intn(30) // more fields than a small scratch buffer holds
		}
		fs := make([]genField, 0, nf)
		for j := 0; j < nf; j++ {
			f := genField{name: fmt.Sprintf("f%d", j), server: "x", unit: 1}
			if kind == "c" {
				f.typ = 14
				if rng.Intn(10) == 0 {
					f.typ = 1 + rng.Intn(13)
				}
			} else {
				f.typ = 1 + rng.Intn(13)
				if rng.Intn(25) == 0 {
					f.typ = []int{0, 14, 15, 200}[rng.Intn(4)]
				}
			}
			f.bit = rng.Intn(16)
			f.hi = rng.Intn(2)
			f.order = orders[rng.Intn(len(orders))]
			if f.typ == 13 {
				f.len = strLen(rng)
				if rng.Intn(2) == 0 {
					f.len = 1 + rng.Intn(2*span+2)
					if f.len > 255 {
						f.len = 255
					}
				}
			}
			a := start + rng.Intn(span)
			switch rng.Intn(7) {
			case 0:
				a = start - 1 - rng.Intn(3) // before the start address
			case 1:
				a = start + span + rng.Intn(3) // beyond the payload
			case 2:
				a = start + span - 1 - rng.Intn(4) // straddling the end
			case 3:
				if len(fs) > 0 {
					a = fs[rng.Intn(len(fs))].addr
				}
			}
			if a < 0 {
				a = 0
			}
			if a > 65535 {
				a = 65535
			}
			f.addr = a
			if len(fs) > 0 && rng.Intn(4) == 0 {
				// an alias of an earlier field that differs from it in ONE attribute only (a result remembered under a key
				// that leaves that attribute out would be handed to this field)
				f = fs[rng.Intn(len(fs))]
				f.name = fmt.Sprintf("f%d", j)
				switch rng.Intn(5) {
				case 0:
					f.typ = 13
					f.len = 1 + (f.len+rng.Intn(7))%12
				case 1:
					f.order = orders[rng.Intn(len(orders))]
				case 2:
					f.bit = (f.bit + 1 + rng.Intn(15)) % 16
				case 3:
					f.hi = 1 - f.hi
				default:
					f.typ = 1 + (f.typ+rng.Intn(12))%13
					if f.typ == 13 && f.len == 0 {
						f.len = 2
					}
				}
				if rng.Intn(2) == 0 && f.typ == 13 {
					// two strings at one address with different lengths
					g := f
					g.name = fmt.Sprintf("f%da", j)
					g.len = 1 + (f.len+1+rng.Intn(5))%14
					fs = append(fs, g)
				}
			}
			fs = append(fs, f)
		}
		emit(fmt.Sprintf("xf %s %d %d %s %s", kind, rng.Intn(2), start, hx(payload), fieldsToken(fs)))
	}
}
