package main

import (
	"fmt"
	"math/rand"
	"strings"
)

func init() {
	generators["C01"] = genC01
	generators["C02"] = genC02
	generators["C03"] = genC03
	generators["C09"] = genC09
	generators["C10"] = genC10
	generators["C11"] = genC11
	generators["C18"] = genC18
}

// ---------- constructor argument sweeps (shared by C01, C09, C03, C18) ----------

// sweepNewArgs emits `kind` ops (newreq / rt) over the argument space of all 20 constructors.
// quick: all quantities 0..2200, boundaries, a random sample; thorough: every quantity 0..65535.
func sweepNewArgs(kind string, tier string, rng *rand.Rand, shard, nshards int, framings []string, emit emitter) {
	i := 0
	hn := 0
	hdr := func() (int, int, int) {
		hn++
		if hn%8 == 0 {
			return tidv(rng), u8(rng), 0 // the first address
		}
		return tidv(rng), u8(rng), u16(rng)
	}
	for _, fr := range framings {
		// read functions: quantity axis
		for _, fc := range []int{1, 2, 3, 4} {
			qs := []int{}
			if tier == "thorough" {
				for q := 0; q <= 65535; q++ {
					qs = append(qs, q)
				}
			} else {
				for q := 0; q <= 2200; q++ {
					qs = append(qs, q)
				}
				qs = append(qs, boundaries16()...)
				for k := 0; k < 1500; k++ {
					qs = append(qs, rng.Intn(65536))
				}
			}
			for _, q := range qs {
				i++
				tid, unit, addr := hdr()
				if !mine(i, shard, nshards) {
					continue
				}
				emit(newreqOp(kind, fc, fr, tid, unit, addr, q, false, 0, "-", "-"))
			}
		}
		// FC5 / FC6 / FC17
		for k := 0; k < 600; k++ {
			i++
			tid, unit, addr := hdr()
			if !mine(i, shard, nshards) {
				continue
			}
			emit(newreqOp(kind, 5, fr, tid, unit, addr, 0, k%2 == 0, 0, "-", "-"))
			emit(newreqOp(kind, 6, fr, tid, unit, addr, 0, false, 0, hx(rbytes(rng, []int{2, 2, 2, 2, 0, 1, 3, 4}[k%8])), "-"))
			emit(newreqOp(kind, 17, fr, tid, unit, 0, 0, false, 0, "-", "-"))
		}
		// FC15: coil count axis 0..2100, each with a pattern
		reps := 1
		if tier == "thorough" {
			reps = 6
		}
		for r := 0; r < reps; r++ {
			for n := 0; n <= 2100; n++ {
				i++
				tid, unit, addr := hdr()
				if !mine(i, shard, nshards) {
					continue
				}
				if tier != "thorough" && n > 40 && n < 1900 && n%5 != 0 && n%8 > 1 {
					continue
				}
				emit(newreqOp(kind, 15, fr, tid, unit, addr, 0, false, 0, "-", rbits(rng, n)))
				if n >= 1 && (n <= 24 || n%16 == 0 || n >= 1960) {
					// a pattern that ends exactly at the last coil address, one that ends one before, one that would end one after
					for _, e := range []int{65536, 65535, 65537} {
						if e-n >= 0 && e-n <= 65535 {
							emit(newreqOp(kind, 15, fr, tid, unit, e-n, 0, false, 0, "-", rbits(rng, n)))
						}
					}
				}
			}
		}
		// FC15 / FC16 / FC23 at the first address with every small count (frames whose address and count bytes look like
		// other things: a protocol id of zero, a length)
		for n := 1; n <= 60; n++ {
			i++
			tid, unit, _ := hdr()
			if !mine(i, shard, nshards) {
				continue
			}
			emit(newreqOp(kind, 15, fr, tid, unit, 0, 0, false, 0, "-", rbits(rng, n)))
			emit(newreqOp(kind, 16, fr, tid, unit, 0, 0, false, 0, hx(rbytes(rng, 2*n)), "-"))
			emit(newreqOp(kind, 23, fr, tid, unit, 0, 7+2*n, false, u16(rng), hx(rbytes(rng, 2*n)), "-"))
			emit(newreqOp(kind, 23, fr, tid, unit, 0, n, false, 0, hx(rbytes(rng, 2*n)), "-"))
		}
		// FC16: payload byte length axis 0..300 (+ the conversion wrap at 131072+)
		for r := 0; r < reps*2; r++ {
			for n := 0; n <= 300; n++ {
				i++
				tid, unit, addr := hdr()
				if !mine(i, shard, nshards) {
					continue
				}
				emit(newreqOp(kind, 16, fr, tid, unit, addr, 0, false, 0, hx(rbytes(rng, n)), "-"))
			}
		}
		for _, n := range []int{131070, 131072, 131074, 131076, 131320, 262146} {
			i++
			tid, unit, addr := hdr()
			if !mine(i, shard, nshards) {
				continue
			}
			emit(newreqOp(kind, 16, fr, tid, unit, addr, 0, false, 0, fmt.Sprintf("z%d", n), "-"))
			emit(newreqOp(kind, 23, fr, tid, unit, addr, 5, false, addr, fmt.Sprintf("z%d", n), "-"))
		}
		// FC23: read quantity boundaries x write payload lengths
		rqs := []int{0, 1, 2, 123, 124, 125, 126, 127, 255, 256, 2000, 65535}
		for r := 0; r < reps; r++ {
			for _, rq := range rqs {
				for n := 0; n <= 300; n++ {
					i++
					tid, unit, addr := hdr()
					if !mine(i, shard, nshards) {
						continue
					}
					if tier != "thorough" && (rq == 255 || rq == 256 || rq == 2000) && n%4 != 0 {
						continue
					}
					emit(newreqOp(kind, 23, fr, tid, unit, addr, rq, false, u16(rng), hx(rbytes(rng, n)), "-"))
				}
			}
		}
		for k := 0; k < 400*reps; k++ {
			i++
			tid, unit, addr := hdr()
			if !mine(i, shard, nshards) {
				continue
			}
			emit(newreqOp(kind, 23, fr, tid, unit, addr, 1+rng.Intn(130), false, u16(rng), hx(rbytes(rng, 2*rng.Intn(128))), "-"))
		}
	}
}

// requests whose exported ProtocolID header field was set before encoding (a sample of the constructor sweep)
func genNewreqP(rng *rand.Rand, shard, nshards int, emit emitter) {
	sweepNewArgs("newreq", "quick", rng, shard, nshards, []string{"t"}, func(op string) {
		if rng.Intn(12) == 0 {
			pid := []int{1, 256, 0xFFFF, 1 + rng.Intn(65535)}[rng.Intn(4)]
			emit(fmt.Sprintf("newreqp %d %s", pid, strings.TrimPrefix(op, "newreq ")))
		}
	})
}

func genC01(tier string, rng *rand.Rand, shard, nshards int, emit emitter) {
	genNewreqP(rng, shard, nshards, emit)
	sweepNewArgs("newreq", tier, rng, shard, nshards, []string{"t", "r"}, emit)
	for n := 0; n <= 2100; n++ {
		if mine(n, shard, nshards) {
			emit("c2b " + rbits(rng, n))
		}
	}
}

// ---------- frames ----------

// validRequestFrames returns one valid request frame per function and framing (harness-built)
func validRequestPDU(rng *rand.Rand, fc int) []byte {
	a := u16(rng)
	switch fc {
	case 1, 2:
		q := 1 + rng.Intn(125)
		return []byte{byte(fc), byte(a >> 8), byte(a), byte(q >> 8), byte(q)}
	case 3, 4:
		q := 1 + rng.Intn(125)
		return []byte{byte(fc), byte(a >> 8), byte(a), byte(q >> 8), byte(q)}
	case 5:
		v := byte(0)
		if rng.Intn(2) == 0 {
			v = 0xFF
		}
		return []byte{5, byte(a >> 8), byte(a), v, 0}
	case 6:
		return []byte{6, byte(a >> 8), byte(a), byte(rng.Intn(256)), byte(rng.Intn(256))}
	case 15:
		n := 1 + rng.Intn(1968)
		if rng.Intn(3) == 0 {
			n = 1968 - rng.Intn(40)
		}
		bc := (n + 7) / 8
		out := []byte{15, byte(a >> 8), byte(a), byte(n >> 8), byte(n), byte(bc)}
		return append(out, rbytes(rng, bc)...)
	case 16:
		n := 1 + rng.Intn(123)
		if rng.Intn(3) == 0 {
			n = 123 - rng.Intn(3)
		}
		out := []byte{16, byte(a >> 8), byte(a), byte(n >> 8), byte(n), byte(2 * n)}
		return append(out, rbytes(rng, 2*n)...)
	case 17:
		return []byte{17}
	case 23:
		rq := 1 + rng.Intn(125)
		wn := 1 + rng.Intn(121)
		if rng.Intn(3) == 0 {
			wn = 121 - rng.Intn(3)
		}
		wa := u16(rng)
		out := []byte{23, byte(a >> 8), byte(a), byte(rq >> 8), byte(rq), byte(wa >> 8), byte(wa), byte(wn >> 8), byte(wn), byte(2 * wn)}
		return append(out, rbytes(rng, 2*wn)...)
	}
	return []byte{byte(fc)}
}

func validResponsePDU(rng *rand.Rand, fc int) []byte {
	a := u16(rng)
	switch fc {
	case 1, 2:
		bc := 1 + rng.Intn(250)
		return append([]byte{byte(fc), byte(bc)}, rbytes(rng, bc)...)
	case 3, 4, 23:
		bc := 2 * (1 + rng.Intn(125))
		return append([]byte{byte(fc), byte(bc)}, rbytes(rng, bc)...)
	case 5:
		v := byte(0)
		if rng.Intn(2) == 0 {
			v = 0xFF
		}
		return []byte{5, byte(a >> 8), byte(a), v, 0}
	case 6:
		return []byte{6, byte(a >> 8), byte(a), byte(rng.Intn(256)), byte(rng.Intn(256))}
	case 15, 16:
		q := 1 + rng.Intn(123)
		return []byte{byte(fc), byte(a >> 8), byte(a), byte(q >> 8), byte(q)}
	case 17:
		n := 1 + rng.Intn(20)
		out := append([]byte{17, byte(n)}, rbytes(rng, n)...)
		out = append(out, byte(rng.Intn(2)*255))
		return append(out, rbytes(rng, rng.Intn(12))...)
	}
	return []byte{byte(fc)}
}

func frameOf(rng *rand.Rand, framing string, pdu []byte) []byte {
	if framing == "t" {
		return mbapFrame(tidv(rng), u8(rng), pdu)
	}
	return withCRC(append([]byte{byte(u8(rng))}, pdu...))
}

func entryFraming(e string) string {
	switch {
	case e == "mbap" || e == "looks" || e == "looksU" || e == "aserrT" || e == "reqT" || e == "respT":
		return "t"
	case len(e) > 5 && (e[:5] == "reqT." || e[:6] == "respT."):
		return "t"
	}
	return "r"
}

func entryIsResp(e string) bool { return len(e) >= 4 && e[:4] == "resp" }

func entryFC(e string) int {
	for i := 0; i < len(e); i++ {
		if e[i] == '.' {
			n := 0
			fmt.Sscanf(e[i+1:], "%d", &n)
			return n
		}
	}
	return 0
}

// fixLen rewrites the MBAP length field so that it is consistent with the slice length
func fixLen(d []byte) []byte {
	if len(d) >= 6 {
		n := len(d) - 6
		d[4] = byte(n >> 8)
		d[5] = byte(n)
	}
	return d
}

func parseOp(entry string, d []byte, sp []byte) string {
	return fmt.Sprintf("parse %s %s %s", entry, hx(d), hx(sp))
}

// genParseStructured emits parse ops for one entry: consistent-header frames of every length,
// truncations of valid frames, byte-count sweeps, single mutations, raw noise.
func genParseStructured(entry string, tier string, rng *rand.Rand, emit emitter) {
	fr := entryFraming(entry)
	isResp := entryIsResp(entry)
	fcs := []int{entryFC(entry)}
	if fcs[0] == 0 {
		fcs = append([]int{}, supportedFCs...)
		fcs = append(fcs, 0, 7, 24, 43, 128, 129, 131, 144, 255)
	}
	maxLen := 300
	reps := 1
	if tier == "thorough" {
		reps = 8
	}
	fcPos := 1
	if fr == "t" {
		fcPos = 7
	}
	for r := 0; r < reps; r++ {
		for _, fc := range fcs {
			// (a) every length with a consistent header
			for n := 0; n <= maxLen; n++ {
				d := rbytes(rng, n)
				if rng.Intn(2) == 0 {
					// small plausible field values instead of noise
					for i := range d {
						d[i] = byte(rng.Intn(3))
					}
				}
				if fr == "t" {
					if n > 3 {
						d[2], d[3] = 0, 0
					}
					fixLen(d)
				}
				if n > fcPos {
					d[fcPos] = byte(fc)
				}
				// byte count position consistent with the length half of the time
				if rng.Intn(2) == 0 {
					setByteCount(d, fr, isResp, fc, rng)
				}
				if fr == "r" && rng.Intn(2) == 0 && n >= 3 {
					d = withCRC(d[:n-2])
				}
				emit(parseOp(entry, d, poison(rng)))
			}
			// (a') the narrowing region: frames longer than 256 bytes whose byte count field holds the payload length
			// modulo 256 (a length check done in 8-bit arithmetic lets exactly these through)
			wrapStep := 7
			if tier == "thorough" {
				wrapStep = 1
			}
			for n := 258 + rng.Intn(wrapStep); n <= 560; n += wrapStep {
				d := rbytes(rng, n)
				if fr == "t" {
					d[2], d[3] = 0, 0
					fixLen(d)
				}
				d[fcPos] = byte(fc)
				setByteCountW(d, fr, isResp, fc, rng, true)
				if fr == "r" && rng.Intn(2) == 0 {
					d = withCRC(d[:n-2])
				}
				emit(parseOp(entry, d, poison(rng)))
			}
			// (b) header-consistent truncations / extensions of a valid frame
			var pdu []byte
			if isResp {
				pdu = validResponsePDU(rng, fc)
			} else {
				pdu = validRequestPDU(rng, fc)
			}
			full := frameOf(rng, fr, pdu)
			emit(parseOp(entry, full, poison(rng)))
			step := 1
			if len(full) > 40 && tier != "thorough" {
				step = 1 + len(full)/40
			}
			for k := 0; k <= len(full)+3; k++ {
				// every short prefix (the fixed part of every layout ends before byte 24) and every step-th longer one
				if k > 24 && k%step != 0 && k < len(full)-2 {
					continue
				}
				var d []byte
				if k <= len(full) {
					d = append([]byte{}, full[:k]...)
				} else {
					d = append(append([]byte{}, full...), rbytes(rng, k-len(full))...)
				}
				if fr == "t" {
					fixLen(d)
				} else if k >= 3 && rng.Intn(2) == 0 {
					d = withCRC(d[:k-2])
				}
				// the spare capacity holds the rest of the valid frame: the over-read that matters
				sp := poison(rng)
				if k < len(full) && rng.Intn(2) == 0 {
					sp = append(append([]byte{}, full[k:]...), sp...)
				}
				emit(parseOp(entry, d, sp))
			}
			// (b') raw prefixes of the valid frame: the header announces more than is there (the stream classifier and the
			// header parser see exactly this while a frame arrives)
			if fr == "t" {
				for k := 0; k < len(full) && k <= 20; k++ {
					emit(parseOp(entry, append([]byte{}, full[:k]...), poison(rng)))
				}
			}
			// (b'') the valid frame followed by more bytes, its header untouched (a read that already holds the start of the
			// next packet): the entry point was given more than the frame
			for _, extra := range []int{1, 2, 3, 9, len(full)} {
				emit(parseOp(entry, append(append([]byte{}, full...), rbytes(rng, extra)...), poison(rng)))
			}
			// (c) single mutations of the valid frame
			for m := 0; m < 12; m++ {
				d := append([]byte{}, full...)
				if len(d) == 0 {
					break
				}
				i := rng.Intn(len(d))
				switch rng.Intn(3) {
				case 0:
					d[i] ^= 1 << uint(rng.Intn(8))
				case 1:
					d[i] = byte(pick(rng, []int{0, 1, 2, 3, 125, 126, 127, 128, 246, 247, 248, 249, 250, 251, 252, 253, 254, 255}))
				default:
					d[i] = byte(rng.Intn(256))
				}
				emit(parseOp(entry, d, poison(rng)))
			}
		}
		// (d) raw noise
		for k := 0; k < 200; k++ {
			emit(parseOp(entry, rbytes(rng, rng.Intn(40)), poison(rng)))
		}
	}
}

// setByteCount writes a byte-count value consistent with the slice length at the position the
// function's layout has it (requests: FC15/16 at pdu+5, FC23 at pdu+9; responses: pdu+1)
func setByteCount(d []byte, fr string, isResp bool, fc int, rng *rand.Rand) {
	setByteCountW(d, fr, isResp, fc, rng, false)
}

func setByteCountW(d []byte, fr string, isResp bool, fc int, rng *rand.Rand, wrap bool) {
	base := 1 // index of function code
	tail := 2 // crc
	if fr == "t" {
		base = 7
		tail = 0
	}
	pos := -1
	if isResp {
		switch fc {
		case 1, 2, 3, 4, 17, 23:
			pos = base + 1
		}
	} else {
		switch fc {
		case 15, 16:
			pos = base + 5
		case 23:
			pos = base + 9
		}
	}
	if pos < 0 || pos >= len(d) {
		return
	}
	rest := len(d) - pos - 1 - tail
	if fr == "r" && rng.Intn(3) == 0 {
		rest = len(d) - pos - 1 // frame without crc
	}
	if rest < 0 {
		rest = 0
	}
	if rest > 255 {
		if wrap {
			rest = rest % 256
		} else {
			rest = 255
		}
	}
	d[pos] = byte(rest)
	// plausible quantities so that the deep guards are reached
	if !isResp && pos >= 2 {
		switch fc {
		case 15:
			q := rest * 8
			if q == 0 {
				q = 1
			}
			if q > 1968 {
				q = 1968
			}
			d[pos-2], d[pos-1] = byte(q>>8), byte(q)
		case 16:
			q := rest / 2
			if q == 0 {
				q = 1
			}
			if q > 123 {
				q = 123
			}
			d[pos-2], d[pos-1] = byte(q>>8), byte(q)
		case 23:
			q := rest / 2
			if q == 0 {
				q = 1
			}
			if q > 121 {
				q = 121
			}
			d[pos-2], d[pos-1] = byte(q>>8), byte(q)
			if pos >= 6 {
				d[pos-6], d[pos-5] = 0, byte(1+rng.Intn(125))
			}
		}
	}
}

func genC10(tier string, rng *rand.Rand, shard, nshards int, emit emitter) {
	// the server's assembler consumes what the classifier and the dispatcher return (valid, unsupported, out of range,
	// truncated and inconsistent frames, segmented)
	genC15("sample", rng, shard, nshards, emit)
	for i, e := range allParseEntries {
		if mine(i, shard, nshards) {
			genParseStructured(e, tier, rng, emit)
		}
	}
	// byte counts 0..255 against lengths around them, request side (the uint8 wrap region)
	i := 0
	for _, fr := range []string{"t", "r"} {
		for _, fc := range []int{15, 16, 23} {
			for bc := 0; bc <= 255; bc++ {
				for delta := -2; delta <= 2; delta++ {
					i++
					if !mine(i, shard, nshards) {
						continue
					}
					n := bc + delta
					if n < 0 {
						continue
					}
					a := u16(rng)
					var pdu []byte
					switch fc {
					case 15:
						q := bc * 8
						if q > 1968 {
							q = 1968
						}
						if q == 0 {
							q = 1
						}
						pdu = []byte{15, byte(a >> 8), byte(a), byte(q >> 8), byte(q), byte(bc)}
					case 16:
						q := bc / 2
						if q > 123 {
							q = 123
						}
						if q == 0 {
							q = 1
						}
						pdu = []byte{16, byte(a >> 8), byte(a), byte(q >> 8), byte(q), byte(bc)}
					default:
						q := bc / 2
						if q > 121 {
							q = 121
						}
						if q == 0 {
							q = 1
						}
						pdu = []byte{23, byte(a >> 8), byte(a), 0, byte(1 + rng.Intn(125)), byte(a >> 8), byte(a), byte(q >> 8), byte(q), byte(bc)}
					}
					pdu = append(pdu, rbytes(rng, n)...)
					d := frameOf(rng, fr, pdu)
					if fr == "t" {
						emit(parseOp(fmt.Sprintf("reqT.%d", fc), d, poison(rng)))
						emit(parseOp("reqT", d, poison(rng)))
					} else {
						emit(parseOp(fmt.Sprintf("reqR.%d", fc), d, poison(rng)))
						emit(parseOp(fmt.Sprintf("reqR.%d", fc), d[:len(d)-2], poison(rng)))
						emit(parseOp("reqRC", d, poison(rng)))
					}
				}
			}
		}
	}
}

// ---------- C09 ----------

func genC09(tier string, rng *rand.Rand, shard, nshards int, emit emitter) {
	sweepNewArgs("rt", tier, rng, shard, nshards, []string{"t", "r"}, emit)
	// frames with illegal quantity / count / coil value
	i := 0
	qs := []int{}
	if tier == "thorough" {
		for q := 0; q <= 65535; q++ {
			qs = append(qs, q)
		}
	} else {
		for q := 0; q <= 2100; q += 1 {
			qs = append(qs, q)
		}
		qs = append(qs, boundaries16()...)
		for k := 0; k < 500; k++ {
			qs = append(qs, rng.Intn(65536))
		}
	}
	for _, fr := range []string{"t", "r"} {
		for _, fc := range []int{1, 2, 3, 4, 5, 15, 16, 23} {
			for _, q := range qs {
				i++
				if !mine(i, shard, nshards) {
					continue
				}
				a := u16(rng)
				if i%8 == 0 {
					a = 0
				}
				var pdu []byte
				switch fc {
				case 1, 2, 3, 4, 5:
					pdu = []byte{byte(fc), byte(a >> 8), byte(a), byte(q >> 8), byte(q)}
				case 15:
					bc := (q + 7) / 8
					if bc > 255 {
						bc = rng.Intn(256)
					}
					pdu = append([]byte{15, byte(a >> 8), byte(a), byte(q >> 8), byte(q), byte(bc)}, rbytes(rng, bc)...)
				case 16:
					bc := 2 * q
					if bc > 255 {
						bc = 2 * rng.Intn(128)
					}
					pdu = append([]byte{16, byte(a >> 8), byte(a), byte(q >> 8), byte(q), byte(bc)}, rbytes(rng, bc)...)
				case 23:
					// vary either the read or the write quantity
					rq, wq := q, 1+rng.Intn(121)
					if rng.Intn(2) == 0 {
						rq, wq = 1+rng.Intn(125), q
					}
					bc := 2 * wq
					if bc > 255 {
						bc = 2 * rng.Intn(128)
					}
					pdu = append([]byte{23, byte(a >> 8), byte(a), byte(rq >> 8), byte(rq), byte(a >> 8), byte(a), byte(wq >> 8), byte(wq), byte(bc)}, rbytes(rng, bc)...)
				}
				d := frameOf(rng, fr, pdu)
				if fr == "t" {
					emit(parseOp(fmt.Sprintf("reqT.%d", fc), d, poison(rng)))
					emit(parseOp("reqT", d, poison(rng)))
				} else {
					emit(parseOp(fmt.Sprintf("reqR.%d", fc), d, poison(rng)))
					emit(parseOp("reqR", d, poison(rng)))
					emit(parseOp("reqRC", d, poison(rng)))
				}
			}
		}
	}
}

// ---------- C02 ----------

func genC02(tier string, rng *rand.Rand, shard, nshards int, emit emitter) {
	i := 0
	reps := 1
	if tier == "thorough" {
		reps = 16
	}
	respEntries := func(fr string, fc int) []string {
		if fr == "t" {
			return []string{fmt.Sprintf("respT.%d", fc), "respT"}
		}
		return []string{fmt.Sprintf("respR.%d", fc), "respR", "respRC"}
	}
	for r := 0; r < reps; r++ {
		for _, fr := range []string{"t", "r"} {
			// byte count x actual length
			for _, fc := range []int{1, 2, 3, 4, 23, 17} {
				for bc := 0; bc <= 255; bc++ {
					// the last delta is a whole number of 256s (plus/minus one): a payload whose length agrees with the byte
					// count only in 8-bit arithmetic
					deltas := []int{-2, -1, 0, 1, 2, []int{256, 256, 255, 257, 512}[rng.Intn(5)]}
					for _, delta := range deltas {
						i++
						if !mine(i, shard, nshards) {
							continue
						}
						n := bc + delta
						if fc == 17 {
							n = bc + 1 + delta + rng.Intn(3)*rng.Intn(8)
						}
						if n < 0 {
							continue
						}
						pdu := append([]byte{byte(fc), byte(bc)}, rbytes(rng, n)...)
						d := frameOf(rng, fr, pdu)
						for _, e := range respEntries(fr, fc) {
							emit(parseOp(e, d, poison(rng)))
						}
						if delta == 0 && bc%8 == 5 {
							// the well-formed response with the error bit set in its function byte: whatever it looks
							// like, it is not a response
							epdu := append([]byte{}, pdu...)
							epdu[0] |= 0x80
							ed := frameOf(rng, fr, epdu)
							for _, e := range respEntries(fr, fc) {
								emit(parseOp(e, ed, poison(rng)))
							}
						}
						if delta == 0 && bc%8 == 3 {
							// the well-formed frame followed by more bytes, its header untouched: longer than its fields say
							long := append(append([]byte{}, d...), rbytes(rng, 1+rng.Intn(4))...)
							for _, e := range respEntries(fr, fc) {
								emit(parseOp(e, long, poison(rng)))
							}
						}
					}
				}
			}
			// fixed size responses: every length 6..16
			for _, fc := range []int{5, 6, 15, 16} {
				for n := 0; n <= 10; n++ {
					for k := 0; k < 6; k++ {
						i++
						if !mine(i, shard, nshards) {
							continue
						}
						pdu := append([]byte{byte(fc)}, rbytes(rng, n)...)
						if fc == 5 && n >= 4 && k%2 == 0 {
							pdu[3], pdu[4] = byte(rng.Intn(2)*255), 0
						}
						d := frameOf(rng, fr, pdu)
						for _, e := range respEntries(fr, fc) {
							emit(parseOp(e, d, poison(rng)))
						}
					}
				}
			}
			// valid responses of every function
			for _, fc := range supportedFCs {
				for k := 0; k < 60; k++ {
					i++
					if !mine(i, shard, nshards) {
						continue
					}
					d := frameOf(rng, fr, validResponsePDU(rng, fc))
					for _, e := range respEntries(fr, fc) {
						emit(parseOp(e, d, poison(rng)))
					}
				}
			}
		}
		// frames of the exception sizes that are NO exceptions (function byte without the error bit): not an error at all
		for k := 0; k < 48; k++ {
			i++
			if !mine(i, shard, nshards) {
				continue
			}
			fcb := byte(rng.Intn(128))
			if k%3 == 0 {
				fcb = byte(supportedFCs[rng.Intn(10)])
			}
			dt := mbapFrame(tidv(rng), u8(rng), []byte{fcb, byte(u8(rng))})
			dr := withCRC([]byte{byte(u8(rng)), fcb, byte(u8(rng))})
			emit(parseOp("aserrT", dt, poison(rng)))
			emit(parseOp("aserrR", dr, poison(rng)))
			emit(parseOp("aserrRC", dr, poison(rng)))
			dr2 := append([]byte{}, dr...)
			dr2[4] ^= 0x10
			emit(parseOp("aserrR", dr2, poison(rng)))
		}
		// exception frames: all 128 x 256
		for f := 128; f <= 255; f++ {
			for c := 0; c <= 255; c++ {
				i++
				if !mine(i, shard, nshards) {
					continue
				}
				if tier != "thorough" && (f*256+c)%3 != 0 && c > 12 {
					continue
				}
				dt := mbapFrame(tidv(rng), u8(rng), []byte{byte(f), byte(c)})
				emit(parseOp("respT", dt, poison(rng)))
				dr := withCRC([]byte{byte(u8(rng)), byte(f), byte(c)})
				emit(parseOp("respR", dr, poison(rng)))
				emit(parseOp("respRC", dr, poison(rng)))
				if c < 4 {
					emit(parseOp(fmt.Sprintf("respT.%d", supportedFCs[(f+c)%10]), dt, poison(rng)))
					emit(parseOp(fmt.Sprintf("respR.%d", supportedFCs[(f+c)%10]), dr, poison(rng)))
					emit(parseOp("aserrT", dt, poison(rng)))
					emit(parseOp("aserrR", dr, poison(rng)))
					emit(parseOp("aserrRC", dr, poison(rng)))
				}
			}
		}
	}
}

// ---------- C03 ----------

func genC03(tier string, rng *rand.Rand, shard, nshards int, emit emitter) {
	i := 0
	// every length 0..300
	reps := 6
	if tier == "thorough" {
		reps = 64
	}
	for n := 0; n <= 300; n++ {
		for k := 0; k < reps; k++ {
			i++
			if mine(i, shard, nshards) {
				emit("crc " + hx(rbytes(rng, n)))
			}
		}
	}
	// messages that contain their own checksum in the middle (a complete frame followed by more bytes: the register is
	// zero after the frame) and messages that drive the register through 0x0000 / 0xFFFF at other places
	for k := 0; k < 400*reps/6; k++ {
		i++
		if !mine(i, shard, nshards) {
			continue
		}
		inner := withCRC(rbytes(rng, rng.Intn(12)))
		emit("crc " + hx(append(inner, rbytes(rng, 1+rng.Intn(10))...)))
		emit("crc " + hx(append(append(rbytes(rng, rng.Intn(3)), inner...), inner...)))
	}
	// all one- and two-byte messages (every 16-bit state is reached after two bytes)
	for v := 0; v < 256; v++ {
		i++
		if mine(i, shard, nshards) {
			emit(fmt.Sprintf("crc %02x", v))
		}
	}
	for v := 0; v < 65536; v++ {
		i++
		if mine(i, shard, nshards) {
			emit(fmt.Sprintf("crc %04x", v))
		}
	}
	if tier == "thorough" {
		// every state x byte transition: all three-byte messages
		for v := 0; v < 1<<24; v++ {
			if mine(v, shard, nshards) {
				emit(fmt.Sprintf("crc %06x", v))
			}
		}
	}
	// RTU frames of all encoders
	sweepNewArgs("newreq", "quick", rng, shard, nshards, []string{"r"}, emit)
	for f := 0; f < 256; f++ {
		for c := 0; c < 256; c++ {
			i++
			if mine(i, shard, nshards) {
				emit(fmt.Sprintf("errbytes r 0 %d %d %d", u8(rng), f, c))
			}
		}
	}
	// ErrorParseRTU (the error type of the RTU request parsers) encodes through its own Bytes()
	for f := 0; f < 256; f++ {
		for _, c := range []int{0, 1, 2, 3, 4, 11, 12, 128, 255, rng.Intn(256)} {
			i++
			if mine(i, shard, nshards) {
				emit(fmt.Sprintf("errpbytes %d %d %d", u8(rng), f, c))
			}
		}
	}
	// response values with arbitrary, also inconsistent, fields (byte count vs payload length), encoded by the library
	for _, fc := range []int{1, 2, 3, 4, 23} {
		for k := 0; k < 260; k++ {
			i++
			if !mine(i, shard, nshards) {
				continue
			}
			bl := k % 256
			dl := bl
			switch rng.Intn(4) {
			case 0:
				dl = rng.Intn(256)
			case 1:
				dl = bl + 1 + rng.Intn(3)
			case 2:
				if bl > 0 {
					dl = bl - 1 - rng.Intn(bl)
				}
			}
			if dl > 255 {
				dl = 255
			}
			emit(fmt.Sprintf("encresp %d r 0 %d %d %s", fc, u8(rng), bl, hxOrDash(rbytes(rng, dl))))
			if k%16 == 0 {
				emit(fmt.Sprintf("encresp %d t %d %d %d %s", fc, tidv(rng), u8(rng), bl, hxOrDash(rbytes(rng, dl))))
			}
		}
	}
	// trailers
	frames := [][]byte{}
	ents := []string{}
	for _, fc := range supportedFCs {
		for k := 0; k < 2; k++ {
			frames = append(frames, withCRC(append([]byte{byte(u8(rng))}, validRequestPDU(rng, fc)...)))
			ents = append(ents, "reqRC")
			frames = append(frames, withCRC(append([]byte{byte(u8(rng))}, validResponsePDU(rng, fc)...)))
			ents = append(ents, "respRC")
		}
	}
	frames = append(frames, withCRC([]byte{1, 0x83, 2}), withCRC([]byte{}), withCRC([]byte{7}), withCRC([]byte{7, 1}))
	ents = append(ents, "respRC", "respRC", "reqRC", "respRC")
	// exception frames through the CRC-verifying recogniser of the RTU clients (and a 5-byte non-exception frame)
	for k := 0; k < 6; k++ {
		frames = append(frames, withCRC([]byte{byte(u8(rng)), byte(128 + rng.Intn(128)), byte(u8(rng))}))
		ents = append(ents, "aserrRC")
	}
	frames = append(frames, withCRC([]byte{byte(u8(rng)), byte(rng.Intn(128)), byte(u8(rng))}), withCRC([]byte{1, 0x83, 2}))
	ents = append(ents, "aserrRC", "aserrRC")
	for _, fb := range []byte{0x80, 0x81, 0xFF, 0x7F, 0x00} {
		frames = append(frames, withCRC([]byte{byte(u8(rng)), fb, byte(u8(rng))}))
		ents = append(ents, "aserrRC")
		frames = append(frames, withCRC([]byte{byte(u8(rng)), fb, byte(u8(rng))}))
		ents = append(ents, "respRC")
	}
	for fi, f := range frames {
		emitT := func(t int) {
			d := append([]byte{}, f...)
			d[len(d)-2], d[len(d)-1] = byte(t), byte(t>>8)
			emit(parseOp(ents[fi], d, poison(rng)))
		}
		if !mine(fi, shard, nshards) {
			continue
		}
		emit(parseOp(ents[fi], f, poison(rng)))
		if tier == "thorough" {
			for t := 0; t < 65536; t++ {
				emitT(t)
			}
		} else {
			good := int(f[len(f)-2]) | int(f[len(f)-1])<<8
			for k := 0; k < 16; k++ {
				emitT(good ^ (1 << uint(k)))
			}
			emitT((good >> 8) | (good&0xff)<<8) // swapped
			for k := 0; k < 1500; k++ {
				emitT(rng.Intn(65536))
			}
		}
		// a correctly checksummed frame followed by more bytes (noise, the start of the next frame, itself): the trailer
		// that counts is the last two bytes of what was handed in
		for _, tail := range [][]byte{rbytes(rng, 1), rbytes(rng, 2), rbytes(rng, 3), rbytes(rng, 4), f[:1], f, {0, 0}, {0xFF, 0xFF}} {
			emit(parseOp(ents[fi], append(append([]byte{}, f...), tail...), poison(rng)))
		}
		// the frame that lost its trailer (a gateway that strips checksums): its last two bytes are not the CRC of the rest
		if len(f) > 4 {
			emit(parseOp(ents[fi], f[:len(f)-2], poison(rng)))
			emit(parseOp(ents[fi], f[:len(f)-1], poison(rng)))
		}
		// noise in front of a correctly checksummed frame
		for _, head := range [][]byte{{0}, {0, 0}, {0xFF}, {f[0]}, rbytes(rng, 1)} {
			emit(parseOp(ents[fi], append(append([]byte{}, head...), f...), poison(rng)))
		}
		// corrupt the body, keep the trailer
		for k := 0; k < 40; k++ {
			d := append([]byte{}, f...)
			if len(d) > 2 {
				d[rng.Intn(len(d)-2)] ^= 1 << uint(rng.Intn(8))
				emit(parseOp(ents[fi], d, poison(rng)))
			}
		}
	}
	// exception frames of every unit id (0 = broadcast, 248..255 = reserved range included): correctly checksummed and
	// with one bit of the trailer flipped
	for u := 0; u < 256; u++ {
		i++
		if !mine(i, shard, nshards) {
			continue
		}
		f := withCRC([]byte{byte(u), byte(128 + rng.Intn(128)), byte(u8(rng))})
		bad := append([]byte{}, f...)
		bad[3+rng.Intn(2)] ^= 1 << uint(rng.Intn(8))
		for _, e := range []string{"aserrRC", "respRC"} {
			emit(parseOp(e, f, poison(rng)))
			emit(parseOp(e, bad, poison(rng)))
		}
	}
	// inputs too short to carry a trailer
	for _, e := range []string{"reqRC", "respRC", "aserrRC"} {
		for n := 0; n <= 3; n++ {
			i++
			if mine(i, shard, nshards) {
				emit(parseOp(e, rbytes(rng, n), poison(rng)))
				emit(parseOp(e, rbytes(rng, n), nil))
			}
		}
	}
	// re-encoding of parsed RTU responses ends with the CRC
	for k := 0; k < 400; k++ {
		i++
		if !mine(i, shard, nshards) {
			continue
		}
		fc := supportedFCs[k%10]
		d := withCRC(append([]byte{byte(u8(rng))}, validResponsePDU(rng, fc)...))
		emit(parseOp(fmt.Sprintf("respR.%d", fc), d, poison(rng)))
		emit(parseOp("respR", d, poison(rng)))
	}
}

// ---------- C11 ----------

func genC11(tier string, rng *rand.Rand, shard, nshards int, emit emitter) {
	i := 0
	lens := []int{}
	for n := 1; n <= 250; n++ {
		if tier == "thorough" || n <= 12 || n%9 == 0 || n >= 246 {
			lens = append(lens, n)
		}
	}
	starts := append([]int{0, 1, 7, 8, 10, 65535 - 2000, 65535 - 7, 65535 - 8, 65535}, pick(rng, boundaries16()), rng.Intn(65536))
	for _, n := range lens {
		for _, st := range starts {
			i++
			if !mine(i, shard, nshards) {
				continue
			}
			d := rbytes(rng, n)
			if rng.Intn(3) == 0 {
				d = make([]byte, n)
				d[rng.Intn(n)] = 1 << uint(rng.Intn(8))
			}
			addrs := map[int]bool{}
			for k := -3; k <= 3; k++ {
				addrs[st+k] = true
				addrs[st+8*n+k] = true
			}
			cnt := 24
			if tier == "thorough" {
				cnt = 8 * n
			}
			for k := 0; k < cnt; k++ {
				addrs[st+rng.Intn(8*n)] = true
			}
			for k := 0; k < 16 && k < 8*n; k++ {
				addrs[st+k] = true
				addrs[st+8*n-1-k] = true
			}
			// far behind the payload: 2048 x m + j coils after the start (a byte index held in 8 bits comes round again)
			for m := 1; m <= 4; m++ {
				for _, j := range []int{0, 1, 7, 8, rng.Intn(8 * n)} {
					addrs[st+2048*m+j] = true
					addrs[st+256*m+j] = true
				}
			}
			// a window that would reach past 65535: the addresses at the bottom of the address space are BEFORE the start
			if st+8*n > 65535 {
				for k := 0; k < 8*n && k < 48; k++ {
					addrs[(st+k)%65536] = true
				}
				addrs[0], addrs[1], addrs[6], addrs[7] = true, true, true, true
			}
			for a := range addrs {
				if a < 0 || a > 65535 {
					continue
				}
				emit(fmt.Sprintf("iscoil %d %s %d %d", 1+rng.Intn(3), hx(d), st, a))
			}
		}
	}
	for n := 0; n <= 2000; n++ {
		if mine(n, shard, nshards) {
			emit("c2b " + rbits(rng, n))
		}
	}
	// coil and discrete input fields extracted through the request builder (FC1/FC2 x TCP/RTU, strict and lenient,
	// full and truncated replies, duplicates at one address)
	nx := 1500
	if tier == "thorough" {
		nx = 40000
	}
	genXf(rng, "c", nx, shard, nshards, emit)
	for j := 0; j < nx; j++ {
		if !mine(j, shard, nshards) {
			continue
		}
		base := rng.Intn(65000)
		if rng.Intn(6) == 0 {
			base = 65535 - rng.Intn(40)
		}
		nf := 1 + rng.Intn(8)
		var fs []string
		for f := 0; f < nf; f++ {
			a := base + rng.Intn(40)
			if rng.Intn(5) == 0 {
				a = base + rng.Intn(4) // duplicates
			}
			if a > 65535 {
				a = 65535
			}
			srv := []string{"a:502", "a:502", "b:502"}[rng.Intn(3)]
			fs = append(fs, fmt.Sprintf("f%d,%s,%d,%d,14,0,0,0,0", f, srv, 1+rng.Intn(2), a))
		}
		trunc := -1
		if rng.Intn(3) == 0 {
			trunc = 1 + rng.Intn(24)
		}
		if j%25 == 0 && base < 63000 {
			// a request over (nearly) the whole 2000 coils one reply can carry: a payload of 249 / 250 bytes
			fs = append(fs, fmt.Sprintf("w%d,a:502,1,%d,14,0,0,0,0", j, base+1985+rng.Intn(15)))
			fs = append(fs, fmt.Sprintf("v%d,a:502,1,%d,14,0,0,0,0", j, base))
			trunc = -1
		}
		emit(fmt.Sprintf("extract %d %d %d %d %s", rng.Intn(4), rng.Intn(2), trunc, rng.Intn(100000), strings.Join(fs, ";")))
	}
	// the same packing as it goes out on the wire in a write-multiple-coils request (both framings)
	for n := 1; n <= 1968; n++ {
		if !mine(n, shard, nshards) {
			continue
		}
		if tier != "thorough" && n > 80 && n%8 != 0 && n%61 != 0 {
			continue
		}
		fr := []string{"t", "r"}[n%2]
		emit(newreqOp("newreq", 15, fr, tidv(rng), u8(rng), rng.Intn(60000), 0, false, 0, "-", rbits(rng, n)))
		if n <= 24 || n%16 == 0 || n >= 1960 {
			// the pattern that ends exactly at the last coil address (its last coil set), and the one at the first address
			emit(newreqOp("newreq", 15, fr, tidv(rng), u8(rng), 65536-n, 0, false, 0, "-", strings.TrimPrefix(rbits(rng, n-1), "-")+"1"))
			emit(newreqOp("newreq", 15, fr, tidv(rng), u8(rng), 0, 0, false, 0, "-", rbits(rng, n)))
		}
		if n%8 == 0 {
			emit(newreqOp("newreq", 15, []string{"r", "t"}[n%2], tidv(rng), u8(rng), rng.Intn(60000), 0, false, 0, "-", strings.Repeat("1", n)))
		}
	}
}

// ---------- C18 ----------

func genC18(tier string, rng *rand.Rand, shard, nshards int, emit emitter) {
	// a frame is dispatched when ITS bytes are there: another connection in the middle of a frame has no part in it
	for c, cfg := range []string{"00000", "00100", "01010", "11110"} {
		if c%nshards == shard {
			for _, t := range srvTemplatesC15 {
				emit("srv " + cfg + " " + t)
			}
		}
	}
	// the consumer of the classifier: a frame is dispatched only once the announced number of bytes is there
	genC15("sample", rng, shard, nshards, emit)
	genNewreqP(rng, shard, nshards, emit)
	// prefixes of encodable frames
	sweepNewArgs("cls", tier, rng, shard, nshards, []string{"t"}, func(op string) {
		// op = "cls <args>"; append prefix lengths
		ks := []int{0, 1, 5, 6, 7, 8, 9, 11, 12, 13, 17, 20, 100, 259, 260, 1000}
		for _, k := range ks[:] {
			if rng.Intn(3) == 0 || k == 7 || k == 8 || k == 1000 {
				emit(fmt.Sprintf("%s %d", op, k))
			}
		}
	})
	// every 8-byte header
	i := 0
	lfs := []int{}
	if tier == "thorough" {
		for l := 0; l <= 65535; l++ {
			lfs = append(lfs, l)
		}
	} else {
		for l := 0; l <= 300; l++ {
			lfs = append(lfs, l)
		}
		lfs = append(lfs, 65535, 65534, 32768, 1000, 2000, 4096)
	}
	for _, lf := range lfs {
		for fc := 0; fc <= 255; fc++ {
			i++
			if !mine(i, shard, nshards) {
				continue
			}
			if tier != "thorough" && lf > 30 && fc > 24 && fc%16 != 0 && fc != 128+fc%8 {
				continue
			}
			if tier == "thorough" && lf > 400 && fc > 24 && fc%32 != 1 {
				continue
			}
			protos := []int{0}
			if lf < 12 || fc < 3 {
				protos = []int{0, 1, 256}
			}
			if lf >= 3 && lf <= 8 && fc <= 24 {
				protos = append(protos, 0x01FF, 0x8080, 0xFF01, 0x00FF, 0xFF00)
			}
			for _, p := range protos {
				tid := tidv(rng)
				h := []byte{byte(tid >> 8), byte(tid), byte(p >> 8), byte(p), byte(lf >> 8), byte(lf), byte(u8(rng)), byte(fc)}
				n := lf + 6 - 8
				if n < 0 {
					n = 0
				}
				if n > 300 {
					n = 300
				}
				body := rbytes(rng, n)
				if rng.Intn(2) == 0 {
					for k := range body {
						body[k] = byte(rng.Intn(3))
					}
					// consistent byte count for the write functions
					switch fc {
					case 15, 16:
						if n >= 5 {
							body[4] = byte(n - 5)
							if fc == 16 {
								body[3] = byte((n - 5) / 2)
							} else {
								body[2], body[3] = byte(((n-5)*8)>>8), byte((n-5)*8)
							}
						}
					case 23:
						if n >= 9 {
							body[8] = byte(n - 9)
							body[7] = byte((n - 9) / 2)
							body[3] = byte(1 + rng.Intn(125))
						}
					}
				}
				emit(fmt.Sprintf("hdr %s %s", hx(h), hx(body)))
			}
		}
	}
}

func hxOrDash(b []byte) string {
	if len(b) == 0 {
		return "-"
	}
	return hx(b)
}
