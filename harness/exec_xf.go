package main

// `xf` operations: ExtractFields on a request value the caller put together itself (BuilderRequest is a plain struct):
// the fields are in the order given - unsorted, overlapping, repeated, before the start address, beyond the payload.
//   xf <r|c> <lenient 0|1> <start> <payload hex> <fields>
// output: <first call> | <the same call again> | solo:<every field extracted alone from a fresh copy> | payload=<same|CHANGED>
//   call = all|some|failed  name=val,name=!err,...

import (
	"bytes"
	"fmt"
	"reflect"
	"strings"

	modbus "github.com/aldas/go-modbus-client"
	"github.com/aldas/go-modbus-client/packet"
)

// xfResponse builds the response value: every response type that carries this kind of payload, as a value and as a
// pointer (the parsers return pointers, callers build values), chosen by `which`
func xfResponse(kind string, payload []byte, which int) packet.Response {
	n := uint8(len(payload))
	switch (which / 16) % 4 {
	case 1:
		n = uint8(len(payload) / 2) // the byte count FIELD of a hand-built value need not agree with the payload
	case 2:
		n = 0
	}
	if kind == "c" {
		c := packet.ReadCoilsResponse{UnitID: 1, CoilsByteLength: n, Data: payload}
		d := packet.ReadDiscreteInputsResponse{UnitID: 1, InputsByteLength: n, Data: payload}
		switch which % 8 {
		case 0:
			return packet.ReadCoilsResponseTCP{ReadCoilsResponse: c}
		case 1:
			return &packet.ReadCoilsResponseTCP{ReadCoilsResponse: c}
		case 2:
			return packet.ReadCoilsResponseRTU{ReadCoilsResponse: c}
		case 3:
			return &packet.ReadCoilsResponseRTU{ReadCoilsResponse: c}
		case 4:
			return packet.ReadDiscreteInputsResponseTCP{ReadDiscreteInputsResponse: d}
		case 5:
			return &packet.ReadDiscreteInputsResponseTCP{ReadDiscreteInputsResponse: d}
		case 6:
			return packet.ReadDiscreteInputsResponseRTU{ReadDiscreteInputsResponse: d}
		}
		return &packet.ReadDiscreteInputsResponseRTU{ReadDiscreteInputsResponse: d}
	}
	h := packet.ReadHoldingRegistersResponse{UnitID: 1, RegisterByteLen: n, Data: payload}
	i := packet.ReadInputRegistersResponse{UnitID: 1, RegisterByteLen: n, Data: payload}
	w := packet.ReadWriteMultipleRegistersResponse{UnitID: 1, RegisterByteLen: n, Data: payload}
	switch which % 10 {
	case 0:
		return packet.ReadHoldingRegistersResponseTCP{ReadHoldingRegistersResponse: h}
	case 1:
		return &packet.ReadHoldingRegistersResponseTCP{ReadHoldingRegistersResponse: h}
	case 2:
		return packet.ReadHoldingRegistersResponseRTU{ReadHoldingRegistersResponse: h}
	case 3:
		return &packet.ReadHoldingRegistersResponseRTU{ReadHoldingRegistersResponse: h}
	case 4:
		return packet.ReadInputRegistersResponseTCP{ReadInputRegistersResponse: i}
	case 5:
		return &packet.ReadInputRegistersResponseTCP{ReadInputRegistersResponse: i}
	case 6:
		return packet.ReadInputRegistersResponseRTU{ReadInputRegistersResponse: i}
	case 7:
		return &packet.ReadInputRegistersResponseRTU{ReadInputRegistersResponse: i}
	case 8:
		return packet.ReadWriteMultipleRegistersResponseTCP{ReadWriteMultipleRegistersResponse: w}
	}
	return &packet.ReadWriteMultipleRegistersResponseRTU{ReadWriteMultipleRegistersResponse: w}
}

func xfCall(req modbus.BuilderRequest, resp packet.Response, lenient bool) string {
	s, _ := xfCallKeep(req, resp, lenient)
	return s
}

// xfRender renders a result the caller holds (the values, without the overall verdict)
func xfRender(vals []modbus.FieldValue) string {
	return guarded(func() string {
		strs := make([]string, len(vals))
		for j, fv := range vals {
			if fv.Error != nil {
				strs[j] = fv.Field.Name + "=!err"
			} else {
				strs[j] = fv.Field.Name + "=" + valueStr(fv.Value)
			}
		}
		return strings.Join(strs, ",")
	})
}

// errChain renders everything a caller can reach from an error through Unwrap (single and multiple)
func errChain(err error) string {
	if err == nil || isNilValue(err) {
		return "nil"
	}
	s := fmt.Sprintf("%T:%v", err, err)
	switch u := err.(type) {
	case interface{ Unwrap() error }:
		s += "(" + errChain(u.Unwrap()) + ")"
	case interface{ Unwrap() []error }:
		for _, e := range u.Unwrap() {
			s += "[" + errChain(e) + "]"
		}
	}
	return s
}

func xfCallKeep(req modbus.BuilderRequest, resp packet.Response, lenient bool) (out string, kept []modbus.FieldValue) {
	out, kept, _ = xfCallKeepErr(req, resp, lenient)
	return out, kept
}

func xfCallKeepErr(req modbus.BuilderRequest, resp packet.Response, lenient bool) (out string, kept []modbus.FieldValue, keptErr error) {
	out = guarded(func() string {
		vals, xerr := req.ExtractFields(resp, lenient)
		kept = vals
		keptErr = xerr
		strs := make([]string, len(vals))
		for j, fv := range vals {
			if fv.Error != nil {
				strs[j] = fv.Field.Name + "=!err"
			} else {
				strs[j] = fv.Field.Name + "=" + valueStr(fv.Value)
			}
		}
		switch {
		case xerr == nil:
			return "all " + strings.Join(strs, ",")
		case xerr == modbus.ErrorFieldExtractHadError:
			return "some " + strings.Join(strs, ",")
		}
		if vals != nil {
			return "failed-VALUE-NONNIL "
		}
		return "failed "
	})
	return out, kept, keptErr
}

func execXf(ts []string) string {
	kind, lenient, start, payload := ts[1], ts[2] == "1", uint16(atoi(ts[3])), unhx(ts[4])
	fields := parseFields(ts[5])
	orig := append([]byte{}, payload...)
	work := append([]byte{}, payload...)
	req := modbus.BuilderRequest{ServerAddress: "x", UnitID: 1, StartAddress: start, Fields: fields}
	which := variantOf(ts[4] + ts[5])
	resp := xfResponse(kind, work, which)
	first, held, heldErr := xfCallKeepErr(req, resp, lenient)
	heldAs := xfRender(held) + " " + guarded(func() string { return errChain(heldErr) })
	second := xfCall(req, resp, lenient)
	same := "same"
	if !bytes.Equal(work, orig) {
		same = "CHANGED"
	}
	// the response value itself (a pointer was handed in): its payload slice is what it was
	if rv := reflect.Indirect(reflect.ValueOf(resp)); rv.Kind() == reflect.Struct {
		if f := rv.FieldByName("Data"); f.IsValid() && f.Kind() == reflect.Slice && (f.Len() != len(orig) || !bytes.Equal(f.Bytes(), orig)) {
			same = "CHANGED"
		}
	}
	solo := make([]string, len(fields))
	for i, f := range parseFields(ts[5]) {
		one := modbus.BuilderRequest{ServerAddress: "x", UnitID: 1, StartAddress: start, Fields: modbus.Fields{f}}
		s := xfCall(one, xfResponse(kind, append([]byte{}, orig...), which), true)
		switch {
		case strings.HasPrefix(s, "failed"):
			s = "!refused" // the response as a whole was refused (no register view of an odd number of bytes)
		case strings.HasPrefix(s, "all ") || strings.HasPrefix(s, "some "):
			s = s[strings.Index(s, " ")+1:]
		}
		solo[i] = s
	}
	// the result of the first extraction is the caller's: the extractions made since (the same one again, every field
	// alone) have not touched it
	// (one more extraction that fails in another way, so that an error kept from the first one has something to lose)
	_, _ = modbus.BuilderRequest{ServerAddress: "x", UnitID: 1, StartAddress: start, Fields: modbus.Fields{{Name: "zz", Address: start ^ 0x8000, Type: modbus.FieldTypeUint16}}}.ExtractFields(xfResponse(kind, append([]byte{}, orig...), which), true)
	if xfRender(held)+" "+guarded(func() string { return errChain(heldErr) }) != heldAs {
		first += " RETAINED-RESULT-CHANGED-BY-A-LATER-EXTRACTION"
	}
	return fmt.Sprintf("%s | %s | solo:%s | payload=%s", first, second, strings.Join(solo, ","), same)
}
