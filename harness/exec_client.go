package main

// `do` operations: one request call of a client against a scripted transport.

import (
	"context"
	"errors"
	"fmt"
	"hash/fnv"
	"io"
	"net"
	"os"
	"reflect"
	"strings"
	"sync"
	"time"

	modbus "github.com/aldas/go-modbus-client"
	"github.com/aldas/go-modbus-client/packet"
)

var (
	errInjectedIO    = errors.New("injected i/o error")
	errInjectedWrite = errors.New("injected write error")
	errInjectedFlush = errors.New("injected flush error")
	// an i/o failure as the net package reports it when the connection was closed under the reader
	errInjectedClosed = fmt.Errorf("%w: %w", errInjectedIO, net.ErrClosed)
	// an i/o failure whose cause is a context error of the transport's own (a tunnel's keep-alive), not the caller's
	errInjectedCtxCause = fmt.Errorf("%w: %w", errInjectedIO, context.DeadlineExceeded)
	// an i/o failure that calls itself a timeout (connection timed out) without being a read deadline
	errInjectedTimedOut error = timedOutErr{}
)

type timedOutErr struct{}

func (timedOutErr) Error() string   { return "read: connection timed out" }
func (timedOutErr) Timeout() bool   { return true }
func (timedOutErr) Temporary() bool { return false }
func (timedOutErr) Unwrap() error   { return errInjectedIO }

type readEv struct {
	kind string // d t e x c
	data []byte
}

// scriptedConn is the transport: it serves the script one event per Read call. A chunk larger than the
// slice handed to Read is split (the rest is served by the following reads). When the script is
// exhausted every read times out (after waiting for the read deadline, if one was set).
type scriptedConn struct {
	mu          sync.Mutex
	script      []readEv
	pending     []byte
	writeFails  bool
	written     []byte
	served      []string
	deadline    time.Time
	cancel      context.CancelFunc
	stalled     int
	serial      bool
	closed      bool
	closedErr   bool // i/o errors of the script are reported as wrapping net.ErrClosed
	quietStall  bool // a silent serial line is reported as (0, nil) instead of a deadline error
	shortWrite  bool // the first Write takes all but the last byte
	partialFail bool // a failing Write reports that it took some of the bytes before it failed
	noDeadlines bool // SetReadDeadline is not supported by this transport (a tunnel, a pipe): it reports an error
	ioErrKind   int  // which i/o error the script's failures are (0 plain, 1 wraps a context error, 2 calls itself a timeout)
	pace        time.Duration
	began       time.Time     // first Read
	total       time.Duration // the client's total read timeout
	lateReads   int           // Read calls that STARTED later than total+50ms after the first Read
	writes      int
	lastErr     error // the error value the last Read returned
	slowBy      time.Duration
}

func (c *scriptedConn) Write(p []byte) (int, error) {
	c.mu.Lock()
	defer c.mu.Unlock()
	c.written = append(c.written, p...)
	c.writes++
	_ = c.began // (set by the first Read: both clients arm their total read timer just before it)
	if c.writeFails {
		if c.partialFail && len(p) > 1 {
			return len(p) / 2, errInjectedWrite
		}
		return 0, errInjectedWrite
	}
	if c.shortWrite && c.writes == 1 && len(p) > 1 {
		return len(p) - 1, nil // io.Writer: fewer bytes than given and no error is not allowed, but ports do it
	}
	return len(p), nil
}

func (c *scriptedConn) Read(p []byte) (int, error) {
	c.mu.Lock()
	// The total read timer is armed after the write (the serial client first pauses for 30 ms - longer when the process is
	// cold) and just before the first Read: that is where the clock of this count starts. A client can start at most one
	// Read after its timer has fired (the one it was about to make).
	if c.total > 0 {
		if c.began.IsZero() {
			c.began = time.Now()
		} else if time.Since(c.began) > c.total+50*time.Millisecond {
			c.lateReads++
		}
	}
	serve := func(data []byte, err error, tag string) (int, error) {
		c.lastErr = err
		n := copy(p, data)
		c.served = append(c.served, fmt.Sprintf("r:%s:%d:%s", hx(data[:n]), n, tag))
		c.mu.Unlock()
		return n, err
	}
	if len(c.pending) > 0 {
		n := len(c.pending)
		if n > len(p) {
			n = len(p)
		}
		d := c.pending[:n]
		c.pending = c.pending[n:]
		return serve(d, nil, "nil")
	}
	if len(c.script) == 0 {
		// stall: wait for the deadline (network) or a little (serial), then time out
		c.stalled++
		dl := c.deadline
		c.mu.Unlock()
		if c.serial || dl.IsZero() {
			time.Sleep(300 * time.Microsecond)
		} else if d := time.Until(dl); d > 0 {
			time.Sleep(d)
		}
		if c.serial && c.quietStall {
			c.mu.Lock()
			c.lastErr = nil
			c.mu.Unlock()
			return 0, nil // a serial library that reports its read timeout as "nothing read, no error"
		}
		c.mu.Lock()
		c.lastErr = os.ErrDeadlineExceeded
		c.mu.Unlock()
		return 0, os.ErrDeadlineExceeded
	}
	ev := c.script[0]
	c.script = c.script[1:]
	switch ev.kind {
	case "sd":
		// the read that delivers these bytes returns only after the total read timeout of the call has passed
		c.mu.Unlock()
		time.Sleep(c.slowBy)
		c.mu.Lock()
		n := len(ev.data)
		if n > len(p) {
			n = len(p)
		}
		return serve(ev.data[:n], nil, "nil")
	case "p":
		// a slow device: these bytes arrive a third of the total read timeout after the read was started
		c.mu.Unlock()
		time.Sleep(c.pace)
		c.mu.Lock()
		n := len(ev.data)
		if n > len(p) {
			n = len(p)
		}
		return serve(ev.data[:n], nil, "nil")
	case "d":
		n := len(ev.data)
		if n > len(p) {
			c.pending = ev.data[len(p):]
			n = len(p)
		}
		return serve(ev.data[:n], nil, "nil")
	case "t":
		return serve(nil, os.ErrDeadlineExceeded, "timeout")
	case "td":
		// bytes together with a deadline error (io.Reader: "may return n > 0 and a non-nil error")
		n := len(ev.data)
		if n > len(p) {
			n = len(p)
		}
		return serve(ev.data[:n], os.ErrDeadlineExceeded, "timeout")
	case "e":
		n := len(ev.data)
		if n > len(p) {
			n = len(p)
		}
		return serve(ev.data[:n], io.EOF, "eof")
	case "x":
		n := len(ev.data)
		if n > len(p) {
			n = len(p)
		}
		if c.closedErr {
			return serve(ev.data[:n], errInjectedClosed, "io")
		}
		switch c.ioErrKind {
		case 1:
			return serve(ev.data[:n], errInjectedCtxCause, "io")
		case 2:
			return serve(ev.data[:n], errInjectedTimedOut, "io")
		}
		return serve(ev.data[:n], errInjectedIO, "io")
	case "c":
		if c.cancel != nil {
			c.cancel()
		}
		return serve(nil, os.ErrDeadlineExceeded, "timeout")
	}
	c.mu.Unlock()
	return 0, errInjectedIO
}

func (c *scriptedConn) Close() error                       { c.closed = true; return nil }
func (c *scriptedConn) LocalAddr() net.Addr                { return &net.TCPAddr{} }
func (c *scriptedConn) RemoteAddr() net.Addr               { return &net.TCPAddr{} }
func (c *scriptedConn) SetDeadline(t time.Time) error      { return nil }
func (c *scriptedConn) SetWriteDeadline(t time.Time) error { return nil }
func (c *scriptedConn) SetReadDeadline(t time.Time) error {
	c.mu.Lock()
	defer c.mu.Unlock()
	if c.noDeadlines {
		return errors.New("deadlines are not supported by this transport")
	}
	c.deadline = t
	return nil
}

// serial ports with and without Flush
type serialNoFlush struct{ *scriptedConn }
type serialFlush struct {
	*scriptedConn
	fail bool
}

func (s serialFlush) Flush() error {
	if s.fail {
		return errInjectedFlush
	}
	return nil
}

// zeroHooks is a stateless hooks VALUE (the zero value of its type): it reports to the recorder registered for the
// goroutine that makes the call
type zeroHooks struct{}

var zeroHookRecs sync.Map // goroutine id -> *hookRec

func (zeroHooks) rec() *hookRec {
	if r, ok := zeroHookRecs.Load(goid()); ok {
		return r.(*hookRec)
	}
	return &hookRec{}
}
func (z zeroHooks) BeforeWrite(b []byte)                     { z.rec().BeforeWrite(b) }
func (z zeroHooks) AfterEachRead(b []byte, n int, err error) { z.rec().AfterEachRead(b, n, err) }
func (z zeroHooks) BeforeParse(b []byte)                     { z.rec().BeforeParse(b) }

type hookRec struct {
	mu     sync.Mutex
	log    []string
	conn   *scriptedConn
	parses int // calls of the (instrumented) parser
	bps    int // calls of BeforeParse
}

// instrumented wraps a response parser: the recorder learns when the parser is entered
func (h *hookRec) instrumented(f func([]byte) (packet.Response, error)) func([]byte) (packet.Response, error) {
	return func(b []byte) (packet.Response, error) {
		h.mu.Lock()
		h.parses++
		h.mu.Unlock()
		return f(b)
	}
}

func (h *hookRec) BeforeWrite(b []byte) {
	h.mu.Lock()
	h.log = append(h.log, "bw:"+hx(b))
	h.mu.Unlock()
}
func (h *hookRec) AfterEachRead(b []byte, n int, err error) {
	tag := "nil"
	switch {
	case err == nil:
	case errors.Is(err, os.ErrDeadlineExceeded):
		tag = "timeout"
	case errors.Is(err, io.EOF):
		tag = "eof"
	default:
		tag = "io"
	}
	if h.conn != nil && err != nil {
		h.conn.mu.Lock()
		same := err == h.conn.lastErr
		h.conn.mu.Unlock()
		if !same {
			tag += "!not-the-error-the-read-returned"
		}
	}
	h.mu.Lock()
	h.log = append(h.log, fmt.Sprintf("r:%s:%d:%s", hx(b), n, tag))
	h.mu.Unlock()
}
func (h *hookRec) BeforeParse(b []byte) {
	h.mu.Lock()
	if h.parses > h.bps {
		// the parser of this call has already been entered
		h.log = append(h.log, "BP-AFTER-THE-PARSER:"+hx(b))
	} else {
		h.log = append(h.log, "bp:"+hx(b))
	}
	h.bps++
	h.mu.Unlock()
}

func parseScript(s string) (evs []readEv, writeFails bool, preCancel bool) {
	if s == "-" {
		return nil, false, false
	}
	for i, t := range strings.Split(s, ";") {
		if i == 0 && t == "w" {
			writeFails = true
			continue
		}
		if (t == "pc" || t == "pcd") && len(evs) == 0 && !preCancel {
			preCancel = true
			continue
		}
		switch {
		case t == "t" || t == "c":
			evs = append(evs, readEv{kind: t})
		case t == "cd":
			evs = append(evs, readEv{kind: "c"})
		case strings.HasPrefix(t, "td:"):
			evs = append(evs, readEv{kind: "td", data: unhx(t[3:])})
		case strings.HasPrefix(t, "sd:"):
			evs = append(evs, readEv{kind: "sd", data: unhx(t[3:])})
		case len(t) >= 2 && t[1] == ':':
			evs = append(evs, readEv{kind: t[:1], data: unhx(t[2:])})
		default:
			panic("bad script event " + t)
		}
	}
	return
}

func clientErrStr(err error) string {
	if err == nil {
		return "nil"
	}
	if errors.Is(err, errInjectedIO) {
		// the transport's own failure (whatever it wraps): the library's client error wrapping it
		var ce *modbus.ClientError
		if errors.As(err, &ce) {
			return "err client:io"
		}
		return "err io-NOT-WRAPPED-IN-THE-CLIENT-ERROR"
	}
	if errors.Is(err, context.Canceled) || errors.Is(err, context.DeadlineExceeded) {
		var ce *modbus.ClientError
		if errors.As(err, &ce) {
			// the context's error dressed up as the library's retryable error
			return "err client:ctx-wrapped"
		}
		return "err ctx"
	}
	if err == error(&modbus.ErrPacketTooLong) {
		return "err toolong"
	}
	if err == error(&modbus.ErrClientNotConnected) || err.Error() == "serial port is not set" {
		return "err notconnected"
	}
	if err.Error() == "request can not be nil" {
		return "err nilreq"
	}
	var ce *modbus.ClientError
	if errors.As(err, &ce) {
		var et *packet.ErrorResponseTCP
		var er *packet.ErrorResponseRTU
		// exceptions travel as pointers; a caller probing with a value target must not be told "device exception" either
		var etv packet.ErrorResponseTCP
		var erv packet.ErrorResponseRTU
		if (errors.As(err, &etv) && !errors.As(err, &et)) || (errors.As(err, &erv) && !errors.As(err, &er)) {
			return "err client:AS-VALUE-TARGET-MATCHES"
		}
		switch {
		case errors.As(err, &et):
			return "err client:" + errStr(et)
		case errors.As(err, &er):
			return "err client:" + errStr(er)
		case errors.Is(err, errInjectedIO):
			return "err client:io"
		case errors.Is(err, errInjectedWrite):
			return "err client:write"
		case errors.Is(err, errInjectedFlush):
			return "err client:flush"
		case ce.Err != nil && ce.Err.Error() == "no bytes received":
			return "err client:nobytes"
		case ce.Err != nil && ce.Err.Error() == "total read timeout exceeded":
			return "err client:timeout"
		}
		return "err client:other"
	}
	return "err parse:" + errStr(err)
}

// closeBlocks reports whether Close() of the client fails to return: every path out of Do must leave the client usable
func closeBlocks(closeFn func() error) bool {
	ch := make(chan struct{})
	go func() {
		defer func() { _ = recover(); close(ch) }()
		_ = closeFn()
	}()
	select {
	case <-ch:
		return false
	case <-time.After(20 * time.Second):
		return true
	}
}

// scriptedCtx is a caller's context that ends by its DEADLINE at a moment the script chooses
type scriptedCtx struct {
	context.Context
	done chan struct{}
	mu   sync.Mutex
	err  error
}

func (c *scriptedCtx) Done() <-chan struct{} { return c.done }
func (c *scriptedCtx) Err() error {
	c.mu.Lock()
	defer c.mu.Unlock()
	return c.err
}
func (c *scriptedCtx) expire() {
	c.mu.Lock()
	defer c.mu.Unlock()
	if c.err == nil {
		c.err = context.DeadlineExceeded
		close(c.done)
	}
}

func variantOf(s string) int {
	h := fnv.New32a()
	_, _ = h.Write([]byte(s))
	return int(h.Sum32() % 1000)
}

// newNetClient builds a network client for the framing through one of the public constructors
func newNetClient(kind string, conf modbus.ClientConfig, variant int, rec *hookRec) *modbus.Client {
	// a parser given by the caller is instrumented: the recorder sees when it is entered (a metrics wrapper)
	wrap := func(f func([]byte) (packet.Response, error)) func([]byte) (packet.Response, error) {
		if rec == nil {
			return f
		}
		return rec.instrumented(f)
	}
	if kind == "t" {
		switch variant % 8 {
		case 1:
			return modbus.NewClient(conf)
		case 2:
			conf.ParseResponseFunc = wrap(packet.ParseTCPResponse)
			return modbus.NewClient(conf)
		case 3:
			conf.AsProtocolErrorFunc = packet.AsTCPErrorPacket
			return modbus.NewClient(conf)
		case 4:
			conf.AsProtocolErrorFunc = packet.AsTCPErrorPacket
			conf.ParseResponseFunc = wrap(packet.ParseTCPResponse)
			return modbus.NewClient(conf)
		}
		return modbus.NewTCPClientWithConfig(conf)
	}
	switch variant % 6 {
	case 1:
		conf.AsProtocolErrorFunc = packet.AsRTUErrorPacketWithCRC
		conf.ParseResponseFunc = wrap(packet.ParseRTUResponseWithCRC)
		return modbus.NewClient(conf)
	case 2:
		// the RTU constructor given one of the two protocol functions of its own framing: still an RTU client
		conf.ParseResponseFunc = wrap(packet.ParseRTUResponseWithCRC)
		return modbus.NewRTUClientWithConfig(conf)
	case 3:
		conf.AsProtocolErrorFunc = packet.AsRTUErrorPacketWithCRC
		return modbus.NewRTUClientWithConfig(conf)
	}
	return modbus.NewRTUClientWithConfig(conf)
}

// runDo performs one call; returns outcome, hook log and the reads the transport served.
// The client's total read timeout is real time. A call that ends in that timeout although the transport still had
// scripted events to deliver was not given the CPU to read them in time (the scripted reads themselves never wait):
// it says nothing about the client and is repeated with a longer timeout.
func runDo(kind string, hooks bool, flusher string, reqSpec string, script string, reply []byte) (string, string, string) {
	o, l, c, early := runDoOnce(kind, hooks, flusher, reqSpec, script, 1, reply)
	for _, scale := range []int{8, 64} {
		if !early {
			break
		}
		o, l, c, early = runDoOnce(kind, hooks, flusher, reqSpec, script, scale, reply)
	}
	if kind == "s" && o == "err client:timeout" && variantOf("zero"+reqSpec+script)%4 == 0 {
		// a read timeout of zero (or less) is a legal option value: the stalled call still ends, and at once
		if po, _, _, _ := runDoOnce(kind, hooks, flusher, reqSpec, script, -1, reply); strings.HasPrefix(po, "HANG") {
			return po, l, c
		}
	}
	if kind == "s" && strings.HasPrefix(o, "ok ") {
		// the same exchange with a read timeout shorter than the pause the serial client makes before it starts reading:
		// the whole reply is waiting on the port, so the call must not time out. A timeout reported without a single
		// Read having been made, three times in a row, is not starvation.
		n := 0
		po := ""
		for ; n < 3; n++ {
			var pc string
			po, _, pc, _ = runDoOnce(kind, hooks, flusher, reqSpec, script, 0, reply)
			if !strings.Contains(po, "client:timeout") || strings.Contains(pc, ",r:") {
				break
			}
		}
		if n == 3 {
			// confirmed three more times before it is believed
			for ; n < 6; n++ {
				var pc string
				po, _, pc, _ = runDoOnce(kind, hooks, flusher, reqSpec, script, 0, reply)
				if !strings.Contains(po, "client:timeout") || strings.Contains(pc, ",r:") {
					break
				}
			}
			if n == 6 {
				return po, l, c
			}
		}
	}
	return o, l, c
}

func runDoOnce(kind string, hooks bool, flusher string, reqSpec string, script string, scale int, reply []byte) (string, string, string, bool) {
	evs, writeFails, preCancel := parseScript(script)
	ctx, cancel := context.WithCancel(context.Background())
	defer cancel()
	if variantOf("ctx"+reqSpec+script)%3 == 2 {
		// a context with a deadline far beyond everything else: the client's own read timeout still bounds the wait
		dctx, dc := context.WithTimeout(context.Background(), time.Hour)
		ctx, cancel = dctx, dc
		defer cancel()
	}
	if variantOf("ctx"+reqSpec+script)%3 == 1 {
		// a context cancelled WITH A CAUSE: the call still reports the context's error (ctx.Err()), not the cause
		cctx, cc := context.WithCancelCause(context.Background())
		ctx, cancel = cctx, func() { cc(errors.New("operator pressed stop")) }
		defer cancel()
	}
	if strings.Contains(";"+script+";", ";cd;") || strings.Contains(";"+script+";", ";pcd;") {
		// the context ends by deadline expiry instead of an explicit cancel
		sc := &scriptedCtx{Context: context.Background(), done: make(chan struct{})}
		ctx, cancel = sc, sc.expire
	}
	if preCancel {
		cancel()
	}
	conn := &scriptedConn{script: evs, writeFails: writeFails, cancel: cancel, serial: kind == "s",
		closedErr: variantOf("x"+reqSpec+script)%2 == 1, quietStall: variantOf("q"+reqSpec+script)%2 == 1,
		shortWrite: kind == "s" && variantOf("sw"+reqSpec+script)%3 == 1, partialFail: variantOf("pf"+reqSpec+script)%2 == 1,
		noDeadlines: kind != "s" && variantOf("nd"+reqSpec+script)%5 == 0}
	if v := variantOf("iok"+reqSpec+script) % 6; v == 1 || v == 2 {
		conn.ioErrKind = v
	}
	paced := strings.Contains(";"+script, ";p:")
	rec := &hookRec{conn: conn}
	failedConnect := strings.HasPrefix(reqSpec, "ncf:")
	notConnected := strings.HasPrefix(reqSpec, "nc:") || failedConnect
	if failedConnect {
		reqSpec = reqSpec[4:]
	} else if notConnected {
		reqSpec = reqSpec[3:]
	}
	var req packet.Request
	if reqSpec != "nil" {
		p := strings.Split(reqSpec, ",")
		fr := "t"
		if kind != "t" {
			fr = "r"
		}
		a := parseNewArgs([]string{p[0], fr, p[1], p[2], p[3], p[4], p[5], p[6], p[7], p[8]})
		r, err := construct(a)
		if err != nil {
			return "NOREQ", "-", "-", false
		}
		req = r
	}
	// a stalled transport ends with the total read timeout; keep it short but far above the script's run time
	readTimeout := 30 * time.Second
	stalls := true
	if len(evs) > 0 {
		last := evs[len(evs)-1].kind
		stalls = last == "d" || last == "p" || last == "t" || last == "td" || (last == "e" && kind == "s")
	}
	if stalls {
		readTimeout = time.Duration(scale) * 120 * time.Millisecond
	}
	if strings.Contains(script, "sd:") && scale > 0 {
		readTimeout = time.Duration(scale) * 120 * time.Millisecond
		conn.slowBy = readTimeout + 40*time.Millisecond
	}
	// some of the complete exchanges are made with a short timeout and repeated on the same client after it sat idle
	// for longer than that timeout
	idleProbe := !stalls && scale > 0 && variantOf("idle"+reqSpec+script)%6 == 2
	if idleProbe {
		readTimeout = time.Duration(scale) * 150 * time.Millisecond
	}
	if scale == 0 {
		readTimeout = 20 * time.Millisecond
	}
	if scale < 0 {
		readTimeout = 0
	}
	// "not configured" said with a negative number: the defaults apply (2 s), as with zero
	negTimeout := !stalls && !paced && scale == 1 && kind != "s" && variantOf("neg"+reqSpec+script)%7 == 0
	conn.pace, conn.total = readTimeout/3, readTimeout
	if !paced {
		conn.total = 0
	}
	var resp packet.Response
	var err error
	var took time.Duration
	closeHangs := false
	// what the transport and the hooks saw during THE call (a follow-up call is made afterwards on the same client)
	var snap struct {
		taken   bool
		log     []string
		served  []string
		written []byte
		stalled int
		unread  bool
	}
	takeSnap := func() {
		if snap.taken {
			return
		}
		snap.taken = true
		conn.mu.Lock()
		snap.stalled = conn.stalled
		snap.served = append([]string{}, conn.served...)
		snap.written = append([]byte{}, conn.written...)
		snap.unread = len(conn.script) > 0 || len(conn.pending) > 0
		conn.mu.Unlock()
		rec.mu.Lock()
		snap.log = append([]string{}, rec.log...)
		rec.mu.Unlock()
	}
	// a response handed to the caller stays what it is: the next call on the same client (its reply is the bitwise
	// complement of this one, followed by an i/o error) must not rewrite it
	aliased := false
	secondCall := ""
	// freshDo makes the same request as the first call of a new client of the same kind on a new transport
	var freshDo func(evs []readEv) (packet.Response, error)
	followUp := func(again func() (packet.Response, error)) {
		takeSnap()
		if paced {
			return
		}
		if err != nil && scale > 0 && hooks && len(reply) > 0 && clientErrStr(err) == "err ctx" {
			// the call was abandoned by its caller; the client is used again: the hook still hears of every read the
			// transport serves (nothing is read on the quiet)
			conn.mu.Lock()
			conn.script = []readEv{{kind: "d", data: append([]byte{}, reply...)}, {kind: "x"}}
			conn.pending = nil
			servedBefore, stalledBefore := len(conn.served), conn.stalled
			conn.mu.Unlock()
			rec.mu.Lock()
			logBefore := len(rec.log)
			rec.mu.Unlock()
			func() {
				defer func() { _ = recover() }()
				_, _ = again()
			}()
			conn.mu.Lock()
			transportReads := len(conn.served) - servedBefore + conn.stalled - stalledBefore
			conn.mu.Unlock()
			hookReads := 0
			rec.mu.Lock()
			for _, l := range rec.log[logBefore:] {
				if strings.HasPrefix(l, "r:") {
					hookReads++
				}
			}
			rec.mu.Unlock()
			if hookReads != transportReads {
				secondCall = fmt.Sprintf("NEXT-CALL-READS-%d-HOOK-HEARD-%d", transportReads, hookReads)
			}
			return
		}
		if scale > 0 && len(reply) > 0 && !notConnected && req != nil && freshDo != nil &&
			((err != nil && (strings.Contains(clientErrStr(err), "exc") || variantOf("second"+reqSpec+script)%3 == 0)) ||
				(err == nil && strings.Contains(script, "sd:"))) {
			// the exchange failed; the next exchange on the same client is treated like the first exchange on a new client
			// (the reply is delivered whole, then the line fails). Timeouts are the machine's business and say nothing.
			render := func(r packet.Response, e error) string {
				if e != nil {
					return clientErrStr(e)
				}
				if isNilValue(r) {
					return "nil-nil"
				}
				return "ok " + respStr(r)
			}
			second := ""
			tooEarly := false
			for attempt := 0; attempt < 3; attempt++ {
				conn.mu.Lock()
				conn.script = []readEv{{kind: "d", data: append([]byte{}, reply...)}, {kind: "x"}}
				conn.pending = nil
				conn.writeFails = false
				conn.mu.Unlock()
				var r2 packet.Response
				var e2 error
				func() {
					defer func() {
						if recover() != nil {
							e2 = errors.New("PANIC")
						}
					}()
					t0 := time.Now()
					r2, e2 = again()
					// "total read timeout exceeded" before the total read timeout can have passed is not the machine's doing
					if e2 != nil && strings.Contains(clientErrStr(e2), "client:timeout") && time.Since(t0) < readTimeout*7/10 {
						tooEarly = true
					}
				}()
				second = render(r2, e2)
				if tooEarly || !strings.Contains(second, "client:timeout") {
					break
				}
			}
			fresh := ""
			for attempt := 0; attempt < 3; attempt++ {
				fresh = render(freshDo([]readEv{{kind: "d", data: append([]byte{}, reply...)}, {kind: "x"}}))
				if !strings.Contains(fresh, "client:timeout") {
					break
				}
			}
			if tooEarly {
				secondCall = "CALL-AFTER-A-FAILED-ONE-DIFFERS-FROM-THE-FIRST-CALL-OF-A-NEW-CLIENT:timeout-reported-before-the-read-timeout-had-passed"
			} else if second != fresh && !strings.Contains(second, "client:timeout") && !strings.Contains(fresh, "client:timeout") {
				secondCall = "CALL-AFTER-A-FAILED-ONE-DIFFERS-FROM-THE-FIRST-CALL-OF-A-NEW-CLIENT:" + strings.ReplaceAll(second, " ", "_")
			}
			return
		}
		if err != nil || isNilValue(resp) || scale <= 0 {
			return
		}
		before := respStr(resp)
		if idleProbe {
			// the same exchange once more, after an idle period: the same answer (a timeout that is reported although
			// reads were made is starvation and says nothing)
			var r2 packet.Response
			var e2 error
			reads := 0
			for attempt := 0; attempt < 3; attempt++ {
				time.Sleep(readTimeout + 50*time.Millisecond)
				conn.mu.Lock()
				conn.script = append([]readEv{}, evs...)
				conn.pending = nil
				servedBefore := len(conn.served)
				conn.mu.Unlock()
				r2, e2 = nil, nil
				func() {
					defer func() {
						if recover() != nil {
							e2 = errors.New("PANIC")
						}
					}()
					r2, e2 = again()
				}()
				conn.mu.Lock()
				reads = len(conn.served) - servedBefore
				conn.mu.Unlock()
				if !(e2 != nil && strings.Contains(clientErrStr(e2), "client:timeout")) {
					break // only a timeout can be the machine's fault: it is tried again
				}
			}
			switch {
			case e2 == nil && !isNilValue(r2) && respStr(r2) == before:
			case e2 != nil && strings.Contains(clientErrStr(e2), "client:timeout") && reads > 0:
			case e2 != nil:
				secondCall = "SECOND-CALL-AFTER-IDLE-FAILED:" + strings.ReplaceAll(clientErrStr(e2), " ", "_")
			default:
				secondCall = "SECOND-CALL-AFTER-IDLE-DIFFERS"
			}
		}
		var inv []byte
		for _, ev := range evs {
			for _, b := range ev.data {
				inv = append(inv, ^b)
			}
		}
		if kind != "t" {
			// the same reply once more with one payload bit flipped and its old trailer: not the reply of a moment ago
			var all []byte
			for _, ev := range evs {
				all = append(all, ev.data...)
			}
			if len(all) >= 6 {
				all[len(all)/2-1] ^= 0x40
				conn.mu.Lock()
				conn.script = []readEv{{kind: "d", data: all}, {kind: "x"}}
				conn.pending = nil
				conn.mu.Unlock()
				var r3 packet.Response
				var e3 error
				func() {
					defer func() {
						if recover() != nil {
							e3 = errors.New("PANIC")
						}
					}()
					r3, e3 = again()
				}()
				if e3 == nil && !isNilValue(r3) {
					secondCall = "CORRUPTED-REPEAT-OF-THE-LAST-REPLY-ACCEPTED"
				}
			}
		}
		conn.mu.Lock()
		conn.script = []readEv{{kind: "d", data: inv}, {kind: "x"}}
		conn.pending = nil
		writtenBefore := len(conn.written)
		conn.mu.Unlock()
		// the caller re-targets the request value it holds before it sends it again (the same pointer, other contents):
		// what goes out is the request as it is now
		scribbleValue(reflect.ValueOf(req))
		var now []byte
		func() {
			defer func() { _ = recover() }()
			now = req.Bytes()
		}()
		func() {
			defer func() { _ = recover() }()
			_, _ = again()
		}()
		conn.mu.Lock()
		sent := append([]byte{}, conn.written[writtenBefore:]...)
		conn.mu.Unlock()
		if now != nil && len(sent) > 0 && hx(sent) != hx(now) {
			secondCall = "REQUEST-CHANGED-BETWEEN-CALLS-BUT-THE-OLD-BYTES-WERE-SENT"
		}
		if respStr(resp) != before {
			aliased = true
		}
	}
	done := make(chan struct{})
	valueHooks := hooks && variantOf("zh"+reqSpec+script)%5 == 0
	go func() {
		if valueHooks {
			zeroHookRecs.Store(goid(), rec)
			defer zeroHookRecs.Delete(goid())
		}
		defer func() {
			if r := recover(); r != nil {
				err = fmt.Errorf("PANIC")
			}
			takeSnap()
			close(done)
		}()
		if kind == "s" {
			var port io.ReadWriteCloser
			switch flusher {
			case "o":
				port = serialFlush{conn, false}
			case "f":
				port = serialFlush{conn, true}
			default:
				port = serialNoFlush{conn}
			}
			opts := []modbus.SerialClientOptionFunc{modbus.WithSerialReadTimeout(readTimeout)}
			if valueHooks {
				opts = append(opts, modbus.WithSerialHooks(zeroHooks{}))
			} else if hooks {
				opts = append(opts, modbus.WithSerialHooks(rec))
			} else if variantOf(reqSpec+script)%3 == 1 {
				// "no hooks" said explicitly (an optional logger that is nil)
				opts = append(opts, modbus.WithSerialHooks(nil))
			}
			var c *modbus.SerialClient
			if notConnected && variantOf("zv"+reqSpec+script)%2 == 1 {
				c = &modbus.SerialClient{} // a client that was not made by the constructor
			} else if notConnected {
				c = modbus.NewSerialClient(nil, opts...)
			} else {
				c = modbus.NewSerialClient(port, opts...)
			}
			freshDo = func(evs2 []readEv) (r packet.Response, e error) {
				defer func() {
					if recover() != nil {
						r, e = nil, errors.New("PANIC")
					}
				}()
				conn2 := &scriptedConn{script: evs2, serial: true, closedErr: conn.closedErr, quietStall: conn.quietStall}
				var port2 io.ReadWriteCloser
				switch flusher {
				case "o":
					port2 = serialFlush{conn2, false}
				case "f":
					port2 = serialFlush{conn2, true}
				default:
					port2 = serialNoFlush{conn2}
				}
				return modbus.NewSerialClient(port2, modbus.WithSerialReadTimeout(readTimeout)).Do(context.Background(), req)
			}
			t0 := time.Now()
			resp, err = c.Do(ctx, req)
			took = time.Since(t0)
			followUp(func() (packet.Response, error) { return c.Do(context.Background(), req) })
			closeHangs = closeBlocks(c.Close)
			return
		}
		if negTimeout {
			readTimeout = -1
		}
		conf := modbus.ClientConfig{
			ReadTimeout:     readTimeout,
			DialContextFunc: func(ctx context.Context, address string) (net.Conn, error) { return conn, nil },
		}
		if variantOf("wt"+reqSpec+script)%2 == 1 {
			conf.WriteTimeout = time.Hour // the read timeout is the one that bounds the wait for a reply
		}
		if negTimeout {
			conf.WriteTimeout = -1
			readTimeout = 2 * time.Second // what the client uses from here on
		}
		if hooks {
			conf.Hooks = rec
		}
		if valueHooks {
			conf.Hooks = zeroHooks{}
		}
		// every way of constructing a client of this framing: the WithConfig constructors, and NewClient with none, one
		// or both protocol functions given (TCP is the documented default of NewClient)
		c := newNetClient(kind, conf, variantOf(kind+reqSpec+script), rec)
		if notConnected && !failedConnect && variantOf("zv"+reqSpec+script)%2 == 1 {
			c = &modbus.Client{} // a client that was not made by a constructor
		}
		if failedConnect {
			// a Connect that fails although the dial function hands back a connection value: the client stays unconnected
			failing := conf
			failing.DialContextFunc = func(ctx context.Context, address string) (net.Conn, error) { return conn, errInjectedIO }
			if kind == "t" {
				c = modbus.NewTCPClientWithConfig(failing)
			} else {
				c = modbus.NewRTUClientWithConfig(failing)
			}
			if cerr := c.Connect(context.Background(), "scripted"); cerr == nil {
				err = errors.New("connect-did-not-fail")
				return
			}
		} else if !notConnected {
			if cerr := c.Connect(ctx, "scripted"); cerr != nil {
				err = cerr
				return
			}
		}
		freshDo = func(evs2 []readEv) (r packet.Response, e error) {
			defer func() {
				if recover() != nil {
					r, e = nil, errors.New("PANIC")
				}
			}()
			conn2 := &scriptedConn{script: evs2, closedErr: conn.closedErr}
			conf2 := conf
			conf2.Hooks = nil
			conf2.DialContextFunc = func(ctx context.Context, address string) (net.Conn, error) { return conn2, nil }
			c2 := newNetClient(kind, conf2, variantOf(kind+reqSpec+script), nil)
			if cerr := c2.Connect(context.Background(), "scripted"); cerr != nil {
				return nil, cerr
			}
			return c2.Do(context.Background(), req)
		}
		t0 := time.Now()
		resp, err = c.Do(ctx, req)
		took = time.Since(t0)
		followUp(func() (packet.Response, error) { return c.Do(context.Background(), req) })
		closeHangs = closeBlocks(c.Close)
	}()
	// the watchdog: the call itself ends within the read timeout; the follow-up calls made on the same client (up to about
	// sixteen waits of one read timeout when the machine is so busy that the short timeouts were scaled up) are part of
	// what is waited for
	budget := 90*time.Second + readTimeout
	if readTimeout < 10*time.Second {
		budget = 90*time.Second + 20*readTimeout
	}
	select {
	case <-done:
	case <-time.After(budget):
		return "HANG", "-", "-", false
	}
	outcome := ""
	switch {
	case err != nil && err.Error() == "PANIC":
		outcome = "PANIC"
	case err != nil:
		outcome = clientErrStr(err)
		if !isNilValue(resp) {
			outcome += " VALUE-NONNIL"
		}
	default:
		outcome = "ok " + respStr(resp)
		if i := strings.Index(outcome, " re="); i >= 0 {
			outcome = outcome[:i]
		}
	}
	if aliased {
		outcome = "ALIASED-rewritten-by-next-call " + outcome
	}
	if secondCall != "" {
		outcome = secondCall + " " + outcome
	}
	if closeHangs {
		// the call returned but left the client locked: the next use of the same client would never terminate
		outcome = "HANG-after-return " + outcome
	}
	// collapse the reads after the script ended into one "stall" entry
	takeSnap()
	stalled := snap.stalled
	served := snap.served
	written := snap.written
	log := snap.log
	if stalled > 0 {
		served = append(served, "stall")
		// the last `stalled` read entries of the hook log are the stall (a trailing bp cannot follow a stall)
		cnt := 0
		out := []string{}
		for i := len(log) - 1; i >= 0; i-- {
			if cnt < stalled && (strings.HasPrefix(log[i], "r:-:0:timeout") || (conn.quietStall && conn.serial && strings.HasPrefix(log[i], "r:-:0:nil"))) {
				cnt++
				continue
			}
			out = append([]string{log[i]}, out...)
		}
		if cnt > 0 {
			out = append(out, "stall")
		}
		log = out
	}
	if stalled == 0 && scale > 0 && !snap.unread && strings.HasSuffix(outcome, "err client:timeout") {
		// the script was served to its end and the total read timeout passed before the client got to its next read (the
		// process was not given the CPU in between): for the record this is a stall like any other
		served = append(served, "stall")
		if len(log) > 0 {
			log = append(log, "stall")
		}
	}
	ls := "-"
	if len(log) > 0 {
		ls = strings.Join(log, ",")
	}
	cs := "w:" + hx(written)
	if len(served) > 0 {
		cs += "," + strings.Join(served, ",")
	}
	if notConnected || reqSpec == "nil" {
		cs = "-"
	}
	// a total read timeout that fired while the transport still had bytes to deliver says that the process was not given
	// the CPU - unless it came back long before that timeout can have passed
	early := snap.unread && strings.Contains(outcome, "client:timeout") && took >= readTimeout*7/10
	if paced {
		// (the reads a slow device is given time for depend on the machine: only the outcome is compared)
		conn.mu.Lock()
		late := conn.lateReads
		conn.mu.Unlock()
		if late >= 3 {
			outcome = fmt.Sprintf("READS-STARTED-AFTER-THE-TOTAL-READ-TIMEOUT-HAD-PASSED-%d-or-more ", 3) + outcome
		}
		return outcome, "-", "-", false
	}
	return outcome, ls, cs, early
}

func execDo(ts []string) string {
	kind, hooks, flusher, reqSpec, script := ts[1], ts[2] == "1", ts[3], ts[4], ts[6]
	reply := []byte(nil)
	if ts[5] != "-" {
		reply = unhx(ts[5])
	}
	o1, l1, c1 := runDo(kind, true, flusher, reqSpec, script, reply)
	if o1 == "NOREQ" {
		return "NOREQ"
	}
	o2 := o1
	if !strings.HasPrefix(o1, "HANG") {
		// (a call that never returned is not repeated without hooks: each such run costs the whole watchdog time)
		o2, _, _ = runDo(kind, false, flusher, reqSpec, script, reply)
	}
	if !hooks {
		l1 = "-"
	}
	return fmt.Sprintf("%s | %s | %s | %s", o1, l1, o2, c1)
}
