package main

import (
	"fmt"
	"go/ast"
	"go/parser"
	"go/token"
	"math/rand"
	"os"
	"path/filepath"
	"sort"
	"strconv"
	"strings"
	"sync"
)

// ---- boundary values harvested from the current source of /repo (steers generators only) ----

var (
	litOnce sync.Once
	lits    []int
)

func repoDir() string {
	if d := os.Getenv("VERIF_REPO"); d != "" {
		return d
	}
	return "/repo"
}

func harvestLiterals() []int {
	litOnce.Do(func() {
		seen := map[int]bool{}
		fset := token.NewFileSet()
		filepath.Walk(repoDir(), func(p string, info os.FileInfo, err error) error {
			if err != nil {
				return nil
			}
			if info.IsDir() {
				n := info.Name()
				if n == ".git" || n == "examples" || n == "modbustest" {
					return filepath.SkipDir
				}
				return nil
			}
			if !strings.HasSuffix(p, ".go") || strings.HasSuffix(p, "_test.go") {
				return nil
			}
			f, err := parser.ParseFile(fset, p, nil, 0)
			if err != nil {
				return nil
			}
			ast.Inspect(f, func(n ast.Node) bool {
				if bl, ok := n.(*ast.BasicLit); ok && bl.Kind == token.INT {
					if v, err := strconv.ParseInt(bl.Value, 0, 64); err == nil && v >= 0 && v <= 70000 {
						seen[int(v)] = true
					}
				}
				return true
			})
			return nil
		})
		for v := range seen {
			lits = append(lits, v)
		}
		sort.Ints(lits)
	})
	return lits
}

// boundaries16 returns the 16-bit boundary set: harvested literals ±{0,1,2}, powers of two ±1, edges
func boundaries16() []int {
	seen := map[int]bool{}
	add := func(v int) {
		if v >= 0 && v <= 65535 {
			seen[v] = true
		}
	}
	for _, l := range harvestLiterals() {
		for d := -2; d <= 2; d++ {
			add(l + d)
		}
	}
	for p := 1; p <= 65536; p *= 2 {
		add(p - 1)
		add(p)
		add(p + 1)
	}
	for _, v := range []int{0, 1, 2, 3, 65533, 65534, 65535, 32767, 32768, 32769} {
		add(v)
	}
	out := make([]int, 0, len(seen))
	for v := range seen {
		out = append(out, v)
	}
	sort.Ints(out)
	return out
}

func pick(rng *rand.Rand, xs []int) int { return xs[rng.Intn(len(xs))] }

// u16 picks a 16-bit value: boundary half of the time
func u16(rng *rand.Rand) int {
	if rng.Intn(2) == 0 {
		return pick(rng, boundaries16())
	}
	return rng.Intn(65536)
}

// tidv picks a transaction id: the edges of the 16-bit range and of its two bytes are over-represented
func tidv(rng *rand.Rand) int {
	switch rng.Intn(8) {
	case 0:
		return pick(rng, []int{0, 0, 1, 255, 256, 65534, 65535, 0xFF00, 0x00FF})
	case 1:
		return u16(rng)
	}
	return rng.Intn(65536)
}

func u8(rng *rand.Rand) int {
	switch rng.Intn(4) {
	case 0:
		return pick(rng, []int{0, 1, 2, 127, 128, 247, 254, 255})
	}
	return rng.Intn(256)
}

func rbytes(rng *rand.Rand, n int) []byte {
	b := make([]byte, n)
	rng.Read(b)
	return b
}

func rbits(rng *rand.Rand, n int) string {
	if n == 0 {
		return "-"
	}
	var sb strings.Builder
	mode := rng.Intn(4)
	for i := 0; i < n; i++ {
		var bit bool
		switch mode {
		case 0:
			bit = rng.Intn(2) == 0
		case 1:
			bit = rng.Intn(8) == 0
		case 2:
			bit = i%8 == 0 || i == n-1
		default:
			bit = rng.Intn(8) != 0
		}
		if bit {
			sb.WriteByte('1')
		} else {
			sb.WriteByte('0')
		}
	}
	return sb.String()
}

// poison returns spare-capacity bytes that would be noticed if read
func poison(rng *rand.Rand) []byte {
	n := 16 + rng.Intn(300)
	b := make([]byte, n)
	switch rng.Intn(3) {
	case 0:
		rng.Read(b)
	case 1:
		for i := range b {
			b[i] = 0xA5
		}
	default:
		// plausible-looking continuation: small quantities, valid byte counts
		for i := range b {
			b[i] = byte(rng.Intn(4))
		}
	}
	return b
}

// mine reports whether item i belongs to this shard
func mine(i, shard, nshards int) bool { return i%nshards == shard }

func newreqOp(kind string, fc int, fr string, tid, unit, addr, qty int, state bool, waddr int, data string, coils string) string {
	return fmt.Sprintf("%s %d %s %d %d %d %d %s %d %s %s", kind, fc, fr, tid, unit, addr, qty, b01(state), waddr, data, coils)
}

var supportedFCs = []int{1, 2, 3, 4, 5, 6, 15, 16, 17, 23}

func crc16(data []byte) uint16 {
	// the harness's own CRC (table-free, independent of the library) used to build RTU frames
	crc := uint16(0xFFFF)
	for _, b := range data {
		for i := 0; i < 8; i++ {
			bit := (b >> uint(i)) & 1
			fb := uint8(crc&1) ^ bit
			crc >>= 1
			if fb == 1 {
				crc ^= 0xA001
			}
		}
	}
	return crc
}

func withCRC(body []byte) []byte {
	c := crc16(body)
	return append(append([]byte{}, body...), byte(c), byte(c>>8))
}

func mbapFrame(tid int, unit int, pdu []byte) []byte {
	n := len(pdu) + 1
	out := []byte{byte(tid >> 8), byte(tid), 0, 0, byte(n >> 8), byte(n), byte(unit)}
	return append(out, pdu...)
}
