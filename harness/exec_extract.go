package main

// `extract` operations: builder -> requests -> conforming device -> parse -> ExtractFields.

import (
	"fmt"
	"strings"

	modbus "github.com/aldas/go-modbus-client"
	"github.com/aldas/go-modbus-client/packet"
)

func serverKey(s string) int {
	k := 0
	for _, b := range []byte(s) {
		k += int(b)
	}
	return k % 65536
}

// memReg is the device memory image; must agree with Driver/Extract.lean
func memReg(seed int, server string, unit uint8, addr int) int {
	if seed%4 == 0 {
		hi := 65 + (addr*7+seed)%26
		lo := 65 + (addr*3+seed)%26
		if (addr+seed)%9 == 0 {
			lo = 0
		}
		return hi*256 + lo
	}
	return ((addr*40503 + seed*25173 + 13849) ^ (int(unit)*7919 + serverKey(server)*104729)) % 65536
}

func valueStr(v interface{}) string {
	switch x := v.(type) {
	case bool:
		return "bool:" + b01(x)
	case uint8:
		return fmt.Sprintf("u8:%d", x)
	case int8:
		return fmt.Sprintf("i8:%d", x)
	case uint16:
		return fmt.Sprintf("u16:%d", x)
	case int16:
		return fmt.Sprintf("i16:%d", x)
	case uint32:
		return fmt.Sprintf("u32:%d", x)
	case int32:
		return fmt.Sprintf("i32:%d", x)
	case uint64:
		return fmt.Sprintf("u64:%d", x)
	case int64:
		return fmt.Sprintf("i64:%d", x)
	case float32:
		return f32Str(x)
	case float64:
		return f64Str(x)
	case string:
		return "str:" + hx([]byte(x))
	}
	return fmt.Sprintf("UNKNOWN-VALUE-%T", v)
}

func execExtract(ts []string) string {
	target := atoi(ts[1])
	lenient := ts[2] == "1"
	trunc := atoi(ts[3])
	seed := atoi(ts[4])
	fields := parseFields(ts[5])
	reqs, err := buildRequests(target, fields)
	if err == errBuilderChanged {
		return err.Error()
	}
	if err != nil {
		return errStr(err)
	}
	if len(reqs) == 0 {
		return "ok -"
	}
	sortRequests(reqs)
	fc := byte(3)
	switch {
	case target >= 6:
		fc = 4
	case target < 2:
		fc = 1
	case target < 4:
		fc = 2
	}
	tcp := target%2 == 0
	parts := make([]string, len(reqs))
	for i, r := range reqs {
		q := reqQuantity(r.Request)
		n := q
		if trunc >= 0 && trunc < q {
			n = trunc
		}
		var pdu []byte
		if target < 4 {
			// coils / discrete inputs: n bits packed least significant bit first
			data := make([]byte, (n+7)/8)
			for k := 0; k < n; k++ {
				if (memReg(seed, r.ServerAddress, r.UnitID, int(r.StartAddress)+k)/4)%2 == 1 {
					data[k/8] |= 1 << uint(k%8)
				}
			}
			if seed%2 == 1 && n == q {
				// a device that leaves the unused bits of the last byte set: they belong to no coil
				for k := n; k < 8*len(data); k++ {
					data[k/8] |= 1 << uint(k%8)
				}
			}
			pdu = append([]byte{fc, byte(len(data))}, data...)
		} else {
			data := make([]byte, 0, 2*n)
			for k := 0; k < n; k++ {
				v := memReg(seed, r.ServerAddress, r.UnitID, int(r.StartAddress)+k)
				data = append(data, byte(v>>8), byte(v))
			}
			// the conforming device's reply, built by the harness (independent of the library's encoder)
			pdu = append([]byte{fc, byte(2 * n)}, data...)
		}
		var frame []byte
		if tcp {
			rb := r.Bytes()
			frame = mbapFrame(int(rb[0])<<8|int(rb[1]), int(r.UnitID), pdu)
		} else {
			frame = withCRC(append([]byte{r.UnitID}, pdu...))
		}
		status := ""
		var resp packet.Response
		var perr error
		if tcp {
			resp, perr = packet.ParseTCPResponse(frame)
		} else {
			resp, perr = packet.ParseRTUResponseWithCRC(frame)
		}
		if perr != nil {
			status = "parse-err|"
		} else {
			// the library's own encoder must produce the same reply
			if hx(resp.Bytes()) != hx(frame) {
				status = "ENC-MISMATCH|"
			} else {
				vals, xerr := r.ExtractFields(resp, lenient)
				strs := make([]string, len(vals))
				for j, fv := range vals {
					if fv.Error != nil {
						strs[j] = fv.Field.Name + "=!err"
					} else {
						strs[j] = fv.Field.Name + "=" + valueStr(fv.Value)
					}
				}
				switch {
				case hx(resp.Bytes()) != hx(frame):
					// extraction reads the response: the response still encodes to the frame it was parsed from
					status = "PAYLOAD-CHANGED-BY-EXTRACTION|"
				case xerr == nil:
					status = "all|" + strings.Join(strs, ",")
				case xerr == modbus.ErrorFieldExtractHadError:
					status = "some|" + strings.Join(strs, ",")
				default:
					status = "failed|"
					if vals != nil {
						status = "failed-VALUE-NONNIL|"
					}
				}
			}
		}
		names := make([]string, len(r.Fields))
		for j, f := range r.Fields {
			names[j] = f.Name
		}
		parts[i] = fmt.Sprintf("%s|%d|%d|%d|%s|%s", r.ServerAddress, r.UnitID, r.StartAddress, q, strings.Join(names, ","), status)
	}
	return "ok " + strings.Join(parts, ";")
}
