//go:build race

package main

const raceEnabled = true
