package main

import (
	"fmt"
	"math/rand"
	"strings"
)

func init() {
	generators["C07"] = genC07
	generators["C08"] = genC08
	generators["C12"] = genC12
	generators["C19"] = genC19
}

// one request type with concrete arguments and a well-formed reply to it
type exchange struct {
	kind    string // t r s
	reqSpec string
	fc      int
	reply   []byte
	exc     []byte // an exception reply
}

// buildExchange picks arguments for function fc and encodes the conforming device's reply
// (encoder independent of the library)
func buildExchange(rng *rand.Rand, kind string, fc int, sizeClass int) exchange {
	tid := tidv(rng)
	unit := u8(rng)
	addr := u16(rng)
	if rng.Intn(5) == 0 {
		addr = 0 // the first address: the reply to a write then has 00 00 where other frames have a protocol id
	}
	qty, state, waddr := 0, false, 0
	data, coils := "-", "-"
	var pdu []byte
	pickQ := func(max int) int {
		switch sizeClass {
		case 0:
			return 1
		case 1:
			return max
		case 2:
			return []int{2, 7, 8, 9, 16, 17}[rng.Intn(6)]
		}
		return 1 + rng.Intn(max)
	}
	switch fc {
	case 1, 2:
		qty = pickQ(2000)
		bc := (qty + 7) / 8
		pdu = append([]byte{byte(fc), byte(bc)}, rbytes(rng, bc)...)
	case 3, 4:
		qty = pickQ(125)
		pdu = append([]byte{byte(fc), byte(2 * qty)}, rbytes(rng, 2*qty)...)
	case 5:
		state = rng.Intn(2) == 0
		v := byte(0)
		if state {
			v = 0xFF
		}
		pdu = []byte{5, byte(addr >> 8), byte(addr), v, 0}
	case 6:
		d := rbytes(rng, 2)
		data = hx(d)
		pdu = []byte{6, byte(addr >> 8), byte(addr), d[0], d[1]}
	case 15:
		n := pickQ(1968)
		coils = rbits(rng, n)
		pdu = []byte{15, byte(addr >> 8), byte(addr), byte(n >> 8), byte(n)}
	case 16:
		n := pickQ(123)
		data = hx(rbytes(rng, 2*n))
		pdu = []byte{16, byte(addr >> 8), byte(addr), byte(n >> 8), byte(n)}
	case 17:
		n := 1 + rng.Intn(12)
		if sizeClass == 0 {
			n = 1
		}
		extra := rng.Intn(8)
		if sizeClass == 0 {
			extra = 0
		}
		if sizeClass == 1 {
			// the longest frame there is: a PDU of 253 bytes (256 bytes on the serial line, 260 over TCP)
			n = 1 + rng.Intn(200)
			extra = 250 - n
		}
		pdu = append([]byte{17, byte(n)}, rbytes(rng, n)...)
		pdu = append(pdu, byte(rng.Intn(2)*255))
		pdu = append(pdu, rbytes(rng, extra)...)
	case 23:
		qty = pickQ(124)
		waddr = u16(rng)
		wn := 1 + rng.Intn(121)
		data = hx(rbytes(rng, 2*wn))
		pdu = append([]byte{23, byte(2 * qty)}, rbytes(rng, 2*qty)...)
	}
	ex := exchange{kind: kind, fc: fc}
	ex.reqSpec = fmt.Sprintf("%d,%d,%d,%d,%d,%s,%d,%s,%s", fc, tid, unit, addr, qty, b01(state), waddr, data, coils)
	// exception codes: the ones the specification names and the rest of the byte (0, device specific, 128, 255)
	code := byte(1 + rng.Intn(11))
	switch rng.Intn(5) {
	case 0:
		code = byte([]int{0, 12, 13, 127, 128, 129, 254, 255}[rng.Intn(8)])
	case 1:
		code = byte(rng.Intn(256))
	}
	if kind == "t" {
		ex.reply = mbapFrame(tid, unit, pdu)
		ex.exc = mbapFrame(tid, unit, []byte{byte(fc + 128), code})
	} else {
		if rng.Intn(12) == 0 && len(pdu) > 3 {
			// a reply whose checksum ends in 00 (every 256th reply does)
			for try := 0; try < 4000; try++ {
				if c := crc16(append([]byte{byte(unit)}, pdu...)); c>>8 == 0 {
					break
				}
				pdu[len(pdu)-1]++
				if try%256 == 255 {
					pdu[len(pdu)-2]++
				}
			}
		}
		ex.reply = withCRC(append([]byte{byte(unit)}, pdu...))
		ex.exc = withCRC([]byte{byte(unit), byte(fc + 128), code})
	}
	return ex
}

func doOp(ex exchange, hooks int, flusher string, reply []byte, script string) string {
	return fmt.Sprintf("do %s %d %s %s %s %s", ex.kind, hooks, flusher, ex.reqSpec, hx(reply), script)
}

// cutScript cuts data at the given positions, optionally with timed-out reads in between
func cutScript(rng *rand.Rand, data []byte, cuts []int, timeouts bool) string {
	parts := []string{}
	prev := 0
	add := func(b []byte) {
		if timeouts {
			for k := rng.Intn(3); k > 0; k-- {
				parts = append(parts, "t")
			}
		}
		if len(b) > 0 {
			parts = append(parts, "d:"+hx(b))
		}
	}
	for _, c := range cuts {
		if c <= prev || c >= len(data) {
			continue
		}
		add(data[prev:c])
		prev = c
	}
	add(data[prev:])
	if len(parts) == 0 {
		return "-"
	}
	return strings.Join(parts, ";")
}

func cutPositions(rng *rand.Rand, n int, tier string, around []int) []int {
	seen := map[int]bool{}
	for i := 1; i < n; i++ {
		if tier == "thorough" || i <= 14 || i >= n-4 {
			seen[i] = true
		}
	}
	for _, a := range around {
		for d := -3; d <= 3; d++ {
			if a+d >= 1 && a+d < n {
				seen[a+d] = true
			}
		}
	}
	for k := 0; k < 6; k++ {
		if n > 2 {
			seen[1+rng.Intn(n-1)] = true
		}
	}
	out := []int{}
	for i := 1; i < n; i++ {
		if seen[i] {
			out = append(out, i)
		}
	}
	return out
}

var clientKinds = []string{"t", "r", "s"}

func flusherFor(rng *rand.Rand, kind string) string {
	if kind != "s" {
		return "n"
	}
	return []string{"n", "o", "o"}[rng.Intn(3)]
}

// a reply to a one-register read whose register value happens to be the CRC of the three bytes before it: the first
// five bytes look like a complete checksummed frame (they are not an exception: the function byte has no error bit)
func genCrcLookalike(rng *rand.Rand, shard, nshards int, emit emitter) {
	i := 0
	for _, kind := range []string{"r", "s"} {
		for _, fc := range []int{3, 4} {
			for rep := 0; rep < 3; rep++ {
				i++
				if !mine(i, shard, nshards) {
					continue
				}
				unit, addr := u8(rng), u16(rng)
				c := crc16([]byte{byte(unit), byte(fc), 2})
				ex := exchange{kind: kind, fc: fc}
				ex.reqSpec = fmt.Sprintf("%d,%d,%d,%d,%d,0,0,-,-", fc, 0, unit, addr, 1)
				ex.reply = withCRC([]byte{byte(unit), byte(fc), 2, byte(c), byte(c >> 8)})
				fl := flusherFor(rng, kind)
				R := ex.reply
				emit(doOp(ex, 0, fl, R, "d:"+hx(R)))
				emit(doOp(ex, 0, fl, R, "d:"+hx(R[:5])+";d:"+hx(R[5:])))
				emit(doOp(ex, 0, fl, R, "d:"+hx(R[:3])+";d:"+hx(R[3:5])+";t;d:"+hx(R[5:])))
				emit(doOp(ex, 1, fl, R, "d:"+hx(R[:5])+";t;d:"+hx(R[5:6])+";d:"+hx(R[6:])))
			}
		}
	}
}

func genC07(tier string, rng *rand.Rand, shard, nshards int, emit emitter) {
	genCrcLookalike(rng, shard, nshards, emit)
	// the constructors without configuration, against a loopback peer (request types whose expected reply length is
	// exact, so that no call has to wait for the 2 s default timeout)
	reps := 2
	if tier == "thorough" {
		reps = 12
	}
	j := 0
	for rep := 0; rep < reps; rep++ {
		for _, kf := range []struct {
			kind string
			fcs  []int
		}{{"t", []int{1, 2, 3, 4, 6, 15, 16}}, {"r", []int{15, 16}}} {
			for _, fc := range kf.fcs {
				j++
				if !mine(j, shard, nshards) {
					continue
				}
				ex := buildExchange(rng, kf.kind, fc, rng.Intn(4))
				emit(fmt.Sprintf("dor %s %s %s", kf.kind, ex.reqSpec, hx(ex.reply)))
				emit(fmt.Sprintf("dor %s %s %s", kf.kind, ex.reqSpec, hx(ex.exc)))
			}
		}
	}
	genFragmentations(tier, rng, shard, nshards, 0, emit)
}

func genFragmentations(tier string, rng *rand.Rand, shard, nshards int, hooks int, emit emitter) {
	i := 0
	reps := 1
	if tier == "thorough" {
		reps = 4
	}
	for rep := 0; rep < reps; rep++ {
		for _, kind := range clientKinds {
			for _, fc := range supportedFCs {
				for sizeClass := 0; sizeClass < 4; sizeClass++ {
					i++
					if !mine(i, shard, nshards) {
						continue
					}
					ex := buildExchange(rng, kind, fc, sizeClass)
					fl := flusherFor(rng, kind)
					for _, R := range [][]byte{ex.reply, ex.exc} {
						n := len(R)
						emit(doOp(ex, hooks, fl, R, cutScript(rng, R, nil, false)))
						emit(doOp(ex, hooks, fl, R, cutScript(rng, R, nil, true)))
						// expected length candidates for this request are near these positions
						around := []int{5, 8, 9, 11, 12, n - 1, n - 2, n - 8}
						// a read may deliver bytes TOGETHER with a deadline error
						emit(doOp(ex, hooks, fl, R, "td:"+hx(R)))
						if n > 3 {
							c := 1 + rng.Intn(n-1)
							emit(doOp(ex, hooks, fl, R, "td:"+hx(R[:c])+";d:"+hx(R[c:])))
							emit(doOp(ex, hooks, fl, R, "d:"+hx(R[:c])+";t;td:"+hx(R[c:])))
							c2 := 1 + rng.Intn(n-1)
							if c2 > c {
								emit(doOp(ex, hooks, fl, R, "d:"+hx(R[:c])+";td:"+hx(R[c:c2])+";td:"+hx(R[c2:])))
							}
						}
						// the read that completes the reply was started in time but returns after the total read timeout
						exactLen := (kind == "t" && (fc <= 4 || fc == 6 || fc == 15 || fc == 16)) || (kind != "t" && (fc == 15 || fc == 16))
						if exactLen && sizeClass != 1 && rng.Intn(2) == 0 && len(R) == n {
							// (only for the request types whose expected length is the reply length: the call ends with this read)
							emit(doOp(ex, hooks, fl, R, "sd:"+hx(R)))
							if n > 3 {
								c := 1 + rng.Intn(n-1)
								emit(doOp(ex, hooks, fl, R, "d:"+hx(R[:c])+";sd:"+hx(R[c:])))
							}
						}
						// a well-formed reply that names another unit than the request (a gateway forwarding somebody else's answer):
						// whatever the client makes of it, every byte read is part of what the hooks and the parser are given
						if kind == "t" && n > 7 {
							other := append([]byte{}, R...)
							other[6] ^= byte(1 + rng.Intn(255))
							emit(doOp(ex, hooks, fl, R, "d:"+hx(other)))
							c := 1 + rng.Intn(n-1)
							emit(doOp(ex, hooks, fl, R, "d:"+hx(other[:c])+";d:"+hx(other[c:])))
							emit(doOp(ex, hooks, fl, R, "d:"+hx(other)+";d:"+hx(R)))
						}
						// a serial port that reports its own read timeout as (0, io.EOF): an empty read like any other
						if kind == "s" && n > 3 && rng.Intn(2) == 0 {
							c := 1 + rng.Intn(n-1)
							emit(doOp(ex, hooks, fl, R, "e:;d:"+hx(R)))
							emit(doOp(ex, hooks, fl, R, "e:;e:;d:"+hx(R[:c])+";e:;d:"+hx(R[c:])))
						}
						// stray bytes behind the reply in the same read
						if kind != "t" && rng.Intn(2) == 0 {
							emit(doOp(ex, hooks, fl, R, "d:"+hx(append(append([]byte{}, R...), rbytes(rng, 1+rng.Intn(3))...))))
						}
						// a slow device: more than a hundred reads that deliver nothing and report nothing, before the reply and
						// between two of its fragments
						if sizeClass == 0 || rng.Intn(4) == 0 {
							empty := strings.Repeat("d:;", 100+rng.Intn(60))
							emit(doOp(ex, hooks, fl, R, empty+"d:"+hx(R)))
							if n > 3 {
								c := 1 + rng.Intn(n-1)
								emit(doOp(ex, hooks, fl, R, "d:"+hx(R[:c])+";"+empty+"d:"+hx(R[c:])))
							}
						}
						// the peer closes right after replying: the last fragment (or the whole reply) arrives together with EOF
						emit(doOp(ex, hooks, fl, R, "e:"+hx(R)))
						for _, c := range cutPositions(rng, n, tier, around) {
							if c > 0 && c < n && rng.Intn(2) == 0 {
								emit(doOp(ex, hooks, fl, R, "d:"+hx(R[:c])+";e:"+hx(R[c:])))
							}
							emit(doOp(ex, hooks, fl, R, cutScript(rng, R, []int{c}, false)))
							if rng.Intn(3) == 0 {
								emit(doOp(ex, hooks, fl, R, cutScript(rng, R, []int{c}, true)))
							}
						}
						// all cut sets of short replies, pairs of cuts otherwise
						if n <= 12 && (tier == "thorough" || rng.Intn(2) == 0) {
							for mask := 1; mask < 1<<uint(n-1); mask++ {
								if tier != "thorough" && rng.Intn(8) != 0 {
									continue
								}
								cuts := []int{}
								for b := 0; b < n-1; b++ {
									if mask&(1<<uint(b)) != 0 {
										cuts = append(cuts, b+1)
									}
								}
								emit(doOp(ex, hooks, fl, R, cutScript(rng, R, cuts, rng.Intn(4) == 0)))
							}
						} else {
							pairs := 12
							if tier == "thorough" {
								pairs = 80
							}
							for k := 0; k < pairs && n > 3; k++ {
								a := 1 + rng.Intn(n-2)
								b := a + 1 + rng.Intn(n-a-1)
								emit(doOp(ex, hooks, fl, R, cutScript(rng, R, []int{a, b}, rng.Intn(4) == 0)))
							}
							// byte by byte
							if rng.Intn(4) == 0 && n <= 40 {
								cuts := []int{}
								for c := 1; c < n; c++ {
									cuts = append(cuts, c)
								}
								emit(doOp(ex, hooks, fl, R, cutScript(rng, R, cuts, false)))
							}
						}
					}
				}
			}
		}
	}
}

func genC08(tier string, rng *rand.Rand, shard, nshards int, emit emitter) {
	genFaults(tier, rng, shard, nshards, 0, emit)
}

// genPaced: a device that trickles: a prefix of the reply in eight pieces, each a third of the total read timeout after
// the read for it was started, then silence. The call ends with the timeout error when the TOTAL read timeout has
// passed (about three pieces in), not one read timeout after the last byte
func genPaced(rng *rand.Rand, shard, nshards int, hooks int, emit emitter) {
	i := 0
	for _, kind := range clientKinds {
		for _, fc := range []int{3, 4, 1, 16, 23} {
			i++
			if !mine(i, shard, nshards) {
				continue
			}
			ex := buildExchange(rng, kind, fc, 3)
			R := ex.reply
			if len(R) < 16 {
				ex = buildExchange(rng, kind, 3, 1)
				R = ex.reply
			}
			// eight pieces that together are a proper prefix of the reply (shorter than any length the request announces)
			n := len(R) - 4 - rng.Intn(2)
			parts := []string{}
			for k := 0; k < 8; k++ {
				a, b := k*n/8, (k+1)*n/8
				if b > a {
					parts = append(parts, "p:"+hx(R[a:b]))
				}
			}
			emit(doOp(ex, hooks, flusherFor(rng, kind), R, strings.Join(parts, ";")))
		}
	}
}

func genFaults(tier string, rng *rand.Rand, shard, nshards int, hooks int, emit emitter) {
	defer genPaced(rng, shard, nshards, hooks, emit) // (last: the first operations of a shard are also run in cold processes)
	i := 0
	reps := 1
	if tier == "thorough" {
		reps = 3
	}
	for rep := 0; rep < reps; rep++ {
		for _, kind := range clientKinds {
			for _, fc := range supportedFCs {
				for sizeClass := 0; sizeClass < 3; sizeClass++ {
					i++
					if !mine(i, shard, nshards) {
						continue
					}
					ex := buildExchange(rng, kind, fc, sizeClass)
					R := ex.reply
					n := len(R)
					fls := []string{"n"}
					if kind == "s" {
						fls = []string{"n", "o", "f"}
					}
					for _, fl := range fls {
						// immediate failures
						emit(doOp(ex, hooks, fl, R, "w"))
						emit(fmt.Sprintf("do %s %d %s nil - -", kind, hooks, fl))
						emit(fmt.Sprintf("do %s %d %s nc:%s - -", kind, hooks, fl, ex.reqSpec))
						// oversize
						big := append(append([]byte{}, R...), rbytes(rng, 300)...)
						emit(doOp(ex, hooks, fl, R, "d:"+hx(big)))
						emit(doOp(ex, hooks, fl, R, cutScript(rng, big, []int{n, n + 100, n + 250}, false)))
						emit(doOp(ex, hooks, fl, R, "d:"+hx(rbytes(rng, 700))))
						// just around the frame limits of both client kinds (256 serial, 260 network)
						for _, L := range []int{255, 256, 257, 258, 259, 260, 261, 262, 266, 267} {
							if L <= n {
								continue
							}
							exact := append(append([]byte{}, R...), rbytes(rng, L-n)...)
							emit(doOp(ex, hooks, fl, R, "d:"+hx(exact)))
							if rng.Intn(2) == 0 {
								emit(doOp(ex, hooks, fl, R, cutScript(rng, exact, []int{n}, false)))
							}
						}
						// the caller's context is already cancelled: nothing the transport offers may turn into success
						emit(doOp(ex, hooks, fl, R, "pcd"))
						emit(doOp(ex, hooks, fl, R, "pcd;d:"+hx(R)))
						emit(doOp(ex, hooks, fl, R, "cd"))
						if n > 2 {
							emit(doOp(ex, hooks, fl, R, "d:"+hx(R[:n/2])+";cd"))
							emit(doOp(ex, hooks, fl, R, "d:"+hx(R[:1])+";t;cd;t"))
						}
						if kind != "s" {
							emit(fmt.Sprintf("do %s %d %s ncf:%s - -", kind, hooks, fl, ex.reqSpec))
							emit(fmt.Sprintf("do %s %d %s ncf:%s %s d:%s", kind, hooks, fl, ex.reqSpec, hx(R), hx(R)))
						}
						emit(doOp(ex, hooks, fl, R, "pc"))
						emit(doOp(ex, hooks, fl, R, "pc;d:"+hx(R)))
						if n > 2 {
							emit(doOp(ex, hooks, fl, R, "pc;d:"+hx(R[:n/2])+";d:"+hx(R[n/2:])))
						}
						// faults after every prefix of the exception reply (a function byte with the error bit and nothing, or
						// not everything, behind it)
						E := ex.exc
						for p := 1; p < len(E); p++ {
							emit(doOp(ex, hooks, fl, R, "d:"+hx(E[:p])))
							emit(doOp(ex, hooks, fl, R, "d:"+hx(E[:p])+";e:-"))
							emit(doOp(ex, hooks, fl, R, "d:"+hx(E[:p])+";x:-"))
							if p > 1 {
								emit(doOp(ex, hooks, fl, R, "d:"+hx(E[:1])+";t;d:"+hx(E[1:p])+";c"))
							}
						}
						// faults after every prefix
						prefixes := []int{0}
						prefixes = append(prefixes, cutPositions(rng, n, tier, []int{5, 8, 9, 11, 12, n - 1})...)
						for _, p := range prefixes {
							pre := ""
							if p > 0 {
								pre = cutScript(rng, R[:p], nil, rng.Intn(3) == 0)
								if rng.Intn(3) == 0 && p > 1 {
									pre = cutScript(rng, R[:p], []int{1 + rng.Intn(p-1)}, false)
								}
							}
							join := func(tail string) string {
								if pre == "" || pre == "-" {
									if tail == "" {
										return "-"
									}
									return tail
								}
								if tail == "" {
									return pre
								}
								return pre + ";" + tail
							}
							// stall (costs the read timeout: sample)
							if p == 0 || rng.Intn(3) == 0 || p >= n-2 {
								emit(doOp(ex, hooks, fl, R, join("")))
							}
							emit(doOp(ex, hooks, fl, R, join("e:-")))
							if p > 0 && rng.Intn(2) == 0 {
								emit(doOp(ex, hooks, fl, R, "e:"+hx(R[:p])))
							}
							emit(doOp(ex, hooks, fl, R, join("x:-")))
							if rng.Intn(4) == 0 {
								emit(doOp(ex, hooks, fl, R, join("x:"+hx(rbytes(rng, 1+rng.Intn(4))))))
							}
							emit(doOp(ex, hooks, fl, R, join("c")))
							if rng.Intn(4) == 0 {
								emit(doOp(ex, hooks, fl, R, join("t;c;t")))
							}
						}
					}
				}
			}
		}
	}
}

func genC12(tier string, rng *rand.Rand, shard, nshards int, emit emitter) {
	genC12Extra(tier, rng, shard, nshards, emit)
	i := 0
	reps := 1
	if tier == "thorough" {
		reps = 4
	}
	for rep := 0; rep < reps; rep++ {
		for _, kind := range []string{"r", "s"} {
			for _, fc := range supportedFCs {
				for sizeClass := 0; sizeClass < 3; sizeClass++ {
					i++
					if !mine(i, shard, nshards) {
						continue
					}
					ex := buildExchange(rng, kind, fc, sizeClass)
					fl := flusherFor(rng, kind)
					for _, R := range [][]byte{ex.reply, ex.exc} {
						n := len(R)
						corrupt := [][]byte{}
						// single bit flips (all for short frames, sampled otherwise)
						for b := 0; b < 8*n; b++ {
							if n > 16 && tier != "thorough" && b >= 8*8 && b < 8*(n-4) && rng.Intn(16) != 0 {
								continue
							}
							d := append([]byte{}, R...)
							d[b/8] ^= 1 << uint(b%8)
							corrupt = append(corrupt, d)
						}
						// byte substitutions
						for k := 0; k < 8+n/4; k++ {
							d := append([]byte{}, R...)
							d[rng.Intn(n)] = byte(pick(rng, []int{0, 1, 0x7f, 0x80, 0x81, 0x83, 0xff, rng.Intn(256)}))
							corrupt = append(corrupt, d)
						}
						// multi byte, truncation, extension
						for k := 0; k < 6; k++ {
							d := append([]byte{}, R...)
							for j := 0; j < 2+rng.Intn(3); j++ {
								d[rng.Intn(n)] = byte(rng.Intn(256))
							}
							corrupt = append(corrupt, d)
						}
						for t := 1; t < n && t <= 6; t++ {
							corrupt = append(corrupt, append([]byte{}, R[:n-t]...))
						}
						for t := 1; t <= 3; t++ {
							corrupt = append(corrupt, append(append([]byte{}, R...), rbytes(rng, t)...))
						}
						// the checksum field blanked (00 00, FF FF)
						if n >= 4 {
							for _, v := range []byte{0x00, 0xFF} {
								d := append([]byte{}, R...)
								d[n-1], d[n-2] = v, v
								corrupt = append(corrupt, d)
							}
						}
						// the two CRC bytes exchanged; the last two bytes rotated with the one before
						if n >= 4 && R[n-1] != R[n-2] {
							d := append([]byte{}, R...)
							d[n-1], d[n-2] = d[n-2], d[n-1]
							corrupt = append(corrupt, d)
						}
						// noise in FRONT of an otherwise valid frame (line noise, a stale byte of an earlier exchange)
						for _, pre := range [][]byte{{0}, {0xff}, {0, 0x80}, {byte(u8(rng))}, rbytes(rng, 2), rbytes(rng, 3), {R[0]}} {
							corrupt = append(corrupt, append(append([]byte{}, pre...), R...))
						}
						// five bytes that look like an exception (function byte with the high bit set), wrong CRC
						ex5 := []byte{byte(u8(rng)), byte(0x80 | fc), byte(1 + rng.Intn(4)), byte(rng.Intn(256)), byte(rng.Intn(256))}
						corrupt = append(corrupt, ex5)
						if n >= 5 {
							d := append([]byte{}, R...)
							d[1] |= 0x80
							corrupt = append(corrupt, d)
						}
						// an extra byte in the middle of the reply, delivered by a read that also reports a deadline error (and,
						// for the network client, the end of the stream): it is part of what was received
						if n > 3 {
							c := 1 + rng.Intn(n-2)
							junk := []byte{byte(rng.Intn(256))}
							emit(doOp(ex, 0, fl, R, "d:"+hx(R[:c])+";td:"+hx(junk)+";d:"+hx(R[c:])))
							emit(doOp(ex, 0, fl, R, "td:"+hx(junk)+";d:"+hx(R)))
							if kind == "s" {
								emit(doOp(ex, 0, fl, R, "d:"+hx(R[:c])+";e:"+hx(junk)+";d:"+hx(R[c:])))
							}
						}
						for _, d := range corrupt {
							m := len(d)
							if m == 0 {
								continue
							}
							emit(doOp(ex, 0, fl, R, cutScript(rng, d, nil, false)))
							cuts := []int{5}
							if rng.Intn(2) == 0 {
								cuts = []int{1 + rng.Intn(m)}
							}
							emit(doOp(ex, 0, fl, R, cutScript(rng, d, cuts, rng.Intn(4) == 0)))
							if rng.Intn(4) == 0 {
								emit(doOp(ex, 0, fl, R, cutScript(rng, d, []int{2, 5, 7}, false)))
							}
						}
					}
				}
			}
		}
	}
}

// genC12Extra: the constructor without configuration (it installs the CRC-verifying functions itself), and frames so
// long that a length held in 8 bits wraps: their trailer is the CRC of the first (length-2) mod 256 bytes only
func genC12Extra(tier string, rng *rand.Rand, shard, nshards int, emit emitter) {
	j := 0
	// nine bytes that have the shape of another framing's exception (a gateway speaking Modbus TCP: two id bytes,
	// 00 00 00 03, unit, function with the error bit, code), and a valid reply to a two-register read whose byte count
	// was hit so that bytes 2..5 read 00 00 00 03: none of them ends with its CRC, none of them is an answer
	for k := 0; k < 24; k++ {
		j++
		if !mine(j, shard, nshards) {
			continue
		}
		kind := []string{"r", "s"}[k%2]
		fc := []int{3, 4, 3, 1}[k%4]
		unit, addr := u8(rng), u16(rng)
		qty := 2
		if fc == 1 {
			qty = 32
		}
		ex := exchange{kind: kind, fc: fc}
		ex.reqSpec = fmt.Sprintf("%d,%d,%d,%d,%d,0,0,-,-", fc, 0, unit, addr, qty)
		ex.reply = withCRC(append([]byte{byte(unit), byte(fc), 4}, rbytes(rng, 4)...))
		gw := []byte{byte(rng.Intn(256)), byte(rng.Intn(256)), 0, 0, 0, 3, byte(unit), byte(0x80 | fc), byte(1 + rng.Intn(4))}
		hit := withCRC([]byte{byte(unit), byte(fc), 4, 0, 0, 3, byte(rng.Intn(256))})
		hit[2] = 0
		hit[7] |= 0x80
		for _, d := range [][]byte{gw, hit} {
			if crc16(d[:7]) == uint16(d[7])|uint16(d[8])<<8 {
				continue // (by chance a consistent frame)
			}
			fl := flusherFor(rng, kind)
			emit(doOp(ex, 0, fl, ex.reply, "d:"+hx(d)))
			emit(doOp(ex, 0, fl, ex.reply, "d:"+hx(d[:5])+";d:"+hx(d[5:])))
			emit(doOp(ex, 0, fl, ex.reply, "d:"+hx(d[:8])+";t;d:"+hx(d[8:])))
			if kind == "r" {
				emit(fmt.Sprintf("dor r %s %s", ex.reqSpec, hx(d)))
			}
		}
	}
	for _, fc := range []int{15, 16} {
		ex := buildExchange(rng, "r", fc, rng.Intn(4))
		n := len(ex.reply)
		for b := 0; b < 8*n; b++ {
			j++
			if !mine(j, shard, nshards) || (tier != "thorough" && b%3 != 0 && b < 8*(n-2)) {
				continue
			}
			d := append([]byte{}, ex.reply...)
			d[b/8] ^= 1 << uint(b%8)
			emit(fmt.Sprintf("dor r %s %s", ex.reqSpec, hx(d)))
		}
	}
	reps := 2
	if tier == "thorough" {
		reps = 12
	}
	for rep := 0; rep < reps; rep++ {
		for _, L := range []int{258, 259, 260} {
			for _, fc := range []int{1, 2, 3, 4, 17, 23} {
				j++
				if !mine(j, shard, nshards) {
					continue
				}
				ex := buildExchange(rng, "r", fc, 1)
				unit := ex.reply[0]
				body := append([]byte{unit, byte(fc), byte(L - 5)}, rbytes(rng, L-5)...)
				if fc == 17 {
					// server id of 10 bytes, run status, the rest is additional data
					body[2] = 10
				}
				c := crc16(body[:(L-2)%256])
				d := append(body, byte(c), byte(c>>8))
				emit(doOp(ex, 0, "n", ex.reply, "d:"+hx(d)))
				emit(doOp(ex, 0, "n", ex.reply, "e:"+hx(d)))
			}
		}
	}
}

func genC19(tier string, rng *rand.Rand, shard, nshards int, emit emitter) {
	t := tier
	genFragmentations(t, rng, shard, nshards, 1, func(op string) {
		if tier == "thorough" || rng.Intn(3) == 0 {
			emit(op)
		}
	})
	genFaults(t, rng, shard, nshards, 1, func(op string) {
		if tier == "thorough" || rng.Intn(3) == 0 {
			emit(op)
		}
	})
}
