package main

// Canonical rendering of values and errors of package packet. Must agree character for
// character with Modbus/Model/Types.lean (Req.str, Resp.str, PErr.str) and Driver/Packet.lean.

import (
	"encoding/hex"
	"fmt"
	"reflect"
	"strconv"
	"strings"

	"github.com/aldas/go-modbus-client/packet"
)

func hx(b []byte) string {
	if len(b) == 0 {
		return "-"
	}
	return hex.EncodeToString(b)
}

func unhx(s string) []byte {
	if s == "-" {
		return []byte{}
	}
	b, err := hex.DecodeString(s)
	if err != nil {
		panic("bad hex in op: " + s)
	}
	return b
}

func b01(b bool) string {
	if b {
		return "1"
	}
	return "0"
}

func errStr(err error) string {
	if err == nil {
		return "nil"
	}
	if isNilValue(err) {
		// a nil pointer of an error type inside a non-nil error: `err != nil` is true, calling Error() on it panics
		return fmt.Sprintf("err TYPED-NIL-IN-A-NON-NIL-ERROR %T", err)
	}
	if err == error(packet.ErrTCPDataTooShort) {
		return "err tooShortT"
	}
	if err == error(packet.ErrIsNotTCPPacket) {
		return "err notTCP"
	}
	if err == packet.ErrInvalidCRC {
		return "err badCRC"
	}
	switch e := err.(type) {
	case *packet.ErrorParseTCP:
		return fmt.Sprintf("err tcp code=%d tid=%d unit=%d fc=%d", e.Packet.Code, e.Packet.TransactionID, e.Packet.UnitID, e.Packet.Function)
	case *packet.ErrorParseRTU:
		return fmt.Sprintf("err rtu code=%d unit=%d fc=%d", e.Packet.Code, e.Packet.UnitID, e.Packet.Function)
	case *packet.ErrorResponseTCP:
		return fmt.Sprintf("err excT tid=%d unit=%d fc=%d code=%d", e.TransactionID, e.UnitID, e.Function, e.Code)
	case *packet.ErrorResponseRTU:
		return fmt.Sprintf("err excR unit=%d fc=%d code=%d", e.UnitID, e.Function, e.Code)
	// the library hands these four error types out as pointers (errors.As with a pointer target, the server's type
	// assertion): the same content returned by value is another error to every consumer
	case packet.ErrorParseTCP:
		return fmt.Sprintf("err BYVALUE tcp code=%d tid=%d unit=%d fc=%d", e.Packet.Code, e.Packet.TransactionID, e.Packet.UnitID, e.Packet.Function)
	case packet.ErrorParseRTU:
		return fmt.Sprintf("err BYVALUE rtu code=%d unit=%d fc=%d", e.Packet.Code, e.Packet.UnitID, e.Packet.Function)
	case packet.ErrorResponseTCP:
		return fmt.Sprintf("err BYVALUE excT tid=%d unit=%d fc=%d code=%d", e.TransactionID, e.UnitID, e.Function, e.Code)
	case packet.ErrorResponseRTU:
		return fmt.Sprintf("err BYVALUE excR unit=%d fc=%d code=%d", e.UnitID, e.Function, e.Code)
	}
	return "err plain"
}

// isNilValue: nil interface, or an interface holding a nil pointer / nil slice / nil map
func isNilValue(v any) bool {
	if v == nil {
		return true
	}
	rv := reflect.ValueOf(v)
	switch rv.Kind() {
	case reflect.Ptr, reflect.Slice, reflect.Map, reflect.Interface, reflect.Func, reflect.Chan:
		return rv.IsNil()
	case reflect.Struct:
		return rv.IsZero() // MBAPHeader{} returned by ParseMBAPHeader on error
	}
	return false
}

func readStr(fc uint8, unit uint8, addr, qty uint16) string {
	return fmt.Sprintf("read fc=%d unit=%d addr=%d qty=%d", fc, unit, addr, qty)
}

// reqBody renders the framing independent part of a request value
func reqBody(v any) (string, bool) {
	switch r := v.(type) {
	case packet.ReadCoilsRequest:
		return readStr(1, r.UnitID, r.StartAddress, r.Quantity), true
	case packet.ReadDiscreteInputsRequest:
		return readStr(2, r.UnitID, r.StartAddress, r.Quantity), true
	case packet.ReadHoldingRegistersRequest:
		return readStr(3, r.UnitID, r.StartAddress, r.Quantity), true
	case packet.ReadInputRegistersRequest:
		return readStr(4, r.UnitID, r.StartAddress, r.Quantity), true
	case packet.WriteSingleCoilRequest:
		return fmt.Sprintf("wcoil unit=%d addr=%d state=%s", r.UnitID, r.Address, b01(r.CoilState)), true
	case packet.WriteSingleRegisterRequest:
		return fmt.Sprintf("wreg unit=%d addr=%d data=%s", r.UnitID, r.Address, hx(r.Data[:])), true
	case packet.WriteMultipleCoilsRequest:
		return fmt.Sprintf("wcoils unit=%d addr=%d cnt=%d data=%s", r.UnitID, r.StartAddress, r.CoilCount, hx(r.Data)), true
	case packet.WriteMultipleRegistersRequest:
		return fmt.Sprintf("wregs unit=%d addr=%d cnt=%d data=%s", r.UnitID, r.StartAddress, r.RegisterCount, hx(r.Data)), true
	case packet.ReadServerIDRequest:
		return fmt.Sprintf("sid unit=%d", r.UnitID), true
	case packet.ReadWriteMultipleRegistersRequest:
		return fmt.Sprintf("rw unit=%d raddr=%d rqty=%d waddr=%d wqty=%d data=%s", r.UnitID, r.ReadStartAddress, r.ReadQuantity, r.WriteStartAddress, r.WriteQuantity, hx(r.WriteData)), true
	}
	return "", false
}

// reqStr renders a parsed request (pointer to a TCP or RTU request struct)
func reqStr(v any) string {
	type byteser interface{ Bytes() []byte }
	re := ""
	if b, ok := v.(byteser); ok {
		re = " re=" + safeBytes(b.Bytes)
	}
	switch r := v.(type) {
	case *packet.ReadCoilsRequestTCP:
		s, _ := reqBody(r.ReadCoilsRequest)
		return fmt.Sprintf("tid=%d %s%s", r.TransactionID, s, re)
	case *packet.ReadDiscreteInputsRequestTCP:
		s, _ := reqBody(r.ReadDiscreteInputsRequest)
		return fmt.Sprintf("tid=%d %s%s", r.TransactionID, s, re)
	case *packet.ReadHoldingRegistersRequestTCP:
		s, _ := reqBody(r.ReadHoldingRegistersRequest)
		return fmt.Sprintf("tid=%d %s%s", r.TransactionID, s, re)
	case *packet.ReadInputRegistersRequestTCP:
		s, _ := reqBody(r.ReadInputRegistersRequest)
		return fmt.Sprintf("tid=%d %s%s", r.TransactionID, s, re)
	case *packet.WriteSingleCoilRequestTCP:
		s, _ := reqBody(r.WriteSingleCoilRequest)
		return fmt.Sprintf("tid=%d %s%s", r.TransactionID, s, re)
	case *packet.WriteSingleRegisterRequestTCP:
		s, _ := reqBody(r.WriteSingleRegisterRequest)
		return fmt.Sprintf("tid=%d %s%s", r.TransactionID, s, re)
	case *packet.WriteMultipleCoilsRequestTCP:
		s, _ := reqBody(r.WriteMultipleCoilsRequest)
		return fmt.Sprintf("tid=%d %s%s", r.TransactionID, s, re)
	case *packet.WriteMultipleRegistersRequestTCP:
		s, _ := reqBody(r.WriteMultipleRegistersRequest)
		return fmt.Sprintf("tid=%d %s%s", r.TransactionID, s, re)
	case *packet.ReadServerIDRequestTCP:
		s, _ := reqBody(r.ReadServerIDRequest)
		return fmt.Sprintf("tid=%d %s%s", r.TransactionID, s, re)
	case *packet.ReadWriteMultipleRegistersRequestTCP:
		s, _ := reqBody(r.ReadWriteMultipleRegistersRequest)
		return fmt.Sprintf("tid=%d %s%s", r.TransactionID, s, re)
	case *packet.ReadCoilsRequestRTU:
		s, _ := reqBody(r.ReadCoilsRequest)
		return s + re
	case *packet.ReadDiscreteInputsRequestRTU:
		s, _ := reqBody(r.ReadDiscreteInputsRequest)
		return s + re
	case *packet.ReadHoldingRegistersRequestRTU:
		s, _ := reqBody(r.ReadHoldingRegistersRequest)
		return s + re
	case *packet.ReadInputRegistersRequestRTU:
		s, _ := reqBody(r.ReadInputRegistersRequest)
		return s + re
	case *packet.WriteSingleCoilRequestRTU:
		s, _ := reqBody(r.WriteSingleCoilRequest)
		return s + re
	case *packet.WriteSingleRegisterRequestRTU:
		s, _ := reqBody(r.WriteSingleRegisterRequest)
		return s + re
	case *packet.WriteMultipleCoilsRequestRTU:
		s, _ := reqBody(r.WriteMultipleCoilsRequest)
		return s + re
	case *packet.WriteMultipleRegistersRequestRTU:
		s, _ := reqBody(r.WriteMultipleRegistersRequest)
		return s + re
	case *packet.ReadServerIDRequestRTU:
		s, _ := reqBody(r.ReadServerIDRequest)
		return s + re
	case *packet.ReadWriteMultipleRegistersRequestRTU:
		s, _ := reqBody(r.ReadWriteMultipleRegistersRequest)
		return s + re
	}
	return fmt.Sprintf("UNKNOWN-TYPE %T", v)
}

func respBody(v any) (string, bool) {
	switch r := v.(type) {
	case packet.ReadCoilsResponse:
		return fmt.Sprintf("bits fc=1 unit=%d blen=%d data=%s", r.UnitID, r.CoilsByteLength, hx(r.Data)), true
	case packet.ReadDiscreteInputsResponse:
		return fmt.Sprintf("bits fc=2 unit=%d blen=%d data=%s", r.UnitID, r.InputsByteLength, hx(r.Data)), true
	case packet.ReadHoldingRegistersResponse:
		return fmt.Sprintf("regs fc=3 unit=%d blen=%d data=%s", r.UnitID, r.RegisterByteLen, hx(r.Data)), true
	case packet.ReadInputRegistersResponse:
		return fmt.Sprintf("regs fc=4 unit=%d blen=%d data=%s", r.UnitID, r.RegisterByteLen, hx(r.Data)), true
	case packet.ReadWriteMultipleRegistersResponse:
		return fmt.Sprintf("regs fc=23 unit=%d blen=%d data=%s", r.UnitID, r.RegisterByteLen, hx(r.Data)), true
	case packet.WriteSingleCoilResponse:
		return fmt.Sprintf("wcoil unit=%d addr=%d state=%s", r.UnitID, r.StartAddress, b01(r.CoilState)), true
	case packet.WriteSingleRegisterResponse:
		return fmt.Sprintf("wreg unit=%d addr=%d data=%s", r.UnitID, r.Address, hx(r.Data[:])), true
	case packet.WriteMultipleCoilsResponse:
		return fmt.Sprintf("wmulti fc=15 unit=%d addr=%d cnt=%d", r.UnitID, r.StartAddress, r.CoilCount), true
	case packet.WriteMultipleRegistersResponse:
		return fmt.Sprintf("wmulti fc=16 unit=%d addr=%d cnt=%d", r.UnitID, r.StartAddress, r.RegisterCount), true
	case packet.ReadServerIDResponse:
		return fmt.Sprintf("sid unit=%d status=%d id=%s add=%s", r.UnitID, r.Status, hx(r.ServerID), hx(r.AdditionalData)), true
	}
	return "", false
}

func respStr(v any) string {
	type byteser interface{ Bytes() []byte }
	re := ""
	if b, ok := v.(byteser); ok {
		re = " re=" + safeBytes(b.Bytes)
	}
	rv := reflect.ValueOf(v)
	if rv.Kind() == reflect.Ptr && !rv.IsNil() {
		el := rv.Elem()
		if el.Kind() == reflect.Struct {
			tid := ""
			body := ""
			for i := 0; i < el.NumField(); i++ {
				f := el.Field(i)
				if h, ok := f.Interface().(packet.MBAPHeader); ok {
					tid = "tid=" + strconv.Itoa(int(h.TransactionID)) + " "
					continue
				}
				if s, ok := respBody(f.Interface()); ok {
					body = s
				}
			}
			if body != "" {
				return tid + body + re
			}
		}
	}
	return fmt.Sprintf("UNKNOWN-TYPE %T", v)
}

// safeBytes calls an encoder and turns a panic into the marker PANIC
func safeBytes(f func() []byte) (s string) {
	defer func() {
		if r := recover(); r != nil {
			s = "PANIC"
		}
	}()
	return hx(f())
}

func bitsOf(s string) []bool {
	if s == "-" {
		return []bool{}
	}
	out := make([]bool, len(s))
	for i, c := range s {
		out[i] = c == '1'
	}
	return out
}

func bitStr(b []bool) string {
	if len(b) == 0 {
		return "-"
	}
	var sb strings.Builder
	for _, x := range b {
		if x {
			sb.WriteByte('1')
		} else {
			sb.WriteByte('0')
		}
	}
	return sb.String()
}
