package main

// `conc` operations (C14): N goroutines run programs of Do / Connect / Close calls on ONE client instance.
// The transport logs every call it receives (attributed to the calling goroutine), detects concurrent
// entry, and answers requests in arrival order, whoever reads.

import (
	"bytes"
	"context"
	"errors"
	"fmt"
	"io"
	"net"
	"os"
	"runtime"
	"strconv"
	"strings"
	"sync"
	"sync/atomic"
	"time"

	modbus "github.com/aldas/go-modbus-client"
	"github.com/aldas/go-modbus-client/packet"
)

func goid() int64 {
	var buf [64]byte
	n := runtime.Stack(buf[:], false)
	f := bytes.Fields(buf[:n])
	if len(f) < 2 {
		return -1
	}
	id, _ := strconv.ParseInt(string(f[1]), 10, 64)
	return id
}

type concLog struct {
	mu       sync.Mutex
	evs      []string
	inflight int32
	gids     sync.Map // goid -> thread
	nextConn int32
	yields   uint32
	rtu      bool
}

func (l *concLog) thread() int {
	if v, ok := l.gids.Load(goid()); ok {
		return v.(int)
	}
	return 99
}

func (l *concLog) add(ev string) {
	l.mu.Lock()
	l.evs = append(l.evs, ev)
	l.mu.Unlock()
}

func (l *concLog) enter(what string) func() {
	if n := atomic.AddInt32(&l.inflight, 1); n > 1 {
		l.add("X.concurrent-" + what)
	}
	return func() { atomic.AddInt32(&l.inflight, -1) }
}

// widen the windows in which a missing lock would show
func (l *concLog) yield() {
	switch atomic.AddUint32(&l.yields, 1) % 4 {
	case 1:
		runtime.Gosched()
	case 2:
		time.Sleep(20 * time.Microsecond)
	case 3:
		time.Sleep(120 * time.Microsecond)
	}
}

type concChunk struct {
	data     []byte
	id, i, n int
}

type concConn struct {
	log     *concLog
	k       int
	closed  atomic.Bool
	qmu     sync.Mutex
	pending []concChunk
}

var errConcClosed = errors.New("use of closed scripted connection")

func (c *concConn) Write(p []byte) (int, error) {
	defer c.log.enter("write")()
	t := c.log.thread()
	c.log.yield()
	id := -1
	if c.log.rtu {
		if len(p) >= 4 {
			id = int(p[2])<<8 | int(p[3])
		}
	} else if len(p) >= 10 {
		id = int(p[8])<<8 | int(p[9])
	}
	if c.closed.Load() {
		c.log.add(fmt.Sprintf("F.%d.%d.%d", t, c.k, id))
		return 0, errConcClosed
	}
	// the reply: FC16 response echoing the address (= request number) and the transaction id
	var reply []byte
	if c.log.rtu {
		reply = withCRC([]byte{p[0], 16, p[2], p[3], 0, 1})
	} else {
		// FC3 response whose payload names the request: the parsed value keeps a slice of the received bytes
		reply = []byte{p[0], p[1], 0, 0, 0, 7, p[6], 3, 4, p[8], p[9], ^p[8], ^p[9]}
	}
	n := id%3 + 1
	c.qmu.Lock()
	for i := 0; i < n; i++ {
		lo, hi := i*len(reply)/n, (i+1)*len(reply)/n
		c.pending = append(c.pending, concChunk{reply[lo:hi], id, i + 1, n})
	}
	c.log.add(fmt.Sprintf("W.%d.%d.%d", t, c.k, id))
	c.qmu.Unlock()
	c.log.yield()
	return len(p), nil
}

func (c *concConn) Read(p []byte) (int, error) {
	defer c.log.enter("read")()
	t := c.log.thread()
	c.log.yield()
	if c.closed.Load() {
		c.log.add(fmt.Sprintf("X.read-on-closed.%d.%d", t, c.k))
		return 0, errConcClosed
	}
	c.qmu.Lock()
	if len(c.pending) == 0 {
		c.qmu.Unlock()
		time.Sleep(20 * time.Microsecond)
		return 0, os.ErrDeadlineExceeded
	}
	ch := c.pending[0]
	c.pending = c.pending[1:]
	n := copy(p, ch.data)
	c.log.add(fmt.Sprintf("R.%d.%d.%d.%d.%d", t, c.k, ch.id, ch.i, ch.n))
	c.qmu.Unlock()
	c.log.yield()
	return n, nil
}

func (c *concConn) Close() error {
	defer c.log.enter("close")()
	t := c.log.thread()
	c.log.yield()
	c.closed.Store(true)
	c.log.add(fmt.Sprintf("C.%d.%d", t, c.k))
	return nil
}
func (c *concConn) LocalAddr() net.Addr                { return &net.TCPAddr{} }
func (c *concConn) RemoteAddr() net.Addr               { return &net.TCPAddr{} }
func (c *concConn) SetDeadline(t time.Time) error      { return nil }
func (c *concConn) SetWriteDeadline(t time.Time) error { return nil }
func (c *concConn) SetReadDeadline(t time.Time) error  { return nil }

type concCaller interface {
	Do(ctx context.Context, req packet.Request) (packet.Response, error)
	Close() error
}

func execConc(ts []string) string {
	if len(ts) != 3 {
		return "BADOP"
	}
	kind := ts[1]
	var progs [][]string
	for _, p := range strings.Split(ts[2], "|") {
		if p == "-" {
			progs = append(progs, nil)
		} else {
			progs = append(progs, strings.Split(p, "."))
		}
	}
	l := &concLog{rtu: kind != "t"}
	first := &concConn{log: l, k: 0}
	l.nextConn = 1
	dial := func(ctx context.Context, address string) (net.Conn, error) {
		defer l.enter("dial")()
		t := l.thread()
		l.yield()
		k := int(atomic.AddInt32(&l.nextConn, 1)) - 1
		c := &concConn{log: l, k: k}
		if t != 99 || k > 0 {
			l.add(fmt.Sprintf("D.%d.%d", t, k))
		}
		return c, nil
	}
	var caller concCaller
	var netClient *modbus.Client
	// half of the programs run on a client with hooks installed (callbacks that take their time): whatever the library
	// does around its callbacks, the exchange stays exclusive
	var hooks modbus.ClientHooks
	if variantOf(ts[2])%2 == 1 {
		hooks = yieldingHooks{l}
	}
	switch kind {
	case "t", "r":
		conf := modbus.ClientConfig{
			Hooks:       hooks,
			ReadTimeout: 60 * time.Second,
			DialContextFunc: func(ctx context.Context, address string) (net.Conn, error) {
				if ctx.Value(concFirst{}) != nil {
					return first, nil
				}
				if ctx.Value(concFail{}) != nil {
					// a connection attempt that fails (nothing is dialled, the transport sees nothing)
					l.yield()
					return nil, errors.New("dial refused by the scenario")
				}
				return dial(ctx, address)
			},
		}
		if kind == "t" {
			netClient = modbus.NewTCPClientWithConfig(conf)
		} else {
			netClient = modbus.NewRTUClientWithConfig(conf)
		}
		if err := netClient.Connect(context.WithValue(context.Background(), concFirst{}, 1), "scripted"); err != nil {
			return "e-connect"
		}
		caller = netClient
	case "s":
		opts := []modbus.SerialClientOptionFunc{modbus.WithSerialReadTimeout(60 * time.Second)}
		if hooks != nil {
			opts = append(opts, modbus.WithSerialHooks(hooks))
		}
		caller = modbus.NewSerialClient(serialPort{first}, opts...)
	default:
		return "BADOP"
	}
	results := make([][]string, len(progs))
	type keptReply struct {
		idx  int
		resp *packet.ReadHoldingRegistersResponseTCP
		tid  uint16
	}
	kept := make([][]keptReply, len(progs))
	var wg sync.WaitGroup
	start := make(chan struct{})
	var panicked atomic.Bool
	for t := range progs {
		wg.Add(1)
		go func(t int) {
			defer wg.Done()
			defer func() {
				if r := recover(); r != nil {
					panicked.Store(true)
				}
			}()
			l.gids.Store(goid(), t)
			<-start
			for _, call := range progs[t] {
				var out string
				switch {
				case call == "o":
					if netClient == nil {
						out = "e-noconnect"
					} else if err := netClient.Connect(context.Background(), "scripted"); err != nil {
						out = "e-connect"
					} else {
						out = "o"
					}
				case call == "x":
					// Connect that fails: the client stays what it was (still connected to what it was connected to)
					if netClient == nil {
						out = "e-noconnect"
					} else if err := netClient.Connect(context.WithValue(context.Background(), concFail{}, 1), "scripted"); err != nil {
						out = "xf"
					} else {
						out = "x-connected"
					}
				case call == "c":
					if err := caller.Close(); err != nil {
						out = "e-close"
					} else {
						out = "c"
					}
				default:
					id, _ := strconv.Atoi(call[1:])
					var req packet.Request
					var err error
					if kind == "t" {
						req, err = packet.NewReadHoldingRegistersRequestTCP(1, uint16(id), 2)
					} else {
						req, err = packet.NewWriteMultipleRegistersRequestRTU(1, uint16(id), []byte{0, 1})
					}
					if err != nil {
						out = "e-req"
						break
					}
					resp, err := caller.Do(context.Background(), req)
					if err != nil {
						var ce *modbus.ClientError
						switch {
						case errors.Is(err, errConcClosed) && errors.As(err, &ce):
							out = "w"
						case errors.Is(err, &modbus.ErrClientNotConnected):
							out = "n"
						default:
							out = "e-" + strings.ReplaceAll(strings.ReplaceAll(err.Error(), " ", "_"), ".", "_")
						}
						break
					}
					switch r := resp.(type) {
					case *packet.ReadHoldingRegistersResponseTCP:
						// judged when every goroutine has finished: the reply must still be the caller's own then
						kept[t] = append(kept[t], keptReply{len(results[t]), r, req.(*packet.ReadHoldingRegistersRequestTCP).TransactionID})
						out = "pending"
					case *packet.WriteMultipleRegistersResponseRTU:
						out = fmt.Sprintf("r%d", r.StartAddress)
					default:
						out = "e-resptype"
					}
				}
				results[t] = append(results[t], out)
			}
		}(t)
	}
	close(start)
	done := make(chan struct{})
	go func() { wg.Wait(); close(done) }()
	select {
	case <-done:
	case <-time.After(75 * time.Second):
		return "HANG"
	}
	if panicked.Load() {
		return "PANIC"
	}
	for t := range kept {
		for _, k := range kept[t] {
			d := k.resp.Data
			switch {
			case len(d) != 4 || d[2] != ^d[0] || d[3] != ^d[1]:
				results[t][k.idx] = "e-corrupt"
			case k.resp.TransactionID != k.tid:
				results[t][k.idx] = "e-tid"
			default:
				results[t][k.idx] = fmt.Sprintf("r%d", int(d[0])<<8|int(d[1]))
			}
		}
	}
	var rs []string
	for _, r := range results {
		if len(r) == 0 {
			rs = append(rs, "-")
		} else {
			rs = append(rs, strings.Join(r, "."))
		}
	}
	l.mu.Lock()
	defer l.mu.Unlock()
	return strings.Join(l.evs, ",") + " # " + strings.Join(rs, "|")
}

type concFirst struct{}
type concFail struct{}

// yieldingHooks are client hooks that give other goroutines a chance to run while a callback is in progress
type yieldingHooks struct{ l *concLog }

func (h yieldingHooks) BeforeWrite([]byte)               { h.l.yield() }
func (h yieldingHooks) AfterEachRead([]byte, int, error) { h.l.yield() }
func (h yieldingHooks) BeforeParse([]byte)               { h.l.yield() }

type serialPort struct{ c *concConn }

func (s serialPort) Read(p []byte) (int, error)  { return s.c.Read(p) }
func (s serialPort) Write(p []byte) (int, error) { return s.c.Write(p) }
func (s serialPort) Close() error                { return s.c.Close() }

var _ io.ReadWriteCloser = serialPort{}

// `connrace <n>`: n goroutines call Connect and Close on ONE client built by NewTCPClient() - the default dialer,
// which a harness that always injects its own dial function never reaches - against a loopback listener.
// The outcome is "ok" unless something panics; the point of the operation is the run under the race detector.
func execConnRace(ts []string) string {
	n := atoi(ts[1])
	ln, err := net.Listen("tcp", "127.0.0.1:0")
	if err != nil {
		return "e-listen"
	}
	defer ln.Close()
	go func() {
		for {
			c, err := ln.Accept()
			if err != nil {
				return
			}
			_ = c.Close()
		}
	}()
	c := modbus.NewTCPClient()
	var wg sync.WaitGroup
	var panicked atomic.Bool
	for i := 0; i < n; i++ {
		wg.Add(1)
		go func() {
			defer wg.Done()
			defer func() {
				if r := recover(); r != nil {
					panicked.Store(true)
				}
			}()
			for k := 0; k < 3; k++ {
				_ = c.Connect(context.Background(), ln.Addr().String())
				_ = c.Close()
			}
		}()
	}
	wg.Wait()
	if panicked.Load() {
		return "PANIC"
	}
	return "ok"
}
