package main

import (
	"fmt"
	"math/rand"
	"strings"
)

func init() {
	generators["C06"] = genC06
	generators["C05"] = genC05
}

func genC05(tier string, rng *rand.Rand, shard, nshards int, emit emitter) {
	count := 12000
	if tier == "thorough" {
		count = 600000
	}
	genXf(rng, "r", count/4, shard, nshards, emit)
	for i := 0; i < count; i++ {
		if !mine(i, shard, nshards) {
			continue
		}
		t := 4 + rng.Intn(4)
		fs := genFieldList(rng, false, rng.Intn(10) == 0)
		trunc := -1
		if rng.Intn(3) == 0 {
			trunc = 1 + rng.Intn(12)
			if rng.Intn(3) == 0 {
				trunc = 1 + rng.Intn(125)
			}
		}
		emit(fmt.Sprintf("extract %d %d %d %d %s", t, rng.Intn(2), trunc, rng.Intn(100000), fieldsToken(fs)))
	}
}

// dupNamed: genFieldList also gives a definition twice under one name (only the split oracle counts multiplicities)
var dupNamed = false

var servers = []string{"a:502", "b_1:502", "b:502", "tcp://c_1:1", "x"}

type genField struct {
	name                                 string
	server                               string
	unit, addr, typ, bit, hi, len, order int
}

func (f genField) String() string {
	s := f.server
	if s == "" {
		s = "-"
	}
	return fmt.Sprintf("%s,%s,%d,%d,%d,%d,%d,%d,%d", f.name, s, f.unit, f.addr, f.typ, f.bit, f.hi, f.len, f.order)
}

func fieldSize(typ, ln int) int {
	switch typ {
	case 9, 10, 12:
		return 4
	case 7, 8, 11:
		return 2
	case 13:
		return (ln + 1) / 2
	}
	return 1
}

// genFieldList builds a list of fields: clusters, gaps around the limits, overlaps, duplicates,
// several servers/units, both kinds, occasionally an invalid definition
func genFieldList(rng *rand.Rand, wantCoils bool, allowInvalid bool) []genField {
	n := rng.Intn(14)
	if rng.Intn(6) == 0 {
		n = 14 + rng.Intn(46)
	}
	limit := 125
	if wantCoils {
		limit = 2000
	}
	nsrv := 1 + rng.Intn(3)
	nunit := 1 + rng.Intn(2)
	bases := []int{0, 0, 1, 100, 65535 - limit, 65535 - 3, 65535, 32768 - limit/2, rng.Intn(65536), pick(rng, boundaries16())}
	base := bases[rng.Intn(len(bases))]
	wrapMode := rng.Intn(6) == 0
	// targets that differ although a careless grouping key makes them equal: the digits at the end of the address and
	// the unit id concatenate to the same string ("h:50"+"21" / "h:502"+"1"), or the addresses differ only in case
	var twins [][2]interface{}
	if rng.Intn(5) == 0 {
		w := fmt.Sprintf("%d", 1000+rng.Intn(9000))
		for cut := 1; cut < len(w); cut++ {
			u := 0
			fmt.Sscanf(w[cut:], "%d", &u)
			if (w[cut] == '0' && cut != len(w)-1) || u > 255 {
				continue
			}
			twins = append(twins, [2]interface{}{"h:" + w[:cut], u})
		}
		if rng.Intn(3) == 0 {
			twins = append(twins, [2]interface{}{"H:5", 1}, [2]interface{}{"h:5", 1})
		}
		if n < 4 {
			n = 4 + rng.Intn(6)
		}
	}
	fs := []genField{}
	for i := 0; i < n; i++ {
		f := genField{name: fmt.Sprintf("f%d", i)}
		f.server = servers[rng.Intn(nsrv)]
		f.unit = []int{1, 2, 0, 255}[rng.Intn(nunit)]
		if len(twins) >= 2 {
			t := twins[rng.Intn(len(twins))]
			f.server, f.unit = t[0].(string), t[1].(int)
		}
		// kind
		other := rng.Intn(5) == 0
		coil := wantCoils != other
		if coil {
			f.typ = 14
		} else {
			f.typ = 1 + rng.Intn(13)
			if rng.Intn(3) == 0 {
				f.typ = []int{5, 7, 9, 13, 12}[rng.Intn(5)]
			}
		}
		f.bit = rng.Intn(16)
		f.hi = rng.Intn(2)
		f.order = orders[rng.Intn(len(orders))]
		if f.typ == 13 {
			f.len = strLen(rng)
		} else if rng.Intn(8) == 0 {
			f.len = 1 + rng.Intn(12) // an attribute that means nothing for this type
			if rng.Intn(4) == 0 {
				f.len = 200 + rng.Intn(56)
			}
		}
		// address: cluster around base with gaps at the limit
		var off int
		switch rng.Intn(6) {
		case 0:
			off = rng.Intn(8)
		case 1:
			off = limit - 2 + rng.Intn(5)
		case 2:
			off = 2*limit - 2 + rng.Intn(5)
		case 3:
			off = rng.Intn(3 * limit)
		case 4:
			off = limit - fieldSize(f.typ, f.len) - 1 + rng.Intn(4)
		default:
			off = rng.Intn(limit)
		}
		a := base + off
		if wrapMode {
			// fields at both ends of the 16-bit address space in one group
			if rng.Intn(2) == 0 {
				a = rng.Intn(limit + 3)
			} else {
				a = 65535 - rng.Intn(limit+3)
			}
		}
		if rng.Intn(25) == 0 {
			a = rng.Intn(65536)
		}
		if a > 65535 {
			a = 65535 - rng.Intn(4)
		}
		if a < 0 {
			a = 0
		}
		f.addr = a
		if len(fs) > 0 && rng.Intn(6) == 0 {
			// duplicate address (same slot), maybe different type
			f.addr = fs[rng.Intn(len(fs))].addr
		}
		if allowInvalid && rng.Intn(60) == 0 {
			switch rng.Intn(5) {
			case 0:
				f.server = ""
			case 1:
				f.typ = 0
			case 2:
				f.typ = 15 + rng.Intn(200)
			case 3:
				f.bit = 16 + rng.Intn(200)
			default:
				f.typ, f.len = 13, 0
			}
		}
		fs = append(fs, f)
		if dupNamed && rng.Intn(12) == 0 {
			// the same definition given twice (same name, device, address), possibly read as another type of the same size
			d := fs[rng.Intn(len(fs))]
			if rng.Intn(2) == 0 {
				for _, grp := range [][]int{{1, 2, 3, 4, 5, 6}, {7, 8, 11}, {9, 10, 12}} {
					for _, t := range grp {
						if t == d.typ {
							d.typ = grp[rng.Intn(len(grp))]
						}
					}
				}
			}
			fs = append(fs, d)
			i++
		}
	}
	if rng.Intn(5) == 0 {
		// point names as a plant uses them: unique on one device, the same on every device ("temperature" on each boiler)
		cnt := map[string]int{}
		for i := range fs {
			k := fmt.Sprintf("%s/%d", fs[i].server, fs[i].unit)
			fs[i].name = fmt.Sprintf("p%d", cnt[k])
			cnt[k]++
		}
	}
	return fs
}

func fieldsToken(fs []genField) string {
	if len(fs) == 0 {
		return "-"
	}
	parts := make([]string, len(fs))
	for i, f := range fs {
		parts[i] = f.String()
	}
	return strings.Join(parts, ";")
}

func genC06(tier string, rng *rand.Rand, shard, nshards int, emit emitter) {
	count := 40000
	if tier == "thorough" {
		count = 1500000
	}
	// hand-made corner cases first
	corner := [][]genField{
		{{name: "a", server: "s", unit: 1, addr: 0, typ: 5}, {name: "b", server: "s", unit: 1, addr: 65535, typ: 5}},
		{{name: "a", server: "s", unit: 1, addr: 65535, typ: 7}},
		{{name: "a", server: "s", unit: 1, addr: 65534, typ: 9}, {name: "b", server: "s", unit: 1, addr: 0, typ: 5}},
		{{name: "a", server: "s", unit: 1, addr: 10, typ: 13, len: 255}},
		{{name: "a", server: "s", unit: 1, addr: 10, typ: 13, len: 250}, {name: "b", server: "s", unit: 1, addr: 12, typ: 5}},
		{{name: "a", server: "s", unit: 1, addr: 0, typ: 5}, {name: "b", server: "s", unit: 1, addr: 124, typ: 5}, {name: "c", server: "s", unit: 1, addr: 125, typ: 5}},
		{{name: "a", server: "s_1", unit: 1, addr: 0, typ: 5}, {name: "b", server: "s", unit: 1, addr: 1, typ: 5}},
	}
	for i, c := range corner {
		for t := 0; t < 8; t++ {
			if mine(i*8+t, shard, nshards) {
				emit(fmt.Sprintf("split %d %s", t, fieldsToken(c)))
			}
		}
	}
	for i := 0; i < count; i++ {
		if !mine(i, shard, nshards) {
			continue
		}
		t := rng.Intn(8)
		dupNamed = true
		fs := genFieldList(rng, t < 4, true)
		dupNamed = false
		emit(fmt.Sprintf("split %d %s", t, fieldsToken(fs)))
	}
}
