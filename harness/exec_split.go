package main

// `split` operations: the request builder.

import (
	"fmt"
	"sort"
	"strings"

	modbus "github.com/aldas/go-modbus-client"
	"github.com/aldas/go-modbus-client/packet"
)

func parseFields(s string) modbus.Fields {
	if s == "-" {
		return modbus.Fields{}
	}
	var out modbus.Fields
	for _, fs := range strings.Split(s, ";") {
		p := strings.Split(fs, ",")
		server := p[1]
		if server == "-" {
			server = ""
		}
		out = append(out, modbus.Field{
			Name: p[0], ServerAddress: server, UnitID: uint8(atoi(p[2])), Address: uint16(atoi(p[3])),
			Type: modbus.FieldType(atoi(p[4])), Bit: uint8(atoi(p[5])), FromHighByte: p[6] == "1",
			Length: uint8(atoi(p[7])), ByteOrder: packet.ByteOrder(atoi(p[8])),
		})
	}
	return out
}

func buildRequests(target int, fields modbus.Fields) ([]modbus.BuilderRequest, error) {
	// the builder's own defaults must not reach fields added with AddAll ("AddAll does not set ServerAddress and UnitID")
	b := modbus.NewRequestBuilder("dflt:9", 77).AddAll(fields)
	switch target {
	case 0:
		return b.ReadCoilsTCP()
	case 1:
		return b.ReadCoilsRTU()
	case 2:
		return b.ReadDiscreteInputsTCP()
	case 3:
		return b.ReadDiscreteInputsRTU()
	case 4:
		return b.ReadHoldingRegistersTCP()
	case 5:
		return b.ReadHoldingRegistersRTU()
	case 6:
		return b.ReadInputRegistersTCP()
	case 7:
		return b.ReadInputRegistersRTU()
	}
	return nil, fmt.Errorf("no such target")
}

func reqQuantity(r packet.Request) int {
	switch q := r.(type) {
	case *packet.ReadCoilsRequestTCP:
		return int(q.Quantity)
	case *packet.ReadCoilsRequestRTU:
		return int(q.Quantity)
	case *packet.ReadDiscreteInputsRequestTCP:
		return int(q.Quantity)
	case *packet.ReadDiscreteInputsRequestRTU:
		return int(q.Quantity)
	case *packet.ReadHoldingRegistersRequestTCP:
		return int(q.Quantity)
	case *packet.ReadHoldingRegistersRequestRTU:
		return int(q.Quantity)
	case *packet.ReadInputRegistersRequestTCP:
		return int(q.Quantity)
	case *packet.ReadInputRegistersRequestRTU:
		return int(q.Quantity)
	}
	return -1
}

func sortRequests(reqs []modbus.BuilderRequest) {
	sort.SliceStable(reqs, func(i, j int) bool {
		a, b := reqs[i], reqs[j]
		if a.ServerAddress != b.ServerAddress {
			return a.ServerAddress < b.ServerAddress
		}
		if a.UnitID != b.UnitID {
			return a.UnitID < b.UnitID
		}
		return a.StartAddress < b.StartAddress
	})
}

func execSplit(ts []string) string {
	target := atoi(ts[1])
	fields := parseFields(ts[2])
	reqs, err := buildRequests(target, fields)
	if err != nil {
		s := errStr(err)
		if reqs != nil {
			s += " VALUE-NONNIL"
		}
		return s
	}
	if len(reqs) == 0 {
		return "ok -"
	}
	sortRequests(reqs)
	parts := make([]string, len(reqs))
	for i, r := range reqs {
		bs := r.Bytes()
		if target%2 == 0 && len(bs) >= 2 {
			bs[0], bs[1] = 0, 0
		}
		names := make([]string, len(r.Fields))
		for j, f := range r.Fields {
			names[j] = f.Name
		}
		parts[i] = fmt.Sprintf("%s|%d|%d|%d|%s|%s", r.ServerAddress, r.UnitID, r.StartAddress, reqQuantity(r.Request), hx(bs), strings.Join(names, ","))
	}
	return "ok " + strings.Join(parts, ";")
}
