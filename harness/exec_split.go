package main

// `split` operations: the request builder.

import (
	"fmt"
	"sort"
	"strings"

	modbus "github.com/aldas/go-modbus-client"
	"github.com/aldas/go-modbus-client/packet"
)

func parseFields(s string) modbus.Fields {
	if s == "-" {
		return modbus.Fields{}
	}
	var out modbus.Fields
	for _, fs := range strings.Split(s, ";") {
		p := strings.Split(fs, ",")
		server := p[1]
		if server == "-" {
			server = ""
		}
		out = append(out, modbus.Field{
			Name: p[0], ServerAddress: server, UnitID: uint8(atoi(p[2])), Address: uint16(atoi(p[3])),
			Type: modbus.FieldType(atoi(p[4])), Bit: uint8(atoi(p[5])), FromHighByte: p[6] == "1",
			Length: uint8(atoi(p[7])), ByteOrder: packet.ByteOrder(atoi(p[8])),
		})
	}
	return out
}

func buildRequests(target int, fields modbus.Fields) ([]modbus.BuilderRequest, error) {
	// the builder's own defaults must not reach fields added with AddAll ("AddAll does not set ServerAddress and UnitID")
	b := modbus.NewRequestBuilder("dflt:9", 77)
	// the three ways of putting fields into a builder give the same requests: AddAll, Add of a wrapped field, and the
	// typed constructors with their setters (which start from the builder's defaults and must end at the field's own values)
	key := ""
	for _, f := range fields {
		key += f.Name + f.ServerAddress + string(rune(f.Address))
	}
	if variantOf(key+"zero")%5 == 0 {
		// a builder that was not made by the constructor (`var b modbus.Builder`): fields carry their own target
		b = new(modbus.Builder)
	}
	var callerSlice, callerCopy modbus.Fields
	var staged func() // fields that are added after requests have been built once
	switch variantOf(key) % 6 {
	case 1:
		for _, f := range fields {
			b.Add(&modbus.BField{Field: f})
		}
	case 2:
		// all fields are described first, then added
		bfs := make([]*modbus.BField, len(fields))
		for i, f := range fields {
			bfs[i] = fluentField(b, f)
		}
		for _, bf := range bfs {
			b.Add(bf)
		}
	case 3:
		// the first fields as a sub-slice of the caller's slice (which has room behind it); the caller then reuses its
		// slice for something else; the others are added one by one. The builder keeps what it was given, the caller's
		// slice keeps what the caller wrote
		callerSlice = append(modbus.Fields{}, fields...)
		k := len(fields) / 2
		b.AddAll(callerSlice[:k])
		for i := range callerSlice {
			callerSlice[i].Name = "JUNK"
			callerSlice[i].Address ^= 1
		}
		callerCopy = append(modbus.Fields{}, callerSlice...)
		for i := k; i < len(fields); i++ {
			b.Add(&modbus.BField{Field: fields[i]})
		}
	case 4:
		// half of the fields, requests built, the other half: the later build sees all of them
		k := len(fields) / 2
		b.AddAll(append(modbus.Fields{}, fields[:k]...))
		staged = func() { b.AddAll(append(modbus.Fields{}, fields[k:]...)) }
	case 5:
		for _, f := range fields {
			b.Add(fluentField(b, f))
		}
	default:
		b.AddAll(fields)
	}
	call := func(t int) ([]modbus.BuilderRequest, error) {
		switch t {
		case 0:
			return b.ReadCoilsTCP()
		case 1:
			return b.ReadCoilsRTU()
		case 2:
			return b.ReadDiscreteInputsTCP()
		case 3:
			return b.ReadDiscreteInputsRTU()
		case 4:
			return b.ReadHoldingRegistersTCP()
		case 5:
			return b.ReadHoldingRegistersRTU()
		case 6:
			return b.ReadInputRegistersTCP()
		case 7:
			return b.ReadInputRegistersRTU()
		}
		return nil, fmt.Errorf("no such target")
	}
	// building requests does not use the builder up: the requests of the other kind may have been built before, and
	// building the same requests again gives the same requests
	if variantOf(key+"pre")%2 == 1 {
		_, _ = call((target + 4) % 8)
	}
	if staged != nil {
		_, _ = call(target)
		staged()
	}
	reqs, err := call(target)
	reqs2, err2 := call(target)
	// (which of several invalid groups is reported first depends on map iteration order: only success/failure is compared)
	if (err == nil) != (err2 == nil) || (err == nil && reqsSig(target, reqs) != reqsSig(target, reqs2)) {
		return nil, errBuilderChanged
	}
	for i := range callerSlice {
		if callerSlice[i] != callerCopy[i] {
			return nil, errBuilderChanged
		}
	}
	return reqs, err
}

var errBuilderChanged = fmt.Errorf("BUILDER-CHANGED-BY-BUILDING")

func reqsSig(target int, reqs []modbus.BuilderRequest) string {
	cp := append([]modbus.BuilderRequest{}, reqs...)
	sortRequests(cp)
	parts := make([]string, len(cp))
	for i, r := range cp {
		bs := r.Bytes()
		if target%2 == 0 && len(bs) >= 2 {
			bs[0], bs[1] = 0, 0
		}
		names := make([]string, len(r.Fields))
		for j, f := range r.Fields {
			names[j] = f.Name
		}
		parts[i] = fmt.Sprintf("%s|%d|%d|%d|%s|%s", r.ServerAddress, r.UnitID, r.StartAddress, reqQuantity(r.Request), hx(bs), strings.Join(names, ","))
	}
	return strings.Join(parts, ";")
}

func reqQuantity(r packet.Request) int {
	switch q := r.(type) {
	case *packet.ReadCoilsRequestTCP:
		return int(q.Quantity)
	case *packet.ReadCoilsRequestRTU:
		return int(q.Quantity)
	case *packet.ReadDiscreteInputsRequestTCP:
		return int(q.Quantity)
	case *packet.ReadDiscreteInputsRequestRTU:
		return int(q.Quantity)
	case *packet.ReadHoldingRegistersRequestTCP:
		return int(q.Quantity)
	case *packet.ReadHoldingRegistersRequestRTU:
		return int(q.Quantity)
	case *packet.ReadInputRegistersRequestTCP:
		return int(q.Quantity)
	case *packet.ReadInputRegistersRequestRTU:
		return int(q.Quantity)
	}
	return -1
}

func sortRequests(reqs []modbus.BuilderRequest) {
	sort.SliceStable(reqs, func(i, j int) bool {
		a, b := reqs[i], reqs[j]
		if a.ServerAddress != b.ServerAddress {
			return a.ServerAddress < b.ServerAddress
		}
		if a.UnitID != b.UnitID {
			return a.UnitID < b.UnitID
		}
		return a.StartAddress < b.StartAddress
	})
}

func execSplit(ts []string) string {
	target := atoi(ts[1])
	fields := parseFields(ts[2])
	reqs, err := buildRequests(target, fields)
	if err == errBuilderChanged {
		return err.Error()
	}
	if err != nil {
		s := errStr(err)
		if reqs != nil {
			s += " VALUE-NONNIL"
		}
		return s
	}
	if len(reqs) == 0 {
		return "ok -"
	}
	sortRequests(reqs)
	parts := make([]string, len(reqs))
	for i, r := range reqs {
		bs := r.Bytes()
		if target%2 == 0 && len(bs) >= 2 {
			bs[0], bs[1] = 0, 0
		}
		names := make([]string, len(r.Fields))
		for j, f := range r.Fields {
			names[j] = f.Name
		}
		parts[i] = fmt.Sprintf("%s|%d|%d|%d|%s|%s", r.ServerAddress, r.UnitID, r.StartAddress, reqQuantity(r.Request), hx(bs), strings.Join(names, ","))
	}
	return "ok " + strings.Join(parts, ";")
}

func fluentField(b *modbus.Builder, f modbus.Field) *modbus.BField {
	var bf *modbus.BField
	switch f.Type {
	case modbus.FieldTypeBit:
		bf = b.Bit(f.Address, f.Bit)
	case modbus.FieldTypeByte:
		bf = b.Byte(f.Address, f.FromHighByte)
	case modbus.FieldTypeUint8:
		bf = b.Uint8(f.Address, f.FromHighByte)
	case modbus.FieldTypeInt8:
		bf = b.Int8(f.Address, f.FromHighByte)
	case modbus.FieldTypeUint16:
		bf = b.Uint16(f.Address)
	case modbus.FieldTypeInt16:
		bf = b.Int16(f.Address)
	case modbus.FieldTypeUint32:
		bf = b.Uint32(f.Address)
	case modbus.FieldTypeInt32:
		bf = b.Int32(f.Address)
	case modbus.FieldTypeUint64:
		bf = b.Uint64(f.Address)
	case modbus.FieldTypeInt64:
		bf = b.Int64(f.Address)
	case modbus.FieldTypeFloat32:
		bf = b.Float32(f.Address)
	case modbus.FieldTypeFloat64:
		bf = b.Float64(f.Address)
	case modbus.FieldTypeString:
		bf = b.String(f.Address, f.Length)
	case modbus.FieldTypeCoil:
		bf = b.Coil(f.Address)
	default:
		return &modbus.BField{Field: f}
	}
	bf.ServerAddress(f.ServerAddress).UnitID(f.UnitID).ByteOrder(f.ByteOrder).Name(f.Name)
	// attributes the constructor of this type does not take (they are part of the definition the caller handed in)
	bf.Field.Bit, bf.Field.FromHighByte, bf.Field.Length = f.Bit, f.FromHighByte, f.Length
	return bf
}
