package main

// Correspondence harness: generates operations from one PRNG state, executes them against
// the real go-modbus-client code in-process and writes `op<TAB>output` lines.
//
//   harness gen <property> <tier> <seed> <nshards> <outdir>
//   harness exec            (stdin: op lines; stdout: op<TAB>output)  -- used for replay

import (
	"bufio"
	"fmt"
	"math/rand"
	"os"
	"path/filepath"
	"sort"
	"strconv"
	"strings"
	"sync"
	"sync/atomic"
	"time"
)

func sortStrings(s []string) { sort.Strings(s) }

// execOp executes one op line against the implementation
func execOp(op string) string {
	ts := strings.Split(op, " ")
	return guarded(func() string {
		if s, ok := execPacketOp(ts); ok {
			return s
		}
		if s, ok := execExtraOp(ts); ok {
			return s
		}
		return "NOOP"
	})
}

type emitter func(op string)

type genFn func(tier string, rng *rand.Rand, shard, nshards int, emit emitter)

var generators = map[string]genFn{}

func main() {
	if len(os.Args) < 2 {
		fmt.Fprintln(os.Stderr, "usage: harness gen|exec ...")
		os.Exit(2)
	}
	switch os.Args[1] {
	case "exec":
		sc := bufio.NewScanner(os.Stdin)
		sc.Buffer(make([]byte, 1<<20), 1<<26)
		w := bufio.NewWriter(os.Stdout)
		defer w.Flush()
		for sc.Scan() {
			line := sc.Text()
			if line == "" {
				continue
			}
			if i := strings.IndexByte(line, '\t'); i >= 0 {
				line = line[:i]
			}
			fmt.Fprintf(w, "%s\t%s\n", line, execOp(line))
			w.Flush()
		}
	case "gen":
		if len(os.Args) != 7 {
			fmt.Fprintln(os.Stderr, "usage: harness gen <property> <tier> <seed> <nshards> <outdir>")
			os.Exit(2)
		}
		prop, tier := os.Args[2], os.Args[3]
		seed, _ := strconv.ParseInt(os.Args[4], 10, 64)
		nshards, _ := strconv.Atoi(os.Args[5])
		outdir := os.Args[6]
		g, ok := generators[prop]
		if !ok {
			fmt.Fprintln(os.Stderr, "no generator for", prop)
			os.Exit(2)
		}
		var wg sync.WaitGroup
		for sh := 0; sh < nshards; sh++ {
			wg.Add(1)
			go func(sh int) {
				defer wg.Done()
				f, err := os.Create(filepath.Join(outdir, fmt.Sprintf("shard-%02d.txt", sh)))
				if err != nil {
					panic(err)
				}
				w := bufio.NewWriterSize(f, 1<<20)
				rng := rand.New(rand.NewSource(seed*1000003 + int64(sh)))
				// generate a batch, then execute it with a worker pool (client/server ops sleep and wait on timers); batches
				// keep the memory of a thorough run bounded
				of, oerr := os.Create(filepath.Join(outdir, fmt.Sprintf("shard-%02d.ops", sh)))
				var ow *bufio.Writer
				if oerr == nil {
					ow = bufio.NewWriterSize(of, 1<<20)
				}
				var slow int32
				dropped := 0
				const skipped = "\x00skipped"
				var ops []string
				flush := func() {
					if len(ops) == 0 {
						return
					}
					// the operations are on disk before any of them runs: if one of them takes the whole process down (a loop
					// that never ends and allocates, a fatal runtime error) the check finds it by executing them one process at a time
					if ow != nil {
						for _, op := range ops {
							ow.WriteString(op)
							ow.WriteByte('\n')
						}
						ow.Flush()
					}
					results := make([]string, len(ops))
					workers := 1
					if strings.HasPrefix(ops[0], "do ") || strings.HasPrefix(ops[0], "dor ") || strings.HasPrefix(ops[0], "asm ") || strings.HasPrefix(ops[0], "srv ") || strings.HasPrefix(ops[0], "conc ") {
						workers = 24
					}
					if prop == "C14" {
						workers = 2 // every operation runs up to 8 spinning goroutines of its own
					}
					if prop == "C17" {
						workers = 6 // one child process (a whole server and its clients) per operation
						if tier == "race" || raceEnabled {
							workers = 2
						}
					}
					var pw sync.WaitGroup
					next := make(chan int, 1024)
					for k := 0; k < workers; k++ {
						pw.Add(1)
						go func() {
							defer pw.Done()
							for i := range next {
								// fail fast on a tree where operations hang: once four operations of this shard needed more than
								// 45 s each (none does on a healthy tree), the rest of the shard is not executed - what was
								// executed is judged, the number of dropped operations is recorded
								if atomic.LoadInt32(&slow) >= 4 {
									results[i] = skipped
									continue
								}
								t0 := time.Now()
								results[i] = execOp(ops[i])
								if time.Since(t0) > 45*time.Second {
									atomic.AddInt32(&slow, 1)
								}
							}
						}()
					}
					for i := range ops {
						next <- i
					}
					close(next)
					pw.Wait()
					for i, op := range ops {
						if results[i] == skipped {
							dropped++
							continue
						}
						w.WriteString(op)
						w.WriteByte('\t')
						w.WriteString(results[i])
						w.WriteByte('\n')
					}
					ops = ops[:0]
				}
				g(tier, rng, sh, nshards, func(op string) {
					ops = append(ops, op)
					if len(ops) >= 50000 {
						flush()
					}
				})
				flush()
				if of != nil && oerr == nil {
					of.Close()
				}
				w.Flush()
				f.Close()
				if dropped > 0 {
					_ = os.WriteFile(filepath.Join(outdir, fmt.Sprintf("shard-%02d.dropped", sh)), []byte(strconv.Itoa(dropped)), 0o644)
				}
			}(sh)
		}
		wg.Wait()
	default:
		fmt.Fprintln(os.Stderr, "unknown command")
		os.Exit(2)
	}
}
