package main

// `dor` operations: the client constructors WITHOUT configuration (NewTCPClient, NewRTUClient) - they install the
// protocol functions themselves - against a loopback peer that reads the request and writes the reply at once.
//   dor <t|r> <request spec> <reply hex>          output: the outcome of Do

import (
	"context"
	"io"
	"net"
	"strings"
	"time"

	modbus "github.com/aldas/go-modbus-client"
	"github.com/aldas/go-modbus-client/packet"
)

func execDor(ts []string) string {
	out := ""
	for attempt := 0; attempt < 3; attempt++ {
		out = execDorOnce(ts)
		// the constructors' default read timeout is real time (2 s): a timeout on a starved machine is repeated
		if !strings.Contains(out, "client:timeout") {
			break
		}
	}
	return out
}

func execDorOnce(ts []string) string {
	kind, reqSpec, reply := ts[1], ts[2], unhx(ts[3])
	p := strings.Split(reqSpec, ",")
	fr := "t"
	if kind != "t" {
		fr = "r"
	}
	req, err := construct(parseNewArgs([]string{p[0], fr, p[1], p[2], p[3], p[4], p[5], p[6], p[7], p[8]}))
	if err != nil {
		return "NOREQ"
	}
	ln, err := net.Listen("tcp", "127.0.0.1:0")
	if err != nil {
		return "e-listen"
	}
	defer ln.Close()
	release := make(chan struct{})
	go func() {
		c, err := ln.Accept()
		if err != nil {
			return
		}
		defer c.Close()
		buf := make([]byte, len(req.Bytes()))
		_ = c.SetReadDeadline(time.Now().Add(20 * time.Second))
		if _, err := io.ReadFull(c, buf); err != nil {
			return
		}
		_, _ = c.Write(reply)
		<-release // the connection stays open until the call has returned
	}()
	defer close(release)
	var c *modbus.Client
	if kind == "t" {
		c = modbus.NewTCPClient()
	} else {
		c = modbus.NewRTUClient()
	}
	if err := c.Connect(context.Background(), ln.Addr().String()); err != nil {
		return "e-connect"
	}
	defer c.Close()
	var resp packet.Response
	outcome := guarded(func() string {
		var derr error
		resp, derr = c.Do(context.Background(), req)
		if derr != nil {
			return clientErrStr(derr)
		}
		o := "ok " + respStr(resp)
		if i := strings.Index(o, " re="); i >= 0 {
			o = o[:i]
		}
		return o
	})
	return outcome
}
