#!/usr/bin/env python3
"""write seeded/README.md from seeded/*/meta.json"""
import json, os
ROOT = os.path.dirname(os.path.dirname(os.path.abspath(__file__)))
rows = []
for d in sorted(os.listdir(os.path.join(ROOT, "seeded"))):
    mp = os.path.join(ROOT, "seeded", d, "meta.json")
    if not os.path.isfile(mp):
        continue
    m = json.load(open(mp))
    prop = m["property"]
    if m.get("kind") == "behaviour-preserving refactor":
        verdict = "silent (exit 0)" if m.get("silent") else "ALARM"
        how = ""
    else:
        c = m.get("check", {}).get(prop, {})
        verdict = "caught" if m.get("caught_by_quick_check") else "MISSED"
        rep = c.get("replay_head", "")
        how = ""
        for l in rep.splitlines():
            if l.startswith("reason:"):
                how = l[len("reason:"):].strip()
                break
        if not how and rep:
            how = rep.splitlines()[0]
        if any("no-failing-input-found" in l for l in c.get("lines", [])) and verdict == "caught":
            verdict = "caught (correspondence only, no-failing-input-found)"
    summ = (m.get("summary") or "").replace("|", "/").replace("\n", " ")
    rows.append((d, prop, summ[:230], verdict, how.replace("|", "/")[:160]))
with open(os.path.join(ROOT, "seeded", "README.md"), "w") as f:
    f.write("# Seeded changes\n\nEach directory holds `patch.diff` (never committed to /repo), the sub-agent's demonstration (`demo_test.go.txt`) and `meta.json`\n"
            "(the agent's description, my confirmation in a scratch worktree, and what `./check run <property>` reported with the patch applied).\n"
            "`-A/-B` first round, `-C/-D/-E` second round (less obvious changes), `-F/-G/-H` third round (interactions, reuse, error paths, domain ends), `-R`/`-S` behaviour-preserving refactors that must stay silent.\n\n")
    f.write("| id | property | change | quick check | reported as |\n|---|---|---|---|---|\n")
    for r in rows:
        f.write("| %s | %s | %s | %s | %s |\n" % r)
    n = len([r for r in rows if not (r[0].endswith("-R") or r[0].endswith("-S"))])
    c = len([r for r in rows if r[3].startswith("caught")])
    s = len([r for r in rows if r[3].startswith("silent")])
    f.write("\n%d breaking changes, %d caught by the quick check of their property; %d refactors, %d silent.\n" % (n, c, len(rows) - n, s))
print("rows", len(rows))
