#!/usr/bin/env python3
"""Regression over everything kept under seeded/: every confirmed breaking change must still be reported by its
property's quick check, every behaviour-preserving refactor must still leave it silent.

  tools/seedregress.py [--only C03,C07] [--refactors-only] [--skip C14,C17]

Each change is applied to /repo's working tree (git apply), the check is run, the change is undone (git checkout) -
nothing is committed. Results go to .work/seedregress.json and are merged into seeded/<id>/meta.json under
"regression" (date, exit code, first line reported)."""
import json, os, sys, time
sys.path.insert(0, os.path.dirname(os.path.abspath(__file__)))
import seedtest

ROOT = os.path.dirname(os.path.dirname(os.path.abspath(__file__)))
args = sys.argv[1:]
only = skip = None
refonly = "--refactors-only" in args
for i, a in enumerate(args):
    if a == "--only":
        only = set(args[i + 1].split(","))
    if a == "--skip":
        skip = set(args[i + 1].split(","))
results = {}
bad = []
for sid in sorted(os.listdir(os.path.join(ROOT, "seeded"))):
    d = os.path.join(ROOT, "seeded", sid)
    mp, patch = os.path.join(d, "meta.json"), os.path.join(d, "patch.diff")
    if not (os.path.isfile(mp) and os.path.isfile(patch)):
        continue
    meta = json.load(open(mp))
    prop = meta.get("property") or sid.split("-")[0]
    if (only and prop not in only) or (skip and prop in skip):
        continue
    is_ref = meta.get("kind") == "behaviour-preserving refactor"
    if refonly and not is_ref:
        continue
    t0 = time.time()
    try:
        res = seedtest.check(patch, [prop])[prop]
    except Exception as ex:  # noqa
        res = {"exit": -1, "lines": [str(ex)]}
    ok = (res["exit"] == 0) if is_ref else (res["exit"] == 1)
    line = (res["lines"] or ["?"])[0][:160]
    results[sid] = {"refactor": is_ref, "exit": res["exit"], "as_expected": ok, "line": line, "seconds": round(time.time() - t0, 1)}
    meta["regression"] = {"when": time.strftime("%Y-%m-%dT%H:%MZ", time.gmtime()), "exit": res["exit"], "as_expected": ok, "reported": line}
    json.dump(meta, open(mp, "w"), indent=1)
    print(sid, "refactor" if is_ref else "mutant", "OK" if ok else "UNEXPECTED", res["exit"], "%.0fs" % (time.time() - t0), flush=True)
    if not ok:
        bad.append(sid)
json.dump(results, open(os.path.join(ROOT, ".work", "seedregress.json"), "w"), indent=1)
print("unexpected:", bad)
