#!/usr/bin/env python3
"""Regenerate the "Per property, as built" table of DESIGN.md (section 0) from evidence/*.json (a quick run of every
property on the unchanged tree) and lean/OBLIGATIONS.json."""
import json, os, re
ROOT = os.path.dirname(os.path.dirname(os.path.abspath(__file__)))
obl = json.load(open(os.path.join(ROOT, "lean", "OBLIGATIONS.json")))
rows = ["| property | theorems | names | operations of the last run (tier; kinds) | known findings hit |", "|---|---|---|---|---|"]
for i in range(1, 20):
    p = "C%02d" % i
    ev = json.load(open(os.path.join(ROOT, "evidence", p + ".json")))
    cov = ev["coverage"]
    names = sorted(n.split(".")[-1] for n in obl.get(p, []))
    shown = ", ".join(names[:9]) + (" …" if len(names) > 9 else "")
    kinds = sorted(cov.get("op_kinds", {}).items(), key=lambda kv: -kv[1])
    ks = ", ".join("%s %d" % kv for kv in kinds[:6]) + (" …" if len(kinds) > 6 else "")
    kf = ", ".join(sorted(cov.get("known_finding_hits", {}).keys())) or "-"
    rows.append("| %s | %d | %s | %d (%s; %s) | %s |" % (p, len(names), shown, cov.get("evaluations", 0), ev["tier"], ks, kf))
path = os.path.join(ROOT, "DESIGN.md")
s = open(path).read()
m = re.search(r"\| property \| theorems \| names \|.*?\n(?=\n)", s, flags=re.S)
assert m, "table not found"
s = s[:m.start()] + "\n".join(rows) + "\n" + s[m.end():]
open(path, "w").write(s)
print("\n".join(rows[:4]))
