#!/usr/bin/env python3
"""round 2: /tmp/seed/<prop>/out2 holds mutants C, D, E (must be caught) and a behaviour-preserving refactor R (must stay silent)"""
import json, os, re, shutil, sys
sys.path.insert(0, os.path.dirname(os.path.abspath(__file__)))
import seedtest

ROOT = os.path.dirname(os.path.dirname(os.path.abspath(__file__)))
only = sys.argv[1:]
OUT = os.environ.get("SEED_OUT", "out2")
KEYS = os.environ.get("SEED_KEYS", "C,D,E").split(",")
REF = os.environ.get("SEED_REF", "R")
results = {}
for prop in sorted(os.listdir("/tmp/seed")):
    out = os.path.join("/tmp/seed", prop, OUT)
    if not os.path.isfile(os.path.join(out, "meta.json")) or (only and prop not in only):
        continue
    meta = json.load(open(os.path.join(out, "meta.json")))
    for k in KEYS:
        if k not in meta or not os.path.exists(os.path.join(out, k + ".diff")):
            continue
        m = meta[k]
        sid = "%s-%s" % (prop, k)
        patch = os.path.join(out, k + ".diff")
        demo = os.path.join(out, k + "_demo_test.go")
        try:
            run = re.search(r"-run\s+(\S+)", m["demo_cmd"]).group(1)
            demo_dir = m["demo_dir"].strip("./") or "."
            conf = seedtest.confirm(prop, patch, demo, demo_dir, run, race="-race" in m.get("demo_cmd", ""))
        except Exception as ex:  # noqa
            conf = {"confirmed": False, "error": str(ex)}
            demo_dir = "?"
        entry = {"property": prop, "summary": m.get("summary"), "trigger": m.get("trigger"), "files": m.get("files"),
                 "demo_dir": demo_dir, "demo_cmd": m.get("demo_cmd"), "confirmation": conf}
        if conf.get("confirmed"):
            entry["check"] = seedtest.check(patch, [prop])
            d = os.path.join(ROOT, "seeded", sid)
            os.makedirs(d, exist_ok=True)
            shutil.copyfile(patch, os.path.join(d, "patch.diff"))
            shutil.copyfile(demo, os.path.join(d, "demo_test.go.txt"))
            entry["caught_by_quick_check"] = entry["check"][prop]["exit"] == 1
            json.dump(entry, open(os.path.join(d, "meta.json"), "w"), indent=1)
        results[sid] = entry
        print(sid, "confirmed" if conf.get("confirmed") else "NOT CONFIRMED", entry.get("caught_by_quick_check"), flush=True)
    if REF in meta and os.path.exists(os.path.join(out, REF + ".diff")):
        sid = prop + "-" + REF
        patch = os.path.join(out, REF + ".diff")
        entry = {"property": prop, "summary": meta[REF].get("summary"), "files": meta[REF].get("files"), "kind": "behaviour-preserving refactor"}
        try:
            entry["check"] = seedtest.check(patch, [prop])
            entry["silent"] = entry["check"][prop]["exit"] == 0
            d = os.path.join(ROOT, "seeded", sid)
            os.makedirs(d, exist_ok=True)
            shutil.copyfile(patch, os.path.join(d, "patch.diff"))
            json.dump(entry, open(os.path.join(d, "meta.json"), "w"), indent=1)
        except Exception as ex:  # noqa
            entry["error"] = str(ex)
        results[sid] = entry
        print(sid, "refactor silent:", entry.get("silent"), entry.get("error", ""), flush=True)
json.dump(results, open(os.path.join(ROOT, ".work", "seedresults-%s-%s.json" % (OUT, "-".join(only) or "all")), "w"), indent=1)
