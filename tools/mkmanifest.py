#!/usr/bin/env python3
"""Regenerates MANIFEST.json from the table below (claimed properties and their notes)."""
import json, os
ROOT = os.path.dirname(os.path.dirname(os.path.abspath(__file__)))

TB = ("Trusted: Lean 4.33.0 kernel; axioms propext/Quot.sound/Classical.choice only (audited per theorem, no native_decide/bv_decide/sorry); "
      "the hand-written Lean model of the Go code and the Spec definitions; the correspondence harness + compiled Lean driver that tie the model to /repo's "
      "working tree on every run (differential, exhaustive on the small axes, sampled elsewhere); Go stdlib semantics written into the model.")

CLAIMS = {
 "C07": dict(
   text="Lean theorems (Properties/C07.lean) over the model of the read loop of all three clients: complete_reply/C07_partial - for EVERY fragmentation of a conforming reply into non-empty reads with any number of timed-out reads in between (induction over the script, unbounded), the call returns exactly the parsed reply whenever ExpectedResponseLength equals the reply length, which expLen_ok proves for TCP FC1,2,3,4,6,15,16 and RTU FC15,16; exception_reply_tcp - an exception frame is returned as the typed exception for every fragmentation when at least 9 bytes are announced; never_truncated - a frame reaches the parser only after the announced number of bytes (or EOF). The other eleven request types announce a wrong length (test-pinned): 13 known findings with witness theorems (C07_full_false). Tie to the code: 20 request types x 3 clients x reply sizes x every single cut position (thorough: all), all cut sets of replies <= 12 bytes, pairs of cuts, byte-by-byte, timeouts in between, exception replies; real Client/SerialClient against a scripted net.Conn / serial port.",
   ref="DESIGN.md §3 C07", technique="Lean 4 proof (induction over read scripts) + differential correspondence check against scripted transports",
   note="Trusted as everywhere, plus: the transport script abstraction (one event per Read call; chunk sizes as served by the scripted net.Conn/io.ReadWriteCloser of the harness), time.After modelled as 'fires only after the script is exhausted'."),
 "C08": dict(
   text="Lean theorems (Properties/C08.lean): the read loop is a total structural recursion over the transport script (no hang, no panic outcome); after ANY harmless prefix of reads (any cut of a proper prefix of a reply, with timeouts) a stall ends in ClientError(timeout), an I/O error in ClientError(io), cancellation in the context's error, more bytes than a frame can hold in ErrPacketTooLong, a rejected write in ClientError(write) [a failing serial flusher replaces these by its own ClientError]; every error is one of the classified ones; success needs the announced number of bytes or EOF. PARTIAL with respect to real time: 'returns within a bounded time' is the Go timer, measured by the harness (10 s watchdog per call => outcome HANG), not proved; not-connected / nil-request returns are checked by the correspondence run only. Known finding KF-C08-fc17-prefix (truncated FC17 reply reported as success; same root as KF-C07-fc17). Tie to the code: every request type x prefix lengths x {stall, EOF, I/O error, oversize, write error, cancel, not connected, nil request} x 3 clients x flusher none/ok/failing.",
   ref="DESIGN.md §3 C08", technique="Lean 4 proof (totality + case lemmas over read scripts) + fault-injecting correspondence check",
   note="As C07. Real time, the Go scheduler and net deadlines are outside the model (partial)."),
 "C12": dict(
   text="Lean theorems (Properties/C12.lean): for the RTU network client and the serial client and EVERY transport script (hence every corruption, truncation, extension and fragmentation), a returned response was parsed from a frame whose CRC matches and a returned device exception was recognised on five bytes whose CRC matches; contrapositive = the property. (The unrepaired code recognised exceptions before any CRC check: repaired in 31b1edb.) Tie to the code: every RTU reply shape x all single-bit flips (sampled beyond 16 bytes in quick), byte substitutions, multi-byte corruptions, truncations, extensions, 5-byte exception look-alikes x whole / cut at 5 / random cuts.",
   ref="DESIGN.md §3 C12", technique="Lean 4 proof (invariant over read scripts + CRC lemmas of C03) + corruption-injecting correspondence check"),
 "C19": dict(
   text="Lean theorems (Properties/C19.lean): installing hooks does not change the outcome; BeforeWrite is the first call and receives the encoded request; AfterEachRead is called once per read the transport served, in order, with exactly the bytes, count and error of that read (readLoop_log); BeforeParse, when a frame is handed to the parser, is the last call and receives exactly the concatenation of the bytes read; it is not called on errors. Tie to the code: a recording ClientHooks implementation on all three clients; its log is compared with the reads the scripted transport actually served (ground truth kept by the transport), for the fragmentation and fault scripts of C07/C08, each call also repeated without hooks.",
   ref="DESIGN.md §3 C19", technique="Lean 4 proof (log invariant over read scripts) + correspondence check with a recording hook and a recording transport"),
 "C05": dict(
   text="Lean theorems (Properties/C05.lean): builder_extract - for every field list and FC3/FC4 target for which split() returns requests, the requests' fields are a permutation of the register fields (each exactly once) and, for every request, every device memory image, every spare capacity, strict or lenient mode and every reply of k>=1 delivered registers (k = quantity: the full conforming reply; k < quantity: the truncation clause) with the window inside the address space, ExtractFields equals the specification loop: each field in order with the value decoded DIRECTLY from the device memory at the field's own address/type/order when its registers were delivered, an error otherwise; corollaries: all fields delivered => every field reported with its direct value; strict mode fails as a whole iff some field is unreachable; lenient mode returns every field with exactly the unreachable ones failed. Built from C04 (accessor = addressed wire bytes), C06 (span inside window, permutation) and C13 (payload unchanged between fields). Tie to the code: 12k (thorough 600k) scenarios: random field multisets over several servers/units, memory images (binary and text with NULs), FC3/FC4 x TCP/RTU, strict/lenient, truncation at 1..125 registers; replies are encoded by the harness independently and must equal the library's own encoding; values compared with direct decoding of the memory.",
   ref="DESIGN.md §3 C05", technique="Lean 4 proof (composition of C04, C06, C13; induction over the field list) + differential correspondence check"),
 "C06": dict(
   text="Lean theorems (Properties/C06.lean): split_ok - whenever the model of split() returns requests, the fields of all requests are a permutation of the requested-kind fields (every field exactly once, none of the other kind), and every request has a field, targets its fields' server and unit, contains every field's span in [start,start+q) over N, is tight at both ends, has 1<=q<=125/2000, and its packet is the read request of the target function for (unit,start,q) (bytes by C01); never_split - a group whose slots all end within the limit of its lowest address becomes exactly one batch; groups_partition - groups have pairwise different (server,unit,kind) keys. Proved by an invariant over the greedy fold on the sorted slot list, for every field list (no bound on length). Tie to the code: 40k (thorough 1.5M) field lists: all 14 types, clusters, gaps at limit-1/limit/limit+1, overlaps, duplicates, fields at both ends of the address space, several servers/units, invalid definitions, all 8 targets; the nine clauses are also checked directly on the implementation's output.",
   ref="DESIGN.md §3 C06", technique="Lean 4 proof (loop invariant by induction over the sorted slot list, permutation arguments) + differential correspondence check"),
 "C04": dict(
   text="Lean theorem C04 (Properties/C04.lean): for every payload of n>=1 registers, every content of the slice's spare capacity, every start address with start+n <= 65536 (windows ending at 65535 included), every one of the 23 accessors, every byte/word order and every requested address 0..65535, the model accessor returns exactly Spec.access: the decoding of the wire bytes of the addressed registers when they all lie in the window, an error otherwise - hence no panic and no dependence on bytes outside the payload. (The unrepaired uint16 window arithmetic violated this; repaired in 03e4f05.) Tie to the code: window sizes 1..125 x window positions at 0 / ending at 65536 / around 32768 x addresses across both edges and start+-32768 x all accessors x 9 orders x string lengths 1..255, exact and poisoned capacity.",
   ref="DESIGN.md §3 C04", technique="Lean 4 proof (window arithmetic over Nat vs uint16, per-accessor decoding lemmas) + differential correspondence check"),
 "C13": dict(
   text="Lean theorems (Properties/C13.lean): every accessor returns the payload unchanged; for every sequence of accessor calls the payload afterwards equals the payload before and each result equals the result of that call made alone, hence repetition and any reordering give the same results. The statement is immediate in the model because (after repair 03f4be9) no accessor writes; what ties it to the code is the correspondence check, which compares the real payload bytes after sequences of 1..24 calls (overlaps, repeats, permutations) and each result with a solo call on a fresh copy.",
   ref="DESIGN.md §3 C13", technique="Lean 4 proof (state-passing model, induction over call sequences) + differential correspondence check"),
 "C02": dict(
   text="Lean theorems (Properties/C02.lean): for every well-formed response value of FC1-6/15/16/23 (byte count = payload length 1..255, arbitrary payload bytes, any transaction/unit id) the per-function parser, the dispatcher and (RTU) the CRC-checking dispatcher return exactly that value from its encoding, so the re-encoding is the frame; ANY 9-byte TCP / 5-byte RTU frame with the high bit of the function byte set is returned as the typed exception carrying unit, function-128 and code (or ErrInvalidCRC), never a value; a byte-count response whose length disagrees with its byte count is an error. FC17's variable layout is covered by the correspondence check only. Tie to the code: every byte count 0..255 x actual length (-2..+2) x FC1/2/3/4/23/17 x TCP/RTU x all parse paths, every length of the fixed-size responses, all 128x256 exception frames.",
   ref="DESIGN.md §3 C02", technique="Lean 4 proof (symbolic evaluation of response parsers on encoded frames) + differential correspondence check"),
 "C11": dict(
   text="Lean theorems (Properties/C11.lean): lookups before the start address and beyond the last bit are errors for every payload/start/address; inside the window isBitSet returns bit i%8 of byte len-1-i/8, which equals the Modbus layout (bit i%8 of byte i/8 = CoilsToBytes' layout, proved: write_readback) exactly outside the known-finding region KF-C11-byte-order (the code indexes bytes from the end; pinned by the repository's IsCoilSet tests); witness and negation of the full statement are theorems. Tie to the code: IsCoilSet/IsInputSet on payloads of 1..250 bytes, starts across the address space, addresses inside, before and beyond; CoilsToBytes for every length 0..2000.",
   ref="DESIGN.md §3 C11", technique="Lean 4 proof (bit arithmetic, case analysis) + differential correspondence check"),
 "C15": dict(
   text="Lean theorems (Properties/C15.lean) over the model of ModbusTCPAssembler.ReceiveRead + the connection loop: segmentation_independent - for every handler, every byte stream and ANY two ways of cutting it into non-empty reads, the concatenated replies, the close decision and the bytes left in the reassembly buffer are equal (so also equal to delivering the stream in one read); answered_once_in_order - a stream that is a concatenation of delimited frames f1..fn followed by an incomplete rest yields exactly reply(f1)++...++reply(fn), nothing for the rest, which stays buffered; prefix_pending - no proper prefix of a frame produces output; encoded_request_delimited - every encoded request (other than FC17: known finding) is such a frame; runReads_defined - the fuel of the model loop never runs out. Tie to the code: reads of 1..n bytes over streams of 1..6 pipelined requests (all constructors, unsupported functions, malformed bodies, garbage tails) fed to the real ReceiveRead through sub-slices of a connection buffer with stale bytes, handler = conforming device / typed error / generic error / mix; model output compared per read, oracle = ideal framer by length field.",
   ref="DESIGN.md §3 C15", technique="Lean 4 proof (induction over reads and over the frame loop, append lemma for the classifier) + differential correspondence check"),
 "C16": dict(
   text="Lean theorems (Properties/C16.lean): server_reply - for every handler and every complete frame with a valid header and supported function code, whatever follows it in the buffer, the reply is one of: the 9-byte exception (frame's tid, unit, fc|0x80, code 03) when the request parser refuses the frame (never a panic: C10); the handler's response encoded with the request's transaction id; the 9-byte exception with the handler's code or 04 for other errors, all addressed with bytes 0-1, 6, 7 of the frame; reply_unsupported - non-zero unsupported function codes are answered with code 01 and the request's ids; fc3_quantity_code3 - out-of-range quantity is code 03 (general form: C09.accepted_tcp); exception_layout/exception_tid - byte layout. A panicking handler gives no reply in the model (connection closed by recover in Go: covered by C17 operations). Tie to the code: single complete frames over all function codes 0..255, boundary quantities/byte counts/coil values, truncated and over-long bodies x handler kinds; oracle checks ids, length field, exception shape and code independently of the model.",
   ref="DESIGN.md §3 C16", technique="Lean 4 proof (error-shape invariant of all request parsers, classifier closed form, case analysis of the handler result) + differential correspondence check"),
 "C18": dict(
   text="Lean theorems (Properties/C18.lean): every prefix <8 bytes of any encoded request is 'too short'; every prefix >=8 bytes of an encoded request other than FC17 is accepted with expected length = frame length (FC17's 8-byte request is rejected by pduLen<3: known finding, test-pinned, witness theorem); if the classifier accepts a header and the announced number of bytes is present, ParseTCPRequest either succeeds or returns an error that encodes to a 9-byte exception with the frame's transaction id, unit id, function code and code 1 or 3; unsupported function codes are classified with the matching illegal-function exception. Tie to the code: prefixes of frames of all constructors; 8-byte headers over length fields 0..300+boundaries (thorough 0..65535) x function codes 0..255 x protocol ids, each followed by ParseTCPRequest on a body of the announced length.",
   ref="DESIGN.md §3 C18", technique="Lean 4 proof (closed form of the classifier, error-shape invariant over all request parsers) + differential correspondence check"),
 "C09": dict(
   text="Lean theorems (Properties/C09.lean): C09_roundtrip_partial - for every request the constructors build from specification-legal arguments (outside the known-finding region FC1/FC2 quantity 126..2000, which the library's own parsers refuse; test-pinned) all six parse paths (per-function and dispatcher for TCP; per-function, dispatcher, CRC-checking dispatcher for RTU; per-function RTU without the CRC trailer) return exactly that request, for any spare capacity; accepted_* - whatever any request parser accepts consists of the frame's own bytes at the specified offsets with quantities inside the limits, so out-of-range frames are never decoded. Tie to the code: constructor -> Bytes -> every parse path on all quantities 0..2200 (thorough 0..65535), all coil counts, all payload lengths; frames with every out-of-range quantity through per-function parsers and dispatchers.",
   ref="DESIGN.md §3 C09", technique="Lean 4 proof (symbolic evaluation of parsers on encoded frames; decoder soundness) + differential correspondence check"),
 "C01": dict(
   text="Lean theorem C01_partial: for every framing, transaction id and argument record, if the model constructor accepts then the arguments are within the specification's limits, the encoded bytes equal Spec.adu (MBAP header with protocol id 0 and length = following bytes / unit first and CRC last, big-endian fields, byte count = payload length, coils LSB-first) and the frame is at most 260/256 bytes - for all inputs outside the two known-finding regions (FC16 with 124 registers, FC23 with 122..124 write registers: the code accepts them, tests pin the messages), whose witnesses are theorems too (C01_full_false). Tie to the code: all 20 constructors + Bytes() run against the model over every quantity 0..2200 (thorough: 0..65535), every coil count 0..2100, every payload length 0..300, the uint16 conversion wrap.",
   ref="DESIGN.md §3 C01", technique="Lean 4 proof (case analysis per constructor, list/BitVec arithmetic) + differential correspondence check"),
 "C10": dict(
   text="Lean theorems (Properties/C10.lean): each of the 50 parse entry points of the model, given ANY visible bytes and ANY content of the slice's spare capacity, returns the same result as with empty spare capacity and never panics. The model's slices follow Go (index checks against len, re-slicing against cap, exposing stale bytes), so a missing guard makes the theorem false. Tie to the code: every entry point is run on every length 0..300 with header-consistent frames, truncations of valid frames (with the rest of the frame in the spare capacity), byte counts 0..255 x lengths around them, mutations and noise, each with exact-capacity and poisoned-capacity slices; nil-value-on-error checked by reflection.",
   ref="DESIGN.md §3 C10", technique="Lean 4 proof (guard arithmetic by omega over a Go-slice model) + differential correspondence check"),
 "C03": dict(
   text="Lean theorems: CRC16 model = bit-serial Modbus CRC for every byte string (induction over the message, linearity of the shift register); every RTU encoder's output ends with that CRC low byte first; the WithCRC entry points return ErrInvalidCRC iff the trailer differs from the CRC of the rest. Tie to the code: differential run of packet.CRC16, all RTU encoders and ParseRTU*WithCRC against the model (all 1- and 2-byte messages = every 16-bit state, every length 0..300, all 65536 exception frames; thorough: all 2^24 three-byte messages and all 65536 trailers on 40+ frames).",
   ref="DESIGN.md §3 C03", technique="Lean 4 proof (induction, BitVec algebra) + differential correspondence check"),
}

NOT_YET = "machinery under construction in this session; will be claimed once its model, theorems and correspondence check are in place"

def main():
    checks = []
    na = []
    for i in range(1, 20):
        p = "C%02d" % i
        if p in CLAIMS:
            c = CLAIMS[p]
            checks.append({
                "property_id": p,
                "quick_cmd": "./check run %s --tier quick" % p,
                "thorough_cmd": "./check run %s --tier thorough" % p,
                "evidence_file": "/verif/evidence/%s.json" % p,
                "replay_cmd_template": "./check replay {path}",
                "engine": "lean-model+correspondence",
                "level_claimed": {"category": "proof", "text": c["text"], "design_ref": c["ref"]},
                "level_note": c.get("note", TB),
                "technique": c["technique"],
            })
        else:
            na.append({"property_id": p, "reason": NA.get(p, NOT_YET)})
    m = {
        "version": 1,
        "setup_cmd": "./check setup",
        "hooks": {"guard": "verif", "enable": "go build -tags verif (the harness is built with the tag; no hook files exist in /repo so far)",
                  "baseline_off_cmd": "cd /repo && go test -vet=off -count=1 ./...",
                  "source_commits": [], "add_only": True},
        "engines": [{"name": "lean-model+correspondence", "path": "/verif/check",
                     "serves_properties": sorted(CLAIMS.keys()),
                     "kind_free_text": "Lean 4 model + Spec + theorems (lean/), compiled Lean driver, Go differential harness (harness/), python orchestrator (check)"}],
        "checks": checks,
        "not_applicable": na,
        "notes": "See DESIGN.md. Known findings are listed in KNOWN_FINDINGS.txt; `./check run Cxx` prints a KNOWN-FINDING line for each and exits 0.",
    }
    with open(os.path.join(ROOT, "MANIFEST.json"), "w") as f:
        json.dump(m, f, indent=1)
        f.write("\n")

NA = {}
if __name__ == "__main__":
    main()
