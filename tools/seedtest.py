#!/usr/bin/env python3
"""Confirm a seeded change and run the checks against it.

  tools/seedtest.py confirm <prop> <patch.diff> <demo_test.go> <demo_dir> <TestName-regex>
        in a scratch worktree of /repo (under /tmp, removed afterwards): the clean tree passes the demo; with the patch the
        tree builds (also with -tags verif), the unedited suite passes and the demo fails.
  tools/seedtest.py check <patch.diff> <prop> [<prop> ...]
        apply the patch to /repo, run `./check run <prop>` for each, undo the patch (git checkout), print what was reported.
The tool never commits anything to /repo.
"""
import json, os, shutil, subprocess, sys, tempfile

REPO = os.environ.get("VERIF_REPO", "/repo")   # a scratch worktree of /repo when several batches run side by side
ROOT = os.path.dirname(os.path.dirname(os.path.abspath(__file__)))
ENV = dict(os.environ, GOFLAGS="-mod=mod", GOPROXY="off", GOSUMDB="off", GOTOOLCHAIN="local")


def sh(cmd, cwd=None, env=None, timeout=5400):
    p = subprocess.run(cmd, cwd=cwd, env=ENV if env is None else env, stdout=subprocess.PIPE, stderr=subprocess.STDOUT, universal_newlines=True, timeout=timeout)
    return p.returncode, p.stdout


def confirm(prop, patch, demo, demo_dir, test_re, race=False):
    global ENV
    saved = ENV
    if race:
        ENV = dict(ENV, CGO_ENABLED="1")
    try:
        return _confirm(prop, patch, demo, demo_dir, test_re, ["-race"] if race else [])
    finally:
        ENV = saved


def _confirm(prop, patch, demo, demo_dir, test_re, extra):
    wt = tempfile.mkdtemp(prefix="seedconfirm-")
    os.rmdir(wt)
    res = {"property": prop}
    try:
        rc, out = sh(["git", "-C", REPO, "worktree", "add", "--detach", wt, "HEAD"])
        assert rc == 0, out
        dst = os.path.join(wt, demo_dir, os.path.basename(demo))
        shutil.copyfile(demo, dst)
        rc, out = sh(["go", "test", "-vet=off", "-count=1"] + extra + ["-run", test_re, "./" + demo_dir], cwd=wt)
        res["demo_passes_on_clean_tree"] = rc == 0
        res["clean_out"] = out[-600:]
        os.remove(dst)
        rc, out = sh(["git", "apply", os.path.abspath(patch)], cwd=wt)
        res["applies"] = rc == 0
        if rc != 0:
            res["apply_out"] = out[-600:]
            return res
        rc1, o1 = sh(["go", "build", "./..."], cwd=wt)
        rc2, o2 = sh(["go", "build", "-tags", "verif", "./..."], cwd=wt)
        res["builds"] = rc1 == 0 and rc2 == 0
        rc, out = sh(["go", "test", "-vet=off", "-count=1", "./..."], cwd=wt)
        res["suite_passes_with_patch"] = rc == 0
        if rc != 0:
            res["suite_out"] = out[-1500:]
        shutil.copyfile(demo, dst)
        rc, out = sh(["go", "test", "-vet=off", "-count=1"] + extra + ["-run", test_re, "./" + demo_dir], cwd=wt)
        res["demo_fails_with_patch"] = rc != 0
        res["mutant_out"] = out[-900:]
    finally:
        sh(["git", "-C", REPO, "worktree", "remove", "--force", wt])
        shutil.rmtree(wt, ignore_errors=True)
    res["confirmed"] = bool(res.get("demo_passes_on_clean_tree") and res.get("applies") and res.get("builds")
                            and res.get("suite_passes_with_patch") and res.get("demo_fails_with_patch"))
    return res


def check(patch, props, tier="quick"):
    rc, out = sh(["git", "-C", REPO, "status", "--porcelain"])
    assert out.strip() == "", "/repo is not clean: " + out
    rc, out = sh(["git", "-C", REPO, "apply", os.path.abspath(patch)])
    assert rc == 0, out
    results = {}
    try:
        for p in props:
            rc, out = sh([os.path.join(ROOT, "check"), "run", p, "--tier", tier], cwd=ROOT, env=os.environ)
            lines = [l for l in out.splitlines() if l.startswith("VIOLATION") or l.startswith("OK ")]
            detail = ""
            for l in lines:
                if l.startswith("VIOLATION") and "replay=" in l:
                    path = l.split("replay=")[1].split()[0]
                    try:
                        detail = open(path).read()[:700]
                    except OSError:
                        pass
                    break
            results[p] = {"exit": rc, "lines": lines, "replay_head": detail}
    finally:
        sh(["git", "-C", REPO, "checkout", "--", "."])
        sh(["git", "-C", REPO, "clean", "-fd"])
    return results


if __name__ == "__main__":
    if sys.argv[1] == "confirm":
        print(json.dumps(confirm(*sys.argv[2:7]), indent=1))
    elif sys.argv[1] == "check":
        tier = os.environ.get("SEED_TIER", "quick")
        print(json.dumps(check(sys.argv[2], sys.argv[3:], tier), indent=1))
