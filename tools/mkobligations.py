#!/usr/bin/env python3
"""Record the inventory of property theorems: lean/OBLIGATIONS.json lists, per property, the theorems of
ModbusProofs/Properties/<id>.lean as the audit (lake env lean ModbusProofs/Audit.lean) sees them now.
`./check run` requires every listed theorem to be present, to have the recorded statement (structural hash of its
type) and to be free of disallowed axioms, so a theorem that is
dropped or renamed while a proof is being repaired does not go unnoticed. Run after adding theorems."""
import json, os, subprocess, sys
ROOT = os.path.dirname(os.path.dirname(os.path.abspath(__file__)))
LEAN = os.path.join(ROOT, "lean")
r = subprocess.run(["lake", "build"], cwd=LEAN, stdout=subprocess.PIPE, stderr=subprocess.STDOUT, universal_newlines=True)
if r.returncode != 0:
    sys.exit("lake build failed\n" + r.stdout[-2000:])
r = subprocess.run(["lake", "env", "lean", "ModbusProofs/Audit.lean"], cwd=LEAN, stdout=subprocess.PIPE, universal_newlines=True)
data = json.loads(r.stdout)
out = {}
for t in data["theorems"]:
    if t["name"].endswith((".inj", ".injEq", ".sizeOf_spec")):
        continue  # generated with an inductive type, not a statement of this project
    # name -> structural hash of the statement (a statement that is weakened while a proof is repaired changes it)
    out.setdefault(t["module"].split(".")[-1], {})[t["name"]] = t.get("stmt", "")
json.dump(out, open(os.path.join(LEAN, "OBLIGATIONS.json"), "w"), indent=1, sort_keys=True)
print({k: len(v) for k, v in sorted(out.items())})
