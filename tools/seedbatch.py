#!/usr/bin/env python3
"""confirm and check all seeded changes delivered under /tmp/seed/<prop>/out; copy confirmed ones to /verif/seeded/"""
import json, os, re, shutil, sys
sys.path.insert(0, os.path.dirname(os.path.abspath(__file__)))
import seedtest

ROOT = os.path.dirname(os.path.dirname(os.path.abspath(__file__)))
only = sys.argv[1:]
results = {}
for prop in sorted(os.listdir("/tmp/seed")):
    out = os.path.join("/tmp/seed", prop, "out")
    if not os.path.isfile(os.path.join(out, "meta.json")) or (only and prop not in only):
        continue
    meta = json.load(open(os.path.join(out, "meta.json")))
    for k in ("A", "B"):
        m = meta[k]
        sid = "%s-%s" % (prop, k)
        patch = os.path.join(out, k + ".diff")
        demo = os.path.join(out, k + "_demo_test.go")
        run = re.search(r"-run\s+(\S+)", m["demo_cmd"]).group(1)
        demo_dir = m["demo_dir"].strip("./") or "."
        conf = seedtest.confirm(prop, patch, demo, demo_dir, run)
        entry = {"property": prop, "summary": m.get("summary"), "trigger": m.get("trigger"), "files": m.get("files"),
                 "demo_dir": demo_dir, "demo_cmd": m["demo_cmd"], "confirmation": conf}
        if conf.get("confirmed"):
            entry["check"] = seedtest.check(patch, [prop])
            d = os.path.join(ROOT, "seeded", sid)
            os.makedirs(d, exist_ok=True)
            shutil.copyfile(patch, os.path.join(d, "patch.diff"))
            shutil.copyfile(demo, os.path.join(d, "demo_test.go.txt"))
            caught = entry["check"][prop]["exit"] != 0
            entry["caught_by_quick_check"] = caught
            json.dump(entry, open(os.path.join(d, "meta.json"), "w"), indent=1)
        results[sid] = entry
        print(sid, "confirmed" if conf.get("confirmed") else "NOT CONFIRMED", entry.get("caught_by_quick_check"), flush=True)
json.dump(results, open(os.path.join(ROOT, ".work", "seedresults.json"), "w"), indent=1)
