import Modbus.Basic
/-
  Values the packet layer produces: requests, responses, errors.
  One inductive for all request types of both framings (the Go code has one struct per
  function code and framing; the entry point determines which). TCP values carry the
  transaction id next to the request.
-/
namespace Modbus.Model

/-- Classified Go error values of package `packet` (never message text). -/
inductive PErr where
  /-- `*ErrorParseTCP` with its embedded exception packet (code, tid, unit, function) -/
  | tcp (code : UInt8) (tid : UInt16) (unit fc : UInt8)
  /-- `*ErrorParseRTU` (code, unit, function) -/
  | rtu (code unit fc : UInt8)
  /-- `*ErrorResponseTCP` — a device exception, TCP -/
  | excT (tid : UInt16) (unit fc code : UInt8)
  /-- `*ErrorResponseRTU` — a device exception, RTU -/
  | excR (unit fc code : UInt8)
  /-- the sentinel `ErrTCPDataTooShort` (an `*ErrorParseTCP` with code 0, compared by identity) -/
  | tooShortT
  /-- the sentinel `ErrIsNotTCPPacket` -/
  | notTCP
  /-- `ErrInvalidCRC` -/
  | badCRC
  /-- `errors.New` / `fmt.Errorf` values without structure -/
  | plain
  deriving Repr, DecidableEq

def PErr.str : PErr → String
  | .tcp c t u f => s!"err tcp code={c} tid={t} unit={u} fc={f}"
  | .rtu c u f => s!"err rtu code={c} unit={u} fc={f}"
  | .excT t u f c => s!"err excT tid={t} unit={u} fc={f} code={c}"
  | .excR u f c => s!"err excR unit={u} fc={f} code={c}"
  | .tooShortT => "err tooShortT"
  | .notTCP => "err notTCP"
  | .badCRC => "err badCRC"
  | .plain => "err plain"

abbrev PRes (α : Type) := Res PErr α

/-- Request values (framing independent part). -/
inductive Req where
  /-- FC1..FC4: `{UnitID, StartAddress, Quantity}` -/
  | read (fc unit : UInt8) (addr qty : UInt16)
  /-- FC5 -/
  | wcoil (unit : UInt8) (addr : UInt16) (state : Bool)
  /-- FC6: `Data [2]byte` -/
  | wreg (unit : UInt8) (addr : UInt16) (d0 d1 : UInt8)
  /-- FC15: `CoilCount`, `Data` -/
  | wcoils (unit : UInt8) (addr cnt : UInt16) (data : Bytes)
  /-- FC16 -/
  | wregs (unit : UInt8) (addr cnt : UInt16) (data : Bytes)
  /-- FC17 -/
  | sid (unit : UInt8)
  /-- FC23 -/
  | rw (unit : UInt8) (raddr rqty waddr wqty : UInt16) (data : Bytes)
  deriving Repr, DecidableEq

def Req.fc : Req → UInt8
  | .read fc .. => fc
  | .wcoil .. => 5
  | .wreg .. => 6
  | .wcoils .. => 15
  | .wregs .. => 16
  | .sid .. => 17
  | .rw .. => 23

def Req.unit : Req → UInt8
  | .read _ u .. => u
  | .wcoil u .. => u
  | .wreg u .. => u
  | .wcoils u .. => u
  | .wregs u .. => u
  | .sid u => u
  | .rw u .. => u

def Req.str : Req → String
  | .read fc u a q => s!"read fc={fc} unit={u} addr={a} qty={q}"
  | .wcoil u a s => s!"wcoil unit={u} addr={a} state={if s then 1 else 0}"
  | .wreg u a d0 d1 => s!"wreg unit={u} addr={a} data={hex [d0, d1]}"
  | .wcoils u a c d => s!"wcoils unit={u} addr={a} cnt={c} data={hex d}"
  | .wregs u a c d => s!"wregs unit={u} addr={a} cnt={c} data={hex d}"
  | .sid u => s!"sid unit={u}"
  | .rw u ra rq wa wq d => s!"rw unit={u} raddr={ra} rqty={rq} waddr={wa} wqty={wq} data={hex d}"

/-- Response values. -/
inductive Resp where
  /-- FC1/FC2: `{UnitID, CoilsByteLength, Data}` -/
  | bits (fc unit blen : UInt8) (data : Bytes)
  /-- FC3/FC4/FC23: `{UnitID, RegisterByteLen, Data}` -/
  | regs (fc unit blen : UInt8) (data : Bytes)
  /-- FC5 -/
  | wcoil (unit : UInt8) (addr : UInt16) (state : Bool)
  /-- FC6 -/
  | wreg (unit : UInt8) (addr : UInt16) (d0 d1 : UInt8)
  /-- FC15/FC16: `{UnitID, StartAddress, Count}` -/
  | wmulti (fc unit : UInt8) (addr cnt : UInt16)
  /-- FC17: `{UnitID, Status, ServerID, AdditionalData}`; `none` = nil slice -/
  | sid (unit status : UInt8) (id : Bytes) (add : Option Bytes)
  deriving Repr, DecidableEq

def Resp.fc : Resp → UInt8
  | .bits fc .. => fc
  | .regs fc .. => fc
  | .wcoil .. => 5
  | .wreg .. => 6
  | .wmulti fc .. => fc
  | .sid .. => 17

def Resp.unit : Resp → UInt8
  | .bits _ u .. => u
  | .regs _ u .. => u
  | .wcoil u .. => u
  | .wreg u .. => u
  | .wmulti _ u .. => u
  | .sid u .. => u

def Resp.str : Resp → String
  | .bits fc u bl d => s!"bits fc={fc} unit={u} blen={bl} data={hex d}"
  | .regs fc u bl d => s!"regs fc={fc} unit={u} blen={bl} data={hex d}"
  | .wcoil u a s => s!"wcoil unit={u} addr={a} state={if s then 1 else 0}"
  | .wreg u a d0 d1 => s!"wreg unit={u} addr={a} data={hex [d0, d1]}"
  | .wmulti fc u a c => s!"wmulti fc={fc} unit={u} addr={a} cnt={c}"
  | .sid u st id add => s!"sid unit={u} status={st} id={hex id} add={hex (add.getD [])}"

/-- Framing. -/
inductive Framing where
  | tcp | rtu
  deriving Repr, DecidableEq

end Modbus.Model
