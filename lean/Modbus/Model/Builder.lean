import Modbus.Model.Request
import Modbus.Model.Registers
import Modbus.Model.Response
/-
  Model of builder.go / splitter.go: field validation, grouping by (server, unit, coil-vs-register),
  slot merging, sorting by address, greedy batching under the protocol limit, packet construction,
  and field extraction from a response.
-/
namespace Modbus.Model

structure Field where
  name : String
  server : String
  unit : UInt8
  addr : UInt16
  type : UInt8          -- FieldType: 1 bit, 2 byte, 3 u8, 4 i8, 5 u16, 6 i16, 7 u32, 8 i32, 9 u64, 10 i64, 11 f32, 12 f64, 13 string, 14 coil
  bit : UInt8
  fromHigh : Bool
  length : UInt8
  order : UInt8
  deriving Repr, DecidableEq

/-- `Field.registerSize` -/
def Field.size (f : Field) : Nat :=
  if f.type = 12 ∨ f.type = 10 ∨ f.type = 9 then 4
  else if f.type = 11 ∨ f.type = 8 ∨ f.type = 7 then 2
  else if f.type = 13 then
    (if f.length.toNat % 2 = 0 then f.length.toNat / 2 else f.length.toNat / 2 + 1)
  else 1

/-- `Field.Validate` (true = valid) -/
def Field.valid (f : Field) : Bool :=
  f.server != "" && f.type != 0 && f.type.toNat ≤ 14 && f.bit.toNat ≤ 15 &&
  !(f.type == 13 && f.length == 0)

def Field.isCoil (f : Field) : Bool := f.type == 14

structure Slot where
  addr : UInt16
  size : Nat
  fields : List Field
  deriving Repr

structure Group where
  server : String
  unit : UInt8
  isCoil : Bool
  slots : List Slot
  deriving Repr

/-- `builderSlotGroup.AddField`: merge into the slot with the same address (widest size wins) or append a slot -/
def addToSlots : List Slot → Field → List Slot
  | [], f => [{ addr := f.addr, size := f.size, fields := [f] }]
  | s :: rest, f =>
    if s.addr = f.addr then
      { s with fields := s.fields ++ [f], size := if f.size > s.size then f.size else s.size } :: rest
    else s :: addToSlots rest f

/-- the group a field goes to: keyed by (server, unit, isCoil) - the code keys a map by the string
"%v_%v_%v", which is injective because the unit id and the boolean render without '_' -/
def addToGroups : List Group → Field → List Group
  | [], f => [{ server := f.server, unit := f.unit, isCoil := f.isCoil, slots := addToSlots [] f }]
  | g :: rest, f =>
    if g.server = f.server ∧ g.unit = f.unit ∧ g.isCoil = f.isCoil then
      { g with slots := addToSlots g.slots f } :: rest
    else g :: addToGroups rest f

/-- `groupForSingleConnection`: every field is validated (also those of the other kind), fields of the
other kind are skipped. Groups come out in first-appearance order here (a Go map there). -/
def groupFields (fields : List Field) (onlyCoils : Bool) : PRes (List Group) :=
  go fields []
where
  go : List Field → List Group → PRes (List Group)
    | [], gs => .ok gs
    | f :: rest, gs =>
      if !f.valid then .err .plain
      else if f.isCoil != onlyCoils then go rest gs
      else go rest (addToGroups gs f)

/-- insertion sort of slots by address (`sort.Sort` with `Less = a.address < b.address`; addresses
inside a group are distinct, so the sorted order is unique) -/
def insertSlot (s : Slot) : List Slot → List Slot
  | [] => [s]
  | t :: rest => if s.addr.toNat ≤ t.addr.toNat then s :: t :: rest else t :: insertSlot s rest

def sortSlots : List Slot → List Slot
  | [] => []
  | s :: rest => insertSlot s (sortSlots rest)

structure Batch where
  server : String
  unit : UInt8
  start : UInt16
  qty : Nat
  fields : List Field
  deriving Repr

/-- the greedy loop of `batchToRequests` for one group: state = (closed batches, current batch, first address, seen) -/
def batchLoop (server : String) (unit : UInt8) (limit : Nat) :
    List Slot → (List Batch × Batch × Nat × Bool) → List Batch × Batch
  | [], (closed, cur, _, _) => (closed, cur)
  | s :: rest, (closed, cur, first, seen) =>
    let (cur, first) :=
      if !seen then ({ cur with start := s.addr, server := server, unit := unit }, s.addr.toNat) else (cur, first)
    let slotEnd := s.addr.toNat + s.size
    let diff := slotEnd - first
    if diff > limit then
      let cur' : Batch := { server := server, unit := unit, start := s.addr, qty := s.size, fields := s.fields }
      batchLoop server unit limit rest (closed ++ [cur], cur', s.addr.toNat, true)
    else
      let cur' := { cur with qty := if cur.qty < diff then diff else cur.qty, fields := cur.fields ++ s.fields }
      batchLoop server unit limit rest (closed, cur', first, true)

/-- `batchToRequests` for one group -/
def batchGroup (g : Group) : List Batch :=
  let limit := if g.isCoil then 2000 else 125
  let (closed, cur) := batchLoop g.server g.unit limit (sortSlots g.slots)
    ([], { server := "", unit := 0, start := 0, qty := 0, fields := [] }, 0, false)
  closed ++ [cur]

/-- one request produced by `split` -/
structure BReq where
  server : String
  unit : UInt8
  start : UInt16
  req : Req
  fields : List Field
  deriving Repr

/-- split target: 0 FC1/TCP, 1 FC1/RTU, 2 FC2/TCP, 3 FC2/RTU, 4 FC3/TCP, 5 FC3/RTU, 6 FC4/TCP, 7 FC4/RTU -/
def targetFC (t : Nat) : UInt8 := UInt8.ofNat (t / 2 + 1)
def targetFraming (t : Nat) : Framing := if t % 2 = 0 then .tcp else .rtu
def targetCoils (t : Nat) : Bool := t < 4

def mkRequests (fc : UInt8) : List Batch → PRes (List BReq)
  | [] => .ok []
  | b :: rest =>
    -- the quantity is a uint16 in the code; it never exceeds 2000 here
    (newReq { fc := fc, unit := b.unit, addr := b.start, qty := UInt16.ofNat b.qty }).bind fun r =>
    (mkRequests fc rest).bind fun more =>
    .ok ({ server := b.server, unit := b.unit, start := b.start, req := r, fields := b.fields } :: more)

/-- `split(fields, target)` -/
def split (fields : List Field) (target : Nat) : PRes (List BReq) :=
  (groupFields fields (targetCoils target)).bind fun groups =>
  mkRequests (targetFC target) (groups.flatMap batchGroup)

end Modbus.Model

namespace Modbus.Model

/-- `Field.ExtractFrom(registers)` -/
def Field.acc (f : Field) : Option Acc :=
  match f.type with
  | 1 => some (.bit f.bit)
  | 2 => some (.byte f.fromHigh)
  | 3 => some (.u8 f.fromHigh)
  | 4 => some (.i8 f.fromHigh)
  | 5 => some .u16
  | 6 => some .i16
  | 7 => some (.u32o f.order)
  | 8 => some (.i32o f.order)
  | 9 => some (.u64o f.order)
  | 10 => some (.i64o f.order)
  | 11 => some (.f32o f.order)
  | 12 => some (.f64o f.order)
  | 13 => some (.stro f.length f.order)
  | _ => none

def Field.extractFrom (f : Field) (r : Registers) : PRes Val × Slice :=
  match f.acc with
  | some a => r.access a f.addr
  | none => (.err .plain, r.data)

/-- result of `ExtractFields`: Go returns `([]FieldValue, error)`;
`all` = (values, nil), `some_` = (values, ErrorFieldExtractHadError), `failed` = (nil, err) -/
inductive Extracted where
  | all (vs : List (Field × PRes Val))
  | some_ (vs : List (Field × PRes Val))
  | failed
  | panicked

/-- the loop of `extractRegisterFields` -/
def extractLoop (lenient : Bool) (r : Registers) : List Field → List (Field × PRes Val) → Bool → Extracted
  | [], acc, hadErr => if hadErr then .some_ acc else .all acc
  | f :: rest, acc, hadErr =>
    let (res, d') := f.extractFrom r
    match res with
    | .panic => .panicked
    | .err e => if !lenient then .failed else extractLoop lenient { r with data := d' } rest (acc ++ [(f, .err e)]) true
    | .ok v => extractLoop lenient { r with data := d' } rest (acc ++ [(f, .ok v)]) hadErr

/-- `BuilderRequest.ExtractFields(response, continueOnExtractionErrors)` for register responses:
`payload` is the response's `Data` (a sub-slice of the received frame) -/
def extractRegisterFields (b : BReq) (payload : Slice) (lenient : Bool) : Extracted :=
  match newRegisters payload b.start with
  | .ok r => extractLoop lenient r b.fields [] false
  | .err _ => .failed
  | .panic => .panicked

/-- the loop of `extractCoilFields`: one `IsCoilSet(request start, field address)` per field -/
def extractCoilLoop (lenient : Bool) (payload : Bytes) (start : UInt16) :
    List Field → List (Field × PRes Val) → Bool → Extracted
  | [], acc, hadErr => if hadErr then .some_ acc else .all acc
  | f :: rest, acc, hadErr =>
    match isBitSet payload start f.addr with
    | .panic => .panicked
    | .err e => if !lenient then .failed else extractCoilLoop lenient payload start rest (acc ++ [(f, .err e)]) true
    | .ok v => extractCoilLoop lenient payload start rest (acc ++ [(f, .ok (.bool v))]) hadErr

/-- `BuilderRequest.ExtractFields` for coil / discrete input responses: `payload` is the response's `Data` -/
def extractCoilFields (b : BReq) (payload : Bytes) (lenient : Bool) : Extracted :=
  extractCoilLoop lenient payload b.start b.fields [] false

end Modbus.Model
