/-
  Model of the locking discipline of `Client` (client.go) and `SerialClient` (serialclient.go):
  `Do`, `Connect` and `Close` take `c.mu` on entry and release it on return; everything that touches the
  transport handle (`c.conn` / `c.serialPort`) happens in between. N goroutines run their calls as a
  labelled transition system whose atomic steps are
      acquire the mutex | dial | close the handle | write the request | one data-bearing read | release
  (release is fused with the last action of a call: nothing observable happens between them).
  The transport answers requests in arrival order: a write queues the chunks of the reply, a read delivers
  the oldest queued chunk, whoever asks. A schedule is a list of thread numbers; a thread whose next step is
  not enabled (mutex taken, nothing left to do) does not move.
-/
namespace Modbus.Model.ClientLock

inductive Call where
  /-- `Do` with a request that carries a distinguishing number -/
  | doReq (id : Nat)
  /-- `Connect` (network clients only) -/
  | connect
  /-- `Close` -/
  | close
  deriving Repr, DecidableEq, Inhabited

inductive Outcome where
  /-- a response came back; it answers the request numbered `id` -/
  | reply (id : Nat)
  /-- the write failed: the handle had been closed -/
  | writeErr
  /-- no handle (`ErrClientNotConnected` / "serial port is not set") -/
  | notConnected
  | connected
  | closed
  deriving Repr, DecidableEq, Inhabited

inductive Stage where
  /-- outside any call (or waiting for the mutex) -/
  | out
  /-- holds the mutex, nothing done yet -/
  | held (c : Call)
  /-- holds the mutex, request `id` written, reading the reply -/
  | reading (id : Nat)
  deriving Repr, DecidableEq, Inhabited

/-- what the transport sees, in the order it sees it -/
inductive WireEv where
  | dial (t k : Nat)                 -- thread t opened connection k
  | close (t k : Nat)                -- thread t called Close on handle k
  | write (t k id : Nat)             -- the frame of request `id` was written to handle k
  | wfail (t k id : Nat)             -- Write on the closed handle k failed
  | read (t k id i n : Nat)          -- a Read delivered chunk i of n of the reply to request `id`
  deriving Repr, DecidableEq, Inhabited

structure Thread where
  todo : List Call
  stage : Stage := .out
  /-- completed calls with their outcomes, oldest first -/
  done : List (Call × Outcome) := []
  deriving Repr, Inhabited

structure St where
  /-- `c.mu` -/
  holder : Option Nat
  th : Nat → Thread
  /-- the handle: connection number and whether it is still open -/
  conn : Option (Nat × Bool)
  nextConn : Nat
  /-- chunks queued by the transport of the current connection: (request, index, of) -/
  pending : List (Nat × Nat × Nat)
  wire : List WireEv

/-- chunks `n-r+1 .. n` of the reply to `id` (r remaining) -/
def chunksAux (id n : Nat) : Nat → List (Nat × Nat × Nat)
  | 0 => []
  | r + 1 => (id, n - r, n) :: chunksAux id n r

/-- the reply to request `id` arrives in `nch id + 1` pieces -/
def chunks (nch : Nat → Nat) (id : Nat) : List (Nat × Nat × Nat) := chunksAux id (nch id + 1) (nch id + 1)

def upd (f : Nat → Thread) (t : Nat) (v : Thread) : Nat → Thread := fun i => if i = t then v else f i

/-- the call is over: record the outcome, drop the mutex -/
def finish (s : St) (t : Nat) (o : Outcome) : St :=
  let th := s.th t
  { s with holder := none,
           th := upd s.th t { todo := th.todo.tail, stage := .out, done := th.done ++ [(th.todo.headD .close, o)] } }

/-- one atomic step of thread `t` -/
def step (nch : Nat → Nat) (s : St) (t : Nat) : St :=
  let th := s.th t
  match th.stage with
  | .out =>
    match th.todo, s.holder with
    | c :: _, none => { s with holder := some t, th := upd s.th t { th with stage := .held c } }   -- mu.Lock()
    | _, _ => s                                                                                     -- blocked or finished
  | .held .connect =>
    let k := s.nextConn
    finish { s with conn := some (k, true), nextConn := k + 1, pending := [], wire := s.wire ++ [.dial t k] } t .connected
  | .held .close =>
    match s.conn with
    | none => finish s t .closed
    | some (k, _) => finish { s with conn := some (k, false), wire := s.wire ++ [.close t k] } t .closed
  | .held (.doReq id) =>
    match s.conn with
    | none => finish s t .notConnected
    | some (k, false) => finish { s with wire := s.wire ++ [.wfail t k id] } t .writeErr
    | some (k, true) =>
      { s with wire := s.wire ++ [.write t k id], pending := s.pending ++ chunks nch id,
               th := upd s.th t { th with stage := .reading id } }
  | .reading _ =>
    match s.conn, s.pending with
    | some (k, true), (id', i, n) :: rest =>
      let s' := { s with wire := s.wire ++ [.read t k id' i n], pending := rest }
      if i = n then finish s' t (.reply id') else s'
    | _, _ => s      -- nothing to read: the read times out and is retried

def init (progs : Nat → List Call) (connected : Bool) : St :=
  { holder := none, th := fun t => { todo := progs t },
    conn := if connected then some (0, true) else none, nextConn := 1, pending := [], wire := [] }

def run (nch : Nat → Nat) (s : St) (sched : List Nat) : St := sched.foldl (step nch) s

/-! ## the specification on the wire: exchanges are never interleaved -/

/-- an exchange in progress on the wire: thread, connection, request, next chunk expected -/
abbrev Open := Nat × Nat × Nat × Nat

/-- the automaton that accepts exactly the serial wire logs -/
def wireStep : Option Open → WireEv → Option (Option Open)
  | none, .dial _ _ => some none
  | none, .close _ _ => some none
  | none, .wfail _ _ _ => some none
  | none, .write t k id => some (some (t, k, id, 1))
  | some (t, k, id, i), .read t' k' id' i' n' =>
    if t' = t ∧ k' = k ∧ id' = id ∧ i' = i then (if i = n' then some none else some (some (t, k, id, i + 1))) else none
  | _, _ => none

def wireRun (st : Option Open) : List WireEv → Option (Option Open)
  | [] => some st
  | e :: es => match wireStep st e with
    | some st' => wireRun st' es
    | none => none

/-- a call and its outcome fit together: a response answers the caller's own request -/
def Matches : Call × Outcome → Prop
  | (.doReq id, .reply id') => id' = id
  | (.doReq _, .writeErr) => True
  | (.doReq _, .notConnected) => True
  | (.connect, .connected) => True
  | (.close, .closed) => True
  | _ => False

instance : DecidablePred Matches := fun x => by
  obtain ⟨c, o⟩ := x
  cases c <;> cases o <;> unfold Matches <;> infer_instance

end Modbus.Model.ClientLock
