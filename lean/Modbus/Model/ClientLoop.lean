import Modbus.Model.Response
/-
  Model of the request/response exchange of `Client.Do/do` (client.go) and `SerialClient.Do/do`
  (serialclient.go): write the request, then accumulate reads into a fixed buffer until
    total >= ExpectedResponseLength  |  an exception frame is recognised  |  EOF (network client)
    |  an I/O error  |  more bytes than a frame can hold  |  the total timer fires  |  the context is cancelled,
  with the optional logging hooks. The transport is a script of read events; an exhausted script is a
  transport that stalls (every further read times out until the total read timer fires).
-/
namespace Modbus.Model

/-- what one `Read` call does -/
inductive Ev where
  /-- n = len(bs) > 0 bytes, err = nil -/
  | data (bs : Bytes)
  /-- n = 0, err = os.ErrDeadlineExceeded -/
  | timeout
  /-- n = len(bs) > 0 together with err = os.ErrDeadlineExceeded (io.Reader allows data with an error) -/
  | tdata (bs : Bytes)
  /-- n = len(bs) (possibly 0), err = io.EOF -/
  | eof (bs : Bytes)
  /-- n = len(bs) (possibly 0), err = some other I/O error -/
  | ioerr (bs : Bytes)
  /-- the caller's context is cancelled while this read is in flight (the read itself times out) -/
  | cancel
  deriving Repr, DecidableEq

inductive ClientKind where
  | tcp | rtuNet | serial
  deriving Repr, DecidableEq

def ClientKind.framing : ClientKind → Framing
  | .tcp => .tcp
  | _ => .rtu

/-- `tcpPacketMaxLen` (used by both network clients) / `rtuPacketMaxLen` -/
def ClientKind.maxLen : ClientKind → Nat
  | .serial => 256
  | _ => 260

/-- size of the receive buffer: max length + 10 -/
def ClientKind.bufLen (k : ClientKind) : Nat := k.maxLen + 10

inductive Flusher where
  | none | ok | failing
  deriving Repr, DecidableEq

/-- error classes of the client layer -/
inductive CErr where
  | timeout      -- ClientError{"total read timeout exceeded"}
  | io           -- ClientError{transport read error}
  | write        -- ClientError{transport write error}
  | flush        -- ClientError{Flush error} (serial client, failing flusher)
  | noBytes      -- ClientError{"no bytes received"}
  | exc (e : PErr)  -- ClientError{exception packet}
  | tooLong      -- &ErrPacketTooLong
  | ctx          -- ctx.Err()
  | notConnected -- &ErrClientNotConnected / "serial port is not set"
  | nilReq
  | parse (e : PErr)   -- the error of parseResponseFunc, returned as is
  deriving Repr, DecidableEq

/-- entries of the hook log -/
inductive HookEv where
  | beforeWrite (bs : Bytes)
  | afterRead (chunk : Bytes) (n : Nat) (err : String)   -- err: "nil" | "timeout" | "eof" | "io"
  | stall                                                 -- any number of timed-out reads after the script ended
  | beforeParse (bs : Bytes)
  deriving Repr, DecidableEq

/-- recognise an exception frame in the bytes accumulated so far (`asProtocolErrorFunc`) -/
def asProtocolError (k : ClientKind) (acc : Bytes) : Option PErr :=
  match k.framing with
  | .tcp => match asTCPErrorPacket ⟨acc, []⟩ with
    | .ok e => e
    | _ => none
  | .rtu => match asRTUErrorPacketWithCRC ⟨acc, []⟩ with
    | .ok e => e
    | _ => none

inductive LoopOut where
  | frame (bs : Bytes)
  | err (e : CErr)
  deriving Repr, DecidableEq

/-- the serial client flushes the port on its failure paths (and after a complete read);
a failing flush replaces the outcome by a ClientError wrapping the flush error -/
def withFlush (k : ClientKind) (fl : Flusher) (out : LoopOut) : LoopOut :=
  if k = .serial ∧ fl = .failing then .err .flush else out

/-- what one event makes `Read(received[total:maxBytes])` return: (bytes, error tag, context cancelled) -/
def Ev.read (space : Nat) : Ev → Bytes × String × Bool
  | .data bs => (bs.take space, "nil", false)
  | .timeout => ([], "timeout", false)
  | .tdata bs => (bs.take space, "timeout", false)
  | .eof bs => (bs.take space, "eof", false)
  | .ioerr bs => (bs.take space, "io", false)
  | .cancel => ([], "timeout", true)

/-- the read loop: one iteration per script event; `acc` = received[0:total].
(A chunk larger than the free space of the buffer fills the buffer, which is then longer than any
frame: the loop ends with ErrPacketTooLong before the rest of the chunk would be read.) -/
def readLoop (k : ClientKind) (fl : Flusher) (expected : Nat) :
    List Ev → Bytes → List HookEv → LoopOut × List HookEv
  | [], _, log =>
    -- the transport stalls: reads time out until the total read timer fires
    (.err .timeout, log ++ [.stall])
  | ev :: rest, acc, log =>
    let (chunk, errS, cancelled) := ev.read (k.bufLen - acc.length)
    let log := log ++ [.afterRead chunk chunk.length errS]
    if errS = "io" then (withFlush k fl (.err .io), log) else
    let acc := acc ++ chunk
    if acc.length > k.maxLen then (withFlush k fl (.err .tooLong), log) else
    match asProtocolError k acc with
    | some e => (withFlush k fl (.err (.exc e)), log)
    | none =>
      if acc.length ≥ expected then
        (withFlush k fl (if acc.length = 0 then .err .noBytes else .frame acc), log)
      else if errS = "eof" ∧ k ≠ .serial then
        (if acc.length = 0 then .err .noBytes else .frame acc, log)
      else if cancelled then (.err .ctx, log)
      else readLoop k fl expected rest acc log

/-- parse the assembled frame with the client's `parseResponseFunc` -/
def parseReply (k : ClientKind) (frame : Bytes) : PRes Resp :=
  match k.framing with
  | .tcp => (parseTCPResponse ⟨frame, []⟩).bind fun x => .ok x.2
  | .rtu => parseRTUResponseWithCRC ⟨frame, []⟩

inductive DoOut where
  | ok (r : Resp) (tid : Option UInt16)
  | err (e : CErr)
  | panic
  deriving Repr, DecidableEq

/-- `Do(ctx, req)`: `writeFails` = the transport rejects the write -/
def doExchange (k : ClientKind) (fl : Flusher) (hooks : Bool) (reqBytes : Bytes) (expected : Nat)
    (writeFails : Bool) (script : List Ev) : DoOut × List HookEv :=
  let log0 := if hooks then [HookEv.beforeWrite reqBytes] else []
  if writeFails then (.err (match withFlush k fl (.err .write) with | .err e => e | _ => .write), log0) else
  let (out, log) := readLoop k fl expected script [] []
  let log := if hooks then log0 ++ log else []
  match out with
  | .err e => (.err e, log)
  | .frame bs =>
    let log := if hooks then log ++ [.beforeParse bs] else []
    match k.framing, parseTCPResponse ⟨bs, []⟩, parseRTUResponseWithCRC ⟨bs, []⟩ with
    | .tcp, .ok (tid, r), _ => (.ok r (some tid), log)
    | .tcp, .err e, _ => (.err (.parse e), log)
    | .tcp, .panic, _ => (.panic, log)
    | .rtu, _, .ok r => (.ok r none, log)
    | .rtu, _, .err e => (.err (.parse e), log)
    | .rtu, _, .panic => (.panic, log)

/-- `Client.Do` / `SerialClient.Do` before the exchange: a nil request is refused first, then a client without a
connection (serial: without a port); neither writes, reads nor calls a hook. `req` = the request's bytes and its
announced response length. -/
def doCall (k : ClientKind) (fl : Flusher) (hooks : Bool) (connected : Bool) (req : Option (Bytes × Nat))
    (writeFails : Bool) (script : List Ev) : DoOut × List HookEv :=
  match req with
  | none => (.err .nilReq, [])
  | some (reqBytes, expected) =>
    if !connected then (.err .notConnected, [])
    else doExchange k fl hooks reqBytes expected writeFails script

/-- `Do` with a context that is already cancelled when the call is made: the request is still written (the write does
not look at the context), then the read loop finds the context done before its first read. No read, no flush. -/
def doExchangeCancelled (k : ClientKind) (fl : Flusher) (hooks : Bool) (reqBytes : Bytes) (writeFails : Bool) :
    DoOut × List HookEv :=
  let log0 := if hooks then [HookEv.beforeWrite reqBytes] else []
  if writeFails then (.err (match withFlush k fl (.err .write) with | .err e => e | _ => .write), log0)
  else (.err .ctx, log0)

end Modbus.Model
