import Modbus.Model.Types
import Modbus.Model.Crc
/-
  Model of the request side of package `packet`:
    New*Request{TCP,RTU}, Bytes(), ExpectedResponseLength(), Parse*Request{TCP,RTU},
    ParseTCPRequest, ParseRTURequest, ParseRTURequestWithCRC, ParseMBAPHeader, CoilsToBytes.
  One definition per Go function (the four read functions share a body parameterised by the
  function code and its limits, as their four Go files do).
  Payloads longer than 65528 bytes (possible only by filling struct fields by hand) are outside the model.
-/
namespace Modbus.Model

/-! ## encoders -/

/-- `MBAPHeader.bytes` (6 bytes: transaction id, protocol id 0, length) -/
def mbap (tid : UInt16) (length : UInt16) : Bytes := put16 tid ++ [0, 0] ++ put16 length

def packBits : List Bool → Nat
  | [] => 0
  | b :: r => (if b then 1 else 0) + 2 * packBits r

/-- `CoilsToBytes`: coil `i` is bit `i%8` of byte `i/8` -/
def coilsToBytes (coils : List Bool) : Bytes :=
  (List.range ((coils.length + 7) / 8)).map fun j =>
    UInt8.ofNat (packBits ((coils.drop (8 * j)).take 8))

/-- the framing independent `bytes()` of each request struct: unit id, function code, fields -/
def Req.pdu : Req → Bytes
  | .read fc u a q => [u, fc] ++ put16 a ++ put16 q
  | .wcoil u a s => [u, 5] ++ put16 a ++ put16 (if s then 0xFF00 else 0x0000)
  | .wreg u a d0 d1 => [u, 6] ++ put16 a ++ [d0, d1]
  | .wcoils u a c d => [u, 15] ++ put16 a ++ put16 c ++ [UInt8.ofNat d.length] ++ d
  | .wregs u a c d => [u, 16] ++ put16 a ++ put16 c ++ [UInt8.ofNat d.length] ++ d
  | .sid u => [u, 17]
  | .rw u ra rq wa wq d =>
      [u, 23] ++ put16 ra ++ put16 rq ++ put16 wa ++ put16 wq ++ [UInt8.ofNat d.length] ++ d

/-- `X RequestTCP.Bytes()` -/
def Req.bytesTCP (tid : UInt16) (r : Req) : Bytes :=
  mbap tid (UInt16.ofNat r.pdu.length) ++ r.pdu

/-- `X RequestRTU.Bytes()` -/
def Req.bytesRTU (r : Req) : Bytes := withCrc r.pdu

def Req.bytes : Framing → UInt16 → Req → Bytes
  | .tcp, tid, r => r.bytesTCP tid
  | .rtu, _, r => r.bytesRTU

/-- `ExpectedResponseLength()` of each of the 20 request types, as written in the code. -/
def Req.expLen : Framing → Req → Nat
  | .tcp, .read 1 _ _ q => 6 + 3 + (q.toNat + 7) / 8
  | .tcp, .read 2 _ _ q => 6 + 3 + (q.toNat + 7) / 8
  | .tcp, .read 3 _ _ q => 6 + 3 + 2 * q.toNat
  | .tcp, .read _ _ _ q => 6 + 3 + 2 * q.toNat
  | .rtu, .read 1 _ _ q => 4 + (q.toNat + 7) / 8
  | .rtu, .read 2 _ _ q => 4 + (q.toNat + 7) / 8
  | .rtu, .read 3 _ _ q => 4 + 2 * q.toNat
  | .rtu, .read _ _ _ q => 4 + 2 * q.toNat
  | .tcp, .wcoil .. => 6 + 3 + 2
  | .rtu, .wcoil .. => 6
  | .tcp, .wreg .. => 6 + 6
  | .rtu, .wreg .. => 6
  | .tcp, .wcoils .. => 6 + 6
  | .rtu, .wcoils .. => 6 + 2
  | .tcp, .wregs .. => 6 + 6
  | .rtu, .wregs .. => 6 + 2
  | .tcp, .sid _ => 6 + 2
  | .rtu, .sid _ => 2
  | .tcp, .rw _ _ rq .. => 6 + 11 + rq.toNat * 2
  | .rtu, .rw _ _ rq .. => 4 + 2 * rq.toNat + 2

/-! ## constructors -/

/-- arguments of the `New*Request*` constructors (one record for all of them) -/
structure NewArgs where
  fc : UInt8
  unit : UInt8 := 0
  addr : UInt16 := 0
  qty : UInt16 := 0
  state : Bool := false
  waddr : UInt16 := 0
  data : Bytes := []
  /-- length of `data`, kept separately so that huge payloads need not be materialised -/
  dataLen : Nat := 0
  coils : List Bool := []

/-- `New*Request{TCP,RTU}` (the transaction id of the TCP variants is random and is set by the caller) -/
def newReq (a : NewArgs) : PRes Req :=
  match a.fc with
  | 1 => if a.qty == 0 || a.qty > 2000 then .err .plain else .ok (.read 1 a.unit a.addr a.qty)
  | 2 => if a.qty == 0 || a.qty > 2000 then .err .plain else .ok (.read 2 a.unit a.addr a.qty)
  | 3 => if a.qty == 0 || a.qty > 125 then .err .plain else .ok (.read 3 a.unit a.addr a.qty)
  | 4 => if a.qty == 0 || a.qty > 125 then .err .plain else .ok (.read 4 a.unit a.addr a.qty)
  | 5 => .ok (.wcoil a.unit a.addr a.state)
  | 6 => .ok (.wreg a.unit a.addr (a.data.getD 0 0) (a.data.getD 1 0))
  | 15 =>
    let n := a.coils.length
    if n == 0 || n > 1968 then .err .plain
    else .ok (.wcoils a.unit a.addr (UInt16.ofNat n) (coilsToBytes a.coils))
  | 16 =>
    if a.dataLen % 2 != 0 then .err .plain
    else
      let cnt := a.dataLen / 2
      if cnt == 0 || cnt > 124 then .err .plain
      else .ok (.wregs a.unit a.addr (UInt16.ofNat cnt) a.data)
  | 17 => .ok (.sid a.unit)
  | 23 =>
    if a.qty == 0 || a.qty > 124 then .err .plain
    else if a.dataLen % 2 != 0 then .err .plain
    else
      let cnt := a.dataLen / 2
      if cnt == 0 || cnt > 124 then .err .plain
      else .ok (.rw a.unit a.addr a.qty a.waddr (UInt16.ofNat cnt) a.data)
  | _ => .err .plain

/-! ## parsers -/

/-- `ParseMBAPHeader` — returns the transaction id -/
def parseMBAP (s : Slice) : PRes UInt16 :=
  if s.vis.length < 6 then .err (.tcp 4 0 0 0) else
  (s.idx 2).bind fun d2 =>
  (s.idx 3).bind fun d3 =>
  if d2 ≠ 0 ∨ d3 ≠ 0 then .err (.tcp 4 0 0 0) else
  (s.rd16 4).bind fun pduLen =>
  if pduLen = 0 then .err (.tcp 4 0 0 0) else
  if s.vis.length ≠ 6 + pduLen.toNat then .err (.tcp 4 0 0 0) else
  s.rd16 0

/-- `ParseRead{Coils,DiscreteInputs,HoldingRegisters,InputRegisters}RequestTCP` -/
def parseReadReqTCP (fc : UInt8) (maxQ : UInt16) (s : Slice) : PRes (UInt16 × Req) :=
  (parseMBAP s).bind fun tid =>
  (s.idx 6).bind fun unit =>
  if s.vis.length < 12 then .err (.tcp 3 tid unit fc) else
  (s.idx 7).bind fun f =>
  if f ≠ fc then .err (.tcp 1 tid unit fc) else
  (s.rd16 10).bind fun q =>
  if ¬(q ≥ 1 ∧ q ≤ maxQ) then .err (.tcp 3 tid unit fc) else
  (s.rd16 8).bind fun a =>
  .ok (tid, .read fc unit a q)

/-- `ParseRead*RequestRTU` -/
def parseReadReqRTU (fc : UInt8) (maxQ : UInt16) (s : Slice) : PRes Req :=
  if s.vis.length ≠ 8 ∧ s.vis.length ≠ 6 then .err (.rtu 4 0 0) else
  (s.idx 0).bind fun unit =>
  (s.idx 1).bind fun f =>
  if f ≠ fc then .err (.rtu 1 unit fc) else
  (s.rd16 4).bind fun q =>
  if ¬(q ≥ 1 ∧ q ≤ maxQ) then .err (.rtu 3 unit fc) else
  (s.rd16 2).bind fun a =>
  .ok (.read fc unit a q)

/-- `ParseWriteSingleCoilRequestTCP` -/
def parseWCoilReqTCP (s : Slice) : PRes (UInt16 × Req) :=
  (parseMBAP s).bind fun tid =>
  (s.idx 6).bind fun unit =>
  if s.vis.length < 12 then .err (.tcp 3 tid unit 5) else
  (s.idx 7).bind fun f =>
  if f ≠ 5 then .err (.tcp 1 tid unit 5) else
  (s.rd16 10).bind fun raw =>
  if raw ≠ 0xFF00 ∧ raw ≠ 0x0000 then .err (.tcp 3 tid unit 5) else
  (s.rd16 8).bind fun a =>
  .ok (tid, .wcoil unit a (raw == 0xFF00))

/-- `ParseWriteSingleCoilRequestRTU` -/
def parseWCoilReqRTU (s : Slice) : PRes Req :=
  if s.vis.length ≠ 8 ∧ s.vis.length ≠ 6 then .err (.rtu 4 0 0) else
  (s.idx 0).bind fun unit =>
  (s.idx 1).bind fun f =>
  if f ≠ 5 then .err (.rtu 1 unit 5) else
  (s.rd16 4).bind fun raw =>
  if raw ≠ 0xFF00 ∧ raw ≠ 0x0000 then .err (.rtu 3 unit 5) else
  (s.rd16 2).bind fun a =>
  .ok (.wcoil unit a (raw == 0xFF00))

/-- `ParseWriteSingleRegisterRequestTCP` (its function-mismatch error names function 5: as in the code) -/
def parseWRegReqTCP (s : Slice) : PRes (UInt16 × Req) :=
  (parseMBAP s).bind fun tid =>
  (s.idx 6).bind fun unit =>
  if s.vis.length < 12 then .err (.tcp 3 tid unit 6) else
  (s.idx 7).bind fun f =>
  if f ≠ 6 then .err (.tcp 1 tid unit 5) else
  (s.rd16 8).bind fun a =>
  (s.idx 10).bind fun d0 =>
  (s.idx 11).bind fun d1 =>
  .ok (tid, .wreg unit a d0 d1)

/-- `ParseWriteSingleRegisterRequestRTU` -/
def parseWRegReqRTU (s : Slice) : PRes Req :=
  if s.vis.length ≠ 8 ∧ s.vis.length ≠ 6 then .err (.rtu 4 0 0) else
  (s.idx 0).bind fun unit =>
  (s.idx 1).bind fun f =>
  if f ≠ 6 then .err (.rtu 1 unit 6) else
  (s.rd16 2).bind fun a =>
  (s.idx 4).bind fun d0 =>
  (s.idx 5).bind fun d1 =>
  .ok (.wreg unit a d0 d1)

/-- the `var data []byte; if n > 0 { data = make; copy(data, src[a:a+n]) }` idiom -/
def copyOut (s : Slice) (a n : Nat) : PRes Bytes :=
  if n > 0 then s.bytes a (a + n) else .ok []

/-- `ParseWriteMultipleCoilsRequestTCP` -/
def parseWCoilsReqTCP (s : Slice) : PRes (UInt16 × Req) :=
  (parseMBAP s).bind fun tid =>
  (s.idx 6).bind fun unit =>
  if s.vis.length < 13 then .err (.tcp 3 tid unit 15) else
  (s.idx 7).bind fun f =>
  if f ≠ 15 then .err (.tcp 1 tid unit 15) else
  (s.rd16 10).bind fun c =>
  if ¬(c ≥ 1 ∧ c ≤ 1968) then .err (.tcp 3 tid unit 15) else
  (s.idx 12).bind fun bc =>
  if s.vis.length < 13 + bc.toNat then .err (.tcp 3 tid unit 15) else
  (copyOut s 13 bc.toNat).bind fun d =>
  (s.rd16 8).bind fun a =>
  .ok (tid, .wcoils unit a c d)

/-- `ParseWriteMultipleCoilsRequestRTU` -/
def parseWCoilsReqRTU (s : Slice) : PRes Req :=
  if s.vis.length < 7 then .err (.rtu 4 0 0) else
  (s.idx 0).bind fun unit =>
  (s.idx 1).bind fun f =>
  if f ≠ 15 then .err (.rtu 1 unit 15) else
  (s.rd16 4).bind fun c =>
  if ¬(c ≥ 1 ∧ c ≤ 1968) then .err (.rtu 3 unit 15) else
  (s.idx 6).bind fun bc =>
  if s.vis.length ≠ 7 + bc.toNat ∧ s.vis.length ≠ 7 + bc.toNat + 2 then .err (.rtu 3 unit 15) else
  (copyOut s 7 bc.toNat).bind fun d =>
  (s.rd16 2).bind fun a =>
  .ok (.wcoils unit a c d)

/-- `ParseWriteMultipleRegistersRequestTCP` -/
def parseWRegsReqTCP (s : Slice) : PRes (UInt16 × Req) :=
  (parseMBAP s).bind fun tid =>
  (s.idx 6).bind fun unit =>
  if s.vis.length < 13 then .err (.tcp 3 tid unit 16) else
  (s.idx 7).bind fun f =>
  if f ≠ 16 then .err (.tcp 1 tid unit 16) else
  (s.rd16 10).bind fun c =>
  if ¬(c ≥ 1 ∧ c ≤ 123) then .err (.tcp 3 tid unit 16) else
  (s.idx 12).bind fun bc =>
  if s.vis.length ≠ 13 + bc.toNat then .err (.tcp 3 tid unit 16) else
  (copyOut s 13 bc.toNat).bind fun d =>
  (s.rd16 8).bind fun a =>
  .ok (tid, .wregs unit a c d)

/-- `ParseWriteMultipleRegistersRequestRTU` -/
def parseWRegsReqRTU (s : Slice) : PRes Req :=
  if s.vis.length < 8 then .err (.rtu 4 0 0) else
  (s.idx 0).bind fun unit =>
  (s.idx 1).bind fun f =>
  if f ≠ 16 then .err (.rtu 1 unit 16) else
  (s.rd16 4).bind fun c =>
  if ¬(c ≥ 1 ∧ c ≤ 123) then .err (.rtu 3 unit 16) else
  (s.idx 6).bind fun bc =>
  if s.vis.length ≠ 7 + bc.toNat ∧ s.vis.length ≠ 7 + bc.toNat + 2 then .err (.rtu 3 unit 16) else
  (copyOut s 7 bc.toNat).bind fun d =>
  (s.rd16 2).bind fun a =>
  .ok (.wregs unit a c d)

/-- `ParseReadServerIDRequestTCP` -/
def parseSidReqTCP (s : Slice) : PRes (UInt16 × Req) :=
  (parseMBAP s).bind fun tid =>
  (s.idx 6).bind fun unit =>
  if s.vis.length < 8 then .err (.tcp 3 tid unit 17) else
  (s.idx 7).bind fun f =>
  if f ≠ 17 then .err (.tcp 1 tid unit 17) else
  .ok (tid, .sid unit)

/-- `ParseReadServerIDRequestRTU` -/
def parseSidReqRTU (s : Slice) : PRes Req :=
  if s.vis.length ≠ 4 ∧ s.vis.length ≠ 2 then .err (.rtu 4 0 0) else
  (s.idx 0).bind fun unit =>
  (s.idx 1).bind fun f =>
  if f ≠ 17 then .err (.rtu 1 unit 17) else
  .ok (.sid unit)

/-- `ParseReadWriteMultipleRegistersRequestTCP` -/
def parseRWReqTCP (s : Slice) : PRes (UInt16 × Req) :=
  (parseMBAP s).bind fun tid =>
  (s.idx 6).bind fun unit =>
  if s.vis.length < 17 then .err (.tcp 3 tid unit 23) else
  (s.idx 7).bind fun f =>
  if f ≠ 23 then .err (.tcp 1 tid unit 23) else
  (s.rd16 10).bind fun rq =>
  if ¬(rq ≥ 1 ∧ rq ≤ 125) then .err (.tcp 3 tid unit 23) else
  (s.rd16 14).bind fun wq =>
  if ¬(wq ≥ 1 ∧ wq ≤ 121) then .err (.tcp 3 tid unit 23) else
  (s.idx 16).bind fun bc =>
  if s.vis.length < 17 + bc.toNat then .err (.tcp 3 tid unit 23) else
  (copyOut s 17 bc.toNat).bind fun d =>
  (s.rd16 8).bind fun ra =>
  (s.rd16 12).bind fun wa =>
  .ok (tid, .rw unit ra rq wa wq d)

/-- `ParseReadWriteMultipleRegistersRequestRTU` -/
def parseRWReqRTU (s : Slice) : PRes Req :=
  if s.vis.length < 12 then .err (.rtu 4 0 0) else
  (s.idx 0).bind fun unit =>
  (s.idx 1).bind fun f =>
  if f ≠ 23 then .err (.rtu 1 unit 23) else
  (s.rd16 4).bind fun rq =>
  if ¬(rq ≥ 1 ∧ rq ≤ 125) then .err (.rtu 3 unit 23) else
  (s.rd16 8).bind fun wq =>
  if ¬(wq ≥ 1 ∧ wq ≤ 121) then .err (.rtu 3 unit 23) else
  (s.idx 10).bind fun bc =>
  if s.vis.length ≠ 11 + bc.toNat ∧ s.vis.length ≠ 11 + bc.toNat + 2 then .err (.rtu 3 unit 23) else
  (copyOut s 11 bc.toNat).bind fun d =>
  (s.rd16 2).bind fun ra =>
  (s.rd16 6).bind fun wa =>
  .ok (.rw unit ra rq wa wq d)

/-- per function code request parser, TCP. The quantity limit of the FC1/FC2 parsers is 125
in the code (the Modbus limit is 2000): known finding KF-C09-fc1-126-2000 / fc2. -/
def parseReqTCPfc (fc : UInt8) (s : Slice) : PRes (UInt16 × Req) :=
  match fc with
  | 1 => parseReadReqTCP 1 125 s
  | 2 => parseReadReqTCP 2 125 s
  | 3 => parseReadReqTCP 3 125 s
  | 4 => parseReadReqTCP 4 125 s
  | 5 => parseWCoilReqTCP s
  | 6 => parseWRegReqTCP s
  | 15 => parseWCoilsReqTCP s
  | 16 => parseWRegsReqTCP s
  | 17 => parseSidReqTCP s
  | 23 => parseRWReqTCP s
  | _ => .err (.tcp 1 0 0 0)

def parseReqRTUfc (fc : UInt8) (s : Slice) : PRes Req :=
  match fc with
  | 1 => parseReadReqRTU 1 125 s
  | 2 => parseReadReqRTU 2 125 s
  | 3 => parseReadReqRTU 3 125 s
  | 4 => parseReadReqRTU 4 125 s
  | 5 => parseWCoilReqRTU s
  | 6 => parseWRegReqRTU s
  | 15 => parseWCoilsReqRTU s
  | 16 => parseWRegsReqRTU s
  | 17 => parseSidReqRTU s
  | 23 => parseRWReqRTU s
  | _ => .err .plain

/-- `ParseTCPRequest` -/
def parseTCPRequest (s : Slice) : PRes (UInt16 × Req) :=
  if s.vis.length < 8 then .err .tooShortT else
  (s.idx 7).bind fun fc => parseReqTCPfc fc s

/-- `ParseRTURequest` -/
def parseRTURequest (s : Slice) : PRes Req :=
  if s.vis.length < 4 then .err .plain else
  (s.idx 1).bind fun fc => parseReqRTUfc fc s

/-- the CRC comparison shared by the `…WithCRC` entry points:
`binary.LittleEndian.Uint16(data[len-2:]) != CRC16(data[:len-2])` -/
def crcMatches (v : Bytes) : Bool :=
  let body := v.take (v.length - 2)
  match v.drop (v.length - 2) with
  | [l, h] => le16 l h == crc16 body
  | _ => false

/-- `ParseRTURequestWithCRC` -/
def parseRTURequestWithCRC (s : Slice) : PRes Req :=
  if s.vis.length < 4 then .err .plain else
  if !crcMatches s.vis then .err .badCRC else
  parseRTURequest s

end Modbus.Model
