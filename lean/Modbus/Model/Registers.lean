import Modbus.Model.Types
/-
  Model of packet/registers.go: `Registers` (typed view of a register response payload).
  The payload is a Go slice (visible bytes + spare capacity); every accessor returns its
  result together with the payload as it is afterwards (Go accessors work on sub-slices that
  alias the payload, so a write through one of them would be visible).
-/
namespace Modbus.Model

/-- byte order flags: BigEndian = 1, LittleEndian = 2, LowWordFirst = 4, HighWordFirst = 8 -/
abbrev ByteOrder := UInt8

structure Registers where
  order : ByteOrder        -- defaultByteOrder
  start : UInt16           -- startAddress
  end_ : Nat               -- endAddress (uint32 in the code: start + number of registers, no wrap)
  data : Slice             -- payload

/-- what an accessor returns -/
inductive Val where
  | bool (b : Bool)
  | u (bits : Nat) (v : Nat)       -- unsigned integer of `bits` bits
  | i (bits : Nat) (v : Int)       -- signed integer
  | f32 (bits : Nat)               -- float32 by bit pattern
  | f64 (bits : Nat)
  | str (utf8 : Bytes)
  | raw (b : Bytes)                -- Register / DoubleRegister / QuadRegister
  deriving Repr, DecidableEq

/-- two's complement reading of an `n`-bit pattern -/
def toSigned (n : Nat) (v : Nat) : Int :=
  if v < 2 ^ (n - 1) then (v : Int) else (v : Int) - (2 ^ n : Nat)

def isNaN32 (b : Nat) : Bool := (b / 2 ^ 23) % 256 == 255 && b % 2 ^ 23 != 0
def isNaN64 (b : Nat) : Bool := (b / 2 ^ 52) % 2048 == 2047 && b % 2 ^ 52 != 0

def Val.str' : Val → String
  | .bool b => s!"bool:{if b then 1 else 0}"
  | .u n v => s!"u{n}:{v}"
  | .i n v => s!"i{n}:{v}"
  -- (the bit pattern, also for NaNs: a float read returns the value whose bits are the wire bytes)
  | .f32 b => s!"f32:{b}"
  | .f64 b => s!"f64:{b}"
  | .str s => s!"str:{hex s}"
  | .raw b => s!"raw:{hex b}"

/-- `NewRegisters(data, startAddress)` -/
def newRegisters (d : Slice) (start : UInt16) : PRes Registers :=
  if d.vis.length < 2 then .err .plain else
  if d.vis.length % 2 ≠ 0 then .err .plain else
  .ok { order := 9, start := start, end_ := start.toNat + d.vis.length / 2, data := d }

/-- `register(address)`: the two bytes of one register (a sub-slice of the payload) -/
def Registers.register (r : Registers) (addr : UInt16) : PRes Bytes :=
  if addr < r.start then .err .plain else
  if addr.toNat ≥ r.end_ then .err .plain else
  let i := (addr - r.start).toNat * 2
  r.data.bytes i (i + 2)

/-- `doubleRegister(address, byteOrder)`: four bytes, words swapped when LowWordFirst is set -/
def Registers.doubleRegister (r : Registers) (addr : UInt16) (o : ByteOrder) : PRes Bytes :=
  if addr < r.start then .err .plain else
  if addr.toNat + 2 > r.end_ then .err .plain else
  let i := (addr - r.start).toNat * 2
  if o &&& 4 ≠ 0 then
    (r.data.idx (i + 2)).bind fun b2 =>
    (r.data.idx (i + 3)).bind fun b3 =>
    (r.data.idx i).bind fun b0 =>
    (r.data.idx (i + 1)).bind fun b1 =>
    .ok [b2, b3, b0, b1]
  else r.data.bytes i (i + 4)

/-- `quadRegister(address, byteOrder)` -/
def Registers.quadRegister (r : Registers) (addr : UInt16) (o : ByteOrder) : PRes Bytes :=
  if addr < r.start then .err .plain else
  if addr.toNat + 4 > r.end_ then .err .plain else
  let i := (addr - r.start).toNat * 2
  if o &&& 4 ≠ 0 then
    (r.data.idx (i + 6)).bind fun b6 =>
    (r.data.idx (i + 7)).bind fun b7 =>
    (r.data.idx (i + 4)).bind fun b4 =>
    (r.data.idx (i + 5)).bind fun b5 =>
    (r.data.idx (i + 2)).bind fun b2 =>
    (r.data.idx (i + 3)).bind fun b3 =>
    (r.data.idx i).bind fun b0 =>
    (r.data.idx (i + 1)).bind fun b1 =>
    .ok [b6, b7, b4, b5, b2, b3, b0, b1]
  else r.data.bytes i (i + 8)

/-- the integer a byte string denotes: little endian when the LittleEndian flag (2) is set -/
def intOf (o : ByteOrder) (b : Bytes) : Nat := if o &&& 2 ≠ 0 then leNat b else beNat b

/-- `useDefaultByteOrder` -/
def Registers.ord (r : Registers) (o : ByteOrder) : ByteOrder := if o = 0 then r.order else o

/-- one character of the string accessor: `fmt.Fprintf(builder, "%c", rune(b))` (UTF-8) -/
def utf8Of (b : UInt8) : Bytes :=
  if b.toNat < 128 then [b] else [UInt8.ofNat (0xC0 + b.toNat / 64), UInt8.ofNat (0x80 + b.toNat % 64)]

/-- swap the two bytes of every register -/
def swapPairs : Bytes → Bytes
  | a :: b :: rest => b :: a :: swapPairs rest
  | l => l

/-- bytes up to (excluding) the first NUL -/
def untilNul : Bytes → Bytes
  | [] => []
  | b :: rest => if b = 0 then [] else b :: untilNul rest

/-- `StringWithByteOrder(address, length, byteOrder)`: works on a copy of the addressed bytes -/
def Registers.string (r : Registers) (addr : UInt16) (len : UInt8) (o : ByteOrder) : PRes Bytes :=
  let o := r.ord o
  if addr < r.start then .err .plain else
  let s := (addr - r.start).toNat * 2
  let e := s + len.toNat + (if len.toNat % 2 ≠ 0 then 1 else 0)
  if e > r.data.vis.length then .err .plain else
  (r.data.bytes s e).bind fun raw =>
  let raw := if o &&& 1 ≠ 0 then swapPairs raw else raw
  .ok ((untilNul (raw.take len.toNat)).flatMap utf8Of)

/-- the accessors of `Registers`, by name, as the line protocol spells them -/
inductive Acc where
  | bit (b : UInt8) | byte (hi : Bool) | u8 (hi : Bool) | i8 (hi : Bool)
  | u16 | i16
  | u32 | u32o (o : ByteOrder) | i32 | i32o (o : ByteOrder)
  | u64 | u64o (o : ByteOrder) | i64 | i64o (o : ByteOrder)
  | f32 | f32o (o : ByteOrder) | f64 | f64o (o : ByteOrder)
  | str (len : UInt8) | stro (len : UInt8) (o : ByteOrder)
  | reg | dreg (o : ByteOrder) | qreg (o : ByteOrder)
  deriving Repr, DecidableEq

/-- one accessor call: result and the payload afterwards. No accessor writes to the payload
(`StringWithByteOrder` rearranges a copy), so the payload afterwards is the payload before. -/
def Registers.access (r : Registers) (a : Acc) (addr : UInt16) : PRes Val × Slice :=
  let res : PRes Val :=
    match a with
    | .bit b =>
      if b > 15 then .err .plain else
      (r.register addr).bind fun reg =>
      let byte := if b > 7 then reg.getD 0 0 else reg.getD 1 0
      let bit := if b > 7 then b - 8 else b
      .ok (.bool (byte.toNat.testBit bit.toNat))
    | .byte hi => (r.register addr).bind fun reg => .ok (.u 8 (if hi then reg.getD 0 0 else reg.getD 1 0).toNat)
    | .u8 hi => (r.register addr).bind fun reg => .ok (.u 8 (if hi then reg.getD 0 0 else reg.getD 1 0).toNat)
    | .i8 hi => (r.register addr).bind fun reg =>
        .ok (.i 8 (toSigned 8 (if hi then reg.getD 0 0 else reg.getD 1 0).toNat))
    | .u16 => (r.register addr).bind fun reg => .ok (.u 16 (intOf r.order reg))
    | .i16 => (r.register addr).bind fun reg => .ok (.i 16 (toSigned 16 (intOf r.order reg)))
    | .u32 => (r.doubleRegister addr r.order).bind fun b => .ok (.u 32 (intOf r.order b))
    | .u32o o => (r.doubleRegister addr (r.ord o)).bind fun b => .ok (.u 32 (intOf (r.ord o) b))
    | .i32 => (r.doubleRegister addr r.order).bind fun b => .ok (.i 32 (toSigned 32 (intOf r.order b)))
    | .i32o o => (r.doubleRegister addr (r.ord o)).bind fun b => .ok (.i 32 (toSigned 32 (intOf (r.ord o) b)))
    | .u64 => (r.quadRegister addr r.order).bind fun b => .ok (.u 64 (intOf r.order b))
    | .u64o o => (r.quadRegister addr (r.ord o)).bind fun b => .ok (.u 64 (intOf (r.ord o) b))
    | .i64 => (r.quadRegister addr r.order).bind fun b => .ok (.i 64 (toSigned 64 (intOf r.order b)))
    | .i64o o => (r.quadRegister addr (r.ord o)).bind fun b => .ok (.i 64 (toSigned 64 (intOf (r.ord o) b)))
    | .f32 => (r.doubleRegister addr r.order).bind fun b => .ok (.f32 (intOf r.order b))
    | .f32o o => (r.doubleRegister addr (r.ord o)).bind fun b => .ok (.f32 (intOf (r.ord o) b))
    | .f64 => (r.quadRegister addr r.order).bind fun b => .ok (.f64 (intOf r.order b))
    | .f64o o => (r.quadRegister addr (r.ord o)).bind fun b => .ok (.f64 (intOf (r.ord o) b))
    | .str len => (r.string addr len 0).bind fun s => .ok (.str s)
    | .stro len o => (r.string addr len o).bind fun s => .ok (.str s)
    | .reg => (r.register addr).bind fun b => .ok (.raw b)
    | .dreg o => (r.doubleRegister addr o).bind fun b => .ok (.raw b)
    | .qreg o => (r.quadRegister addr o).bind fun b => .ok (.raw b)
  (res, r.data)

end Modbus.Model
