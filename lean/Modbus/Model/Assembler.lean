import Modbus.Model.Response
/-
  Model of server/modbus.go: `ModbusTCPAssembler.ReceiveRead` - buffers what the connection loop read,
  uses the stream classifier to delimit frames, parses each complete frame, calls the handler and turns
  parse / handler errors into exception replies. Also the per-connection loop of server/server.go
  (`connection.handle`): call the assembler after every non-empty read and write what it returns.
-/
namespace Modbus.Model

/-- what a `ModbusHandler.Handle` call does -/
inductive HandlerResult where
  | resp (r : Resp)          -- a response value (its `Bytes()` are sent)
  | typedErr (code : UInt8)  -- `*packet.ErrorParseTCP` created with NewErrorParseTCP(code, …): packet fields not filled in
  | genericErr               -- any other error
  | panics

abbrev Handler := UInt16 → Req → HandlerResult

/-- the reply to one complete, delimited frame: `spare` are the bytes following it in the reassembly buffer
(`bytes.Buffer.Next(n)` returns a sub-slice of the buffer). `none` = the handler panicked. -/
def handleFrame (h : Handler) (frame spare : Bytes) : Option Bytes :=
  match parseTCPRequest ⟨frame, spare⟩ with
  | .err e => some ((e.bytes).getD [])
  | .panic => none
  | .ok (tid, req) =>
    match h tid req with
    | .resp r => some (r.bytesTCP tid)
    -- handler errors are answered with an exception addressed to the request
    | .typedErr code => some (excBytesTCP tid req.unit req.fc code)
    | .genericErr => some (excBytesTCP tid req.unit req.fc 4)
    | .panics => none

structure AsmOut where
  reply : Bytes
  close : Bool
  buf : Bytes
  panicked : Bool := false

/-- the frame loop of `ReceiveRead`; `fuel` bounds the rounds (every round consumes at least 9 bytes) -/
def asmLoop (h : Handler) : Nat → Bytes → Bytes → AsmOut
  | 0, buf, out => { reply := out, close := false, buf := buf }
  | fuel + 1, buf, out =>
    match looksLike ⟨buf, []⟩ false with
    | .ok (_, some .tooShortT) => { reply := out, close := false, buf := buf }      -- wait for more data
    | .ok (_, some .notTCP) =>
      -- the stream cannot be re-synchronised: answer and close the connection
      { reply := out ++ excBytesTCP 0 0 0 0, close := true, buf := [] }
    | .ok (n, e) =>
      if buf.length < n then { reply := out, close := false, buf := buf }           -- wait for the rest of the frame
      else
        let frame := buf.take n
        let rest := buf.drop n
        match e with
        | some err => asmLoop h fuel rest (out ++ (err.bytes).getD [])               -- unsupported function: consumed
        | none =>
          match handleFrame h frame rest with
          | some r => asmLoop h fuel rest (out ++ r)
          | none => { reply := out, close := true, buf := rest, panicked := true }
    | _ => { reply := out, close := true, buf := buf, panicked := true }

/-- `ReceiveRead(ctx, received, n)` -/
def receiveRead (h : Handler) (buf chunk : Bytes) : AsmOut :=
  let b := buf ++ chunk
  asmLoop h (b.length + 1) b []

/-- the connection loop for a sequence of non-empty reads: replies per read; stops when the connection is closed -/
def connLoop (h : Handler) : List Bytes → Bytes → List AsmOut
  | [], _ => []
  | c :: rest, buf =>
    let o := receiveRead h buf c
    if o.close || o.panicked then [o] else o :: connLoop h rest o.buf

end Modbus.Model
