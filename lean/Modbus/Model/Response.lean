import Modbus.Model.Request
/-
  Model of the response side of package `packet`:
    Parse*Response{TCP,RTU}, response Bytes(), ParseTCPResponse, ParseRTUResponse,
    ParseRTUResponseWithCRC, error.go (exception packets and their recognisers),
    LooksLikeModbusTCP, isBitSet / IsCoilSet / IsInputSet.
-/
namespace Modbus.Model

/-! ## exception packets (error.go) -/

/-- `ErrorResponseTCP.Bytes()` — `Function + 128` wraps in `uint8` -/
def excBytesTCP (tid : UInt16) (unit fc code : UInt8) : Bytes :=
  put16 tid ++ [0, 0] ++ put16 3 ++ [unit, fc + 128, code]

/-- `ErrorResponseRTU.Bytes()` -/
def excBytesRTU (unit fc code : UInt8) : Bytes := withCrc [unit, fc + 128, code]

/-- `err.Bytes()` for the error values that have an encoding (`ErrorParseTCP`, `ErrorParseRTU`,
`ErrorResponseTCP`, `ErrorResponseRTU`) -/
def PErr.bytes : PErr → Option Bytes
  | .tcp c t u f => some (excBytesTCP t u f c)
  | .rtu c u f => some (excBytesRTU u f c)
  | .excT t u f c => some (excBytesTCP t u f c)
  | .excR u f c => some (excBytesRTU u f c)
  | .tooShortT => some (excBytesTCP 0 0 0 0)
  | .notTCP => some (excBytesTCP 0 0 0 0)
  | .badCRC => none
  | .plain => none

/-- `AsTCPErrorPacket`: `some e` when the 9 bytes are an exception frame -/
def asTCPErrorPacket (s : Slice) : PRes (Option PErr) :=
  if s.vis.length ≠ 9 then .ok none else
  (s.idx 7).bind fun f =>
  if f &&& 128 ≠ 0 then
    (s.rd16 0).bind fun tid =>
    (s.idx 6).bind fun unit =>
    (s.idx 8).bind fun code =>
    .ok (some (.excT tid unit (f - 128) code))
  else .ok none

/-- `AsRTUErrorPacket` -/
def asRTUErrorPacket (s : Slice) : PRes (Option PErr) :=
  if s.vis.length ≠ 5 then .ok none else
  (s.idx 1).bind fun f =>
  if f &&& 128 ≠ 0 then
    (s.idx 0).bind fun unit =>
    (s.idx 2).bind fun code =>
    .ok (some (.excR unit (f - 128) code))
  else .ok none

/-- `AsRTUErrorPacketWithCRC`: the recogniser the RTU clients use while reading - only a 5 byte packet
whose CRC matches is an exception reply -/
def asRTUErrorPacketWithCRC (s : Slice) : PRes (Option PErr) :=
  if s.vis.length ≠ 5 then .ok none else
  if !crcMatches s.vis then .ok none else
  asRTUErrorPacket s

/-! ## stream classifier (packet.go) -/

def supportedFunctionCodes : List UInt8 := [1, 2, 3, 4, 5, 6, 15, 16, 17, 23]

/-- `LooksLikeModbusTCP(data, allowUnsupported)`: Go returns `(expectedLen, err)`; both can be
set (unsupported function code). -/
def looksLike (s : Slice) (allowUnsupported : Bool) : Res Unit (Nat × Option PErr) :=
  if s.vis.length < 8 then .ok (0, some .tooShortT) else
  (s.idx 2).bind fun d2 =>
  (s.idx 3).bind fun d3 =>
  if ¬(d2 = 0 ∧ d3 = 0) then .ok (0, some .notTCP) else
  (s.rd16 4).bind fun pduLen =>
  if pduLen < 3 then .ok (0, some .notTCP) else
  (s.idx 7).bind fun fc =>
  if fc = 0 then .ok (0, some .notTCP) else
  let n := pduLen.toNat + 6
  if allowUnsupported then .ok (n, none) else
  if supportedFunctionCodes.contains fc then .ok (n, none) else
  (s.rd16 0).bind fun tid =>
  (s.idx 6).bind fun unit =>
  .ok (n, some (.tcp 1 tid unit fc))

/-! ## response encoders -/

/-- framing independent `bytes()` of each response struct -/
def Resp.pdu : Resp → Bytes
  | .bits fc u _ d => [u, fc, UInt8.ofNat d.length] ++ d
  | .regs fc u bl d => [u, fc, bl] ++ (d ++ List.replicate (bl.toNat - d.length) 0).take bl.toNat
  | .wcoil u a s => [u, 5] ++ put16 a ++ put16 (if s then 0xFF00 else 0x0000)
  | .wreg u a d0 d1 => [u, 6] ++ put16 a ++ [d0, d1]
  | .wmulti fc u a c => [u, fc] ++ put16 a ++ put16 c
  | .sid u st id add => [u, 17, UInt8.ofNat id.length] ++ id ++ [st] ++ (add.getD [])

def Resp.bytesTCP (tid : UInt16) (r : Resp) : Bytes :=
  mbap tid (UInt16.ofNat r.pdu.length) ++ r.pdu

def Resp.bytesRTU (r : Resp) : Bytes := withCrc r.pdu

def Resp.bytes : Framing → UInt16 → Resp → Bytes
  | .tcp, tid, r => r.bytesTCP tid
  | .rtu, _, r => r.bytesRTU

/-! ## response parsers -/

/-- `ParseRead{Coils,DiscreteInputs}ResponseTCP` (`minLen` 10) and
`ParseRead{Holding,Input}RegistersResponseTCP`, `ParseReadWriteMultipleRegistersResponseTCP` (`minLen` 11) -/
def parseByteCountRespTCP (mk : UInt8 → UInt8 → Bytes → Resp) (minLen : Nat) (s : Slice) :
    PRes (UInt16 × Resp) :=
  if s.vis.length < minLen then .err .plain else
  (s.idx 8).bind fun bl =>
  if s.vis.length ≠ 9 + bl.toNat then .err .plain else
  (s.rd16 0).bind fun tid =>
  (s.idx 6).bind fun unit =>
  (s.bytes 9 (9 + bl.toNat)).bind fun d =>
  .ok (tid, mk unit bl d)

def parseByteCountRespRTU (mk : UInt8 → UInt8 → Bytes → Resp) (minLen : Nat) (s : Slice) :
    PRes Resp :=
  if s.vis.length < minLen then .err .plain else
  (s.idx 2).bind fun bl =>
  if s.vis.length ≠ 3 + bl.toNat + 2 then .err .plain else
  (s.idx 0).bind fun unit =>
  (s.bytes 3 (3 + bl.toNat)).bind fun d =>
  .ok (mk unit bl d)

/-- FC5/FC6/FC15/FC16 TCP: `dLen < 12`, then `dLen != 6 + pduLen` -/
def parseFixedRespTCP (mk : UInt8 → Slice → PRes Resp) (s : Slice) : PRes (UInt16 × Resp) :=
  if s.vis.length < 12 then .err .plain else
  (s.rd16 4).bind fun pduLen =>
  if s.vis.length ≠ 6 + pduLen.toNat then .err .plain else
  (s.rd16 0).bind fun tid =>
  (s.idx 6).bind fun unit =>
  (mk unit s).bind fun r =>
  .ok (tid, r)

def parseFixedRespRTU (mk : UInt8 → Slice → PRes Resp) (s : Slice) : PRes Resp :=
  if s.vis.length < 8 then .err .plain else
  if s.vis.length > 8 then .err .plain else
  (s.idx 0).bind fun unit => mk unit s

def mkWCoilResp (off : Nat) (unit : UInt8) (s : Slice) : PRes Resp :=
  (s.rd16 off).bind fun a =>
  (s.rd16 (off + 2)).bind fun raw =>
  .ok (.wcoil unit a (raw == 0xFF00))

def mkWRegResp (off : Nat) (unit : UInt8) (s : Slice) : PRes Resp :=
  (s.rd16 off).bind fun a =>
  (s.idx (off + 2)).bind fun d0 =>
  (s.idx (off + 3)).bind fun d1 =>
  .ok (.wreg unit a d0 d1)

def mkWMultiResp (fc : UInt8) (off : Nat) (unit : UInt8) (s : Slice) : PRes Resp :=
  (s.rd16 off).bind fun a =>
  (s.rd16 (off + 2)).bind fun c =>
  .ok (.wmulti fc unit a c)

/-- `ParseReadServerIDResponseTCP` -/
def parseSidRespTCP (s : Slice) : PRes (UInt16 × Resp) :=
  if s.vis.length < 11 then .err .plain else
  (s.idx 8).bind fun n =>
  if n = 0 then .err .plain else
  let statusIdx := 8 + n.toNat + 1
  if statusIdx ≥ s.vis.length then .err .plain else
  (s.bytes 9 (9 + n.toNat)).bind fun id =>
  (s.idx statusIdx).bind fun st =>
  (if s.vis.length > statusIdx + 1 then
      ((s.from_ (ε := PErr) (statusIdx + 1)).bind fun t => .ok (some t.vis))
    else .ok none).bind fun add =>
  (s.rd16 0).bind fun tid =>
  (s.idx 6).bind fun unit =>
  .ok (tid, .sid unit st id add)

/-- `ParseReadServerIDResponseRTU` -/
def parseSidRespRTU (s : Slice) : PRes Resp :=
  if s.vis.length < 7 then .err .plain else
  (s.idx 2).bind fun n =>
  if n = 0 then .err .plain else
  let statusIdx := 2 + n.toNat + 1
  if statusIdx ≥ s.vis.length - 2 then .err .plain else
  (s.bytes 3 (3 + n.toNat)).bind fun id =>
  (s.idx statusIdx).bind fun st =>
  (if s.vis.length > statusIdx + 1 then
      ((s.bytes (statusIdx + 1) (s.vis.length - 2)).bind fun t => .ok (some t))
    else .ok none).bind fun add =>
  (s.idx 0).bind fun unit =>
  .ok (.sid unit st id add)

/-- per function code response parser, TCP -/
def parseRespTCPfc (fc : UInt8) (s : Slice) : PRes (UInt16 × Resp) :=
  match fc with
  | 1 => parseByteCountRespTCP (Resp.bits 1) 10 s
  | 2 => parseByteCountRespTCP (Resp.bits 2) 10 s
  | 3 => parseByteCountRespTCP (Resp.regs 3) 11 s
  | 4 => parseByteCountRespTCP (Resp.regs 4) 11 s
  | 5 => parseFixedRespTCP (mkWCoilResp 8) s
  | 6 => parseFixedRespTCP (mkWRegResp 8) s
  | 15 => parseFixedRespTCP (mkWMultiResp 15 8) s
  | 16 => parseFixedRespTCP (mkWMultiResp 16 8) s
  | 17 => parseSidRespTCP s
  | 23 => parseByteCountRespTCP (Resp.regs 23) 11 s
  | _ => .err .plain

def parseRespRTUfc (fc : UInt8) (s : Slice) : PRes Resp :=
  match fc with
  | 1 => parseByteCountRespRTU (Resp.bits 1) 6 s
  | 2 => parseByteCountRespRTU (Resp.bits 2) 6 s
  | 3 => parseByteCountRespRTU (Resp.regs 3) 7 s
  | 4 => parseByteCountRespRTU (Resp.regs 4) 7 s
  | 5 => parseFixedRespRTU (mkWCoilResp 2) s
  | 6 => parseFixedRespRTU (mkWRegResp 2) s
  | 15 => parseFixedRespRTU (mkWMultiResp 15 2) s
  | 16 => parseFixedRespRTU (mkWMultiResp 16 2) s
  | 17 => parseSidRespRTU s
  | 23 => parseByteCountRespRTU (Resp.regs 23) 7 s
  | _ => .err .plain

/-- `ParseTCPResponse` -/
def parseTCPResponse (s : Slice) : PRes (UInt16 × Resp) :=
  if s.vis.length < 8 then .err .plain else
  (asTCPErrorPacket s).bind fun e =>
  match e with
  | some e => .err e
  | none => (s.idx 7).bind fun fc => parseRespTCPfc fc s

/-- `ParseRTUResponse` -/
def parseRTUResponse (s : Slice) : PRes Resp :=
  if s.vis.length < 4 then .err .plain else
  (asRTUErrorPacket s).bind fun e =>
  match e with
  | some e => .err e
  | none => (s.idx 1).bind fun fc => parseRespRTUfc fc s

/-- `ParseRTUResponseWithCRC` -/
def parseRTUResponseWithCRC (s : Slice) : PRes Resp :=
  if s.vis.length < 4 then .err .plain else
  if !crcMatches s.vis then .err .badCRC else
  parseRTUResponse s

/-! ## coil lookup (response.go) -/

/-- `isBitSet(data, startBit, bit)` — as the code has it: bytes are indexed from the END of the
payload (`len-1-i/8`). Known finding KF-C11-byte-order. -/
def isBitSet (data : Bytes) (start bit : UInt16) : PRes Bool :=
  let target := bit - start
  if bit < start then .err .plain else
  if data.length * 8 ≤ target.toNat then .err .plain else
  let nThByte := data.length - 1 - target.toNat / 8
  let nThBit := target.toNat % 8
  ((Slice.mk data []).idx nThByte).bind fun b =>
  .ok (b.toNat.testBit nThBit)

end Modbus.Model
