/-
  Model of the lifecycle bookkeeping of server/server.go: `serve` (accept loop), the per-connection goroutine with its
  deferred cleanup, `trackConn`, `Shutdown`, the four optional callbacks and the context given to `Serve`,
  as a labelled transition system. Every label is one atomic step of one of the processes
      acceptor | connection goroutine c | Shutdown | environment (clients, contexts)
  and a schedule is a list of labels; a label whose step is not enabled leaves the state unchanged.
  The steps follow the shared-memory operations of the code: the mutex `s.mu` (held by Shutdown from its call to
  its return, taken by trackConn for one step), the atomic `isShutdown`, `activeConnectionCount`, the per-connection
  `state` changed by compare-and-swap, and the socket/listener open flags.
-/
namespace Modbus.Model.ServerLife

structure Cfg where
  onServe : Bool
  onError : Bool
  onAccept : Bool
  onClose : Bool
  /-- the decision of the accept callback for connection c -/
  reject : Nat → Bool

/-- `connection.state` -/
inductive CState where
  | idle | busy | closedByShutdown
  deriving Repr, DecidableEq, Inhabited

/-- what the handler of a request does -/
inductive Kind where
  | normal | panics
  deriving Repr, DecidableEq, Inhabited

/-- program counter of the goroutine of one connection -/
inductive GPc where
  | notStarted
  /-- top of the read loop -/
  | loopTop
  /-- `conn.Read` returned request r; the optional RawReadTracer runs here -/
  | gotRequest (r : Nat) (k : Kind)
  /-- state = busy, the handler is running -/
  | handling (r : Nat) (k : Kind)
  /-- the handler has returned; the reply is written next -/
  | writing (r : Nat)
  /-- reply written; `state.Store(idle)` next -/
  | written
  /-- deferred function: recover, conn.Close() -/
  | cleanupClose
  /-- deferred function: trackConn(c, false) -/
  | cleanupUntrack
  /-- deferred function: the close callback -/
  | cleanupCb
  | done
  deriving Repr, DecidableEq, Inhabited

structure Conn where
  /-- the client's side of the connection is open -/
  clientOpen : Bool := false
  /-- requests sent by the client and not yet read by the server -/
  inbox : List (Nat × Kind) := []
  /-- the server has closed its side -/
  serverClosed : Bool := false
  state : CState := .idle
  pc : GPc := .notStarted
  /-- member of `activeConnections` -/
  inMap : Bool := false
  /-- count argument given to the accept callback -/
  acceptArg : Option Int := none
  rejected : Bool := false
  /-- refused by trackConn because the server had been shut down -/
  refused : Bool := false
  /-- `isServerShutdown` arguments of the calls of the close callback -/
  closeCbs : List Bool := []
  /-- requests whose handler has started / panicked / whose complete reply has been written -/
  started : List Nat := []
  panicked : List Nat := []
  replied : List Nat := []
  deriving Repr, Inhabited

inductive ServeRet where
  | closed | err
  deriving Repr, DecidableEq, Inhabited

/-- program counter of the accept loop -/
inductive APc where
  /-- before the listener is registered -/
  | init
  /-- in `Accept` -/
  | accept
  /-- the context check after Accept returned connection c -/
  | ctxCheck (c : Nat)
  /-- about to call the accept callback -/
  | callCb (c : Nat)
  /-- inside the accept callback -/
  | inCb (c : Nat)
  /-- about to call trackConn(c, true) -/
  | track (c : Nat)
  | returned (r : ServeRet)
  deriving Repr, DecidableEq, Inhabited

inductive ShutRet where
  /-- nil -/
  | ok
  /-- the caller's context ended while a connection was still busy -/
  | ctxErr
  /-- a repeated call: everything swept, but closing the already closed listener reported an error -/
  | lerr
  deriving Repr, DecidableEq, Inhabited

/-- program counter of `Shutdown` -/
inductive SPc where
  | notCalled
  /-- holds `s.mu`; connections of the current sweep still to look at; `allIdle` so far -/
  | sweeping (remaining : List Nat) (allIdle : Bool)
  | returned (r : ShutRet)
  deriving Repr, DecidableEq, Inhabited

structure St where
  conns : Nat → Conn
  /-- all connections that clients have opened, oldest first -/
  ids : List Nat
  acc : APc
  sd : SPc
  isShutdown : Bool
  listenerSet : Bool
  listenerOpen : Bool
  /-- the listen backlog -/
  queue : List Nat
  /-- `activeConnectionCount` -/
  count : Int
  ctxCancelled : Bool
  sdCtxExpired : Bool
  /-- Shutdown has been called again after a call that gave up with its context's error -/
  sdAgain : Bool := false

inductive Step where
  | clientConnect (c : Nat)
  | clientSend (c r : Nat) (k : Kind)
  | clientClose (c : Nat)
  | ctxCancel
  /-- the function registered with context.AfterFunc runs -/
  | afterFunc
  | sdCtxExpire
  /-- the next step of the accept loop -/
  | acc
  /-- the next step of the goroutine of connection c -/
  | conn (c : Nat)
  | shutdownCall
  /-- Shutdown looks at connection c of the current sweep -/
  | shutdownScan (c : Nat)
  /-- end of a sweep: return, or wait for the timer and sweep again -/
  | shutdownTick
  deriving Repr, DecidableEq, Inhabited

def init : St :=
  { conns := fun _ => {}, ids := [], acc := .init, sd := .notCalled, isShutdown := false, listenerSet := false,
    listenerOpen := true, queue := [], count := 0, ctxCancelled := false, sdCtxExpired := false }

def updC (f : Nat → Conn) (c : Nat) (v : Conn) : Nat → Conn := fun i => if i = c then v else f i

def St.setC (s : St) (c : Nat) (v : Conn) : St := { s with conns := updC s.conns c v }

/-- `s.mu` is held by Shutdown from its call to its return -/
def St.muFree (s : St) : Bool :=
  match s.sd with
  | .sweeping _ _ => false
  | _ => true

/-- the connections in `activeConnections` (iteration order of the map: here oldest first; `shutdownScan` may take
them in any order) -/
def St.inMapIds (s : St) : List Nat := s.ids.filter fun c => (s.conns c).inMap

def accStep (cfg : Cfg) (s : St) : St :=
  match s.acc with
  | .init =>
    if !s.muFree then s
    else if s.isShutdown then { s with listenerOpen := false, acc := .returned .closed }
    else { s with listenerSet := true, acc := .accept }
  | .accept =>
    if !s.listenerOpen then
      { s with acc := .returned (if s.isShutdown || s.ctxCancelled then .closed else .err) }
    else
      match s.queue with
      | c :: rest => { s with queue := rest, acc := .ctxCheck c }
      | [] => s
  | .ctxCheck c =>
    if s.ctxCancelled then
      { (s.setC c { s.conns c with serverClosed := true }) with listenerOpen := false, acc := .returned .closed }
    else { s with acc := .callCb c }
  | .callCb c =>
    if cfg.onAccept then { (s.setC c { s.conns c with acceptArg := some (s.count + 1) }) with acc := .inCb c }
    else { s with acc := .track c }
  | .inCb c =>
    if cfg.reject c then { (s.setC c { s.conns c with serverClosed := true, rejected := true }) with acc := .accept }
    else { s with acc := .track c }
  | .track c =>
    if !s.muFree then s
    else if s.isShutdown then
      let cn := { s.conns c with
        serverClosed := true, refused := true,
        closeCbs := (s.conns c).closeCbs ++ (if cfg.onClose then [true] else []) }
      { (s.setC c cn) with listenerOpen := false, acc := .returned .closed }
    else
      { (s.setC c { s.conns c with inMap := true, pc := .loopTop }) with count := s.count + 1, acc := .accept }
  | .returned _ => s

/-- one step of the goroutine of a connection, as a function of its own record and of the shared flags it reads;
returns the new record and the change of `activeConnectionCount` -/
def connTrans (cfg : Cfg) (ctxCancelled muFree isShutdown : Bool) (cn : Conn) : Conn × Int :=
  match cn.pc with
  | .notStarted => (cn, 0)
  | .loopTop =>
    if ctxCancelled then ({ cn with pc := .cleanupClose }, 0)
    else if cn.serverClosed then ({ cn with pc := .cleanupClose }, 0)          -- read error
    else
      match cn.inbox with
      | (r, k) :: rest => ({ cn with inbox := rest, pc := .gotRequest r k }, 0)
      | [] => if !cn.clientOpen then ({ cn with pc := .cleanupClose }, 0)       -- EOF
              else (cn, 0)                                                        -- read timeout
  | .gotRequest r k =>
    if cn.state = .idle then ({ cn with state := .busy, started := cn.started ++ [r], pc := .handling r k }, 0)
    else ({ cn with pc := .cleanupClose }, 0)     -- the compare-and-swap failed: closed by Shutdown
  | .handling r k =>
    match k with
    | .panics => ({ cn with panicked := cn.panicked ++ [r], pc := .cleanupClose }, 0)
    | .normal => ({ cn with pc := .writing r }, 0)
  | .writing r =>
    if cn.serverClosed then ({ cn with pc := .cleanupClose }, 0)               -- write error
    else ({ cn with replied := cn.replied ++ [r], pc := .written }, 0)
  | .written => ({ cn with state := .idle, pc := .loopTop }, 0)
  | .cleanupClose => ({ cn with serverClosed := true, pc := .cleanupUntrack }, 0)
  | .cleanupUntrack =>
    if !muFree then (cn, 0)
    else ({ cn with inMap := false, pc := .cleanupCb }, -1)
  | .cleanupCb =>
    ({ cn with closeCbs := cn.closeCbs ++ (if cfg.onClose then [isShutdown] else []), pc := .done }, 0)
  | .done => (cn, 0)

def connStep (cfg : Cfg) (s : St) (c : Nat) : St :=
  let r := connTrans cfg s.ctxCancelled s.muFree s.isShutdown (s.conns c)
  { (s.setC c r.1) with count := s.count + r.2 }

def step (cfg : Cfg) (s : St) : Step → St
  | .clientConnect c =>
    if s.ids.contains c then s
    else if s.listenerOpen then
      { (s.setC c { s.conns c with clientOpen := true }) with ids := s.ids ++ [c], queue := s.queue ++ [c] }
    else { s with ids := s.ids ++ [c] }      -- connection refused
  | .clientSend c r k =>
    if (s.conns c).clientOpen then s.setC c { s.conns c with inbox := (s.conns c).inbox ++ [(r, k)] } else s
  | .clientClose c => s.setC c { s.conns c with clientOpen := false }
  | .ctxCancel => { s with ctxCancelled := true }
  | .afterFunc => if s.ctxCancelled && s.listenerSet then { s with listenerOpen := false } else s
  | .sdCtxExpire => { s with sdCtxExpired := true }
  | .acc => accStep cfg s
  | .conn c => connStep cfg s c
  | .shutdownCall =>
    match s.sd with
    | .notCalled =>
      { s with isShutdown := true, listenerOpen := if s.listenerSet then false else s.listenerOpen,
               sd := .sweeping s.inMapIds true }
    | .returned .ctxErr =>
      -- called again (with a new context) after a call that timed out: the flag and the listener are as they were
      { s with sd := .sweeping s.inMapIds true, sdCtxExpired := false, sdAgain := true }
    | _ => s
  | .shutdownScan c =>
    match s.sd with
    | .sweeping rem allIdle =>
      if rem.contains c then
        if (s.conns c).state = .idle then
          { (s.setC c { s.conns c with state := .closedByShutdown, serverClosed := true, inMap := false })
            with sd := .sweeping (rem.erase c) allIdle }
        else { s with sd := .sweeping (rem.erase c) false }
      else s
    | _ => s
  | .shutdownTick =>
    match s.sd with
    | .sweeping [] allIdle =>
      if allIdle then { s with sd := .returned (if s.sdAgain then .lerr else .ok) }
      else if s.sdCtxExpired then { s with sd := .returned .ctxErr }
      else { s with sd := .sweeping s.inMapIds true }
    | _ => s

def run (cfg : Cfg) (s : St) (sched : List Step) : St := sched.foldl (step cfg) s

end Modbus.Model.ServerLife
