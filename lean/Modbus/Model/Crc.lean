import Modbus.Basic
/-
  Model of `packet.CRC16` (packet/packet.go): byte-at-a-time fold over a 16-bit state,
  "xor the byte in, then shift eight times".
  The state is a `BitVec 16` (Go's `uint16`).
-/
namespace Modbus.Model

/-- one iteration of the inner loop: `if crc&1 == 1 { crc = (crc >> 1) ^ 0xA001 } else { crc >>= 1 }` -/
def crcBit (c : BitVec 16) : BitVec 16 :=
  if c.getLsbD 0 then (c >>> 1) ^^^ 0xA001#16 else c >>> 1

/-- `crc ^= uint16(b)` followed by the eight inner iterations -/
def crcByte (c : BitVec 16) (b : UInt8) : BitVec 16 :=
  crcBit (crcBit (crcBit (crcBit (crcBit (crcBit (crcBit (crcBit
    (c ^^^ b.toBitVec.setWidth 16))))))))

def crcBV (data : Bytes) : BitVec 16 := data.foldl crcByte 0xFFFF#16

/-- `CRC16(data)` -/
def crc16 (data : Bytes) : UInt16 := UInt16.ofBitVec (crcBV data)

/-- the two trailer bytes an RTU encoder appends: `uint8(crc)`, `uint8(crc >> 8)` -/
def crcTrailer (body : Bytes) : Bytes := [lo8 (crc16 body), hi8 (crc16 body)]

/-- `body ++ crc lo ++ crc hi` -/
def withCrc (body : Bytes) : Bytes := body ++ crcTrailer body

end Modbus.Model
