/-
  Basic vocabulary of the model: bytes, Go slices (visible part + spare capacity),
  the three-way result type (ok | err | panic), big/little-endian 16-bit helpers written
  arithmetically (so that `omega` can reason about them), hex printing.

  Core Lean only (no Mathlib) so that the driver can be compiled as a `lean_exe`.
-/
namespace Modbus

abbrev Bytes := List UInt8

/-- What a Go function call can do: return normally, return an error, or panic. -/
inductive Res (ε : Type) (α : Type) where
  | ok (a : α)
  | err (e : ε)
  | panic
  deriving Repr, DecidableEq

namespace Res
variable {ε α β : Type}

@[inline] def bind (x : Res ε α) (f : α → Res ε β) : Res ε β :=
  match x with
  | ok a => f a
  | err e => err e
  | panic => panic

instance : Monad (Res ε) where
  pure := ok
  bind := bind

@[simp] theorem bind_ok (a : α) (f : α → Res ε β) : (ok a : Res ε α).bind f = f a := rfl
@[simp] theorem bind_err (e : ε) (f : α → Res ε β) : (err e : Res ε α).bind f = err e := rfl
@[simp] theorem bind_panic (f : α → Res ε β) : (panic : Res ε α).bind f = panic := rfl
@[simp] theorem bind_eq (x : Res ε α) (f : α → Res ε β) : x >>= f = x.bind f := rfl
@[simp] theorem pure_eq (a : α) : (pure a : Res ε α) = ok a := rfl

def isOk : Res ε α → Bool
  | ok _ => true
  | _ => false

def isPanic : Res ε α → Bool
  | panic => true
  | _ => false

def isErr : Res ε α → Bool
  | err _ => true
  | _ => false

end Res

/-- A Go `[]byte`: the `len` visible bytes and the bytes lying in the spare capacity behind
them (`cap - len` of them). Indexing checks against `len`; re-slicing checks against `cap`. -/
structure Slice where
  vis : Bytes
  spare : Bytes := []
  deriving Repr, DecidableEq

namespace Slice

@[inline] def len (s : Slice) : Nat := s.vis.length
@[inline] def cap (s : Slice) : Nat := s.vis.length + s.spare.length
@[inline] def all (s : Slice) : Bytes := s.vis ++ s.spare

/-- `s[i]` — panics when `i ≥ len(s)`. -/
def idx {ε} (s : Slice) (i : Nat) : Res ε UInt8 :=
  if h : i < s.vis.length then .ok (s.vis[i]) else .panic

/-- `s[a:b]` — panics unless `a ≤ b ≤ cap(s)`; may expose bytes of the spare capacity. -/
def sub {ε} (s : Slice) (a b : Nat) : Res ε Slice :=
  if a ≤ b ∧ b ≤ s.cap then
    .ok { vis := (s.all.drop a).take (b - a), spare := s.all.drop b }
  else .panic

/-- `s[a:]` — panics unless `a ≤ len(s)`. -/
def from_ {ε} (s : Slice) (a : Nat) : Res ε Slice :=
  if a ≤ s.len then .ok { vis := s.vis.drop a, spare := s.spare } else .panic

/-- `s[:b]` -/
def upto {ε} (s : Slice) (b : Nat) : Res ε Slice := s.sub 0 b

/-- `data[a:b]` copied or aliased into a result: only the bytes matter -/
def bytes {ε} (s : Slice) (a b : Nat) : Res ε Bytes :=
  (s.sub (ε := ε) a b).bind fun t => .ok t.vis

end Slice

/-! ### 16-bit big/little endian, arithmetic formulation -/

@[inline] def hi8 (v : UInt16) : UInt8 := UInt8.ofNat (v.toNat / 256)
@[inline] def lo8 (v : UInt16) : UInt8 := UInt8.ofNat (v.toNat % 256)
/-- `binary.BigEndian.Uint16([a,b])` -/
@[inline] def be16 (a b : UInt8) : UInt16 := UInt16.ofNat (a.toNat * 256 + b.toNat)
/-- `binary.LittleEndian.Uint16([a,b])` -/
@[inline] def le16 (a b : UInt8) : UInt16 := UInt16.ofNat (b.toNat * 256 + a.toNat)
/-- `binary.BigEndian.PutUint16` -/
@[inline] def put16 (v : UInt16) : Bytes := [hi8 v, lo8 v]

/-- `binary.BigEndian.Uint16(s[a:a+2])` on a Go slice: slicing panics beyond `cap`, and the
two bytes may come from the spare capacity. -/
def Slice.rd16 {ε} (s : Slice) (a : Nat) : Res ε UInt16 :=
  (s.sub (ε := ε) a (a + 2)).bind fun t =>
    match t.vis with
    | [x, y] => .ok (be16 x y)
    | _ => .panic

/-- Big-endian value of a byte list (used for 32/64-bit accessors). -/
def beNat : Bytes → Nat
  | [] => 0
  | b :: bs => b.toNat * 256 ^ bs.length + beNat bs

/-- Little-endian value of a byte list. -/
def leNat : Bytes → Nat
  | [] => 0
  | b :: bs => b.toNat + 256 * leNat bs

/-! ### hex -/

def hexDigit (n : Nat) : Char :=
  if n < 10 then Char.ofNat (48 + n) else Char.ofNat (87 + n)

def hexByte (b : UInt8) : String :=
  String.ofList [hexDigit (b.toNat / 16), hexDigit (b.toNat % 16)]

def hex (bs : Bytes) : String :=
  if bs.isEmpty then "-" else String.join (bs.map hexByte)

def unhexDigit (c : Char) : Option Nat :=
  if '0' ≤ c ∧ c ≤ '9' then some (c.toNat - 48)
  else if 'a' ≤ c ∧ c ≤ 'f' then some (c.toNat - 87)
  else if 'A' ≤ c ∧ c ≤ 'F' then some (c.toNat - 55)
  else none

def unhexList : List Char → Option Bytes
  | [] => some []
  | [_] => none
  | a :: b :: rest => do
    let x ← unhexDigit a
    let y ← unhexDigit b
    let r ← unhexList rest
    pure (UInt8.ofNat (x * 16 + y) :: r)

/-- "-" is the empty byte string. -/
def unhex (s : String) : Option Bytes :=
  if s == "-" then some [] else unhexList s.toList

end Modbus
