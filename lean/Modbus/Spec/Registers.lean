import Modbus.Model.Registers
/-
  Specification of typed register access (property C04): the value of an access is determined
  solely by the wire bytes of the addressed registers and the selected byte / word order; an access
  whose registers are not all inside the window [start, start+count) is an error.
  Addresses are natural numbers here: no wrap-around at 65536.
-/
namespace Modbus.Spec
open Modbus.Model

/-- number of registers an accessor reads; `none` when the accessor's own argument is invalid (bit > 15) -/
def need : Acc → Option Nat
  | .bit b => if b.toNat ≤ 15 then some 1 else none
  | .byte _ | .u8 _ | .i8 _ | .u16 | .i16 | .reg => some 1
  | .u32 | .u32o _ | .i32 | .i32o _ | .f32 | .f32o _ | .dreg _ => some 2
  | .u64 | .u64o _ | .i64 | .i64o _ | .f64 | .f64o _ | .qreg _ => some 4
  | .str len | .stro len _ => some ((len.toNat + 1) / 2)

/-- the wire bytes of registers `addr .. addr+k-1` of a response to a read starting at `start` -/
def wire (payload : Bytes) (start addr k : Nat) : Option Bytes :=
  if start ≤ addr ∧ addr + k ≤ start + payload.length / 2 then
    some ((payload.drop (2 * (addr - start))).take (2 * k))
  else none

/-- 2-byte words of a byte string -/
def words : Bytes → List Bytes
  | a :: b :: rest => [a, b] :: words rest
  | _ => []

/-- multi-register integers: registers in transmission order, reversed when the low word comes first;
the resulting byte string read little endian when the LittleEndian flag is set, big endian otherwise -/
def intVal (o : ByteOrder) (b : Bytes) : Nat :=
  let ws := if o &&& 4 ≠ 0 then (words b).reverse else words b
  let bs := ws.flatten
  if o &&& 2 ≠ 0 then leNat bs else beNat bs

def effOrder (dflt o : ByteOrder) : ByteOrder := if o = 0 then dflt else o

def strVal (o : ByteOrder) (len : Nat) (b : Bytes) : Bytes :=
  let ws := words b
  let bs := (if o &&& 1 ≠ 0 then ws.map List.reverse else ws).flatten
  (untilNul (bs.take len)).flatMap utf8Of

/-- decode the wire bytes of the addressed registers -/
def decode (dflt : ByteOrder) : Acc → Bytes → Val
  | .bit b, w => .bool ((beNat w).testBit b.toNat)
  | .byte hi, w | .u8 hi, w => .u 8 (if hi then beNat w / 256 else beNat w % 256)
  | .i8 hi, w => .i 8 (toSigned 8 (if hi then beNat w / 256 else beNat w % 256))
  | .u16, w => .u 16 (if dflt &&& 2 ≠ 0 then leNat w else beNat w)
  | .i16, w => .i 16 (toSigned 16 (if dflt &&& 2 ≠ 0 then leNat w else beNat w))
  | .u32, w => .u 32 (intVal dflt w)
  | .u32o o, w => .u 32 (intVal (effOrder dflt o) w)
  | .i32, w => .i 32 (toSigned 32 (intVal dflt w))
  | .i32o o, w => .i 32 (toSigned 32 (intVal (effOrder dflt o) w))
  | .u64, w => .u 64 (intVal dflt w)
  | .u64o o, w => .u 64 (intVal (effOrder dflt o) w)
  | .i64, w => .i 64 (toSigned 64 (intVal dflt w))
  | .i64o o, w => .i 64 (toSigned 64 (intVal (effOrder dflt o) w))
  | .f32, w => .f32 (intVal dflt w)
  | .f32o o, w => .f32 (intVal (effOrder dflt o) w)
  | .f64, w => .f64 (intVal dflt w)
  | .f64o o, w => .f64 (intVal (effOrder dflt o) w)
  | .str len, w => .str (strVal dflt len.toNat w)
  | .stro len o, w => .str (strVal (effOrder dflt o) len.toNat w)
  | .reg, w => .raw w
  | .dreg o, w | .qreg o, w => .raw ((if o &&& 4 ≠ 0 then (words w).reverse else words w).flatten)

/-- what C04 demands of an access: the decoded wire bytes, or an error (`none`) -/
def access (dflt : ByteOrder) (payload : Bytes) (start : Nat) (a : Acc) (addr : Nat) : Option Val :=
  match need a with
  | none => none
  | some k =>
    match wire payload start addr k with
    | none => none
    | some w => some (decode dflt a w)

end Modbus.Spec
