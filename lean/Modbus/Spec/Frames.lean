import Modbus.Model.Types
import Modbus.Model.Request
import Modbus.Spec.Crc
/-
  Specification of Modbus request ADUs (MODBUS Application Protocol V1.1b3 §6.1-6.6, 6.11,
  6.12, 6.13, 6.17; Messaging on TCP/IP §3.1.3; Serial Line §2.3), written from the documents,
  not from the code. Arguments use the record `Model.NewArgs` (what the caller passes to a
  constructor) and request values use `Model.Req` (a plain record of the request's fields).
-/
namespace Modbus.Spec
open Modbus.Model

/-- big-endian two bytes of a natural number < 65536 -/
def be (n : Nat) : Bytes := [UInt8.ofNat (n / 256), UInt8.ofNat (n % 256)]

/-- per function quantity limits of the specification -/
def legal (a : NewArgs) : Bool :=
  match a.fc with
  | 1 => 1 ≤ a.qty.toNat && a.qty.toNat ≤ 2000
  | 2 => 1 ≤ a.qty.toNat && a.qty.toNat ≤ 2000
  | 3 => 1 ≤ a.qty.toNat && a.qty.toNat ≤ 125
  | 4 => 1 ≤ a.qty.toNat && a.qty.toNat ≤ 125
  | 5 => true
  | 6 => true
  | 15 => 1 ≤ a.coils.length && a.coils.length ≤ 1968
  | 16 => a.dataLen % 2 == 0 && 1 ≤ a.dataLen / 2 && a.dataLen / 2 ≤ 123
  | 17 => true
  | 23 => 1 ≤ a.qty.toNat && a.qty.toNat ≤ 125 &&
          a.dataLen % 2 == 0 && 1 ≤ a.dataLen / 2 && a.dataLen / 2 ≤ 121
  | _ => false

/-- coil `8j+k` is bit `k` of byte `j` (least significant bit first) -/
def packByte (coils : List Bool) (j : Nat) : UInt8 :=
  UInt8.ofNat ((List.range 8).foldl (fun acc k => acc + (if coils.getD (8 * j + k) false then 2 ^ k else 0)) 0)

def pack (coils : List Bool) : Bytes :=
  (List.range ((coils.length + 7) / 8)).map (packByte coils)

/-- the PDU (function code first) the specification prescribes -/
def pdu (a : NewArgs) : Bytes :=
  match a.fc with
  | 5 => [5] ++ be a.addr.toNat ++ (if a.state then [0xFF, 0x00] else [0x00, 0x00])
  | 6 => [6] ++ be a.addr.toNat ++ [a.data.getD 0 0, a.data.getD 1 0]
  | 15 => [15] ++ be a.addr.toNat ++ be a.coils.length ++ [UInt8.ofNat ((a.coils.length + 7) / 8)] ++ pack a.coils
  | 16 => [16] ++ be a.addr.toNat ++ be (a.data.length / 2) ++ [UInt8.ofNat a.data.length] ++ a.data
  | 17 => [17]
  | 23 => [23] ++ be a.addr.toNat ++ be a.qty.toNat ++ be a.waddr.toNat ++ be (a.data.length / 2) ++
            [UInt8.ofNat a.data.length] ++ a.data
  | fc => [fc] ++ be a.addr.toNat ++ be a.qty.toNat

/-- the ADU: MBAP header (transaction id, protocol id 0, number of following bytes, unit id)
or unit address first and CRC (low byte first) last -/
def adu (f : Framing) (tid : UInt16) (a : NewArgs) : Bytes :=
  match f with
  | .tcp => be tid.toNat ++ [0, 0] ++ be ((pdu a).length + 1) ++ [a.unit] ++ pdu a
  | .rtu =>
    let body := [a.unit] ++ pdu a
    let c := (crc body).toNat
    body ++ [UInt8.ofNat (c % 256), UInt8.ofNat (c / 256)]

def maxADU : Framing → Nat
  | .tcp => 260
  | .rtu => 256

/-- the request value the arguments describe -/
def reqOf (a : NewArgs) : Req :=
  match a.fc with
  | 5 => .wcoil a.unit a.addr a.state
  | 6 => .wreg a.unit a.addr (a.data.getD 0 0) (a.data.getD 1 0)
  | 15 => .wcoils a.unit a.addr (UInt16.ofNat a.coils.length) (pack a.coils)
  | 16 => .wregs a.unit a.addr (UInt16.ofNat (a.data.length / 2)) a.data
  | 17 => .sid a.unit
  | 23 => .rw a.unit a.addr a.qty a.waddr (UInt16.ofNat (a.data.length / 2)) a.data
  | fc => .read fc a.unit a.addr a.qty

end Modbus.Spec

namespace Modbus.Spec
open Modbus.Model

/-! ## reading frames back (layout only), for the "refuse illegal" and response clauses -/

def beVal (a b : UInt8) : Nat := a.toNat * 256 + b.toNat

/-- strip the framing of a request/response frame with consistent outer layout:
returns transaction id (0 for RTU), unit id and the PDU (function code first).
TCP: protocol id 0 and length field = number of following bytes; RTU: at least unit, fc and CRC
(the CRC itself is judged separately). -/
def unframe (f : Framing) (d : Bytes) : Option (Nat × UInt8 × Bytes) :=
  match f with
  | .tcp =>
    match d with
    | t0 :: t1 :: p0 :: p1 :: l0 :: l1 :: u :: pdu =>
      if p0 == 0 && p1 == 0 && beVal l0 l1 == pdu.length + 1 && pdu.length ≥ 1 then
        some (beVal t0 t1, u, pdu) else none
    | _ => none
  | .rtu =>
    match d with
    | u :: rest => if rest.length ≥ 3 then some (0, u, rest.take (rest.length - 2)) else none
    | _ => none

/-- a request PDU (function code first) whose layout is that of function `fc` but whose
quantity / count / coil value is outside the specification's limits -/
def pduQuantityIllegal (pdu : Bytes) : Bool :=
  match pdu with
  | [fc, _, _, q0, q1] =>
    let q := beVal q0 q1
    if fc == 1 || fc == 2 then !(1 ≤ q && q ≤ 2000)
    else if fc == 3 || fc == 4 then !(1 ≤ q && q ≤ 125)
    else if fc == 5 then !(q == 0xFF00 || q == 0)
    else false
  | fc :: _ :: _ :: q0 :: q1 :: _ :: _ =>
    let q := beVal q0 q1
    if fc == 15 then !(1 ≤ q && q ≤ 1968)
    else if fc == 16 then !(1 ≤ q && q ≤ 123)
    else if fc == 23 then
      match pdu with
      | _ :: _ :: _ :: _ :: _ :: _ :: _ :: w0 :: w1 :: _ :: _ =>
        !(1 ≤ q && q ≤ 125) || !(1 ≤ beVal w0 w1 && beVal w0 w1 ≤ 121)
      | _ => false
    else false
  | _ => false

/-- the response value a well-formed response PDU (function code first) of function `fc` denotes -/
def respOfPdu (unit : UInt8) (pdu : Bytes) : Option Resp :=
  match pdu with
  | fc :: rest =>
    if fc == 1 || fc == 2 then
      match rest with
      | bc :: data => if bc.toNat == data.length && 1 ≤ data.length then some (.bits fc unit bc data) else none
      | _ => none
    else if fc == 3 || fc == 4 || fc == 23 then
      match rest with
      | bc :: data => if bc.toNat == data.length && 2 ≤ data.length then some (.regs fc unit bc data) else none
      | _ => none
    else if fc == 5 then
      match rest with
      | [a0, a1, v0, v1] =>
        if v0 == 0xFF && v1 == 0 then some (.wcoil unit (be16 a0 a1) true)
        else if v0 == 0 && v1 == 0 then some (.wcoil unit (be16 a0 a1) false)
        else none
      | _ => none
    else if fc == 6 then
      match rest with
      | [a0, a1, v0, v1] => some (.wreg unit (be16 a0 a1) v0 v1)
      | _ => none
    else if fc == 15 || fc == 16 then
      match rest with
      | [a0, a1, c0, c1] => some (.wmulti fc unit (be16 a0 a1) (be16 c0 c1))
      | _ => none
    else if fc == 17 then
      -- the library's layout: count = length of the server id, then status, then additional data
      match rest with
      | n :: more =>
        if 1 ≤ n.toNat && n.toNat + 1 ≤ more.length then
          some (.sid unit (more.getD n.toNat 0) (more.take n.toNat) (some (more.drop (n.toNat + 1))))
        else none
      | _ => none
    else none
  | _ => none

/-- byte-count carrying response functions -/
def hasByteCount (fc : UInt8) : Bool := fc == 1 || fc == 2 || fc == 3 || fc == 4 || fc == 23

end Modbus.Spec
