import Modbus.Basic
/-
  Specification of the Modbus RTU CRC-16 (MODBUS over Serial Line V1.02, §2.5.1.2 and
  Appendix B): a 16-bit linear feedback shift register, initial value 0xFFFF, fed one
  message bit at a time, least significant bit of each byte first; whenever the bit shifted
  out differs from the message bit the reflected polynomial 0xA001 is xor-ed in.
  This is deliberately a different formulation from the code's "xor the byte in, then shift
  eight times".
-/
namespace Modbus.Spec

def crcStep (c : BitVec 16) (m : Bool) : BitVec 16 :=
  if (c.getLsbD 0 != m) then (c >>> 1) ^^^ 0xA001#16 else c >>> 1

/-- the bits of a byte in transmission order (LSB first) -/
def bitsOfByte (b : UInt8) : List Bool :=
  [b.toBitVec.getLsbD 0, b.toBitVec.getLsbD 1, b.toBitVec.getLsbD 2, b.toBitVec.getLsbD 3,
   b.toBitVec.getLsbD 4, b.toBitVec.getLsbD 5, b.toBitVec.getLsbD 6, b.toBitVec.getLsbD 7]

def crcBits (bits : List Bool) : BitVec 16 := bits.foldl crcStep 0xFFFF#16

def crc (data : Bytes) : BitVec 16 := crcBits (data.flatMap bitsOfByte)

end Modbus.Spec
