import Modbus.Driver.Split
import Modbus.Driver.Regs
/-
  `extract` operations: builder → requests → conforming device → parse → ExtractFields.
     extract <target 4..7> <lenient 0|1> <trunc k|-1> <memseed> <fields>
  output: ok <req>;<req>...  sorted;  req = server|unit|start|qty|names|<all|some|failed|parse-err>|name=<val>,name=!err,...
-/
namespace Modbus.Driver
open Modbus Modbus.Model

/-- the device memory image both sides compute: register `addr` of (server, unit) under `seed` -/
def serverKey (s : String) : Nat := (s.toUTF8.toList.foldl (fun a b => a + b.toNat) 0) % 65536

def memReg (seed : Nat) (server : String) (unit : UInt8) (addr : Nat) : Nat :=
  if seed % 4 == 0 then
    -- text-like memory with NULs, for the string fields
    let hi := 65 + (addr * 7 + seed) % 26
    let lo := if (addr + seed) % 9 == 0 then 0 else 65 + (addr * 3 + seed) % 26
    hi * 256 + lo
  else
    ((addr * 40503 + seed * 25173 + 13849) ^^^ (unit.toNat * 7919 + serverKey server * 104729)) % 65536

def memBytes (seed : Nat) (server : String) (unit : UInt8) (start n : Nat) : Bytes :=
  (List.range n).flatMap fun i =>
    let v := memReg seed server unit (start + i)
    [UInt8.ofNat (v / 256), UInt8.ofNat (v % 256)]

/-- the coil / discrete input at `addr` of the device -/
def memCoil (seed : Nat) (server : String) (unit : UInt8) (addr : Nat) : Bool :=
  (memReg seed server unit addr / 4) % 2 == 1

/-- the coil payload of a conforming reply: `n` coils from `start`, packed least significant bit first -/
def memCoilBytes (seed : Nat) (server : String) (unit : UInt8) (start n : Nat) (complete : Bool := true) : Bytes :=
  -- (for odd seeds the device leaves the unused bits of the last byte of a complete reply set: they belong to no coil)
  let pad := if seed % 2 == 1 && complete then List.replicate ((8 - n % 8) % 8) true else []
  Spec.pack (((List.range n).map fun i => memCoil seed server unit (start + i)) ++ pad)

structure ExtractOp where
  target : Nat
  lenient : Bool
  trunc : Option Nat
  seed : Nat
  fields : List Field

def parseExtractOp (ts : List String) : Option ExtractOp :=
  match ts with
  | ["extract", t, l, k, seed, fs] => do
    let trunc := if k == "-1" then none else tokNat k
    pure { target := ← tokNat t, lenient := ← tokBool l, trunc, seed := ← tokNat seed, fields := ← tokFields fs }
  | _ => none

def fvStr (x : Field × PRes Val) : String :=
  match x.2 with
  | .ok v => s!"{x.1.name}={v.str'}"
  | _ => s!"{x.1.name}=!err"

def extractedStr : Extracted → String
  | .all vs => "all|" ++ ",".intercalate (vs.map fvStr)
  | .some_ vs => "some|" ++ ",".intercalate (vs.map fvStr)
  | .failed => "failed|"
  | .panicked => "PANIC|"

def ExtractOp.regCount (op : ExtractOp) (qty : Nat) : Nat :=
  match op.trunc with
  | some k => if k < qty then k else qty
  | none => qty

def ExtractOp.modelOut (op : ExtractOp) : String :=
  match split op.fields op.target with
  | .ok rs =>
    if rs.isEmpty then "ok -" else
    let parts := (sortBy breqLt rs).map fun b =>
      let q := qtyOf b.req
      let n := op.regCount q
      let status :=
        if n == 0 then "parse-err|"
        else if op.target < 4 then
          extractedStr (extractCoilFields b (memCoilBytes op.seed b.server b.unit b.start.toNat n (n == q)) op.lenient)
        else extractedStr (extractRegisterFields b ⟨memBytes op.seed b.server b.unit b.start.toNat n, []⟩ op.lenient)
      s!"{b.server}|{b.unit}|{b.start}|{q}|{",".intercalate (b.fields.map (·.name))}|{status}"
    "ok " ++ ";".intercalate parts
  | .err e => e.str
  | .panic => "PANIC"

/-! ## C05 oracle -/

/-- the value obtained by decoding the device's memory directly at the field's address -/
def directValue (seed : Nat) (f : Field) : Option Val :=
  match f.acc with
  | none => none
  | some a =>
    let k := f.size
    let w := memBytes seed f.server f.unit f.addr.toNat k
    -- a window that holds exactly the field's own registers
    Spec.access 9 w f.addr.toNat a f.addr.toNat

structure OutExt where
  server : String
  unit : Nat
  start : Nat
  qty : Nat
  names : List String
  status : String
  vals : List (String × String)

def parseOutExt (s : String) : Option OutExt :=
  match s.splitOn "|" with
  | [server, unit, start, qty, names, status, vals] => do
    let vs ← (if vals == "" then some [] else (vals.splitOn ",").mapM fun kv =>
      match kv.splitOn "=" with
      | [k, v] => some (k, v)
      | _ => none)
    pure { server, unit := ← tokNat unit, start := ← tokNat start, qty := ← tokNat qty,
           names := if names == "" then [] else names.splitOn ",", status, vals := vs }
  | _ => none

def checkExtract (op : ExtractOp) (rs : List OutExt) : Option String :=
  let kind := op.fields.filter fun f => !f.isCoil
  -- names identify a field among the fields of ITS device: the same name may be used on several devices
  let findIn (r : OutExt) (n : String) : Option Field :=
    (op.fields.find? fun f => f.name == n && f.server == r.server && f.unit.toNat == r.unit).orElse
      fun _ => op.fields.find? (·.name == n)
  let truncated := op.trunc.isSome
  -- every field of the kind belongs to exactly one request (by window + target)
  let owners (f : Field) := rs.filter fun r => r.names.contains f.name && r.server == f.server && r.unit == f.unit.toNat
  let bad := rs.findSome? fun r =>
    let n := op.regCount r.qty
    if r.start + r.qty > 65536 then none else     -- outside the clause (C06 reports such requests)
    if n == 0 then (if r.status == "parse-err" || r.status == "failed" then none else some "an empty reply must be refused") else
    let reachable (f : Field) : Bool := f.addr.toNat + f.size ≤ r.start + n
    let fs := r.vals.filterMap fun (k, _) => findIn r k
    if fs.length != r.vals.length then some "a reported value has no field definition" else
    let mine := kind.filter fun f => r.names.contains f.name && f.server == r.server && f.unit.toNat == r.unit
    let anyUnreach := mine.any fun f => !reachable f
    -- a device that answers as the specification requires delivers the whole window: every field must be inside it
    if !truncated && anyUnreach then some "a field lies outside the window of the request that carries it: a conforming reply cannot deliver it" else
    if r.status == "failed" then
      if !op.lenient && anyUnreach then none
      else some "extraction failed as a whole although every field is reachable (or lenient mode)"
    else if r.status == "all" || r.status == "some" then
      if !op.lenient && anyUnreach then some "strict extraction must fail when a field is unreachable" else
      if r.vals.map (·.1) != r.names then some "a delivering request must report exactly its own fields" else
      if r.status == "all" && anyUnreach then some "unreachable fields must be marked failed" else
      r.vals.findSome? fun (k, v) =>
        match findIn r k with
        | none => some "unknown field"
        | some f =>
          if !(f.server == r.server && f.unit.toNat == r.unit) then some s!"field {k} reported by a request to another device" else
          if !reachable f then (if v == "!err" then none else some s!"unreachable field {k} not marked failed")
          else match directValue op.seed f with
            | some dv => if v == dv.str' then none else some s!"field {k}: expected {dv.str'} (device memory decoded directly), got {v}"
            | none => if v == "!err" then none else some s!"field {k} has no decoding"
    else some s!"unexpected status {r.status}"
  match bad with
  | some w => some w
  | none =>
    -- every field exactly once (among requests that delivered values)
    let delivered := rs.filter fun r => r.status == "all" || r.status == "some"
    let names := delivered.flatMap fun r => r.vals.map fun v => (v.1, r.server, r.unit)
    let _ := truncated
    kind.findSome? fun f =>
      let own := owners f
      if own.length != 1 then some s!"field {f.name} is covered by {own.length} requests" else
      let r := own.headD { server := "", unit := 0, start := 0, qty := 0, names := [], status := "", vals := [] }
      if r.status == "all" || r.status == "some" then
        if (names.filter (· == (f.name, f.server, f.unit.toNat))).length == 1 then none else some s!"field {f.name} not reported exactly once"
      else none

/-- coil fields extracted through the builder (C11): the value is bit (i mod 8) of payload byte (i div 8) as the
device sent it, i.e. the device's coil; a field beyond the payload's last bit is an error -/
def checkCoilExtract (op : ExtractOp) (rs : List OutExt) : Option String :=
  let findIn (r : OutExt) (n : String) : Option Field :=
    (op.fields.find? fun f => f.name == n && f.server == r.server && f.unit.toNat == r.unit).orElse
      fun _ => op.fields.find? (·.name == n)
  rs.findSome? fun r =>
    let find := findIn r
    let n := op.regCount r.qty
    if n == 0 then none else
    let nbits := 8 * ((n + 7) / 8)
    let unreachable := r.names.any fun k => match find k with
      | some f => f.addr.toNat < r.start || f.addr.toNat - r.start ≥ nbits
      | none => true
    if r.status == "parse-err" then some "the conforming reply to the request was refused by the library's own response parser"
    else if r.status == "failed" then
      (if !op.lenient && unreachable then none else some "coil extraction failed as a whole although every field is inside the payload (or lenient mode)")
    else if r.status == "all" || r.status == "some" then
      if r.vals.map (·.1) != r.names then some "a delivering request must report exactly its own fields" else
      r.vals.findSome? fun (k, v) =>
        match find k with
        | none => some "unknown field"
        | some f =>
          let i := f.addr.toNat - r.start
          if f.addr.toNat < r.start || i ≥ nbits then
            (if v == "!err" then none else some s!"coil field {k} beyond the payload must be an error, got {v}")
          else
            let bit := if i < n then memCoil op.seed r.server (UInt8.ofNat r.unit) f.addr.toNat else false
            let want := if bit then "bool:1" else "bool:0"
            if v == want then none else some s!"coil field {k}: the device's coil is {want}, got {v}"
    else none

def judgeC11x (op : ExtractOp) (out : String) : Expect :=
  if out.startsWith "err" then .free else
  if out == "ok -" then .noPanic else
  if !out.startsWith "ok " then .pred false "panic or unreadable output" else
  match ((out.drop 3).toString.splitOn ";").mapM parseOutExt with
  | none => .pred false "unreadable output"
  | some rs =>
    match checkCoilExtract op rs with
    | none => .pred true ""
    | some w => .pred false w

def judgeC05 (op : ExtractOp) (out : String) : Expect :=
  if out.startsWith "err" then .free else
  if out == "ok -" then .pred ((op.fields.filter fun f => !f.isCoil).isEmpty) "fields of the requested kind were dropped" else
  if !out.startsWith "ok " then .pred false "panic or unreadable output" else
  match ((out.drop 3).toString.splitOn ";").mapM parseOutExt with
  | none => .pred false "unreadable output"
  | some rs =>
    match checkExtract op rs with
    | none => .pred true ""
    | some w => .pred false w

def ExtractOp.judge (prop : String) (op : ExtractOp) (out : String) : Expect :=
  if (out.splitOn "PAYLOAD-CHANGED-BY-EXTRACTION").length > 1 then
    .pred false "extracting fields changed the response: it no longer encodes to the frame it was parsed from" else
  -- C13: every field's value is the direct decoding of the device memory, whatever was extracted before it and in
  -- which order (the generator permutes and repeats fields) - the same oracle as C05
  if op.target < 4 then (if prop == "C11" then judgeC11x op out else .noPanic) else
  if prop == "C05" || prop == "C13" then judgeC05 op out else .noPanic

/-- known finding KF-C11-byte-order: the coil lookup indexes payload bytes from the end, so with two or more payload
bytes the value comes from the wrong byte -/
def ExtractOp.kf (prop : String) (op : ExtractOp) (out : String) : Option String :=
  if prop != "C11" || op.target ≥ 4 then none else
  match ((out.drop 3).toString.splitOn ";").mapM parseOutExt with
  | some rs => if rs.any (fun r => op.regCount r.qty > 8) then some "KF-C11-byte-order" else none
  | none => none

end Modbus.Driver
