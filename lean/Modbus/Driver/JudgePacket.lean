import Modbus.Driver.Packet
/-
  Operations of the packet layer, their model output, the known-finding regions and the
  per-property oracle ("what the property demands of this operation's output").
-/
namespace Modbus.Driver
open Modbus Modbus.Model

inductive POp where
  | crc (d : Bytes)
  | newreq (fr : Framing) (tid : UInt16) (a : NewArgs)
  | rt (fr : Framing) (tid : UInt16) (a : NewArgs)
  | parse (entry : String) (d sp : Bytes)
  | iscoil (fc : UInt8) (d : Bytes) (start addr : UInt16)
  | c2b (bits : List Bool)
  | errbytes (fr : Framing) (tid : UInt16) (unit fc code : UInt8)
  | cls (fr : Framing) (tid : UInt16) (a : NewArgs) (k : Nat)
  | hdr (h body : Bytes)
  /-- a constructed TCP request whose exported ProtocolID field was set to `pid` before encoding; the frame and what the
  classifier says about it -/
  | newreqp (pid : UInt16) (tid : UInt16) (a : NewArgs)
  /-- `ErrorParseRTU{Packet: …}.Bytes()` -/
  | errpbytes (unit fc code : UInt8)
  /-- a byte-count response value with arbitrary (possibly inconsistent) fields, encoded by the library -/
  | encresp (fc : UInt8) (fr : Framing) (tid : UInt16) (unit bl : UInt8) (d : Bytes)

def parsePOp (ts : List String) : Option POp :=
  match ts with
  | ["crc", d] => (unhex d).map .crc
  | "newreq" :: rest => (tokNewArgs rest).map fun (fr, tid, a) => .newreq fr tid a
  | "rt" :: rest => (tokNewArgs rest).map fun (fr, tid, a) => .rt fr tid a
  | ["parse", e, d, sp] => do pure (.parse e (← unhex d) (← unhex sp))
  | ["iscoil", fc, d, s, a] => do pure (.iscoil (← tokU8 fc) (← unhex d) (← tokU16 s) (← tokU16 a))
  | ["c2b", b] => (tokBits b).map .c2b
  | ["errbytes", fr, tid, u, fc, c] => do
      pure (.errbytes (← tokFraming fr) (← tokU16 tid) (← tokU8 u) (← tokU8 fc) (← tokU8 c))
  | "cls" :: rest =>
    match rest.reverse with
    | k :: r => do
      let (fr, tid, a) ← tokNewArgs r.reverse
      pure (.cls fr tid a (← tokNat k))
    | _ => none
  | ["hdr", h, b] => do pure (.hdr (← unhex h) (← unhex b))
  | "newreqp" :: pid :: rest => do
      let (_, tid, a) ← tokNewArgs rest
      pure (.newreqp (← tokU16 pid) tid a)
  | ["errpbytes", u, fc, c] => do pure (.errpbytes (← tokU8 u) (← tokU8 fc) (← tokU8 c))
  | ["encresp", fc, fr, tid, u, bl, d] => do
      pure (.encresp (← tokU8 fc) (← tokFraming fr) (← tokU16 tid) (← tokU8 u) (← tokU8 bl) (← unhex d))
  | _ => none

/-- the poisoned-spare twin of a parse operation is printed after " || " -/
def twoSpares (entry : String) (d sp : Bytes) : String :=
  let a := (parseEntry entry { vis := d, spare := [] }).getD "?"
  let b := (parseEntry entry { vis := d, spare := sp }).getD "?"
  a ++ " || " ++ b

def hdrOut (h body : Bytes) : String :=
  let l := looksLike { vis := h, spare := [] } false
  match l with
  | .ok (n, none) =>
    let data := h ++ body.take (n - h.length)
    let p := parseTCPRequest { vis := data, spare := [] }
    let eb := match p with
      | .err e => match e.bytes with
        | some b => " eb=" ++ hex b
        | none => " eb=none"
      | _ => ""
    looksStr l ++ " | " ++ resStr tcpReqStr p ++ eb
  | _ => looksStr l

def POp.modelOut : POp → String
  | .crc d => toString (crc16 d).toNat
  | .newreq fr tid a => newreqOut fr tid a
  | .rt fr tid a => rtOut fr tid a
  | .parse e d sp => twoSpares e d sp
  | .iscoil _ d s a => iscoilOut d s a
  | .c2b bits => hex (coilsToBytes bits)
  | .errbytes .tcp tid u fc c => hex (excBytesTCP tid u fc c)
  | .errbytes .rtu _ u fc c => hex (excBytesRTU u fc c)
  | .cls fr tid a k =>
    match newReq a with
    | .ok r => looksStr (looksLike { vis := (r.bytes fr tid).take k, spare := [] } false)
    | .err e => e.str
    | .panic => "PANIC"
  | .hdr h body => hdrOut h body
  | .newreqp _ tid a =>
    -- the library writes protocol id 0 whatever the field holds
    match newReq a with
    | .ok r => s!"ok bytes={hex (r.bytes .tcp tid)} cls={looksStr (looksLike { vis := r.bytes .tcp tid, spare := [] } false)}"
    | .err e => e.str
    | .panic => "PANIC"
  | .errpbytes u fc c => hex (excBytesRTU u fc c)
  | .encresp fc fr tid u bl d =>
    let r := if fc == 1 || fc == 2 then Resp.bits fc u bl d else Resp.regs fc u bl d
    hex (r.bytes fr tid)

/-! ## known-finding regions (exact predicates; each is backed by a `_partial` theorem) -/

def kfC01 (a : NewArgs) : Option String :=
  if a.fc == 16 && a.dataLen % 2 == 0 && a.dataLen / 2 == 124 then some "KF-C01-fc16-124"
  else if a.fc == 23 && 1 ≤ a.qty.toNat && a.qty.toNat ≤ 124 && a.dataLen % 2 == 0 &&
      122 ≤ a.dataLen / 2 && a.dataLen / 2 ≤ 124 then some "KF-C01-fc23-w122-124"
  else none

def kfC09 (a : NewArgs) : Option String :=
  if a.fc == 1 && 126 ≤ a.qty.toNat && a.qty.toNat ≤ 2000 then some "KF-C09-fc1-126-2000"
  else if a.fc == 2 && 126 ≤ a.qty.toNat && a.qty.toNat ≤ 2000 then some "KF-C09-fc2-126-2000"
  else none

/-- Modbus coil layout: coil `i` is bit `i%8` of byte `i/8` -/
def specCoilAt (d : Bytes) (i : Nat) : Bool := (d.getD (i / 8) 0).toNat.testBit (i % 8)

def kfC11 (d : Bytes) (start addr : UInt16) : Option String :=
  if start ≤ addr && (addr - start).toNat < 8 * d.length then
    let i := (addr - start).toNat
    if specCoilAt d i != (d.getD (d.length - 1 - i / 8) 0).toNat.testBit (i % 8) then
      some "KF-C11-byte-order" else none
  else none

def kfC18 (a : NewArgs) (fr : Framing) (k : Nat) : Option String :=
  if a.fc == 17 && fr == .tcp && k ≥ 8 then some "KF-C18-fc17" else none

def POp.kf (prop : String) : POp → Option String
  | .newreq _ _ a => if prop == "C01" then kfC01 a else none
  | .rt _ _ a => if prop == "C09" then kfC09 a else none
  | .iscoil _ d s a => if prop == "C11" then kfC11 d s a else none
  | .cls fr _ a k => if prop == "C18" then kfC18 a fr k else none
  | _ => none

/-! ## oracles -/

def splitTwo (out : String) : String × String :=
  match out.splitOn " || " with
  | [a, b] => (a, b)
  | _ => (out, out)

def specCrcNat (d : Bytes) : Nat := (Spec.crc d).toNat

def endsWithSpecCrc (frame : Bytes) : Bool :=
  frame.length ≥ 2 &&
  let body := frame.take (frame.length - 2)
  let c := specCrcNat body
  frame.drop (frame.length - 2) == [UInt8.ofNat (c % 256), UInt8.ofNat (c / 256)]

/-- value of `key=` in a canonical output -/
def fieldOf (out key : String) : Option String :=
  (out.splitOn " ").findSome? fun t =>
    if t.startsWith (key ++ "=") then some (t.drop (key.length + 1)).toString else none

def framingOfEntry (e : String) : Option Framing :=
  if e == "reqT" || e == "respT" || e.startsWith "reqT." || e.startsWith "respT." || e == "mbap"
     || e == "looks" || e == "looksU" || e == "aserrT" then some .tcp
  else if e == "reqR" || e == "reqRC" || e == "respR" || e == "respRC" || e.startsWith "reqR."
     || e.startsWith "respR." || e == "aserrR" || e == "aserrRC" then some .rtu
  else none

def isReqEntry (e : String) : Bool := e.startsWith "req"
def isRespEntry (e : String) : Bool := e.startsWith "resp"

def judgeC03 (op : POp) (out : String) : Expect :=
  match op with
  | .crc d => .exact (toString (specCrcNat d))
  | .newreq .rtu _ _ =>
    if out.startsWith "ENCODING-NOT-STABLE" || out.startsWith "FRAME-REWRITTEN" then
      .pred false "a later encoding of the same request (after a relative was encoded, or after the caller wrote into the frame it was handed) is another frame: it does not end with the CRC of the request's bytes"
    else
    if out.startsWith "ok " then
      match (fieldOf out "bytes").bind unhex with
      | some b => .pred (endsWithSpecCrc b) "RTU frame must end with the CRC of the preceding bytes, low byte first"
      | none => .pred false "unreadable output"
    else .free
  | .errbytes .rtu _ _ _ _ =>
    match unhex out with
    | some b => .pred (endsWithSpecCrc b) "RTU exception frame must end with its CRC"
    | none => .pred false "unreadable output"
  | .errpbytes _ _ _ =>
    match unhex out with
    | some b => .pred (endsWithSpecCrc b) "RTU exception frame must end with its CRC"
    | none => .pred false "unreadable output"
  | .encresp _ .rtu _ _ _ _ =>
    -- whatever the fields of the response value: the frame the library emits ends with the CRC of what precedes it
    match unhex out with
    | some b => .pred (b.length ≥ 2 && endsWithSpecCrc b) "every RTU frame the library emits must end with the CRC of the preceding bytes"
    | none => .noPanic
  | .parse "aserrRC" d _ =>
    -- the recogniser the RTU clients use: an exception if and only if these are five bytes, the function byte has the
    -- error bit and the last two bytes are the CRC of the first three (low byte first)
    let exp := if d.length == 5 && endsWithSpecCrc d && (d.getD 1 0).toNat ≥ 128
      then (PErr.excR (d.getD 0 0) (d.getD 1 0 - 128) (d.getD 2 0)).str else "nil"
    .exact (exp ++ " || " ++ exp)
  | .parse e d _ =>
    if (e == "reqRC" || e == "respRC") && d.length ≥ 4 then
      let (a, b) := splitTwo out
      if endsWithSpecCrc d then
        .pred (a != "err badCRC" && b != "err badCRC" && a == b) "frame with a correct CRC must not be refused as bad CRC"
      else .pred (a == "err badCRC" && b == "err badCRC") "frame with a wrong CRC must be refused with ErrInvalidCRC"
    else if e == "reqRC" || e == "respRC" then
      -- too short to carry a trailer: refused (an error, not a panic, not a value)
      let (a, b) := splitTwo out
      .pred (a.startsWith "err" && b.startsWith "err") "an input too short to carry a checksum is refused with an error"
    else if isRespEntry e && framingOfEntry e == some .rtu then
      -- every parsed RTU response re-encodes to a frame that ends with its CRC
      let (a, _) := splitTwo out
      if a.startsWith "ok " then
        match (fieldOf a "re").bind unhex with
        | some b => .pred (endsWithSpecCrc b) "re-encoded RTU response must end with its CRC"
        | none => .pred false "unreadable output"
      else .free
    else .free
  | _ => .free

def judgeC01 (op : POp) (out : String) : Expect :=
  match op with
  | .newreq fr tid a =>
    if out.startsWith "FRAME-REWRITTEN" then .pred false "the frame of a request was rewritten when another request was encoded afterwards"
    else if out.startsWith "ENCODING-NOT-STABLE" then .pred false "encoding the same request twice gave two different frames"
    else if out.startsWith "ok " then
      let adu := Spec.adu fr tid a
      .pred (Spec.legal a && (out.startsWith ("ok bytes=" ++ hex adu ++ " ")) && adu.length ≤ Spec.maxADU fr)
        s!"a constructed request must be legal, at most {Spec.maxADU fr} bytes and serialize to {hex adu}"
    else if out.startsWith "err" then .free
    else .pred false "constructor must not panic"
  | .newreqp _ tid a =>
    -- an exported header field the encoder must not let through: the protocol identifier on the wire is 0
    if out.startsWith "ok " then
      let adu := Spec.adu .tcp tid a
      .pred (out.startsWith ("ok bytes=" ++ hex adu ++ " ")) s!"a constructed request must serialize to {hex adu} (protocol id 0)"
    else if out.startsWith "err" then .free
    else .pred false "constructor must not panic"
  | .c2b bits => .exact (hex (Spec.pack bits))
  | _ => .free

def judgeC10 (op : POp) (out : String) : Expect :=
  match op with
  | .parse _ _ _ =>
    let (a, b) := splitTwo out
    if (out.splitOn "NIL-VALUE-NIL-ERROR").length > 1 then .pred false "neither a decoded value nor an error was returned" else
    if (out.splitOn "SENTINEL-MUTATED").length > 1 then
      .pred false "the call wrote into an exported sentinel error: later results depend on this input, not only on their own bytes" else
    .pred (!isPanicStr a && !isPanicStr b && a == b && (out.splitOn "VALUE-NONNIL").length == 1)
      "no panic, result independent of spare capacity, nil value on error"
  | _ => .noPanic

def expectedRt (fr : Framing) (tid : UInt16) (a : NewArgs) : String :=
  let adu := Spec.adu fr tid a
  let r := Spec.reqOf a
  let one := match fr with
    | .tcp => s!"ok tid={tid} {r.str} re={hex adu}"
    | .rtu => s!"ok {r.str} re={hex adu}"
  let parts := (rtEntries fr a.fc).map fun (e, strip) =>
    (if strip then e ++ "-nocrc" else e) ++ "=" ++ one
  s!"ok bytes={hex adu} | " ++ " | ".intercalate parts

def judgeC09 (op : POp) (out : String) : Expect :=
  match op with
  | .rt fr tid a =>
    if out.startsWith "ENCODING-NOT-STABLE" then
      .pred false "encoding the request a second time gave another frame: what the first encoding left of the request is not what was constructed" else
    if Spec.legal a then
      if out.startsWith "err" then .free  -- the library declined to construct it: nothing to round-trip
      else .exact (expectedRt fr tid a)
    else .noPanic
  | .parse e d _ =>
    if isReqEntry e then
      match (framingOfEntry e).bind fun f => (Spec.unframe f d).map fun x => (f, x) with
      | some (_, (_, _, pdu)) =>
        let fcOk := match fcOfEntry e with
          | some fc => pdu.head? == some fc
          | none => true
        if fcOk && Spec.pduQuantityIllegal pdu then
          let (a, b) := splitTwo out
          .pred (a.startsWith "err" && b.startsWith "err") "a frame with an out-of-range quantity / count / coil value must be refused"
        else .noPanic
      | none => .noPanic
    else .free
  | _ => .free

def judgeC02 (op : POp) (out : String) : Expect :=
  match op with
  | .parse e d _ =>
    -- the exception recognisers: the error they hand out is the typed exception as documented (a pointer): `errors.As`
    -- with that type finds it
    if (e == "aserrT" || e == "aserrR" || e == "aserrRC") && (out.splitOn "TYPED-NIL").length > 1 then
      .pred false "the recogniser answered a frame that is no exception with a non-nil error holding a nil pointer (err != nil is true, Error() panics)" else
    if (e == "aserrT" || e == "aserrR" || e == "aserrRC") && (out.splitOn "BYVALUE").length > 1 then
      .pred false "an exception frame was reported by a value, not by the documented pointer type: errors.As / a type assertion with *ErrorResponse{TCP,RTU} does not recognise it" else
    if !isRespEntry e then .free else
    match framingOfEntry e with
    | none => .free
    | some f =>
      let (a, b) := splitTwo out
      let isDisp := e == "respT" || e == "respR" || e == "respRC"
      -- exception frames
      let excLen := if f == .tcp then 9 else 5
      let fcIdx := if f == .tcp then 7 else 1
      let fcb := d.getD fcIdx 0
      if d.length == excLen && fcb.toNat ≥ 128 &&
         (f == .rtu || (d.getD 2 1 == 0 && d.getD 3 1 == 0 && d.getD 4 1 == 0 && d.getD 5 0 == 3)) then
        if isDisp then
          if e == "respRC" && !endsWithSpecCrc d then .pred (a.startsWith "err" && a == b) "error expected"
          else
            let exp := match f with
              | .tcp => (PErr.excT (be16 (d.getD 0 0) (d.getD 1 0)) (d.getD 6 0) (fcb - 128) (d.getD 8 0)).str
              | .rtu => (PErr.excR (d.getD 0 0) (fcb - 128) (d.getD 2 0)).str
            .pred (a == exp && b == exp) s!"an exception frame must be reported as {exp}"
        else .pred (a.startsWith "err" && b.startsWith "err") "an exception frame is never a response"
      else
      if isDisp && fcb.toNat ≥ 128 && d.length > fcIdx + 1 then
        -- the error bit is set: whatever follows, this is not a response (it is an exception or an error)
        .pred (a.startsWith "err" && b.startsWith "err") "a frame whose function byte has the error bit set is never returned as a response"
      else
      match Spec.unframe f d with
      | none =>
        -- a TCP frame that is longer than its own fields say (bytes behind the announced end): the payload handed in is
        -- longer than the byte count field, so it is rejected like every other length disagreement
        let fcb := d.getD 7 0
        let fcOk := match fcOfEntry e with
          | some efc => fcb == efc
          | none => true
        if f == .tcp && d.length ≥ 10 && d.getD 2 1 == 0 && d.getD 3 1 == 0 && fcOk && Spec.hasByteCount fcb &&
           (d.getD 4 0).toNat * 256 + (d.getD 5 0).toNat + 6 < d.length &&
           (d.getD 8 0).toNat + 9 < d.length then
          .pred (a.startsWith "err" && b.startsWith "err") "a frame that is longer than its byte count field says must be rejected"
        else .noPanic
      | some (tid, unit, pdu) =>
        let fc := pdu.headD 0
        let fcOk := match fcOfEntry e with
          | some efc => fc == efc
          | none => true
        if !fcOk then .noPanic else
        if e == "respRC" && !endsWithSpecCrc d then .pred (a.startsWith "err" && a == b) "error expected" else
        match Spec.respOfPdu unit pdu with
        | some r =>
          let exp := match f with
            | .tcp => s!"ok tid={tid} {r.str} re={hex d}"
            | .rtu =>
              let body := d.take (d.length - 2)
              let c := specCrcNat body
              s!"ok {r.str} re={hex (body ++ [UInt8.ofNat (c % 256), UInt8.ofNat (c / 256)])}"
          .pred (a == exp && b == exp) s!"a well-formed response must decode and re-encode exactly: {exp}"
        | none =>
          if Spec.hasByteCount fc then
            -- length disagrees with the byte count field (or count zero): must be rejected
            .pred (a.startsWith "err" && b.startsWith "err") "a frame whose length disagrees with its byte count must be rejected"
          else .noPanic
  | _ => .free

/-- a valid 9-byte exception reply for header `h` -/
def validExceptionFor (h eb : Bytes) : Bool :=
  eb.length == 9 && eb.take 2 == h.take 2 && (eb.drop 2).take 4 == [0, 0, 0, 3] &&
  eb.getD 6 0 == h.getD 6 0 && eb.getD 7 0 == (h.getD 7 0) + 128 &&
  1 ≤ (eb.getD 8 0).toNat && (eb.getD 8 0).toNat ≤ 4

def judgeC18 (op : POp) (out : String) : Expect :=
  match op with
  | .newreqp _ tid a =>
    if !out.startsWith "ok " then .free else
    if a.fc == 17 then .noPanic else      -- KF-C18-fc17 (judged on the cls operations)
    let adu := Spec.adu .tcp tid a
    .pred (out.endsWith s!" cls=n={adu.length} nil") "every frame the library encodes must be classified with its own length"
  | .cls fr tid a k =>
    if out.startsWith "err plain" then .free else
    if fr != .tcp then .free else
    let adu := Spec.adu fr tid a
    if k < 8 then .exact "n=0 err tooShortT" else .exact s!"n={adu.length} nil"
  | .hdr h body =>
    if h.length != 8 then .free else
    -- the parsing clause is about frames of which all announced bytes are available; the expected length and the
    -- unsupported-function clause speak about the header alone
    let complete := beVal h 4 + 6 ≤ 8 + body.length
    match out.splitOn " | " with
    | [l] =>
      -- classifier did not accept: if it named an unsupported function it must carry the matching exception
      let fc := h.getD 7 0
      if l.startsWith "n=" && (l.splitOn " err tcp ").length == 2 then
        let exp := s!"n={beVal h 4 + 6} {(PErr.tcp 1 (be16 (h.getD 0 0) (h.getD 1 0)) (h.getD 6 0) fc).str}"
        .pred (l == exp && !supportedFunctionCodes.contains fc) s!"unsupported function must be classified as {exp}"
      else .noPanic
    | [l, p] =>
      let n := beVal h 4 + 6
      if l != s!"n={n} nil" then .pred false s!"accepted header must report expected length {n}" else
      if !complete then .noPanic else
      if p.startsWith "ok " then .pred true "" else
      match (fieldOf p "eb").bind unhex with
      | some eb => .pred (validExceptionFor h eb) "a rejected accepted-frame must encode to a valid exception reply for its header"
      | none => .pred false "a rejected accepted-frame must encode to a valid exception reply for its header"
    | _ => .pred false "unreadable output"
  | _ => .free
where
  beVal (h : Bytes) (i : Nat) : Nat := (h.getD i 0).toNat * 256 + (h.getD (i + 1) 0).toNat

def judgeC11 (op : POp) (out : String) : Expect :=
  match op with
  | .iscoil _ d s a =>
    if a < s then .anyErr
    else if (a - s).toNat ≥ 8 * d.length then .anyErr
    else .exact (if specCoilAt d (a - s).toNat then "ok 1" else "ok 0")
  | .c2b bits => .exact (hex (Spec.pack bits))
  | _ => .free

def POp.judge (prop : String) (op : POp) (out : String) : Expect :=
  if prop == "C01" then judgeC01 op out
  else if prop == "C02" then judgeC02 op out
  else if prop == "C03" then judgeC03 op out
  else if prop == "C09" then judgeC09 op out
  else if prop == "C10" then judgeC10 op out
  else if prop == "C11" then
    -- "how the library itself packs coils for write requests": the FC15 frame on the wire (C01's oracle)
    match op with
    | .newreq _ _ a =>
      -- every coil pattern of 1..1968 coils can be written
      if a.fc == 15 && 1 ≤ a.coils.length && a.coils.length ≤ 1968 && out.startsWith "err" then
        .pred false "a coil pattern of 1..1968 coils must be accepted by the write-multiple-coils constructors"
      else judgeC01 op out
    | _ => judgeC11 op out
  else if prop == "C18" then judgeC18 op out
  else .free

end Modbus.Driver
