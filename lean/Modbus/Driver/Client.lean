import Modbus.Driver.JudgePacket
import Modbus.Model.ClientLoop
import Modbus.Spec.Frames
/-
  `do` operations: one request call of a client against a scripted transport.
     do <t|r|s> <hooks 0|1> <flusher n|o|f> <request> <reply> <script>
       request = fc,tid,unit,addr,qty,state,waddr,data,coils  |  nil  |  nc:<request>
       reply   = the reply the script was derived from (hex, "-" if none): used by the oracles only
       script  = ';'-joined read events: d:<hex>  t  e:<hex|->  x:<hex|->  c ; first may be w (write fails); "-" = empty
  output:  <outcome> | <hook log> | <outcome without hooks> | <reads served by the transport>
-/
namespace Modbus.Driver
open Modbus Modbus.Model

def tokEv (s : String) : Option Ev :=
  if s == "t" then some .timeout
  else if s == "c" || s == "cd" then some .cancel      -- cd: the caller's context ends by its deadline
  else if s.startsWith "td:" then (unhex (s.drop 3).toString).map .tdata   -- data together with a deadline error
  else if s.startsWith "d:" then (unhex (s.drop 2).toString).map .data
  -- sd: bytes delivered by a read that returns after the call's total read timeout has passed (time is not modelled)
  else if s.startsWith "sd:" then (unhex (s.drop 3).toString).map .data
  else if s.startsWith "e:" then (unhex (s.drop 2).toString).map .eof
  else if s.startsWith "x:" then (unhex (s.drop 2).toString).map .ioerr
  else none

structure DoOp where
  kind : ClientKind
  hooks : Bool
  flusher : Flusher
  nilReq : Bool
  notConnected : Bool
  tid : UInt16
  args : Option NewArgs
  reply : Bytes
  writeFails : Bool
  /-- the caller's context is cancelled before the call -/
  preCancel : Bool := false
  /-- the script contains paced reads (`p:`: the bytes arrive a third of the read timeout after the read was started):
  how many of them a client gets to see before its total read timeout depends on the machine, so only the outcome is
  compared (the harness adds a marker when reads were started after the total read timeout had passed) -/
  paced : Bool := false
  script : List Ev

def tokReq (s : String) : Option (UInt16 × NewArgs) :=
  match s.splitOn "," with
  | [fc, tid, unit, addr, qty, state, waddr, data, coils] =>
    (tokNewArgs [fc, "t", tid, unit, addr, qty, state, waddr, data, coils]).map fun (_, tid, a) => (tid, a)
  | _ => none

def parseDoOp (ts : List String) : Option DoOp :=
  match ts with
  | ["do", k, hooks, fl, req, reply, script] => do
    let kind ← if k == "t" then some ClientKind.tcp else if k == "r" then some .rtuNet else if k == "s" then some .serial else none
    let flusher ← if fl == "n" then some Flusher.none else if fl == "o" then some .ok else if fl == "f" then some .failing else none
    let evs := if script == "-" then [] else script.splitOn ";"
    let writeFails := evs.head? == some "w"
    let evs := if writeFails then evs.drop 1 else evs
    let preCancel := evs.head? == some "pc" || evs.head? == some "pcd"
    let evs := if preCancel then evs.drop 1 else evs
    let paced := evs.any (·.startsWith "p:")
    let script ← (evs.map fun e => if e.startsWith "p:" then "d:" ++ (e.drop 2).toString else e).mapM tokEv
    -- nc: never connected; ncf: Connect was tried and failed (the dial function returned a connection AND an error)
    let nc := req.startsWith "nc:" || req.startsWith "ncf:"
    let reqS := if req.startsWith "ncf:" then (req.drop 4).toString else if nc then (req.drop 3).toString else req
    let (tid, args) ← if reqS == "nil" then some ((0 : UInt16), none) else (tokReq reqS).map fun (t, a) => (t, some a)
    pure { kind, hooks := ← tokBool hooks, flusher, nilReq := reqS == "nil", notConnected := nc, tid, args,
           reply := ← unhex reply, writeFails, preCancel, paced, script }
  | _ => none

def cerrStr : CErr → String
  | .timeout => "err client:timeout"
  | .io => "err client:io"
  | .write => "err client:write"
  | .flush => "err client:flush"
  | .noBytes => "err client:nobytes"
  | .exc e => "err client:" ++ e.str
  | .tooLong => "err toolong"
  | .ctx => "err ctx"
  | .notConnected => "err notconnected"
  | .nilReq => "err nilreq"
  | .parse e => "err parse:" ++ e.str

def doOutStr : DoOut → String
  | .ok r (some tid) => s!"ok tid={tid} {r.str}"
  | .ok r none => s!"ok {r.str}"
  | .err e => cerrStr e
  | .panic => "PANIC"

def hookEvStr : HookEv → String
  | .beforeWrite b => "bw:" ++ hex b
  | .afterRead c n e => s!"r:{hex c}:{n}:{e}"
  | .stall => "stall"
  | .beforeParse b => "bp:" ++ hex b

def logStr (l : List HookEv) : String := if l.isEmpty then "-" else ",".intercalate (l.map hookEvStr)

/-- the request value, its bytes and expected response length -/
def DoOp.request (op : DoOp) : Option (Req × Bytes × Nat) :=
  match op.args with
  | none => none
  | some a =>
    match newReq a with
    | .ok r => some (r, r.bytes op.kind.framing op.tid, r.expLen op.kind.framing)
    | _ => none

def DoOp.modelOut (op : DoOp) : String :=
  if op.nilReq || op.notConnected then
    -- refused before the exchange: the model's `doCall` decides which of the two errors (nil request first)
    let rq := if op.nilReq then none else (op.request.map fun x => x.2).orElse fun _ => some ([], 0)
    let (o1, l1) := doCall op.kind op.flusher true (!op.notConnected) rq op.writeFails op.script
    let (o2, l2) := doCall op.kind op.flusher false (!op.notConnected) rq op.writeFails op.script
    s!"{doOutStr o1} | {logStr l1} | {doOutStr o2} | {logStr l2}" else
  match op.request with
  | none => "NOREQ"
  | some (_, bytes, expected) =>
    let (o1, l1) := if op.preCancel then doExchangeCancelled op.kind op.flusher true bytes op.writeFails
      else doExchange op.kind op.flusher true bytes expected op.writeFails op.script
    let (o2, _) := if op.preCancel then doExchangeCancelled op.kind op.flusher false bytes op.writeFails
      else doExchange op.kind op.flusher false bytes expected op.writeFails op.script
    let served := l1.filter fun e => match e with
      | .afterRead .. => true
      | .stall => true
      | _ => false
    let conn := "w:" ++ hex bytes ++ (if served.isEmpty then "" else "," ++ ",".intercalate (served.map hookEvStr))
    let shown := if op.hooks then logStr l1 else "-"
    if op.paced then s!"{doOutStr o1} | - | {doOutStr o2} | -" else
    s!"{doOutStr o1} | {shown} | {doOutStr o2} | {conn}"

/-! ## oracles -/

/-- is `reply` a well-formed reply to request `r` (specification view)? returns the expected response value -/
def wellFormedReply (fr : Framing) (tid : UInt16) (r : Req) (reply : Bytes) : Option Resp :=
  match Spec.unframe fr reply with
  | none => none
  | some (t, unit, pdu) =>
    if fr == .tcp && t != tid.toNat then none else
    if fr == .rtu && !endsWithSpecCrc reply then none else
    if unit != r.unit then none else
    if pdu.head? != some r.fc then none else
    match Spec.respOfPdu unit pdu, r with
    | some (.bits fc u bl d), .read _ _ _ q => if d.length == (q.toNat + 7) / 8 then some (.bits fc u bl d) else none
    | some (.regs fc u bl d), .read _ _ _ q => if d.length == 2 * q.toNat then some (.regs fc u bl d) else none
    | some (.regs fc u bl d), .rw _ _ rq _ _ _ => if d.length == 2 * rq.toNat then some (.regs fc u bl d) else none
    | some (.wcoil u a s), .wcoil _ a' s' => if a == a' && s == s' then some (.wcoil u a s) else none
    | some (.wreg u a d0 d1), .wreg _ a' e0 e1 => if a == a' && d0 == e0 && d1 == e1 then some (.wreg u a d0 d1) else none
    | some (.wmulti fc u a c), .wcoils _ a' c' _ => if a == a' && c == c' then some (.wmulti fc u a c) else none
    | some (.wmulti fc u a c), .wregs _ a' c' _ => if a == a' && c == c' then some (.wmulti fc u a c) else none
    | some (.sid u st id add), .sid _ => some (.sid u st id add)
    | _, _ => none

/-- an exception reply to request `r` -/
def exceptionReply (fr : Framing) (tid : UInt16) (r : Req) (reply : Bytes) : Option PErr :=
  match fr with
  | .tcp =>
    if reply.length == 9 && reply.take 6 == Spec.be tid.toNat ++ [0, 0, 0, 3] && reply.getD 6 0 == r.unit &&
       reply.getD 7 0 == r.fc + 128 then some (.excT tid r.unit r.fc (reply.getD 8 0)) else none
  | .rtu =>
    if reply.length == 5 && reply.getD 0 0 == r.unit && reply.getD 1 0 == r.fc + 128 && endsWithSpecCrc reply then
      some (.excR r.unit r.fc (reply.getD 2 0)) else none

def dataOf (script : List Ev) : Bytes :=
  script.flatMap fun e => match e with
    | .data b => b
    | .tdata b => b
    | _ => []

/-- a fragmentation of a reply: data reads, empty timed-out reads, data that arrives together with a deadline error,
and possibly a last read that returns the rest together with EOF (the peer closes right after replying) -/
def onlyDataAndTimeouts (script : List Ev) (serial : Bool := false) : Bool :=
  let body := match script.getLast? with
    | some (.eof _) => script.dropLast
    | _ => script
  body.all fun e => match e with
    | .data _ => true
    | .tdata _ => true
    | .timeout => true
    -- a serial port that reports its own read timeout as (0, io.EOF): an empty timed-out read
    | .eof b => serial && b.isEmpty
    | _ => false

def fragData (script : List Ev) : Bytes :=
  dataOf script ++ (match script.getLast? with | some (.eof b) => b | _ => [])

def outcomeOf (out : String) : String := (out.splitOn " | ").headD ""

def fcTag (r : Req) (k : ClientKind) : String :=
  s!"fc{r.fc}-{if k.framing == .tcp then "tcp" else "rtu"}"

/-- C07: a complete well-formed (or exception) reply, cut into reads in any way, with timeouts in between -/
def judgeC07 (op : DoOp) (out : String) : Expect :=
  match op.request with
  | none => .free
  | some (r, _, _) =>
    if op.nilReq || op.notConnected || op.writeFails then .free else
    if (out.splitOn "CALL-AFTER-A-FAILED-ONE-DIFFERS-FROM-THE-FIRST-CALL-OF-A-NEW-CLIENT").length > 1 then
      .pred false "after an exchange that failed (or that was completed by a late read) the same client was handed a complete, correct reply to its next request and did not return what a new client returns for it" else
    if !onlyDataAndTimeouts op.script (op.kind == .serial) || fragData op.script != op.reply then .noPanic else
    if op.kind == .serial && op.flusher == .failing then .noPanic else
    let fr := op.kind.framing
    match wellFormedReply fr op.tid r op.reply with
    | some resp =>
      let exp := if fr == .tcp then s!"ok tid={op.tid} {resp.str}" else s!"ok {resp.str}"
      .pred (outcomeOf out == exp) s!"the complete reply must be returned however it is fragmented: {exp}"
    | none =>
      match exceptionReply fr op.tid r op.reply with
      | some e => .pred (outcomeOf out == "err client:" ++ e.str) s!"an exception reply must surface as the typed exception {e.str}"
      | none => .noPanic

def kfC07 (op : DoOp) : Option String :=
  match op.request with
  | none => none
  | some (r, _, expected) =>
    if !onlyDataAndTimeouts op.script (op.kind == .serial) || fragData op.script != op.reply then none else
    let fr := op.kind.framing
    if (wellFormedReply fr op.tid r op.reply).isSome && expected != op.reply.length then some ("KF-C07-" ++ fcTag r op.kind)
    else if (exceptionReply fr op.tid r op.reply).isSome && expected < op.reply.length then some ("KF-C07-" ++ fcTag r op.kind ++ "-exception")
    else none

/-- C08: transport faults after the request was written -/
def judgeC08 (op : DoOp) (out : String) : Expect :=
  let o := outcomeOf out
  if op.nilReq then .pred (o == "err nilreq") "a nil request must fail immediately" else
  if op.notConnected then .pred (o == "err notconnected") "an unconnected client must fail immediately" else
  match op.request with
  | none => .free
  | some (_, _, expected) =>
    if op.writeFails then
      .pred (o == "err client:write" || (o == "err client:flush" && op.kind == .serial && op.flusher == .failing))
        "a rejected write must be reported as the client error wrapping the cause (errors.Is finds the port's error)" else
    if op.preCancel then .pred (o == "err ctx") "a call made with a cancelled context must return the context's error, never success" else
    let got := dataOf op.script
    -- the complete reply is available at some read boundary: the call may legitimately succeed there
    let boundaries := (op.script.foldl (fun (acc : List Nat × Nat) e =>
      match e with
      | .data b => (acc.1 ++ [acc.2 + b.length], acc.2 + b.length)
      | .tdata b => (acc.1 ++ [acc.2 + b.length], acc.2 + b.length)
      | .eof b => (acc.1 ++ [acc.2 + b.length], acc.2 + b.length)
      | _ => acc) ([], 0)).1
    let complete := op.reply != [] && got.take op.reply.length == op.reply && boundaries.contains op.reply.length
    if complete then .noPanic else
    -- the reply never completes: the call must end in an error of the right class
    let hasEOF := op.script.any fun e => match e with
      | .eof _ => true
      | _ => false
    if got.length > op.kind.maxLen then
      .pred (o == "err toolong" || o == "err client:flush") "more bytes than a frame can hold must be reported as ErrPacketTooLong"
    else if got.length ≥ expected || hasEOF then
      .pred (o.startsWith "err") "a fault after a partial reply must end in an error, never success"
    else match op.script.getLast? with
      | some (.ioerr _) => .pred (o == "err client:io" || o == "err client:flush") "an I/O error must be reported as a client error wrapping it"
      | some .cancel => .pred (o == "err ctx") "cancellation must be reported as the context's error"
      | _ =>
        if op.script.any (· == .cancel) then .pred (o == "err ctx") "cancellation must be reported as the context's error"
        else .pred (o == "err client:timeout") "a stalled transport must be reported as a client error (timeout)"

def kfC08 (op : DoOp) : Option String :=
  match op.request with
  | some (r, _, _) => if r.fc == 17 && dataOf op.script != op.reply then some "KF-C08-fc17-prefix" else none
  | none => none

/-- C12: over RTU a reply whose CRC does not match is never a value and never a device exception -/
def judgeC12 (op : DoOp) (out : String) : Expect :=
  if op.kind == .tcp || op.nilReq || op.notConnected || op.writeFails then .free else
  if (out.splitOn "CORRUPTED-REPEAT-OF-THE-LAST-REPLY-ACCEPTED").length > 1 then
    .pred false "a reply with a flipped payload bit (and the trailer of the reply before it) was returned as a response" else
  if (out.splitOn "ALIASED-rewritten-by-next-call").length > 1 then
    .pred false "the bytes of a later reply with an inconsistent CRC showed up as the data of the response the caller already held" else
  let got := dataOf op.script
  if got.length < 2 || endsWithSpecCrc got then .noPanic else
  -- a CRC-consistent frame that is complete at a read boundary may legitimately be accepted there
  -- (bytes arriving in later reads cannot be known to belong to it)
  let boundaries := (op.script.foldl (fun (acc : List Nat × Nat) e =>
    match e with
    | .data b => (acc.1 ++ [acc.2 + b.length], acc.2 + b.length)
    | .tdata b => (acc.1 ++ [acc.2 + b.length], acc.2 + b.length)
    | .eof b => (acc.1 ++ [acc.2 + b.length], acc.2 + b.length)
    | _ => acc) ([], 0)).1
  if boundaries.any (fun n => n ≥ 4 && n < got.length && endsWithSpecCrc (got.take n)) then .noPanic else
  -- what arrived has an inconsistent trailer (this covers every corruption, truncation and extension)
  let o := outcomeOf out
  -- neither wrapped in a ClientError (recognised in the read loop) nor returned by the parser, nor an error that
  -- `errors.As` matches against an exception type
  .pred (o.startsWith "err" && (o.splitOn "excR").length == 1 && (o.splitOn "excT").length == 1 &&
         (o.splitOn "AS-VALUE-TARGET-MATCHES").length == 1)
    "a reply whose CRC does not match must not be returned as a response or as a device exception"

/-- C19: the hooks see exactly what the transport saw -/
def judgeC19 (op : DoOp) (out : String) : Expect :=
  if (out.splitOn "OLD-BYTES-WERE-SENT").length > 1 then
    .pred false "the request value was changed by its owner between two calls; the bytes written (and shown to the hook) were those of the earlier call, not the request as it is encoded now" else
  if !op.hooks || op.nilReq || op.notConnected || op.paced then .noPanic else
  match out.splitOn " | " with
  | [o1, log, o2, conn] =>
    let cs := conn.splitOn ","
    let ls := if log == "-" then [] else log.splitOn ","
    let written := (cs.headD "").drop 2 |>.toString
    let served := cs.drop 1
    let bw := ls.head?
    let reads := ls.filter fun s => s.startsWith "r:" || s == "stall"
    let bp := ls.filter (·.startsWith "bp:")
    let chunks := String.join (served.filterMap fun s => match s.splitOn ":" with
      | ["r", c, _, _] => some (if c == "-" then "" else c)
      | _ => none)
    let handed := o1.startsWith "ok" || o1.startsWith "err parse:"
    .pred (o1 == o2 && bw == some ("bw:" ++ written) && reads == served &&
           (if handed then bp == ["bp:" ++ (if chunks == "" then "-" else chunks)] else bp == []) &&
           (ls.getLast?.map (·.startsWith "bp:") == some true || !handed))
      "hooks must see the written request, every read in order and the final frame; they must not change the outcome"
  | _ => .pred false "unreadable output"

def DoOp.kf (prop : String) (op : DoOp) : Option String :=
  if prop == "C07" then kfC07 op
  else if prop == "C08" then kfC08 op
  else none

def DoOp.judge (prop : String) (op : DoOp) (out : String) : Expect :=
  if prop == "C07" then judgeC07 op out
  else if prop == "C08" then judgeC08 op out
  else if prop == "C12" then judgeC12 op out
  else if prop == "C19" then judgeC19 op out
  else .noPanic

/-! ## `dor`: the constructors without configuration (`NewTCPClient()`, `NewRTUClient()`) against a loopback peer

     dor <t|r> <request spec> <reply hex>
  The peer reads the request and writes the reply at once (however TCP fragments it, the outcome is the one of a single
  read: C07). Only the outcome is printed. -/

structure DorOp where
  inner : DoOp

def parseDorOp (ts : List String) : Option DorOp :=
  match ts with
  | ["dor", k, req, reply] => (parseDoOp ["do", k, "0", "n", req, reply, "d:" ++ reply]).map DorOp.mk
  | _ => none

def DorOp.modelOut (op : DorOp) : String := outcomeOf op.inner.modelOut

def DorOp.judge (prop : String) (op : DorOp) (out : String) : Expect :=
  if prop == "C07" then judgeC07 op.inner out
  else if prop == "C12" then judgeC12 op.inner out
  else .noPanic

def DorOp.kf (prop : String) (op : DorOp) : Option String := if prop == "C07" then kfC07 op.inner else none

end Modbus.Driver
