import Modbus.Driver.Util
import Modbus.Model.ClientLock
/-
  `conc` operations: N goroutines run their programs of Do / Connect / Close calls on ONE client instance against a
  transport that logs what it sees (attributed to the calling goroutine) and answers in arrival order.
     conc <client t|r|s> <programs>        programs: threads separated by `|`, calls by `.`:
                                            d<id> = Do(request number id), o = Connect, c = Close
  output (produced by the real client, schedule dependent):
     <event>,<event>,... # <results>
       events:  D.t.k | C.t.k | W.t.k.id | F.t.k.id | R.t.k.id.i.n | X.<anomaly>
       results: per thread `|`, per call `.`: r<id'> (response answering id'), w (write error), n (not connected),
                o (connected), c (closed), e<text> (anything else)
  The client is connected (connection 0) before the goroutines start; the reply to request id comes in id%3+1 chunks.

  Trace validation: the log is replayed through `ClientLock.step` - each event must be the next event the model
  emits for that thread (after its `acquire`, if it is outside a call); afterwards every thread must have finished
  its program with the observed results. The model's output is the log re-rendered from the replay, so a log the
  model cannot produce shows up as a difference.
-/
namespace Modbus.Driver
open Modbus.Model Modbus.Model.ClientLock

structure ConcOp where
  client : String
  /-- the calls the model knows -/
  progs : List (List Call)
  /-- the programs as run: `none` = a Connect that fails (`x`): it takes and releases the lock and changes nothing, the
  transport sees nothing of it, so the replay of the transport's log skips it -/
  full : List (List (Option Call))

def parseCall (s : String) : Option Call :=
  if s == "o" then some .connect
  else if s == "c" then some .close
  else if s.startsWith "d" then (s.drop 1).toString.toNat?.map .doReq
  else none

def parseConcOp (ts : List String) : Option ConcOp :=
  match ts with
  | ["conc", cl, ps] => do
    let full ← (ps.splitOn "|").mapM fun p => if p == "-" then some [] else
      (p.splitOn ".").mapM fun c => if c == "x" then some none else (parseCall c).map some
    pure { client := cl, progs := full.map (·.filterMap id), full }
  | _ => none

def nchRule (id : Nat) : Nat := id % 3

def evStr : WireEv → String
  | .dial t k => s!"D.{t}.{k}"
  | .close t k => s!"C.{t}.{k}"
  | .write t k id => s!"W.{t}.{k}.{id}"
  | .wfail t k id => s!"F.{t}.{k}.{id}"
  | .read t k id i n => s!"R.{t}.{k}.{id}.{i}.{n}"

def parseEv (s : String) : Option WireEv :=
  match s.splitOn "." with
  | ["D", t, k] => do pure (.dial (← t.toNat?) (← k.toNat?))
  | ["C", t, k] => do pure (.close (← t.toNat?) (← k.toNat?))
  | ["W", t, k, id] => do pure (.write (← t.toNat?) (← k.toNat?) (← id.toNat?))
  | ["F", t, k, id] => do pure (.wfail (← t.toNat?) (← k.toNat?) (← id.toNat?))
  | ["R", t, k, id, i, n] => do pure (.read (← t.toNat?) (← k.toNat?) (← id.toNat?) (← i.toNat?) (← n.toNat?))
  | _ => none

def evThread : WireEv → Nat
  | .dial t _ => t
  | .close t _ => t
  | .write t _ _ => t
  | .wfail t _ _ => t
  | .read t _ _ _ _ => t

def outcomeStr : Outcome → String
  | .reply id => s!"r{id}"
  | .writeErr => "w"
  | .notConnected => "n"
  | .connected => "o"
  | .closed => "c"

def ConcOp.init (op : ConcOp) : St := ClientLock.init (fun t => op.progs.getD t []) true

/-- the results of the model's calls with `xf` put back where the failing connects were -/
def mergeResults : List (Option Call) → List String → List String
  | [], _ => []
  | none :: rest, ds => "xf" :: mergeResults rest ds
  | some _ :: rest, d :: ds => d :: mergeResults rest ds
  | some _ :: _, [] => []

def resultsStr (op : ConcOp) (s : St) : String :=
  "|".intercalate ((List.range op.progs.length).map fun t =>
    let d := mergeResults (op.full.getD t []) ((s.th t).done.map fun x => outcomeStr x.2)
    if d.isEmpty then "-" else ".".intercalate d)

/-- replay one observed event: the model must emit exactly this event as the thread's next visible step -/
def replayEv (s : St) (e : WireEv) : Option St :=
  let t := evThread e
  let s1 := if (s.th t).stage == .out then step nchRule s t else s
  let s2 := step nchRule s1 t
  if s2.wire.length == s.wire.length + 1 && s2.wire.getLast? == some e then some s2 else none

def replay (op : ConcOp) (evs : List String) : Except String St := do
  let mut s := op.init
  let mut i := 0
  for es in evs do
    match parseEv es with
    | none => throw s!"event {i} ({es}) is not an event of the model"
    | some e =>
      match replayEv s e with
      | some s' => s := s'
      | none => throw s!"event {i} ({es}) is not enabled in the model (holder {s.holder})"
    i := i + 1
  return s

def splitOut (out : String) : List String × String :=
  match out.splitOn " # " with
  | [evs, res] => (if evs == "" then [] else evs.splitOn ",", res)
  | _ => ([], out)

/-- model output for an observed log: the log re-rendered from the replay, or the point of rejection -/
def ConcOp.modelOf (op : ConcOp) (goOut : String) : String :=
  let (evs, _) := splitOut goOut
  match replay op evs with
  | .error e => "REJECTED: " ++ e
  | .ok s =>
    let unfinished := (List.range op.progs.length).filter fun t => !(s.th t).todo.isEmpty || (s.th t).stage != .out
    if !unfinished.isEmpty then s!"REJECTED: threads {unfinished} have not finished their programs"
    else ",".intercalate (s.wire.map evStr) ++ " # " ++ resultsStr op s

/-- C14 on the observed log, independent of the replay: the wire log is serial (whole exchanges, never interleaved),
every response answers the caller's own request, no anomaly, no panic -/
def judgeC14 (op : ConcOp) (out : String) : Expect :=
  if isPanicStr out then .pred false "concurrent calls must not panic" else
  let (evs, res) := splitOut out
  match evs.mapM parseEv with
  | none => .pred false "the transport saw an anomaly (concurrent entry, read without request, closed handle in an exchange)"
  | some ws =>
    let serial := wireRun none ws == some none
    let perThread := res.splitOn "|"
    let resOk := perThread.length == op.full.length &&
      (List.zip op.full perThread).all fun (prog, r) =>
        let rs := if r == "-" then [] else r.splitOn "."
        rs.length == prog.length && (List.zip prog rs).all fun (c, o) =>
          match c with
          | some (.doReq id) => o == s!"r{id}" || o == "w"
          | some .connect => o == "o"
          | some .close => o == "c"
          | none => o == "xf"       -- the connect failed, and nobody else noticed
    .pred (serial && resOk)
      "request frames must never be interleaved on the wire and each caller must receive the reply to its own request"

def ConcOp.judge (prop : String) (op : ConcOp) (out : String) : Expect :=
  if prop == "C14" then judgeC14 op out else .noPanic

/-! ## static lock-discipline facts (`lockfacts <Type>`), extracted from the source by the harness

The model's steps between `acquire` and `release` are the only ones that touch the transport handle. In the code
this is the statement: every exported method from which an access to `c.conn` / `c.serialPort` is reachable
(through calls of methods on the same receiver) begins with `c.mu.Lock(); defer c.mu.Unlock()`, no goroutine is
started inside, and no function outside the type's methods reaches into the field. -/

structure MFact where
  name : String
  exported : Bool
  locks : Bool
  touches : Bool
  callees : List String

def parseMFact (s : String) : Option MFact :=
  match s.splitOn "," with
  | [n, e, l, t, cs] => some { name := n, exported := e == "1", locks := l == "1", touches := t == "1",
                               callees := if cs == "" then [] else cs.splitOn "+" }
  | _ => none

/-- methods reachable from `m` through same-receiver calls -/
def reach (facts : List MFact) : Nat → List String → List String
  | 0, acc => acc
  | fuel + 1, acc =>
    let next := acc.flatMap fun n => match facts.find? (·.name == n) with
      | some f => f.callees
      | none => []
    let acc' := (acc ++ next).eraseDups
    if acc'.length == acc.length then acc else reach facts fuel acc'

def lockVerdict (typ : String) (out : String) : Bool × String :=
  match out.splitOn " # " with
  | [ms, outside] =>
    match (ms.splitOn ";").mapM parseMFact with
    | none => (false, "unreadable facts")
    | some facts =>
      let bad := facts.filter fun f =>
        f.exported && !f.locks &&
          (reach facts (facts.length + 1) [f.name]).any fun n =>
            n == "<go>" || (match facts.find? (·.name == n) with | some g => g.touches | none => false)
      let escapes := facts.filter fun f => f.callees.contains "<go>"
      let need := if typ == "Client" then ["Do", "Connect", "Close"] else ["Do", "Close"]
      let missing := need.filter fun n => !(facts.any fun f => f.name == n && f.locks && f.exported)
      if !bad.isEmpty then (false, s!"exported methods reach the transport handle without holding the mutex for the whole call: {bad.map (·.name)}")
      else if !escapes.isEmpty then (false, s!"a goroutine is started inside {escapes.map (·.name)}")
      else if outside != "" then (false, s!"functions outside the type reach into the handle: {outside}")
      else if !missing.isEmpty then (false, s!"methods {missing} do not take the mutex on entry")
      else (true, "")
  | _ => (false, "unreadable facts")

structure LockOp where
  typ : String

def parseLockOp (ts : List String) : Option LockOp :=
  match ts with
  | ["lockfacts", t] => some { typ := t }
  -- `connrace n`: concurrent Connect/Close with the default dialer; outcome "ok" (the race detector is the observer)
  | ["connrace", _] => some { typ := "connrace" }
  | _ => none

def LockOp.judge (prop : String) (op : LockOp) (out : String) : Expect :=
  if op.typ == "connrace" then .pred (out == "ok") "concurrent Connect / Close must neither panic nor fail to return" else
  if prop == "C14" then
    let (ok, why) := lockVerdict op.typ out
    .pred ok ("lock discipline (hypothesis of the model): " ++ why)
  else .free

end Modbus.Driver
