import Modbus.Driver.Util
import Modbus.Spec.Registers
/-
  `regs` operations: a sequence of accessor calls on one Registers value.
    regs <data> <spare> <start> <order> <acc@addr[/x[/y]];...>
  output: <sequence results> | <each op alone on a fresh copy> after=<payload afterwards>
-/
namespace Modbus.Driver
open Modbus Modbus.Model

def tokAcc (s0 : String) : Option (Acc × UInt16) :=
  -- `F<accessor>`: the same read made through `Field.ExtractFrom` of the request builder (a field of that type, byte
  -- order, length ... on the same Registers): same result, and no trace left on the Registers for later reads
  let s := if s0.startsWith "F" then (s0.drop 1).toString else s0
  match s.splitOn "@" with
  | [name, rest] =>
    let args := rest.splitOn "/"
    match args with
    | [] => none
    | a :: xs => do
      let addr ← tokU16 a
      let x0 := xs.head?.bind tokNat
      let x1 := (xs.drop 1).head?.bind tokNat
      let u8 (n : Option Nat) : Option UInt8 := n.map UInt8.ofNat
      let bool (n : Option Nat) : Option Bool := n.map (· != 0)
      let acc ← match name with
        | "bit" => (u8 x0).map Acc.bit
        | "byte" => (bool x0).map Acc.byte
        | "u8" => (bool x0).map Acc.u8
        | "i8" => (bool x0).map Acc.i8
        | "u16" => some .u16
        | "i16" => some .i16
        | "u32" => some .u32
        | "u32o" => (u8 x0).map Acc.u32o
        | "i32" => some .i32
        | "i32o" => (u8 x0).map Acc.i32o
        | "u64" => some .u64
        | "u64o" => (u8 x0).map Acc.u64o
        | "i64" => some .i64
        | "i64o" => (u8 x0).map Acc.i64o
        | "f32" => some .f32
        | "f32o" => (u8 x0).map Acc.f32o
        | "f64" => some .f64
        | "f64o" => (u8 x0).map Acc.f64o
        | "str" => (u8 x0).map Acc.str
        | "stro" => do pure (Acc.stro (← u8 x0) (← u8 x1))
        | "reg" => some .reg
        | "dreg" => (u8 x0).map Acc.dreg
        | "qreg" => (u8 x0).map Acc.qreg
        | _ => none
      pure (acc, addr)
  | _ => none

/-- one step of a `regs` sequence: an accessor call, or `wbo@<order>` = the view is configured again
(`WithByteOrder`) in the middle of the sequence -/
inductive RStep where
  | acc (a : Acc) (addr : UInt16)
  | wbo (o : UInt8)

def tokStep (s : String) : Option RStep :=
  if s.startsWith "wbo@" then (tokU8 (s.drop 4).toString).map RStep.wbo
  else (tokAcc s).map fun (a, addr) => RStep.acc a addr

structure RegsOp where
  data : Bytes
  spare : Bytes
  start : UInt16
  order : UInt8
  ops : List RStep

def parseRegsOp (ts : List String) : Option RegsOp :=
  match ts with
  | ["regs", d, sp, st, o, ops] => do
    let ops ← (ops.splitOn ";").mapM tokStep
    pure { data := ← unhex d, spare := ← unhex sp, start := ← tokU16 st, order := ← tokU8 o, ops }
  | _ => none

def valRes : PRes Val → String
  | .ok v => "ok " ++ v.str'
  | .err e => e.str
  | .panic => "PANIC"

def RegsOp.modelOut (op : RegsOp) : String :=
  match newRegisters ⟨op.data, op.spare⟩ op.start with
  | .ok r0 =>
    let r0 := if op.order = 0 then r0 else { r0 with order := op.order }
    -- the sequence threads the payload and the configured order through; "alone" = the same call on a fresh view
    -- configured with the order in force at that point
    let (outs, solo, final, _) := op.ops.foldl (fun (acc : List String × List String × Slice × UInt8) (st : RStep) =>
      let (outs, solo, d, cur) := acc
      match st with
      | .wbo o => (outs ++ ["ok set"], solo ++ ["ok set"], d, o)
      | .acc a addr =>
        let r := { r0 with data := d, order := cur }
        let (res, d') := r.access a addr
        (outs ++ [valRes res], solo ++ [valRes (({ r0 with order := cur }).access a addr).1], d', cur))
      ([], [], r0.data, r0.order)
    ";".intercalate outs ++ " | " ++ ";".intercalate solo ++ " after=" ++ hex final.vis
  | .err e => e.str
  | .panic => "PANIC"

/-- C04 oracle: every result of the sequence equals the specification's answer (decoded wire bytes or error) -/
def judgeC04 (op : RegsOp) (out : String) : Expect :=
  let n := op.data.length / 2
  if op.data.length < 2 || op.data.length % 2 != 0 then .anyErr else
  if op.start.toNat + n > 65536 then .noPanic else
  let dflt : UInt8 := if op.order = 0 then 9 else op.order
  let exp := (op.ops.foldl (fun (acc : List String × UInt8) (st : RStep) =>
    match st with
    | .wbo o => (acc.1 ++ ["ok set"], o)
    | .acc a addr =>
      (acc.1 ++ [match Spec.access acc.2 op.data op.start.toNat a addr.toNat with
        | some v => "ok " ++ v.str'
        | none => "err plain"], acc.2)) ([], dflt)).1
  match out.splitOn " | " with
  | [seq, _] =>
    let got := seq.splitOn ";"
    .pred (got == exp) s!"every access must return the decoded wire bytes of its registers or an error: {exp}"
  | _ => .pred false "unreadable output"

/-- C13 oracle: the payload is unchanged and every result in the sequence equals the result of the same call alone -/
def judgeC13 (op : RegsOp) (out : String) : Expect :=
  if op.data.length < 2 || op.data.length % 2 != 0 then .noPanic else
  match out.splitOn " | " with
  | [seq, rest] =>
    match rest.splitOn " after=" with
    | [solo, after] =>
      .pred (seq == solo && after == hex op.data && (out.splitOn "PANIC").length == 1)
        "results must not depend on earlier reads and the payload must be unchanged"
    | _ => .pred false "unreadable output"
  | _ => .pred false "unreadable output"

def RegsOp.judge (prop : String) (op : RegsOp) (out : String) : Expect :=
  if prop == "C04" then judgeC04 op out
  else if prop == "C13" then
    -- "the same results": the result of a read is the decoding of its registers, whatever was read or configured before
    match judgeC13 op out with
    | .pred true _ => judgeC04 op out
    | e => e
  else .noPanic

end Modbus.Driver
