import Modbus.Driver.Util
import Modbus.Model.ServerLife
/-
  `srv` operations: a scripted scenario against the real server (see harness/exec_srv.go for the step language).
     srv <cfg 5 bits: OnServe OnError OnAccept OnClose tracer> <reject set | -> <steps>
  The model side interprets every scenario step as a fixed sequence of labels of the transition system
  `ServerLife.step` (so every scenario run is, by construction, a run of the system the theorems are about) and
  prints the same observations as the harness.
-/
namespace Modbus.Driver
open Modbus.Model Modbus.Model.ServerLife

structure SrvOp where
  cfgBits : String
  reject : List Nat
  steps : List String

def parseSrvOp (ts : List String) : Option SrvOp :=
  match ts with
  | ["srv", cfg, rej, steps] =>
    if cfg.length != 5 then none else do
    let reject ← if rej == "-" then some [] else (rej.splitOn ",").mapM String.toNat?
    pure { cfgBits := cfg, reject, steps := (steps.splitOn ";").filter (· != "") }
  | _ => none

def SrvOp.bit (op : SrvOp) (i : Nat) : Bool := op.cfgBits.toList.getD i '0' == '1'

def SrvOp.cfg (op : SrvOp) : Cfg :=
  { onServe := op.bit 0, onError := op.bit 1, onAccept := op.bit 2, onClose := op.bit 3,
    reject := fun c => op.reject.contains c }

/-- interpreter state: the system state plus what the scenario currently holds back -/
structure ISt where
  s : St
  /-- connections whose handler is blocked by the scenario -/
  blocked : List Nat := []
  /-- connections held in RawReadTracer.Read -/
  traced : List Nat := []
  /-- connections whose reply does not fit the socket buffers: the goroutine is blocked in Write -/
  wblocked : List Nat := []
  acceptHeld : Bool := false
  /-- connections whose close callback the scenario holds -/
  cbHeld : List Nat := []
  /-- connection -> request in flight -/
  pending : List (Nat × Nat) := []
  dialFailed : List Nat := []
  shutdownShort : Bool := false

def ISt.pendingOf (i : ISt) (k : Nat) : Nat := ((i.pending.find? (·.1 == k)).map (·.2)).getD 0

def connHeld (i : ISt) (c : Nat) : Bool :=
  match (i.s.conns c).pc with
  | .handling _ _ => i.blocked.contains c
  | .gotRequest _ _ => i.traced.contains c
  | .writing _ => i.wblocked.contains c
  | .cleanupCb => i.cbHeld.contains c
  | _ => false

/-- run the accept loop until it blocks (empty backlog, held callback, mutex taken) or returns -/
def quiesceAcc (cfg : Cfg) (i : ISt) : ISt := Id.run do
  let mut s := i.s
  for _ in [0:8] do
    match s.acc with
    | .inCb _ => if i.acceptHeld then break else s := accStep cfg s
    | _ => s := accStep cfg s
  return { i with s }

/-- run every connection goroutine until it waits for input, is held by the scenario, or has ended -/
def quiesceConns (cfg : Cfg) (i : ISt) : ISt := Id.run do
  let mut s := i.s
  for _ in [0:12] do
    for c in s.ids do
      if !connHeld { i with s } c then s := connStep cfg s c
  return { i with s }

def quiesce (cfg : Cfg) (i : ISt) : ISt := quiesceConns cfg (quiesceAcc cfg i)

/-- one sweep of Shutdown over the snapshot it took, in map order, and the decision at its end -/
def sweep (cfg : Cfg) (s : St) : St :=
  match s.sd with
  | .sweeping rem _ => step cfg (rem.foldl (fun s c => step cfg s (.shutdownScan c)) s) .shutdownTick
  | _ => s

def countStr (cfg : Cfg) (s : St) (k : Nat) : String :=
  if cfg.onAccept then toString ((s.conns k).acceptArg.getD 0) else ""

def connOutcome (cfg : Cfg) (i : ISt) (k : Nat) (withCount : Bool) : String :=
  let cn := i.s.conns k
  let cs := if withCount then countStr cfg i.s k else ""
  if cn.rejected then "r" ++ cs
  else if cn.refused then "z" ++ cs
  else if cn.pc != .notStarted then "a" ++ cs
  else if cn.serverClosed then "z" ++ cs
  else "to"

def splitStep (st : String) : String × Nat × Nat :=
  let verb := (st.takeWhile Char.isAlpha).toString
  let arg := (st.dropWhile Char.isAlpha).toString
  match arg.splitOn "." with
  | [a, b] => (verb, a.toNat?.getD 0, b.toNat?.getD 0)
  | [a] => (verb, a.toNat?.getD 0, 0)
  | _ => (verb, 0, 0)

def noClient (i : ISt) (k : Nat) : Bool := !i.s.ids.contains k || i.dialFailed.contains k

def replyObs (i : ISt) (k id : Nat) : String :=
  if (i.s.conns k).replied.contains id then s!"r{id}" else "eof"

def interpStep (op : SrvOp) (i : ISt) (st : String) : ISt × String :=
  let cfg := op.cfg
  if st == "sh0" then
    let s := step cfg (step cfg i.s .shutdownCall) .shutdownTick
    ({ i with s }, match s.sd with | .returned .ok => "nil" | _ => "err")
  else
  let i := quiesceAcc cfg i          -- Serve has been started
  let (verb, k, id) := splitStep st
  match verb with
  | "c" | "ch" =>
    let hold := verb == "ch" && cfg.onAccept
    let s := step cfg i.s (.clientConnect k)
    if !s.queue.contains k then ({ i with s, dialFailed := k :: i.dialFailed }, "x") else
    let i := quiesce cfg { i with s, acceptHeld := hold }
    if hold then
      (i, match i.s.acc with | .inCb c => if c == k then "h" ++ countStr cfg i.s k else "to" | _ => "to")
    else (i, connOutcome cfg i k true)
  | "ra" =>
    match i.s.acc with
    | .inCb c =>
      if !i.acceptHeld then (i, "") else
      let i := quiesce cfg { i with acceptHeld := false }
      (i, connOutcome cfg i c false)
    | _ => (i, "")
  | "q" | "h" | "he" =>
    -- (`he`: the handler returns an ordinary error: the reply is the server-failure exception)
    -- (`h`: the rest of the request that `g` began arrives after a pause: from then on an ordinary request)
    if noClient i k then (i, "nc") else
    let i := quiesce cfg { i with s := step cfg i.s (.clientSend k id .normal) }
    (i, replyObs i k id)
  | "w" =>
    -- the client writes a request and closes its sending side right behind it: answered, then the connection ends
    if noClient i k then (i, "nc") else
    let i := quiesce cfg { i with s := step cfg i.s (.clientSend k id .normal) }
    let o := replyObs i k id
    (quiesce cfg { i with s := step cfg i.s (.clientClose k) }, o)
  | "m" =>
    -- 25 requests (ids id .. id+24) written at once: each is answered, in order
    if noClient i k then (i, "nc") else
    let i := (List.range 25).foldl (fun i j => quiesce cfg { i with s := step cfg i.s (.clientSend k (id + j) .normal) }) i
    (i, if (List.range 25).all (fun j => (i.s.conns k).replied.contains (id + j)) then s!"r{id}x25" else "eof")
  | "s" =>
    if noClient i k then (i, "nc") else
    let i := quiesce cfg { i with s := step cfg i.s (.clientSend k id .normal), blocked := k :: i.blocked,
                                  pending := (k, id) :: i.pending }
    (i, if (i.s.conns k).started.contains id then "st" else "to")
  | "f" =>
    let id := i.pendingOf k
    let i := quiesce cfg { i with blocked := i.blocked.erase k }
    (i, replyObs i k id)
  | "p" =>
    if noClient i k then (i, "nc") else
    let i := quiesce cfg { i with s := step cfg i.s (.clientSend k id .panics) }
    (i, replyObs i k id)
  | "t" =>
    if noClient i k then (i, "nc") else
    if !op.bit 4 then
      let i := quiesce cfg { i with s := step cfg i.s (.clientSend k id .normal), pending := (k, id) :: i.pending }
      (i, replyObs i k id)
    else
      let i := quiesce cfg { i with s := step cfg i.s (.clientSend k id .normal), traced := k :: i.traced,
                                    pending := (k, id) :: i.pending }
      (i, match (i.s.conns k).pc with | .gotRequest _ _ => "tr" | _ => "to")
  | "rt" =>
    if !i.traced.contains k then (i, "-") else
    let id := i.pendingOf k
    let i := quiesce cfg { i with traced := i.traced.erase k }
    (i, if (i.s.conns k).replied.contains id then s!"r{id}"
        else if (i.s.conns k).started.contains id then "eof+h" else "eof")
  | "d" =>
    if noClient i k then (i, "nc") else
    let i := quiesce cfg { i with s := step cfg i.s (.clientClose k) }
    (i, "ok")
  | "dh" =>
    -- the client disconnects; the close callback of its connection (if one is set) is held inside the callback
    if noClient i k then (i, "nc") else
    if !cfg.onClose then
      (quiesce cfg { i with s := step cfg i.s (.clientClose k) }, "ok")
    else
      let i := quiesce cfg { i with s := step cfg i.s (.clientClose k), cbHeld := k :: i.cbHeld }
      (i, if (i.s.conns k).pc == .cleanupCb then "hc" else "to")
  | "rc" =>
    (quiesce cfg { i with cbHeld := i.cbHeld.erase k }, "ok")
  | "g" =>
    -- the client sends the first 7 bytes of a request and nothing else: no complete request ever arrives
    if noClient i k then (i, "nc") else (i, "ok")
  | "b" =>
    if noClient i k then (i, "nc") else
    let i := quiesce cfg { i with s := step cfg i.s (.clientSend k id .normal), wblocked := k :: i.wblocked,
                                  pending := (k, id) :: i.pending }
    (i, match (i.s.conns k).pc with | .writing _ => "bw" | _ => "eof")
  | "rb" =>
    if !i.wblocked.contains k then (i, "-") else
    let id := i.pendingOf k
    let i := quiesce cfg { i with wblocked := i.wblocked.erase k }
    (i, if (i.s.conns k).replied.contains id then s!"r{id}" else "cut")
  | "sh" | "shx" =>
    let s := sweep cfg (step cfg i.s .shutdownCall)
    (quiesce cfg { i with s, shutdownShort := verb == "shx" }, "st")
  | "j" =>
    match i.s.sd with
    | .notCalled => (i, "-")
    | _ =>
      let i := Id.run do
        let mut i := i
        for _ in [0:4] do
          i := quiesce cfg { i with s := sweep cfg i.s }
        -- still waiting for a handler the scenario holds: the caller's context ends
        match i.s.sd with
        | .sweeping _ _ => i := quiesce cfg { i with s := sweep cfg (sweep cfg (step cfg i.s .sdCtxExpire)) }
        | _ => pure ()
        return i
      (i, match i.s.sd with | .returned .ok => "nil" | .returned .ctxErr => "ctx" | .returned .lerr => "err" | _ => "to")
  | "xh" =>
    -- the serve context ends while the accept callback is held: Serve cannot return yet, nothing is waited for
    (quiesce cfg { i with s := step cfg (step cfg i.s .ctxCancel) .afterFunc }, "ok")
  | "x" =>
    let i := quiesce cfg { i with s := step cfg (step cfg i.s .ctxCancel) .afterFunc }
    (i, match i.s.acc with | .returned .closed => "closed" | .returned .err => "err" | _ => "hang")
  | _ => (i, "?")

def windDown (op : SrvOp) (i : ISt) : ISt := Id.run do
  let cfg := op.cfg
  let mut i := quiesce cfg { i with blocked := [], traced := [], wblocked := [], acceptHeld := false }
  for _ in [0:4] do
    i := quiesce cfg { i with s := sweep cfg i.s }
  i := quiesce cfg { i with s := step cfg (step cfg i.s .ctxCancel) .afterFunc }
  i := quiesce cfg { i with s := i.s.ids.foldl (fun s c => step cfg s (.clientClose c)) i.s }
  i := quiesce cfg i
  return i

def SrvOp.modelOut (op : SrvOp) : String := Id.run do
  let mut i : ISt := { s := init }
  let mut obs : List String := []
  for st in op.steps do
    let (i', o) := interpStep op i st
    i := i'
    obs := obs ++ [o]
  i := windDown op i
  let serve := match i.s.acc with | .returned .closed => "closed" | .returned .err => "err" | _ => "hang"
  let cl := (i.s.ids.mergeSort (· ≤ ·)).filterMap fun k =>
    let f := (i.s.conns k).closeCbs
    if f.isEmpty then none else some (s!"{k}:" ++ String.ofList (f.map fun b => if b then 's' else 'n'))
  let cls := if cl.isEmpty then "-" else ";".intercalate cl
  return ",".intercalate obs ++ s!" # serve={serve} close={cls} live={i.s.count}"

/-! ## the property on the observations (independent of the transition system) -/

structure Book where
  /-- connections the server is serving -/
  live : List Nat := []
  /-- connections whose handler the scenario blocks -/
  busy : List Nat := []
  accepted : List Nat := []
  rejected : List Nat := []
  shutdownOk : Bool := false
  shutdownCalled : Bool := false
  shutdownPending : Bool := false
  shutdownAgain : Bool := false
  /-- connection held inside the accept callback -/
  held : Option Nat := none
  /-- connections held in the tracer -/
  traced : List Nat := []
  /-- connections that became idle while Shutdown was between two sweeps: closed at an unknown moment -/
  limbo : List Nat := []
  cancelled : Bool := false
  ok : Bool := true
  why : String := ""

def Book.fail (b : Book) (w : String) : Book := if b.ok then { b with ok := false, why := w } else b

def judgeC17 (op : SrvOp) (out : String) : Expect :=
  if isPanicStr out then .pred false "the server must not crash or hang, whatever callbacks are set" else
  match out.splitOn " # " with
  | [obsS, summary] =>
    let obs := obsS.splitOn ","
    if obs.length != op.steps.length then .pred false "unreadable observations" else
    let onAccept := op.bit 2
    let onClose := op.bit 3
    let b := (List.zip op.steps obs).foldl (fun (b : Book) (st, o) =>
      let (verb, k, id) := splitStep st
      let b := if o == "to" || o.endsWith "stuck" || o == "nocb" || o == "hang" || o == "?" || o == "st-open" then
        b.fail s!"step {st}: the expected event never happened ({o})" else b
      let b := if (o.splitOn "NOT-CLOSED").length > 1 then
        b.fail s!"step {st}: a rejected connection was not closed (the client read the end of the stream, the server's end still takes what it writes)" else b
      match verb with
      | "c" | "ch" =>
        if o == "x" then
          if b.shutdownCalled || b.cancelled then b else b.fail s!"step {st}: connection refused by a serving server"
        else
          let kindCh := (o.take 1).toString
          let cnt := (o.drop 1).toString
          let b := if onAccept && kindCh != "z" && cnt != toString (b.live.length + 1) then
            b.fail s!"step {st}: the accept callback was told {cnt} connections, {b.live.length + 1} are live" else b
          let b := if kindCh == "r" && !op.reject.contains k then b.fail s!"step {st}: closed although the callback accepted it" else b
          let b := if (kindCh == "a" || kindCh == "h") && op.reject.contains k && onAccept && verb == "c" then
            b.fail s!"step {st}: served although the accept callback rejected it" else b
          let b := if kindCh == "a" && b.shutdownOk then b.fail s!"step {st}: accepted after a successful shutdown" else b
          if kindCh == "a" then { b with live := k :: b.live, accepted := k :: b.accepted }
          else if kindCh == "r" then { b with rejected := k :: b.rejected }
          else if kindCh == "z" then b      -- closed before it was served: close callback at most once (checked below)
          else if kindCh == "h" then { b with held := some k }
          else b
      | "ra" =>
        match b.held with
        | none => b
        | some h =>
          let b := { b with held := none }
          if o == "a" then
            let b := if b.shutdownOk then b.fail "a connection accepted during the shutdown is served after Shutdown returned successfully" else b
            let b := if op.reject.contains h then b.fail "served although the accept callback rejected it" else b
            { b with live := h :: b.live, accepted := h :: b.accepted }
          else if o == "r" then
            let b := if !op.reject.contains h then b.fail "closed although the callback accepted it" else b
            { b with rejected := h :: b.rejected }
          else if o == "z" then
            if !(b.shutdownCalled || b.cancelled) then b.fail "accepted connection closed by a serving server" else b
          else b
      | "q" | "h" | "m" | "he" =>
        if b.limbo.contains k then b else
        if b.live.contains k && !b.busy.contains k && o != (if verb == "m" then s!"r{id}x25" else s!"r{id}") then b.fail s!"step {st}: no reply on a live connection ({o})" else
        if !b.live.contains k && o.startsWith "r" then b.fail s!"step {st}: reply on a connection that should be closed" else b
      | "s" => if o == "st" then { b with busy := k :: b.busy } else b
      | "b" => if o == "bw" then { b with busy := k :: b.busy } else
        if b.live.contains k then b.fail s!"step {st}: no reply on a live connection ({o})" else b
      | "rb" =>
        if b.busy.contains k then
          let b := if !o.startsWith "r" then b.fail s!"step {st}: the handler had started but its reply was cut short ({o})" else b
          { b with busy := b.busy.erase k, live := if b.cancelled || b.shutdownPending then b.live.erase k else b.live,
                   limbo := if b.shutdownPending then k :: b.limbo else b.limbo }
        else b
      | "f" =>
        if b.busy.contains k then
          let b := if !o.startsWith "r" then b.fail s!"step {st}: the handler had started but its reply was lost ({o})" else b
          { b with busy := b.busy.erase k, live := if b.cancelled || b.shutdownPending then b.live.erase k else b.live,
                   limbo := if b.shutdownPending then k :: b.limbo else b.limbo }
        else b
      | "p" => if o == "eof" then { b with live := b.live.erase k } else b.fail s!"step {st}: a panicking handler must end its connection only ({o})"
      | "t" => if o == "tr" then { b with traced := k :: b.traced } else
        if b.live.contains k && !o.startsWith "r" then b.fail s!"step {st}: no reply on a live connection ({o})" else b
      | "rt" =>
        let b := { b with traced := b.traced.erase k }
        if o == "eof+h" then b.fail s!"step {st}: the handler ran but the connection had been closed by Shutdown: reply lost"
        else if o == "eof" then
          if b.live.contains k then b.fail s!"step {st}: request lost on a live connection" else b
        else if o.startsWith "r" then
          if b.live.contains k then { b with live := if b.cancelled then b.live.erase k else b.live }
          else b.fail s!"step {st}: reply on a connection that should be closed"
        else b
      | "d" | "dh" => { b with live := b.live.erase k, busy := b.busy.erase k }
      | "w" =>
        let b := if b.limbo.contains k then b else
          if b.live.contains k && !b.busy.contains k && o != s!"r{id}" then b.fail s!"step {st}: a request followed by the end of the client's stream was not answered ({o})" else
          if !b.live.contains k && o.startsWith "r" then b.fail s!"step {st}: reply on a connection that should be closed" else b
        { b with live := b.live.erase k, busy := b.busy.erase k }
      | "xh" => { b with cancelled := true, live := b.live.filter fun c => b.busy.contains c || b.traced.contains c }
      | "sh" | "shx" =>
        -- the first sweep closes every connection that is not handling a request
        { b with shutdownAgain := b.shutdownCalled, shutdownCalled := true, shutdownPending := true,
                 live := b.live.filter b.busy.contains }
      | "j" =>
        if o == "err" && b.shutdownAgain then
          -- a repeated call reports the error of closing the closed listener, after it has swept everything
          let b := if !b.busy.isEmpty then b.fail "the repeated Shutdown returned while a handler was still running" else b
          { b with shutdownPending := false, live := [], limbo := [] }
        else
        if o == "nil" then
          let b := if !b.busy.isEmpty then b.fail "Shutdown returned successfully while a handler was still running" else b
          { b with shutdownOk := true, shutdownPending := false, live := [], limbo := [] }
        else if o == "ctx" then { b with shutdownPending := false, live := b.live.filter b.busy.contains }
        else b
      | "x" =>
        let b := if o != "closed" then b.fail s!"cancelling the context must make Serve return the server-closed error ({o})" else b
        { b with cancelled := true, live := b.live.filter fun c => b.busy.contains c || b.traced.contains c }
      | _ => if st == "sh0" then { b with shutdownCalled := true, shutdownOk := o == "nil" } else b) ({} : Book)
    -- the summary: Serve returned the server-closed error, every accepted connection had its close callback once
    let b := if !(summary.startsWith "serve=closed ") then b.fail s!"Serve did not return the server-closed error: {summary}" else b
    let b := if !(summary.endsWith " live=0") then b.fail s!"connection counter not back to zero: {summary}" else b
    let closePart := ((summary.splitOn " close=").getD 1 "").splitOn " " |>.headD ""
    let entries := if closePart == "-" then [] else closePart.splitOn ";"
    let calls : List (Nat × String) := entries.filterMap fun e => match e.splitOn ":" with
      | [k, f] => k.toNat?.map (·, f)
      | _ => none
    let b := if calls.length != entries.length then b.fail "close callback for an unknown connection" else b
    let b := b.accepted.foldl (fun b k =>
      let n := ((calls.filter (·.1 == k)).map (·.2.length)).foldl (· + ·) 0
      if onClose && n != 1 then b.fail s!"close callback ran {n} times for accepted connection {k}"
      else if !onClose && n != 0 then b.fail "close callback ran although it is not set" else b) b
    let b := calls.foldl (fun b (k, f) =>
      if f.length > 1 then b.fail s!"close callback ran {f.length} times for connection {k}"
      else if !onClose then b.fail "close callback ran although it is not set" else b) b
    let b := b.rejected.foldl (fun b k =>
      if calls.any (·.1 == k) then b.fail s!"close callback ran for rejected connection {k}" else b) b
    .pred b.ok ("C17: " ++ b.why)
  | _ => .pred false "unreadable output"

def SrvOp.judge (prop : String) (op : SrvOp) (out : String) : Expect :=
  -- C16 ("a panicking handler never terminates the process or disturbs other connections") uses the same oracle
  -- C15: "bytes left over from one request never corrupt the handling of the next" - also across connections
  if prop == "C17" || prop == "C16" || prop == "C15" || prop == "C18" then judgeC17 op out else .noPanic

end Modbus.Driver
