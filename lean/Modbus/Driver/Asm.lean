import Modbus.Driver.JudgePacket
import Modbus.Model.Assembler
/-
  `asm` operations: a sequence of reads fed to one `ModbusTCPAssembler` (one connection).
     asm <handler dev|typed|generic|panic|mix> <chunk|chunk|...>      (hex chunks, each non-empty)
  output: <reply hex>/<close 0|1>,...   one entry per read, until the connection is closed;
          a panicking handler ends the connection: the entry is PANIC
-/
namespace Modbus.Driver
open Modbus Modbus.Model

def devBytes (addr : UInt16) (n : Nat) : Bytes := (List.range n).map fun i => UInt8.ofNat ((addr.toNat + i) % 256)

/-- the conforming device used as handler by both sides -/
def devResponse : Req → Resp
  | .read fc u a q =>
    if fc == 1 || fc == 2 then
      let n := (q.toNat + 7) / 8
      .bits fc u (UInt8.ofNat n) (devBytes a n)
    else .regs fc u (UInt8.ofNat (2 * q.toNat)) (devBytes a (2 * q.toNat))
  | .wcoil u a s => .wcoil u a s
  | .wreg u a d0 d1 => .wreg u a d0 d1
  | .wcoils u a c _ => .wmulti 15 u a c
  | .wregs u a c _ => .wmulti 16 u a c
  | .sid u => .sid u 0xFF [u, 1] none
  | .rw u ra rq _ _ _ => .regs 23 u (UInt8.ofNat (2 * rq.toNat)) (devBytes ra (2 * rq.toNat))

def handlerOf (kind : String) : Handler := fun _ req =>
  if kind == "dev" then .resp (devResponse req)
  else if kind == "typed" then .typedErr 2
  -- a typed error that carries its own (foreign) transaction id, unit id and function: only its code may be used
  else if kind == "typedp" then .typedErr 6
  else if kind == "generic" then .genericErr
  else if kind == "panic" then .panics
  else -- mix: by unit id
    match req.unit.toNat % 4 with
    | 1 => .typedErr 2
    | 2 => .genericErr
    | _ => .resp (devResponse req)

structure AsmOp where
  handler : String
  chunks : List Bytes

def parseAsmOp (ts : List String) : Option AsmOp :=
  match ts with
  | ["asm", h, cs] => do pure { handler := h, chunks := ← (cs.splitOn "|").mapM unhex }
  | _ => none

def asmOutStr (o : AsmOut) : String :=
  if o.panicked then "PANIC" else s!"{hex o.reply}/{if o.close then 1 else 0}"

def AsmOp.modelOut (op : AsmOp) : String :=
  ",".intercalate ((connLoop (handlerOf op.handler) op.chunks []).map asmOutStr)

/-! ## oracles -/

/-- the ideal framer: split the stream at 6 + length field (specification of the MBAP framing);
returns complete frames and the remaining bytes -/
def idealFrames : Nat → Bytes → List Bytes × Bytes
  | 0, s => ([], s)
  | fuel + 1, s =>
    if s.length < 6 then ([], s) else
    let n := 6 + (s.getD 4 0).toNat * 256 + (s.getD 5 0).toNat
    if s.length < n then ([], s) else
    let (fs, rest) := idealFrames fuel (s.drop n)
    (s.take n :: fs, rest)

/-- the single reply of a frame when it arrives whole on a fresh connection -/
def wholeReply (h : Handler) (frame : Bytes) : Option Bytes :=
  match connLoop h [frame] [] with
  | [o] => if o.panicked then none else some o.reply
  | _ => none

/-- frames the framing clause speaks about: protocol id 0, length field ≥ 3 (2 for FC17), a function byte ≠ 0 -/
def plausibleFrame (f : Bytes) : Bool :=
  f.length ≥ 9 && f.getD 2 1 == 0 && f.getD 3 1 == 0 && f.getD 7 0 != 0

/-- the 8-byte read-server-id request -/
def isFC17Request (f : Bytes) : Bool :=
  f.length == 8 && f.getD 7 0 == 17 && f.getD 2 1 == 0 && f.getD 3 1 == 0

/-- C15: every request is answered exactly once, in order, only after it is complete -/
def judgeC15 (op : AsmOp) (out : String) : Expect :=
  if op.handler == "panic" then .free else
  let h := handlerOf op.handler
  let stream := op.chunks.flatten
  let (frames, _) := idealFrames (stream.length + 1) stream
  if frames.any isFC17Request then .pred false "the read-server-id request must be answered like any other request" else
  if !(frames.all plausibleFrame) then .noPanic else
  -- expected output per read: the replies of the frames that become complete with that read
  let ends := (frames.foldl (fun (acc : List Nat × Nat) f => (acc.1 ++ [acc.2 + f.length], acc.2 + f.length)) ([], 0)).1
  let replies := frames.map (wholeReply h)
  if replies.any (·.isNone) then .noPanic else
  let bounds := (op.chunks.foldl (fun (acc : List (Nat × Nat) × Nat) c =>
    (acc.1 ++ [(acc.2, acc.2 + c.length)], acc.2 + c.length)) ([], 0)).1
  let exp := bounds.map fun (lo, hi) =>
    let rs := (ends.zip replies).filterMap fun (e, r) => if lo < e && e ≤ hi then r else none
    hex rs.flatten ++ "/0"
  .pred (out == ",".intercalate exp)
    s!"each request must be answered exactly once, in order, when it is complete: {",".intercalate exp}"

/-- C16: every reply to a complete frame is a well-formed ADU addressed to the request -/
def judgeC16 (op : AsmOp) (out : String) : Expect :=
  match op.chunks with
  | [frame] =>
    if isFC17Request frame then .pred false "the read-server-id request must be answered with a response" else
    if !plausibleFrame frame then .noPanic else
    let lf := (frame.getD 4 0).toNat * 256 + (frame.getD 5 0).toNat
    if frame.length != 6 + lf then .noPanic else
    if op.handler == "panic" then .free else
    let fc := frame.getD 7 0
    if fc.toNat ≥ 128 then .noPanic else
    match out.splitOn "/" with
    | [rh, _] =>
      match unhex rh with
      | none => .pred false "unreadable reply (panic?)"
      | some reply =>
        let idsOk := reply.take 2 == frame.take 2 && (reply.drop 2).take 2 == [0, 0] && reply.getD 6 0 == frame.getD 6 0 &&
          reply.length ≥ 8 && (reply.getD 4 0).toNat * 256 + (reply.getD 5 0).toNat == reply.length - 6
        let isExc := reply.getD 7 0 == fc + 128
        let supported := supportedFunctionCodes.contains fc
        let pduIllegal := Spec.pduQuantityIllegal (frame.drop 7)
        let ok :=
          if !idsOk then false
          else if isExc then
            reply.length == 9 &&
            (if !supported then reply.getD 8 0 == 1
             else if pduIllegal then reply.getD 8 0 == 3
             else true)
          else reply.getD 7 0 == fc && supported && !pduIllegal
        .pred ok "the reply must be a well-formed ADU with the request's transaction id and unit id; exceptions are 9 bytes, function|0x80, code 1 for unsupported functions and 3 for out-of-range values"
    | _ => .pred false "unreadable output"
  | _ => .noPanic

def AsmOp.judge (prop : String) (op : AsmOp) (out : String) : Expect :=
  if prop == "C15" then judgeC15 op out
  -- C16: a request that arrives in pieces gets the same single reply (nothing is sent for a part of it);
  -- C18: what the classifier accepts is dispatched only once the announced number of bytes is there
  else if prop == "C16" then (if op.chunks.length > 1 then judgeC15 op out else judgeC16 op out)
  else if prop == "C18" then judgeC15 op out
  -- C10: the assembler is the consumer of the dispatcher's errors; whatever the bytes, it does not panic
  else if prop == "C10" then .pred ((out.splitOn "PANIC").length == 1) "the assembler must not panic on any input"
  else .noPanic

def AsmOp.kf (prop : String) (op : AsmOp) : Option String :=
  -- the FC17 request (length field 2) is rejected by the classifier: test-pinned (KF-C18-fc17)
  let stream := op.chunks.flatten
  let (frames, _) := idealFrames (stream.length + 1) stream
  if (prop == "C15" || prop == "C16" || prop == "C18") && frames.any isFC17Request then
    some (if prop == "C15" then "KF-C15-fc17" else if prop == "C16" then "KF-C16-fc17" else "KF-C18-fc17") else none

end Modbus.Driver
