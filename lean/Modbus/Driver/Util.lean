import Modbus.Basic
import Modbus.Model.Types
/-
  Driver utilities: token parsing, expectation patterns, verdicts.
-/
namespace Modbus.Driver
open Modbus Modbus.Model

def tokNat (s : String) : Option Nat := s.toNat?

def tokU8 (s : String) : Option UInt8 := (s.toNat?).map UInt8.ofNat
def tokU16 (s : String) : Option UInt16 := (s.toNat?).map UInt16.ofNat
def tokBool (s : String) : Option Bool :=
  if s == "1" then some true else if s == "0" then some false else none

/-- "-" or a string of '0'/'1' -/
def tokBits (s : String) : Option (List Bool) :=
  if s == "-" then some [] else
  s.toList.mapM fun c => if c == '1' then some true else if c == '0' then some false else none

/-- hex, or `z<N>` = N zero bytes (returned as length only when large) -/
def tokData (s : String) : Option (Bytes × Nat) :=
  if s.startsWith "z" then
    match (s.drop 1).toString.toNat? with
    | some n => if n ≤ 4096 then some (List.replicate n 0, n) else some ([], n)
    | none => none
  else (unhex s).map fun b => (b, b.length)

def tokFraming (s : String) : Option Framing :=
  if s == "t" then some .tcp else if s == "r" then some .rtu else none

/-- What a property demands of the output of one operation. -/
inductive Expect where
  /-- exactly this canonical output -/
  | exact (s : String)
  /-- one of these -/
  | oneOf (ss : List String)
  /-- any error return: not a value, not a panic -/
  | anyErr
  /-- anything but a panic / crash / hang -/
  | noPanic
  /-- the property says nothing about this operation -/
  | free
  /-- custom predicate already evaluated -/
  | pred (ok : Bool) (why : String)

def isPanicStr (s : String) : Bool :=
  s.startsWith "PANIC" || s.startsWith "CRASH" || s.startsWith "HANG"

def Expect.holds (e : Expect) (out : String) : Bool :=
  match e with
  | .exact s => out == s
  | .oneOf ss => ss.contains out
  | .anyErr => out.startsWith "err"
  | .noPanic => !isPanicStr out
  | .free => true
  | .pred ok _ => ok

def Expect.descr : Expect → String
  | .exact s => s!"expected exactly: {s}"
  | .oneOf ss => s!"expected one of: {ss}"
  | .anyErr => "expected an error return"
  | .noPanic => "expected no panic"
  | .free => "unconstrained"
  | .pred _ why => why

def resStr {α} (f : α → String) : PRes α → String
  | .ok a => "ok " ++ f a
  | .err e => e.str
  | .panic => "PANIC"

end Modbus.Driver
