import Modbus.Driver.Extract
/-
  `xf` operations: ExtractFields on a request value the caller put together itself - fields in any order.
     xf <r|c> <lenient 0|1> <start> <payload hex> <fields>
  output: <first call> | <the same call again> | solo:<every field alone, fresh copy> | payload=<same|CHANGED>
-/
namespace Modbus.Driver
open Modbus Modbus.Model

structure XfOp where
  coils : Bool
  lenient : Bool
  start : UInt16
  payload : Bytes
  fields : List Field

def parseXfOp (ts : List String) : Option XfOp :=
  match ts with
  | ["xf", k, l, s, p, fs] => do
    pure { coils := k == "c", lenient := ← tokBool l, start := ← tokU16 s, payload := ← unhex p, fields := ← tokFields fs }
  | _ => none

def xfStr : Extracted → String
  | .all vs => "all " ++ ",".intercalate (vs.map fvStr)
  | .some_ vs => "some " ++ ",".intercalate (vs.map fvStr)
  | .failed => "failed "
  | .panicked => "PANIC"

def XfOp.run (op : XfOp) (fs : List Field) (lenient : Bool) : Extracted :=
  let b : BReq := { server := "x", unit := 1, start := op.start, req := .sid 1, fields := fs }
  if op.coils then extractCoilFields b op.payload lenient
  else extractRegisterFields b ⟨op.payload, []⟩ lenient

def XfOp.modelOut (op : XfOp) : String :=
  let call := xfStr (op.run op.fields op.lenient)
  let solo := op.fields.map fun f =>
    match op.run [f] true with
    | .all vs => ",".intercalate (vs.map fvStr)
    | .some_ vs => ",".intercalate (vs.map fvStr)
    | .failed => "!refused"
    | .panicked => "PANIC"
  s!"{call} | {call} | solo:{",".intercalate solo} | payload=same"

/-- the oracle relates the implementation's own answers: the same call twice, every field alone, the payload -/
def XfOp.judge (prop : String) (op : XfOp) (out : String) : Expect :=
  if !(prop == "C13" || prop == "C05" || prop == "C11" || prop == "C04") then .noPanic else
  match out.splitOn " | " with
  | [first, second, solo, pay] =>
    if isPanicStr first || isPanicStr second then .pred false "ExtractFields must not panic" else
    if pay != "payload=same" then .pred false "extraction changed the payload bytes of the response" else
    if (first.splitOn "RETAINED-RESULT-CHANGED").length > 1 then
      .pred false "the values returned by an extraction were rewritten by the extractions made after it" else
    if first != second then .pred false "repeating the same extraction gave another result" else
    let soloVals := if solo == "solo:" then [] else ((solo.drop 5).toString.splitOn ",")
    let anyErr := soloVals.any fun s => s.endsWith "=!err"
    if soloVals.any isPanicStr then .pred false "ExtractFields must not panic" else
    if soloVals.any (· == "!refused") then
      -- the response is refused as a whole: legitimate only when there is no register view of the payload
      (if !op.coils && op.payload.length ≥ 2 && op.payload.length % 2 == 0 && op.start.toNat + op.payload.length / 2 ≤ 65536 then
        .pred false "a response that holds whole registers was refused as a whole"
       else if op.coils && op.payload.length ≥ 1 then .pred false "a coil response with a payload was refused as a whole"
       else .noPanic) else
    -- register fields: the value of a field alone is the specified decoding of its registers
    let specBad := if op.coils || op.start.toNat + op.payload.length / 2 > 65536 then none else
      (List.zip op.fields soloVals).findSome? fun (f, sv) =>
        match f.acc with
        | none => if sv == s!"{f.name}=!err" then none else some s!"field {f.name} has no decoding, got {sv}"
        | some a =>
          let want := match Spec.access 9 op.payload op.start.toNat a f.addr.toNat with
            | some v => s!"{f.name}={v.str'}"
            | none => s!"{f.name}=!err"
          if sv == want then none else some s!"field {f.name} alone: expected {want} (the specified decoding of its registers), got {sv}"
    if let some w := specBad then .pred false w else
    let want :=
      if anyErr && !op.lenient then "failed "
      else (if anyErr then "some " else "all ") ++ ",".intercalate soloVals
    .pred (first == want)
      s!"every field must be reported with the value it has when extracted alone, in the order given, and the error flag must be set exactly when one of them failed: {want}"
  | _ => .pred false "unreadable output"

end Modbus.Driver
