import Modbus.Driver.Util
import Modbus.Model.Builder
import Modbus.Spec.Frames
/-
  `split` operations:   split <target 0..7> <field;field;...>
     field = name,server,unit,addr,type,bit,hi,len,order      ("-" = empty server / no fields)
  output: ok <req>;<req>...   sorted by (server, unit, start), or an error
     req  = server|unit|start|qty|<packet bytes, transaction id zeroed>|name,name,...
-/
namespace Modbus.Driver
open Modbus Modbus.Model

def tokField (s : String) : Option Field :=
  match s.splitOn "," with
  | [name, server, unit, addr, type, bit, hi, len, order] => do
    pure { name, server := if server == "-" then "" else server, unit := ← tokU8 unit, addr := ← tokU16 addr,
           type := ← tokU8 type, bit := ← tokU8 bit, fromHigh := ← tokBool hi, length := ← tokU8 len,
           order := ← tokU8 order }
  | _ => none

def tokFields (s : String) : Option (List Field) :=
  if s == "-" then some [] else (s.splitOn ";").mapM tokField

structure SplitOp where
  target : Nat
  fields : List Field

def parseSplitOp (ts : List String) : Option SplitOp :=
  match ts with
  | ["split", t, fs] => do pure { target := ← tokNat t, fields := ← tokFields fs }
  | _ => none

def zeroTid (fr : Framing) (b : Bytes) : Bytes :=
  match fr with
  | .tcp => [0, 0] ++ b.drop 2
  | .rtu => b

def qtyOf : Req → Nat
  | .read _ _ _ q => q.toNat
  | _ => 0

def breqStr (fr : Framing) (b : BReq) : String :=
  s!"{b.server}|{b.unit}|{b.start}|{qtyOf b.req}|{hex (zeroTid fr (b.req.bytes fr 0))}|{",".intercalate (b.fields.map (·.name))}"

def breqLt (a b : BReq) : Bool :=
  a.server < b.server || (a.server == b.server && (a.unit < b.unit || (a.unit == b.unit && a.start < b.start)))

def insertBy {α} (lt : α → α → Bool) (x : α) : List α → List α
  | [] => [x]
  | y :: rest => if lt y x then y :: insertBy lt x rest else x :: y :: rest

def sortBy {α} (lt : α → α → Bool) : List α → List α
  | [] => []
  | x :: rest => insertBy lt x (sortBy lt rest)

def SplitOp.modelOut (op : SplitOp) : String :=
  match split op.fields op.target with
  | .ok rs =>
    if rs.isEmpty then "ok -" else
    "ok " ++ ";".intercalate ((sortBy breqLt rs).map (breqStr (targetFraming op.target)))
  | .err e => e.str
  | .panic => "PANIC"

/-! ## the C06 oracle: an independent check of the nine clauses on the implementation's output -/

structure OutReq where
  server : String
  unit : Nat
  start : Nat
  qty : Nat
  bytes : Bytes
  names : List String

def parseOutReq (s : String) : Option OutReq :=
  match s.splitOn "|" with
  | [server, unit, start, qty, bytes, names] => do
    pure { server, unit := ← tokNat unit, start := ← tokNat start, qty := ← tokNat qty, bytes := ← unhex bytes,
           names := if names == "" then [] else names.splitOn "," }
  | _ => none

def parseOut (out : String) : Option (List OutReq) :=
  if out == "ok -" then some []
  else if out.startsWith "ok " then ((out.drop 3).toString.splitOn ";").mapM parseOutReq
  else none

/-- (why, ok) of the nine clauses -/
def checkSplit (op : SplitOp) (rs : List OutReq) : Option String :=
  let coils := targetCoils op.target
  let limit := if coils then 2000 else 125
  let fr := targetFraming op.target
  let fc := targetFC op.target
  let kind := op.fields.filter fun f => f.isCoil == coils
  -- names identify a field among the fields of ITS device: the same name may be used on several devices
  let allKeys := rs.flatMap fun r => r.names.map fun n => (n, r.server, r.unit)
  let findIn (r : OutReq) (n : String) : Option Field :=
    (op.fields.find? fun f => f.name == n && f.server == r.server && f.unit.toNat == r.unit).orElse
      fun _ => op.fields.find? (·.name == n)
  -- (1) every field of the kind exactly once, (9) nothing else
  -- (a definition given twice under one name on one device is listed twice)
  if !(kind.all fun f => (allKeys.filter (· == (f.name, f.server, f.unit.toNat))).length
        == (kind.filter fun g => (g.name, g.server, g.unit) == (f.name, f.server, f.unit)).length) then some "(1) a field of the requested kind is missing or duplicated"
  else if !(allKeys.all fun k => (kind.any fun f => (f.name, f.server, f.unit.toNat) == k)) then some "(9) a field of the other kind (or unknown) appears"
  else
  rs.findSome? fun r =>
    let fs := r.names.filterMap (findIn r)
    if r.names.isEmpty then some "(7) empty request"
    else if !(fs.all fun f => f.server == r.server && f.unit.toNat == r.unit) then some "(2) request targets another server/unit than its field"
    else if !(fs.all fun f => r.start ≤ f.addr.toNat && f.addr.toNat + f.size ≤ r.start + r.qty) then some "(3) field span outside the request window"
    else if !(fs.any (fun f => f.addr.toNat == r.start) && fs.any (fun f => f.addr.toNat + f.size == r.start + r.qty)) then some "(4) window not tight"
    else if !(1 ≤ r.qty && r.qty ≤ limit) then some "(5) quantity outside 1..limit"
    else if zeroTid fr (Spec.adu fr 0 { fc := fc, unit := UInt8.ofNat r.unit, addr := UInt16.ofNat r.start, qty := UInt16.ofNat r.qty }) != r.bytes then
      some "(6) packet does not carry the descriptor's unit/start/quantity"
    else
      -- (8) never split when the whole group fits
      let grp := kind.filter fun f => f.server == r.server && f.unit.toNat == r.unit
      let lo := grp.foldl (fun m f => min m f.addr.toNat) 70000
      let hi := grp.foldl (fun m f => max m (f.addr.toNat + f.size)) 0
      let nreq := (rs.filter fun q => q.server == r.server && q.unit == r.unit).length
      if hi - lo ≤ limit && nreq != 1 then some "(8) a group whose span fits the limit was split"
      else none

def judgeC06 (op : SplitOp) (out : String) : Expect :=
  if out.startsWith "err" then .free else
  match parseOut out with
  | none => .pred false "unreadable output or panic"
  | some rs =>
    match checkSplit op rs with
    | none => .pred true ""
    | some why => .pred false why

def SplitOp.judge (prop : String) (op : SplitOp) (out : String) : Expect :=
  if prop == "C06" then judgeC06 op out else .noPanic

end Modbus.Driver
