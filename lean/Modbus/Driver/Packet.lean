import Modbus.Driver.Util
import Modbus.Model.Response
import Modbus.Spec.Frames
/-
  Packet-level operations of the line protocol: model output per operation.
-/
namespace Modbus.Driver
open Modbus Modbus.Model

def tcpReqStr (x : UInt16 × Req) : String :=
  s!"tid={x.1} {x.2.str} re={hex (x.2.bytesTCP x.1)}"
def rtuReqStr (r : Req) : String := s!"{r.str} re={hex r.bytesRTU}"
def tcpRespStr (x : UInt16 × Resp) : String :=
  s!"tid={x.1} {x.2.str} re={hex (x.2.bytesTCP x.1)}"
def rtuRespStr (r : Resp) : String := s!"{r.str} re={hex r.bytesRTU}"

def looksStr : Res Unit (Nat × Option PErr) → String
  | .ok (n, none) => s!"n={n} nil"
  | .ok (n, some e) => s!"n={n} {e.str}"
  | _ => "PANIC"

def asErrStr : PRes (Option PErr) → String
  | .ok none => "nil"
  | .ok (some e) => e.str
  | .err e => e.str
  | .panic => "PANIC"

def fcOfEntry (entry : String) : Option UInt8 :=
  match entry.splitOn "." with
  | [_, n] => tokU8 n
  | _ => none

/-- model output of one parse entry point on one Go slice -/
def parseEntry (entry : String) (s : Slice) : Option String :=
  if entry == "mbap" then some (resStr (fun t => s!"tid={t}") (parseMBAP s))
  else if entry == "looks" then some (looksStr (looksLike s false))
  else if entry == "looksU" then some (looksStr (looksLike s true))
  else if entry == "aserrT" then some (asErrStr (asTCPErrorPacket s))
  else if entry == "aserrR" then some (asErrStr (asRTUErrorPacket s))
  else if entry == "aserrRC" then some (asErrStr (asRTUErrorPacketWithCRC s))
  else if entry == "reqT" then some (resStr tcpReqStr (parseTCPRequest s))
  else if entry == "reqR" then some (resStr rtuReqStr (parseRTURequest s))
  else if entry == "reqRC" then some (resStr rtuReqStr (parseRTURequestWithCRC s))
  else if entry == "respT" then some (resStr tcpRespStr (parseTCPResponse s))
  else if entry == "respR" then some (resStr rtuRespStr (parseRTUResponse s))
  else if entry == "respRC" then some (resStr rtuRespStr (parseRTUResponseWithCRC s))
  else if entry.startsWith "reqT." then (fcOfEntry entry).map fun fc => resStr tcpReqStr (parseReqTCPfc fc s)
  else if entry.startsWith "reqR." then (fcOfEntry entry).map fun fc => resStr rtuReqStr (parseReqRTUfc fc s)
  else if entry.startsWith "respT." then (fcOfEntry entry).map fun fc => resStr tcpRespStr (parseRespTCPfc fc s)
  else if entry.startsWith "respR." then (fcOfEntry entry).map fun fc => resStr rtuRespStr (parseRespRTUfc fc s)
  else none

/-- `newreq`/`rt` argument tokens: fc framing tid unit addr qty state waddr data coils -/
def tokNewArgs (ts : List String) : Option (Framing × UInt16 × NewArgs) :=
  match ts with
  | [fc, fr, tid, unit, addr, qty, state, waddr, data, coils] => do
    let fc ← tokU8 fc
    let fr ← tokFraming fr
    let tid ← tokU16 tid
    let unit ← tokU8 unit
    let addr ← tokU16 addr
    let qty ← tokU16 qty
    let state ← tokBool state
    let waddr ← tokU16 waddr
    let (d, n) ← tokData data
    let coils ← tokBits coils
    pure (fr, tid, { fc, unit, addr, qty, state, waddr, data := d, dataLen := n, coils })
  | _ => none

def newreqOut (fr : Framing) (tid : UInt16) (a : NewArgs) : String :=
  match newReq a with
  | .ok r => s!"ok bytes={hex (r.bytes fr tid)} explen={r.expLen fr}"
  | .err e => e.str
  | .panic => "PANIC"

/-- the parse entries a constructed request is sent through by the `rt` operation -/
def rtEntries (fr : Framing) (fc : UInt8) : List (String × Bool) :=
  match fr with
  | .tcp => [(s!"reqT.{fc}", false), ("reqT", false)]
  | .rtu => [(s!"reqR.{fc}", false), ("reqR", false), ("reqRC", false), (s!"reqR.{fc}", true)]

def rtOut (fr : Framing) (tid : UInt16) (a : NewArgs) : String :=
  match newReq a with
  | .ok r =>
    let bs := r.bytes fr tid
    let parts := (rtEntries fr a.fc).map fun (e, strip) =>
      let d := if strip then bs.take (bs.length - 2) else bs
      let nm := if strip then e ++ "-nocrc" else e
      s!"{nm}={(parseEntry e { vis := d, spare := [] }).getD "?"}"
    s!"ok bytes={hex bs} | " ++ " | ".intercalate parts
  | .err e => e.str
  | .panic => "PANIC"

def bitsStr (bs : List Bool) : String :=
  if bs.isEmpty then "-" else String.ofList (bs.map fun b => if b then '1' else '0')

def iscoilOut (data : Bytes) (start addr : UInt16) : String :=
  resStr (fun b => if b then "1" else "0") (isBitSet data start addr)

end Modbus.Driver
