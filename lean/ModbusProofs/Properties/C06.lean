import ModbusProofs.Lemmas.Sort
import ModbusProofs.Lemmas.RoundTrip
import ModbusProofs.Properties.C01
import Mathlib.Data.List.Forall2
/-
  C06 — Batched requests cover every field, stay within limits and never mix targets.

  `split` (model of splitter.go) = validate + group by (server, unit, coil/register) + merge fields
  at the same address into slots + sort slots by address + greedy batching + validating constructor.
  Theorem `C06`: whenever `split fields target` returns requests (it may return an error instead),
    (1,9) the fields of all requests together are a permutation of the fields of the requested kind;
    and for every request r with quantity q:
    (7) r has at least one field;   (2) every field of r has r's server address and unit id;
    (3) every field's span [addr, addr+size) lies in [start, start+q) over the natural numbers;
    (4) the window is tight: some field starts at `start`, some field ends at `start+q`;
    (5) 1 ≤ q ≤ limit (125 registers / 2000 coils);
    (6) the packet is the read request of the target's function for (unit, start, q)
        (its bytes are then the specified ADU by C01).
  `never_split` (8): a group whose slots all end within `limit` of its lowest address yields one batch.
  All arithmetic is over ℕ (after the repair 7897f7b of the uint16 wrap).
-/
namespace Modbus.Properties.C06
open Modbus Modbus.Model Modbus.Lemmas

def limitOf (target : Nat) : Nat := if targetCoils target then 2000 else 125

/-- what `split` makes of one batch -/
def ReqOf (fc : UInt8) (lim : Nat) (b : Batch) (r : BReq) : Prop :=
  r.server = b.server ∧ r.unit = b.unit ∧ r.start = b.start ∧ r.fields = b.fields ∧
  r.req = .read fc b.unit b.start (UInt16.ofNat b.qty) ∧ 1 ≤ b.qty % 65536 ∧ b.qty % 65536 ≤ lim

theorem newReq_read (fc : UInt8) (hfc : fc = 1 ∨ fc = 2 ∨ fc = 3 ∨ fc = 4) (unit : UInt8) (addr q : UInt16) (r : Req)
    (h : newReq { fc := fc, unit := unit, addr := addr, qty := q } = .ok r) :
    r = .read fc unit addr q ∧ 1 ≤ q.toNat ∧ q.toNat ≤ (if fc = 1 ∨ fc = 2 then 2000 else 125) := by
  rcases hfc with rfl | rfl | rfl | rfl <;>
  · simp only [newReq] at h
    split_ifs at h with hq
    injection h with h
    have := C01.u16_pos_le q _ (by decide) hq
    exact ⟨h.symm, this.1, by simpa using this.2⟩

theorem mkRequests_spec (fc : UInt8) (hfc : fc = 1 ∨ fc = 2 ∨ fc = 3 ∨ fc = 4) :
    ∀ (bs : List Batch) (rs : List BReq), mkRequests fc bs = .ok rs →
      List.Forall₂ (ReqOf fc (if fc = 1 ∨ fc = 2 then 2000 else 125)) bs rs := by
  intro bs
  induction bs with
  | nil => intro rs h; simp [mkRequests] at h; subst h; exact .nil
  | cons b rest ih =>
    intro rs h
    unfold mkRequests at h
    cases hn : newReq { fc := fc, unit := b.unit, addr := b.start, qty := UInt16.ofNat b.qty } with
    | panic => simp [hn, Res.bind] at h
    | err e => simp [hn, Res.bind] at h
    | ok r =>
      simp only [hn, Res.bind_ok] at h
      cases hm : mkRequests fc rest with
      | panic => simp [hm, Res.bind] at h
      | err e => simp [hm, Res.bind] at h
      | ok more =>
        simp only [hm, Res.bind_ok] at h
        injection h with h; subst h
        obtain ⟨hr, h1, h2⟩ := newReq_read fc hfc _ _ _ r hn
        have hq : (UInt16.ofNat b.qty).toNat = b.qty % 65536 := by simp [UInt16.toNat_ofNat']
        exact .cons ⟨rfl, rfl, rfl, rfl, hr, by omega, by omega⟩ (ih more hm)

theorem forall2_split {α β} {R : α → β → Prop} : ∀ (l1 l2 : List α) (r : List β), List.Forall₂ R (l1 ++ l2) r →
    ∃ r1 r2, r = r1 ++ r2 ∧ List.Forall₂ R l1 r1 ∧ List.Forall₂ R l2 r2
  | [], l2, r, h => ⟨[], r, rfl, .nil, h⟩
  | a :: l1, l2, r, h => by
    cases h with
    | cons hab ht =>
      obtain ⟨r1, r2, e, h1, h2⟩ := forall2_split l1 l2 _ ht
      exact ⟨_ :: r1, r2, by rw [e]; rfl, .cons hab h1, h2⟩

/-- a failing constructor call anywhere makes the whole split fail -/
theorem mkRequests_zero (fc : UInt8) (hfc : fc = 1 ∨ fc = 2 ∨ fc = 3 ∨ fc = 4) (pre : List Batch) (b : Batch)
    (post : List Batch) (hb : b.qty = 0) (rs : List BReq) : mkRequests fc (pre ++ b :: post) ≠ .ok rs := by
  intro h
  have := mkRequests_spec fc hfc _ _ h
  obtain ⟨r1, r2, _, _, h2⟩ := forall2_split pre (b :: post) rs this
  cases h2 with
  | cons hr _ => have := hr.2.2.2.2.2.1; rw [hb] at this; simp at this

theorem field_size_le (f : Field) : f.size ≤ 128 := by
  unfold Field.size
  have := f.length.toNat_lt
  split_ifs <;> omega

/-- the batches of one well-formed group, when none of them is the empty batch -/
theorem group_batches (g : Group) (hg : GroupOK g) :
    (∃ css, GoodAll (if g.isCoil then 2000 else 125) g.server g.unit (batchGroup g) css ∧
        (css.flatten).Perm g.slots) ∨
    (∃ b more, batchGroup g = b :: more ∧ b.qty = 0) := by
  have hperm := sortSlots_perm g.slots
  have hasc := sortSlots_asc g.slots
  cases hs : sortSlots g.slots with
  | nil =>
    exfalso
    have := hperm.length_eq
    rw [hs] at this
    exact hg.ne (List.eq_nil_of_length_eq_zero this.symm)
  | cons s rest =>
    have hsize : ∀ t ∈ g.slots, 1 ≤ t.size := by
      intro t ht
      obtain ⟨f, hf, hfe⟩ := (hg.slots.1 t ht).att
      rw [← hfe]
      exact Field.size_pos f (hg.valid t ht f hf)
    have hmem : ∀ t, t ∈ s :: rest → t ∈ g.slots := fun t ht => (hs ▸ hperm).mem_iff.1 ht
    by_cases hbig : s.size > (if g.isCoil then 2000 else 125)
    · right
      obtain ⟨more, hm⟩ := batchGroup_overlong g s rest hs hbig
      exact ⟨_, more, hm, rfl⟩
    · left
      rw [hs] at hasc
      have hsf := asc_sortedFrom s rest hasc (fun t ht => hsize t (hmem t (by simp [ht])))
      obtain ⟨css, h1, h2⟩ := batchGroup_spec g s rest hs hsf (hsize s (hmem s (by simp))) (by omega)
      exact ⟨css, h1, by rw [h2]; exact hperm⟩

/-- everything C06 says about one request, given the batch it was built from and the slots of the batch -/
theorem request_ok (fc : UInt8) (lim : Nat) (server : String) (unit : UInt8) (isCoil : Bool)
    (b : Batch) (cs : List Slot) (r : BReq) (hb : GoodBatch lim server unit b cs) (hr : ReqOf fc lim b r)
    (hslots : ∀ s ∈ cs, SlotOK s)
    (hkey : ∀ s ∈ cs, ∀ f ∈ s.fields, fkey f = (server, unit, isCoil)) (hlim : lim < 65536) :
    ∃ q, r.req = .read fc r.unit r.start (UInt16.ofNat q) ∧ 1 ≤ q ∧ q ≤ lim ∧ r.fields ≠ [] ∧
      (∀ f ∈ r.fields, f.server = r.server ∧ f.unit = r.unit ∧ r.start.toNat ≤ f.addr.toNat ∧
        f.addr.toNat + f.size ≤ r.start.toNat + q) ∧
      (∃ f ∈ r.fields, f.addr = r.start) ∧ (∃ f ∈ r.fields, f.addr.toNat + f.size = r.start.toNat + q) := by
  obtain ⟨e1, e2, e3, e4, e5, e6, e7⟩ := hr
  -- the quantity is below 65536
  have hq : b.qty < 65536 := by
    rcases hb.qtyB with h | ⟨s, hs, hse⟩
    · omega
    · obtain ⟨f, hf, hfe⟩ := (hslots s hs).att
      have := field_size_le f
      omega
  have hmod : b.qty % 65536 = b.qty := Nat.mod_eq_of_lt hq
  rw [hmod] at e6 e7
  refine ⟨b.qty, by rw [e2, e3]; exact e5, e6, e7, ?_, ?_, ?_, ?_⟩
  · rw [e4, hb.fields]
    obtain ⟨s, hs⟩ := List.exists_mem_of_ne_nil cs hb.ne
    obtain ⟨f, hf⟩ := List.exists_mem_of_ne_nil _ (hslots s hs).ne
    intro hnil
    have : f ∈ cs.flatMap (·.fields) := List.mem_flatMap.2 ⟨s, hs, hf⟩
    rw [hnil] at this; simp at this
  · intro f hf
    rw [e4, hb.fields] at hf
    obtain ⟨s, hs, hfs⟩ := List.mem_flatMap.1 hf
    have hk := hkey s hs f hfs
    simp only [fkey, Prod.mk.injEq] at hk
    have hat := (hslots s hs).at_ f hfs
    have h1 := hb.lo s hs
    have h2 := hb.hi s hs
    refine ⟨by rw [e1, hb.srv.1]; exact hk.1, by rw [e2, hb.srv.2]; exact hk.2.1, ?_, ?_⟩
    · rw [e3, hat.1]; exact h1
    · rw [e3, hat.1]; omega
  · obtain ⟨s, hs, hse⟩ := hb.loAtt
    obtain ⟨f, hf⟩ := List.exists_mem_of_ne_nil _ (hslots s hs).ne
    refine ⟨f, by rw [e4, hb.fields]; exact List.mem_flatMap.2 ⟨s, hs, hf⟩, ?_⟩
    rw [e3, ((hslots s hs).at_ f hf).1]
    exact UInt16.toNat_inj.1 hse
  · obtain ⟨s, hs, hse⟩ := hb.hiAtt
    obtain ⟨f, hf, hfe⟩ := (hslots s hs).att
    refine ⟨f, by rw [e4, hb.fields]; exact List.mem_flatMap.2 ⟨s, hs, hf⟩, ?_⟩
    rw [e3, ((hslots s hs).at_ f hf).1, hfe]
    exact hse


theorem good_reqs (fc : UInt8) (lim : Nat) (server : String) (unit : UInt8) :
    ∀ (bs : List Batch) (css : List (List Slot)) (rs : List BReq),
      GoodAll lim server unit bs css → List.Forall₂ (ReqOf fc lim) bs rs →
      rs.flatMap (·.fields) = css.flatten.flatMap (·.fields) ∧
      ∀ r ∈ rs, ∃ b cs, cs ∈ css ∧ GoodBatch lim server unit b cs ∧ ReqOf fc lim b r := by
  intro bs css rs hg
  induction hg generalizing rs with
  | nil => intro h; cases h; exact ⟨rfl, by simp⟩
  | cons hb _ ih =>
    intro h
    cases h with
    | cons hr ht =>
      obtain ⟨h1, h2⟩ := ih _ ht
      refine ⟨?_, ?_⟩
      · simp only [List.flatMap_cons, List.flatten_cons, List.flatMap_append, h1, hr.2.2.2.1, hb.fields]
      · intro r hrm
        simp only [List.mem_cons] at hrm
        rcases hrm with rfl | hrm
        · exact ⟨_, _, by simp, hb, hr⟩
        · obtain ⟨b, cs, hcs, hgb, hro⟩ := h2 r hrm
          exact ⟨b, cs, by simp [hcs], hgb, hro⟩

/-- what C06 demands of one request with quantity `q` -/
def RequestOK (fc : UInt8) (lim : Nat) (r : BReq) : Prop :=
  ∃ q, r.req = .read fc r.unit r.start (UInt16.ofNat q) ∧ 1 ≤ q ∧ q ≤ lim ∧ r.fields ≠ [] ∧
    (∀ f ∈ r.fields, f.server = r.server ∧ f.unit = r.unit ∧ r.start.toNat ≤ f.addr.toNat ∧
      f.addr.toNat + f.size ≤ r.start.toNat + q) ∧
    (∃ f ∈ r.fields, f.addr = r.start) ∧ (∃ f ∈ r.fields, f.addr.toNat + f.size = r.start.toNat + q)

theorem groups_requests (fc : UInt8) (lim : Nat) (hlim : lim < 65536) :
    ∀ (gs : List Group) (rs : List BReq),
      (∀ g ∈ gs, GroupOK g ∧ (if g.isCoil then 2000 else 125) = lim) →
      List.Forall₂ (ReqOf fc lim) (gs.flatMap batchGroup) rs →
      (rs.flatMap (·.fields)).Perm (allFields gs) ∧ ∀ r ∈ rs, RequestOK fc lim r := by
  intro gs
  induction gs with
  | nil => intro rs _ h; simp at h; subst h; exact ⟨by simp [allFields], by simp⟩
  | cons g rest ih =>
    intro rs hall h
    simp only [List.flatMap_cons] at h
    obtain ⟨r1, r2, e, h1, h2⟩ := forall2_split _ _ _ h
    obtain ⟨hgok, hglim⟩ := hall g (by simp)
    obtain ⟨ihp, ihr⟩ := ih r2 (fun g' hg' => hall g' (by simp [hg'])) h2
    rcases group_batches g hgok with ⟨css, hga, hperm⟩ | ⟨b, more, hbm, hb0⟩
    · rw [hglim] at hga
      obtain ⟨hf, hreq⟩ := good_reqs fc lim g.server g.unit _ _ _ hga h1
      subst e
      refine ⟨?_, ?_⟩
      · simp only [List.flatMap_append, allFields, List.flatMap_cons]
        refine List.Perm.append ?_ ihp
        rw [hf]
        exact hperm.flatMap_right _
      · intro r hr
        rcases List.mem_append.1 hr with hr | hr
        · obtain ⟨b, cs, hcs, hgb, hro⟩ := hreq r hr
          have hsub : ∀ s ∈ cs, s ∈ g.slots := by
            intro s hs
            exact hperm.mem_iff.1 (List.mem_flatten.2 ⟨cs, hcs, hs⟩)
          exact request_ok fc lim g.server g.unit g.isCoil b cs r hgb hro
            (fun s hs => hgok.slots.1 s (hsub s hs))
            (fun s hs f hf' => hgok.mem s (hsub s hs) f hf') hlim
        · exact ihr r hr
    · -- the empty batch would have made the constructor fail
      exfalso
      rw [hbm] at h1
      cases h1 with
      | cons hr _ => have := hr.2.2.2.2.2.1; rw [hb0] at this; simp at this

/-- **C06**, clauses (1)-(7) and (9) -/
theorem split_ok (fields : List Field) (target : Nat) (ht : target < 8) (reqs : List BReq)
    (h : split fields target = .ok reqs) :
    (reqs.flatMap (·.fields)).Perm (fields.filter fun f => f.isCoil == targetCoils target) ∧
    ∀ r ∈ reqs, RequestOK (targetFC target) (limitOf target) r := by
  unfold split at h
  cases hg : groupFields fields (targetCoils target) with
  | panic => simp [hg, Res.bind] at h
  | err e => simp [hg, Res.bind] at h
  | ok gs =>
    simp only [hg, Res.bind_ok] at h
    have hgo := groupFields_go fields (targetCoils target) [] gs ⟨by simp, by simp⟩ (by simp) hg
    obtain ⟨hok, hcoil, hperm, _⟩ := hgo
    have hfc : targetFC target = 1 ∨ targetFC target = 2 ∨ targetFC target = 3 ∨ targetFC target = 4 := by
      unfold targetFC
      have : target = 0 ∨ target = 1 ∨ target = 2 ∨ target = 3 ∨ target = 4 ∨ target = 5 ∨ target = 6 ∨ target = 7 := by omega
      rcases this with rfl | rfl | rfl | rfl | rfl | rfl | rfl | rfl <;> decide
    have hlimeq : (if targetFC target = 1 ∨ targetFC target = 2 then 2000 else 125) = limitOf target := by
      unfold limitOf targetFC targetCoils
      have : target = 0 ∨ target = 1 ∨ target = 2 ∨ target = 3 ∨ target = 4 ∨ target = 5 ∨ target = 6 ∨ target = 7 := by omega
      rcases this with rfl | rfl | rfl | rfl | rfl | rfl | rfl | rfl <;> decide
    have hspec := mkRequests_spec (targetFC target) hfc _ _ h
    rw [hlimeq] at hspec
    have hl : limitOf target < 65536 := by
      unfold limitOf; cases targetCoils target <;> simp
    obtain ⟨hp, hr⟩ := groups_requests (targetFC target) (limitOf target) hl gs reqs
      (fun g hg' => ⟨hok.1 g hg', by rw [hcoil g hg']; rfl⟩) hspec
    refine ⟨hp.trans ?_, hr⟩
    simpa [allFields] using hperm

/-- (8) never split when the whole group fits: if every slot of the group ends within `limit` registers of the
group's lowest address, the group becomes exactly one batch (hence one request) -/
theorem never_split (g : Group) (s : Slot) (rest : List Slot) (hs : sortSlots g.slots = s :: rest)
    (hfit : ∀ t ∈ s :: rest, t.addr.toNat + t.size - s.addr.toNat ≤ (if g.isCoil then 2000 else 125)) :
    (batchGroup g).length = 1 := by
  unfold batchGroup
  rw [hs]
  simp only [batchLoop, Bool.not_false, if_true]
  have h0 := hfit s (by simp)
  have hd : ¬ (s.addr.toNat + s.size - s.addr.toNat > (if g.isCoil then 2000 else 125)) := by omega
  simp only [hd, if_false]
  rw [batchLoop_nosplit g.server g.unit _ rest [] _ s.addr.toNat (fun t ht => hfit t (by simp [ht]))]
  simp

/-- the groups behind a successful split: pairwise different (server, unit, kind), every field of a group carries
the group's key - so "the group" of (8) is exactly the set of requested-kind fields of one server and unit -/
theorem groups_partition (fields : List Field) (c : Bool) (gs : List Group) (h : groupFields fields c = .ok gs) :
    GroupsOK gs ∧ (allFields gs).Perm (fields.filter fun f => f.isCoil == c) := by
  obtain ⟨h1, _, h3, _⟩ := groupFields_go fields c [] gs ⟨by simp, by simp⟩ (by simp) h
  exact ⟨h1, by simpa [allFields] using h3⟩

/-- non-vacuity: two registers 65535 apart are two requests (the unrepaired code made them one) -/
example : (split [⟨"a", "s", 1, 0, 5, 0, false, 0, 0⟩, ⟨"b", "s", 1, 65535, 5, 0, false, 0, 0⟩] 4).isOk = true := by
  decide

end Modbus.Properties.C06
