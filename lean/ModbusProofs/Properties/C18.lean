import ModbusProofs.Lemmas.Classifier
import Modbus.Driver.JudgePacket
/-
  C18 — The TCP stream classifier agrees with the encoders and the request parsers.

  (1) prefixes: for every encoded request frame, every prefix shorter than 8 bytes is "too short",
      every longer prefix (and the whole frame) is accepted with expected length = the frame's
      length = 6 + length field. Known finding (test-pinned): the 8-byte FC17 request (length
      field 2) is rejected by the `pduLen < 3` test - `C18_prefix_partial` excludes exactly FC17.
  (2) agreement: whatever the classifier accepts with expected length n is, once n bytes are
      available, either parsed by the dispatcher or refused with an error that encodes to a valid
      9-byte exception reply carrying the frame's transaction id, unit id and function code.
  (3) unsupported function codes are classified as such, with the matching illegal-function exception.
-/
namespace Modbus.Properties.C18
open Modbus Modbus.Model Modbus.Lemmas

/-- the first eight bytes of an encoded TCP request and its total length -/
theorem enc_header (tid : UInt16) (r : Req) :
    (r.bytesTCP tid).getD 0 0 = hi8 tid ∧ (r.bytesTCP tid).getD 1 0 = lo8 tid ∧
    (r.bytesTCP tid).getD 2 0 = 0 ∧ (r.bytesTCP tid).getD 3 0 = 0 ∧
    (r.bytesTCP tid).getD 4 0 = hi8 (UInt16.ofNat r.pdu.length) ∧
    (r.bytesTCP tid).getD 5 0 = lo8 (UInt16.ofNat r.pdu.length) ∧
    (r.bytesTCP tid).getD 6 0 = r.unit ∧ (r.bytesTCP tid).getD 7 0 = r.fc ∧
    (r.bytesTCP tid).length = 6 + r.pdu.length := by
  cases r <;> simp [Req.bytesTCP, Req.pdu, mbap, put16, Req.unit, Req.fc] <;> omega

/-- (1) every prefix of fewer than 8 bytes is reported as too short -/
theorem prefix_short (tid : UInt16) (r : Req) (k : Nat) (hk : k < 8) (sp : Bytes) :
    looksLike ⟨(r.bytesTCP tid).take k, sp⟩ false = .ok (0, some .tooShortT) :=
  looksLike_short _ _ _ (by simp; omega)

/-- (1) every prefix of at least 8 bytes of an encoded request other than FC17 is accepted with the
frame's true length -/
theorem C18_prefix_partial (tid : UInt16) (r : Req) (hl : 3 ≤ r.pdu.length ∧ r.pdu.length < 65536)
    (hfc : supportedFunctionCodes.contains r.fc = true) (k : Nat) (hk : 8 ≤ k) (sp : Bytes) :
    looksLike ⟨(r.bytesTCP tid).take k, sp⟩ false = .ok ((r.bytesTCP tid).length, none) := by
  obtain ⟨e0, e1, e2, e3, e4, e5, e6, e7, hlen⟩ := enc_header tid r
  have h8 : 8 ≤ ((r.bytesTCP tid).take k).length := by simp; omega
  rw [looksLike_eq _ _ _ h8]
  have hg : ∀ i, i < 8 → ((r.bytesTCP tid).take k).getD i 0 = (r.bytesTCP tid).getD i 0 := by
    intro i hi
    simp only [List.getD_eq_getElem?_getD, List.getElem?_take]
    rw [if_pos (by omega)]
  rw [hg 2 (by omega), hg 3 (by omega), hg 4 (by omega), hg 5 (by omega), hg 7 (by omega), hg 0 (by omega),
    hg 1 (by omega), hg 6 (by omega), e0, e1, e2, e3, e4, e5, e6, e7]
  simp only [be16_hi_lo]
  have hn : (UInt16.ofNat r.pdu.length).toNat = r.pdu.length := u16_ofNat_toNat _ hl.2
  have h3 : ¬ UInt16.ofNat r.pdu.length < 3 := by
    rw [UInt16.lt_iff_toNat_lt, hn]
    have : (3 : UInt16).toNat = 3 := by decide
    rw [this]; omega
  have hz : r.fc ≠ 0 := by
    intro h0; rw [h0] at hfc; simp [supportedFunctionCodes] at hfc
  simp only [and_self, not_true_eq_false, if_false, h3, hz, hfc, if_true, Bool.false_eq_true, hn]
  rw [hlen, Nat.add_comm]

/-- KF-C18-fc17: the FC17 request is rejected as "not Modbus" -/
theorem kf_fc17_witness :
    looksLike ⟨(Req.sid 1).bytesTCP 1, []⟩ false = .ok (0, some .notTCP) ∧
    Driver.kfC18 { fc := 17 } .tcp 8 = some "KF-C18-fc17" := by
  constructor <;> decide

/-- every request value other than FC17 has a PDU of at least 5 bytes: the partial theorem covers them all -/
theorem pdu_ge_three (r : Req) (h : r.fc ≠ 17) : 3 ≤ r.pdu.length := by
  cases r <;> simp [Req.pdu, put16, Req.fc] at *

/-- (2) agreement with the dispatcher: if the classifier accepts the header of `v` and `v` has exactly the
announced number of bytes, `ParseTCPRequest` returns a request or an exception addressed to that header -/
theorem agreement (v sp : Bytes) (n : Nat) (h8 : 8 ≤ v.length)
    (hl : looksLike ⟨v.take 8, []⟩ false = .ok (n, none)) (hn : v.length = n) :
    ErrOk (ErrFor v) (parseTCPRequest ⟨v, sp⟩) := by
  have h8' : 8 ≤ (v.take 8).length := by simp; omega
  rw [looksLike_eq _ _ _ h8'] at hl
  have hg : ∀ i, i < 8 → (v.take 8).getD i 0 = v.getD i 0 := by
    intro i hi
    simp only [List.getD_eq_getElem?_getD, List.getElem?_take]
    rw [if_pos hi]
  rw [hg 2 (by omega), hg 3 (by omega), hg 4 (by omega), hg 5 (by omega), hg 7 (by omega), hg 0 (by omega),
    hg 1 (by omega), hg 6 (by omega)] at hl
  by_cases h1 : v.getD 2 0 = 0 ∧ v.getD 3 0 = 0
  · by_cases h2 : be16 (v.getD 4 0) (v.getD 5 0) < 3
    · simp only [h1, and_self, not_true_eq_false, if_false, h2, if_true, Res.ok.injEq, Prod.mk.injEq,
        reduceCtorEq, and_false] at hl
    · by_cases h3 : v.getD 7 0 = 0
      · simp only [h1, and_self, not_true_eq_false, if_false, h2, h3, if_true, Res.ok.injEq, Prod.mk.injEq,
          reduceCtorEq, and_false] at hl
      · by_cases h4 : supportedFunctionCodes.contains (v.getD 7 0) = true
        · have hl' : (be16 (v.getD 4 0) (v.getD 5 0)).toNat + 6 = n := by
            simp only [h1, and_self, not_true_eq_false, if_false, h2, h3, h4, if_true, Bool.false_eq_true,
              Res.ok.injEq, Prod.mk.injEq, and_true] at hl
            exact hl
          have hm : MBAPrest v := by
            refine ⟨h1.1, h1.2, ?_, by omega⟩
            intro h0
            apply h2
            rw [h0]
            decide
          exact errfor_dispatch v sp h8 hm h4
        · simp only [h1, and_self, not_true_eq_false, if_false, h2, h3, h4, if_true, Bool.false_eq_true,
            Res.ok.injEq, Prod.mk.injEq, reduceCtorEq, and_false] at hl
  · simp only [h1, not_false_eq_true, if_true, Res.ok.injEq, Prod.mk.injEq, reduceCtorEq, and_false] at hl

/-- what `ErrFor` means on the wire: the error encodes to a 9-byte exception ADU with the frame's
transaction id, protocol id 0, length 3, the frame's unit id, function code + 0x80 and code 3 -/
theorem errFor_bytes (v : Bytes) (e : PErr) (h : ErrFor v e) :
    e.bytes = some (put16 (be16 (v.getD 0 0) (v.getD 1 0)) ++ [0, 0] ++ put16 3 ++
      [v.getD 6 0, v.getD 7 0 + 128, 3]) := by
  rw [h]; rfl

/-- (3) unsupported function codes (non-zero, header otherwise plausible) are classified together with the
matching illegal-function exception -/
theorem unsupported (v sp : Bytes) (h8 : 8 ≤ v.length) (hp : v.getD 2 0 = 0 ∧ v.getD 3 0 = 0)
    (hlen : ¬ be16 (v.getD 4 0) (v.getD 5 0) < 3) (hfc0 : v.getD 7 0 ≠ 0)
    (hun : supportedFunctionCodes.contains (v.getD 7 0) = false) :
    looksLike ⟨v, sp⟩ false = .ok ((be16 (v.getD 4 0) (v.getD 5 0)).toNat + 6,
      some (.tcp 1 (be16 (v.getD 0 0) (v.getD 1 0)) (v.getD 6 0) (v.getD 7 0))) := by
  rw [looksLike_eq _ _ _ h8]
  simp only [hp, and_self, not_true_eq_false, if_false, hlen, hfc0, hun, Bool.false_eq_true]

/-- non-vacuity of (2): a complete FC3 frame is accepted by the classifier -/
example : looksLike ⟨((Req.read 3 1 107 3).bytesTCP 0x8180).take 8, []⟩ false = .ok (12, none) := by decide

/-- what the classifier accepts (for every input of any length, any spare capacity): at least 8 bytes, protocol
identifier 0x0000 exactly (both bytes zero - not merely bytes that add up to zero), a length field of at least 3, a
supported function code, and the expected length is 6 + the length field -/
theorem accepted_header (v sp : Bytes) (n : Nat) (h : looksLike ⟨v, sp⟩ false = .ok (n, none)) :
    8 ≤ v.length ∧ v.getD 2 0 = 0 ∧ v.getD 3 0 = 0 ∧ ¬ be16 (v.getD 4 0) (v.getD 5 0) < 3 ∧
      supportedFunctionCodes.contains (v.getD 7 0) = true ∧ n = (be16 (v.getD 4 0) (v.getD 5 0)).toNat + 6 := by
  by_cases h8 : 8 ≤ v.length
  · rw [looksLike_eq _ _ _ h8] at h
    by_cases hp : v.getD 2 0 = 0 ∧ v.getD 3 0 = 0
    · rw [if_neg (fun hn => hn hp)] at h
      by_cases hl : be16 (v.getD 4 0) (v.getD 5 0) < 3
      · rw [if_pos hl] at h; injection h with h; injection h with _ h; cases h
      · rw [if_neg hl] at h
        by_cases h0 : v.getD 7 0 = 0
        · rw [if_pos h0] at h; injection h with h; injection h with _ h; cases h
        · rw [if_neg h0, if_neg (by decide)] at h
          by_cases hs : supportedFunctionCodes.contains (v.getD 7 0) = true
          · rw [if_pos hs] at h
            injection h with h; injection h with hn _
            exact ⟨h8, hp.1, hp.2, hl, hs, hn.symm⟩
          · rw [if_neg hs] at h; injection h with h; injection h with _ h; cases h
    · rw [if_pos hp] at h; injection h with h; injection h with _ h; cases h
  · rw [looksLike_short _ _ _ (by omega)] at h
    injection h with h; injection h with _ h; cases h

example : looksLike ⟨[0, 1, 0x01, 0xFF, 0, 6, 1, 3, 0, 0, 0, 1], []⟩ false = .ok (0, some .notTCP) := by decide

end Modbus.Properties.C18
