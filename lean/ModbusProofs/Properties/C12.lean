import ModbusProofs.Lemmas.ClientLoop
/-
  C12 — Over RTU, a bad-CRC reply is never surfaced as data or as a device exception.

  For the RTU network client and the serial client, for EVERY transport script (every corruption, truncation,
  extension and fragmentation is some script):
    * if the call returns a response, the frame it was parsed from ends with the CRC of its other bytes;
    * if the call returns a device exception, the five bytes it was recognised on end with their CRC - whether the
      read loop recognised it (`exception_has_crc`) or the response parser did (`parsed_exception_has_crc`).
  Contrapositive: bytes whose trailing CRC is inconsistent are never returned as a response or as a device
  exception. (Before the repair 31b1edb the exception shortcut of the read loop ran before any CRC check.)
-/
namespace Modbus.Properties.C12
open Modbus Modbus.Model Modbus.Lemmas

/-- a successful RTU call: the accumulated frame carries a matching CRC -/
theorem response_has_crc (k : ClientKind) (hk : k.framing = .rtu) (fl : Flusher) (hooks : Bool) (req : Bytes)
    (expected : Nat) (script : List Ev) (r : Resp) (t : Option UInt16)
    (h : (doExchange k fl hooks req expected false script).1 = .ok r t) :
    ∃ bs log, readLoop k fl expected script [] [] = (.frame bs, log) ∧ crcMatches bs = true := by
  unfold doExchange at h
  simp only [Bool.false_eq_true, if_false] at h
  cases hrl : readLoop k fl expected script [] [] with
  | mk out log =>
    rw [hrl] at h
    cases out with
    | err e => simp at h
    | frame bs =>
      refine ⟨bs, log, rfl, ?_⟩
      simp only [hk] at h
      by_cases hc : crcMatches bs = true
      · exact hc
      · exfalso
        have : parseRTUResponseWithCRC ⟨bs, []⟩ = .err .plain ∨ parseRTUResponseWithCRC ⟨bs, []⟩ = .err .badCRC := by
          unfold parseRTUResponseWithCRC
          dsimp only
          split_ifs <;> simp_all
        rcases this with hp | hp <;> rw [hp] at h <;> cases parseTCPResponse ⟨bs, []⟩ <;> simp at h

/-- a device exception returned by an RTU client was recognised on bytes with a matching CRC -/
theorem exception_has_crc (k : ClientKind) (hk : k.framing = .rtu) (fl : Flusher) (expected : Nat) (script : List Ev)
    (e : PErr) (log : List HookEv) (h : readLoop k fl expected script [] [] = (.err (.exc e), log)) :
    ∃ p, asProtocolError k p = some e ∧ crcMatches p = true := by
  obtain ⟨p, hp⟩ := readLoop_exc_src k fl expected script [] [] e log h
  exact ⟨p, hp, asProtocolError_rtu_crc k hk p e hp⟩

/-- the other way an exception can reach the caller: the read loop hands a frame to the parser and the PARSER reports
the exception (a read-server-id request expects 2 bytes, or the peer closes right after a 5-byte frame). Also then the
frame carries a matching CRC: the CRC is checked before anything else is looked at. -/
theorem parsed_exception_has_crc (k : ClientKind) (hk : k.framing = .rtu) (fl : Flusher) (hooks : Bool) (req : Bytes)
    (expected : Nat) (script : List Ev) (u fc c : UInt8)
    (h : (doExchange k fl hooks req expected false script).1 = .err (.parse (.excR u fc c))) :
    ∃ bs log, readLoop k fl expected script [] [] = (.frame bs, log) ∧ crcMatches bs = true := by
  unfold doExchange at h
  simp only [Bool.false_eq_true, if_false] at h
  cases hrl : readLoop k fl expected script [] [] with
  | mk out log =>
    rw [hrl] at h
    cases out with
    | err e =>
      -- errors of the read loop are never `parse` errors
      exfalso
      simp only [DoOut.err.injEq] at h
      have := readLoop_err_class k fl expected script [] [] e log hrl
      rw [h] at this
      rcases this with x | x | x | x | x | x | ⟨_, x⟩ <;> cases x
    | frame bs =>
      refine ⟨bs, log, rfl, ?_⟩
      simp only [hk] at h
      by_cases hc : crcMatches bs = true
      · exact hc
      · exfalso
        have : parseRTUResponseWithCRC ⟨bs, []⟩ = .err .plain ∨ parseRTUResponseWithCRC ⟨bs, []⟩ = .err .badCRC := by
          unfold parseRTUResponseWithCRC
          dsimp only
          split_ifs <;> simp_all
        rcases this with hp | hp <;> rw [hp] at h <;> cases parseTCPResponse ⟨bs, []⟩ <;> simp at h

/-- the five noise bytes `01 83 02 de ad`, which the unrepaired clients reported as exception code 2 -/
example : asProtocolError .serial [0x01, 0x83, 0x02, 0xde, 0xad] = none := by decide +kernel
example : (doExchange .serial .none false [] 8 false [.data [0x01, 0x83, 0x02, 0xde, 0xad]]).1 = .err .timeout := by decide +kernel
/-- a genuine exception frame is still recognised -/
example : asProtocolError .rtuNet (withCrc [0x0a, 0x81, 0x02]) = some (.excR 0x0a 1 2) := by decide +kernel

/-! ### the statement in terms of what the transport delivered

`receivedAfter k script [] n` is what the client has received after the first `n` reads of the script. Whatever a
client hands to its caller - a response, or a device exception recognised by the read loop or by the parser - was
decided on the bytes received at SOME read boundary, and those bytes end with the CRC of the others. Hence: if at no
read boundary the received bytes are CRC-consistent (every corruption, truncation, extension and insertion of a valid
reply that leaves the trailer inconsistent, however it is cut into reads), the call returns neither. -/

theorem response_at_consistent_boundary (k : ClientKind) (hk : k.framing = .rtu) (fl : Flusher) (hooks : Bool)
    (req : Bytes) (expected : Nat) (script : List Ev) (r : Resp) (t : Option UInt16)
    (h : (doExchange k fl hooks req expected false script).1 = .ok r t) :
    ∃ n, n ≤ script.length ∧ crcMatches (receivedAfter k script [] n) = true := by
  obtain ⟨bs, log, hrl, hc⟩ := response_has_crc k hk fl hooks req expected script r t h
  obtain ⟨n, hn, hbs⟩ := readLoop_frame_at k fl expected script [] [] bs log hrl
  exact ⟨n, hn, by rw [← hbs]; exact hc⟩

theorem loop_exception_at_consistent_boundary (k : ClientKind) (hk : k.framing = .rtu) (fl : Flusher)
    (expected : Nat) (script : List Ev) (e : PErr) (log : List HookEv)
    (h : readLoop k fl expected script [] [] = (.err (.exc e), log)) :
    ∃ n, n ≤ script.length ∧ crcMatches (receivedAfter k script [] n) = true := by
  obtain ⟨n, hn, hp⟩ := readLoop_exc_src_at k fl expected script [] [] e log h
  exact ⟨n, hn, asProtocolError_rtu_crc k hk _ e hp⟩

theorem parsed_exception_at_consistent_boundary (k : ClientKind) (hk : k.framing = .rtu) (fl : Flusher)
    (hooks : Bool) (req : Bytes) (expected : Nat) (script : List Ev) (u fc c : UInt8)
    (h : (doExchange k fl hooks req expected false script).1 = .err (.parse (.excR u fc c))) :
    ∃ n, n ≤ script.length ∧ crcMatches (receivedAfter k script [] n) = true := by
  obtain ⟨bs, log, hrl, hc⟩ := parsed_exception_has_crc k hk fl hooks req expected script u fc c h
  obtain ⟨n, hn, hbs⟩ := readLoop_frame_at k fl expected script [] [] bs log hrl
  exact ⟨n, hn, by rw [← hbs]; exact hc⟩

/-- **C12**: bytes that are CRC-inconsistent at every read boundary are returned neither as a response nor as a
device exception (by the read loop or by the parser) -/
theorem corrupted_never_surfaces (k : ClientKind) (hk : k.framing = .rtu) (fl : Flusher) (hooks : Bool)
    (req : Bytes) (expected : Nat) (script : List Ev)
    (hbad : ∀ n, n ≤ script.length → crcMatches (receivedAfter k script [] n) = false) :
    (∀ r t, (doExchange k fl hooks req expected false script).1 ≠ .ok r t) ∧
    (∀ e log, readLoop k fl expected script [] [] ≠ (.err (.exc e), log)) ∧
    (∀ u fc c, (doExchange k fl hooks req expected false script).1 ≠ .err (.parse (.excR u fc c))) := by
  refine ⟨?_, ?_, ?_⟩
  · intro r t h
    obtain ⟨n, hn, hc⟩ := response_at_consistent_boundary k hk fl hooks req expected script r t h
    rw [hbad n hn] at hc; cases hc
  · intro e log h
    obtain ⟨n, hn, hc⟩ := loop_exception_at_consistent_boundary k hk fl expected script e log h
    rw [hbad n hn] at hc; cases hc
  · intro u fc c h
    obtain ⟨n, hn, hc⟩ := parsed_exception_at_consistent_boundary k hk fl hooks req expected script u fc c h
    rw [hbad n hn] at hc; cases hc

/-- the hypothesis is satisfiable: a reply with one flipped bit, delivered in two reads with a junk-free timeout between -/
example : ∀ n, n ≤ 3 →
    crcMatches (receivedAfter .serial [.data [0x01, 0x03, 0x02, 0x00], .timeout, .data [0x0b, 0xf8, 0x43]] [] n) = false := by
  decide +kernel

end Modbus.Properties.C12
