import ModbusProofs.Lemmas.ClientLoop
/-
  C12 — Over RTU, a bad-CRC reply is never surfaced as data or as a device exception.

  For the RTU network client and the serial client, for EVERY transport script (every corruption, truncation,
  extension and fragmentation is some script):
    * if the call returns a response, the frame it was parsed from ends with the CRC of its other bytes;
    * if the call returns a device exception, the five bytes it was recognised on end with their CRC - whether the
      read loop recognised it (`exception_has_crc`) or the response parser did (`parsed_exception_has_crc`).
  Contrapositive: bytes whose trailing CRC is inconsistent are never returned as a response or as a device
  exception. (Before the repair 31b1edb the exception shortcut of the read loop ran before any CRC check.)
-/
namespace Modbus.Properties.C12
open Modbus Modbus.Model Modbus.Lemmas

/-- a successful RTU call: the accumulated frame carries a matching CRC -/
theorem response_has_crc (k : ClientKind) (hk : k.framing = .rtu) (fl : Flusher) (hooks : Bool) (req : Bytes)
    (expected : Nat) (script : List Ev) (r : Resp) (t : Option UInt16)
    (h : (doExchange k fl hooks req expected false script).1 = .ok r t) :
    ∃ bs log, readLoop k fl expected script [] [] = (.frame bs, log) ∧ crcMatches bs = true := by
  unfold doExchange at h
  simp only [Bool.false_eq_true, if_false] at h
  cases hrl : readLoop k fl expected script [] [] with
  | mk out log =>
    rw [hrl] at h
    cases out with
    | err e => simp at h
    | frame bs =>
      refine ⟨bs, log, rfl, ?_⟩
      simp only [hk] at h
      by_cases hc : crcMatches bs = true
      · exact hc
      · exfalso
        have : parseRTUResponseWithCRC ⟨bs, []⟩ = .err .plain ∨ parseRTUResponseWithCRC ⟨bs, []⟩ = .err .badCRC := by
          unfold parseRTUResponseWithCRC
          dsimp only
          split_ifs <;> simp_all
        rcases this with hp | hp <;> rw [hp] at h <;> cases parseTCPResponse ⟨bs, []⟩ <;> simp at h

/-- a device exception returned by an RTU client was recognised on bytes with a matching CRC -/
theorem exception_has_crc (k : ClientKind) (hk : k.framing = .rtu) (fl : Flusher) (expected : Nat) (script : List Ev)
    (e : PErr) (log : List HookEv) (h : readLoop k fl expected script [] [] = (.err (.exc e), log)) :
    ∃ p, asProtocolError k p = some e ∧ crcMatches p = true := by
  obtain ⟨p, hp⟩ := readLoop_exc_src k fl expected script [] [] e log h
  exact ⟨p, hp, asProtocolError_rtu_crc k hk p e hp⟩

/-- the other way an exception can reach the caller: the read loop hands a frame to the parser and the PARSER reports
the exception (a read-server-id request expects 2 bytes, or the peer closes right after a 5-byte frame). Also then the
frame carries a matching CRC: the CRC is checked before anything else is looked at. -/
theorem parsed_exception_has_crc (k : ClientKind) (hk : k.framing = .rtu) (fl : Flusher) (hooks : Bool) (req : Bytes)
    (expected : Nat) (script : List Ev) (u fc c : UInt8)
    (h : (doExchange k fl hooks req expected false script).1 = .err (.parse (.excR u fc c))) :
    ∃ bs log, readLoop k fl expected script [] [] = (.frame bs, log) ∧ crcMatches bs = true := by
  unfold doExchange at h
  simp only [Bool.false_eq_true, if_false] at h
  cases hrl : readLoop k fl expected script [] [] with
  | mk out log =>
    rw [hrl] at h
    cases out with
    | err e =>
      -- errors of the read loop are never `parse` errors
      exfalso
      simp only [DoOut.err.injEq] at h
      have := readLoop_err_class k fl expected script [] [] e log hrl
      rw [h] at this
      rcases this with x | x | x | x | x | x | ⟨_, x⟩ <;> cases x
    | frame bs =>
      refine ⟨bs, log, rfl, ?_⟩
      simp only [hk] at h
      by_cases hc : crcMatches bs = true
      · exact hc
      · exfalso
        have : parseRTUResponseWithCRC ⟨bs, []⟩ = .err .plain ∨ parseRTUResponseWithCRC ⟨bs, []⟩ = .err .badCRC := by
          unfold parseRTUResponseWithCRC
          dsimp only
          split_ifs <;> simp_all
        rcases this with hp | hp <;> rw [hp] at h <;> cases parseTCPResponse ⟨bs, []⟩ <;> simp at h

/-- the five noise bytes `01 83 02 de ad`, which the unrepaired clients reported as exception code 2 -/
example : asProtocolError .serial [0x01, 0x83, 0x02, 0xde, 0xad] = none := by decide +kernel
example : (doExchange .serial .none false [] 8 false [.data [0x01, 0x83, 0x02, 0xde, 0xad]]).1 = .err .timeout := by decide +kernel
/-- a genuine exception frame is still recognised -/
example : asProtocolError .rtuNet (withCrc [0x0a, 0x81, 0x02]) = some (.excR 0x0a 1 2) := by decide +kernel

end Modbus.Properties.C12
