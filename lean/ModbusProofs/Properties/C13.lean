import Modbus.Model.Registers
/-
  C13 — Reading values out of a response never changes it.

  Every accessor of the model returns its result together with the payload as it is afterwards
  (`Registers.access`); Go accessors work on sub-slices aliasing the payload, so a write through one
  would show up there. After the repair 03f4be9 (`StringWithByteOrder` rearranges a copy) no accessor
  writes: the payload afterwards is the payload before, for every accessor, argument and payload.
  Hence for EVERY sequence of accessor calls the payload is unchanged and every result equals the
  result of the same call made alone on the untouched response - so repetition and reordering
  cannot change any result. The correspondence check compares the real payload bytes after each
  generated sequence and each result with a solo call on a fresh copy.
-/
namespace Modbus.Properties.C13
open Modbus Modbus.Model

/-- one call leaves the payload as it was -/
theorem access_preserves (r : Registers) (a : Acc) (addr : UInt16) : (r.access a addr).2 = r.data := rfl

/-- a sequence of calls, threading the payload through (what a caller observes) -/
def runSeq (r : Registers) : List (Acc × UInt16) → List (PRes Val) × Slice
  | [] => ([], r.data)
  | (a, addr) :: rest =>
    let (res, d') := r.access a addr
    let (more, final) := runSeq { r with data := d' } rest
    (res :: more, final)

/-- every sequence: payload unchanged, and each result is the result of that call alone -/
theorem sequence (r : Registers) (ops : List (Acc × UInt16)) :
    (runSeq r ops).2 = r.data ∧ (runSeq r ops).1 = ops.map fun o => (r.access o.1 o.2).1 := by
  induction ops generalizing r with
  | nil => exact ⟨rfl, rfl⟩
  | cons o rest ih =>
    obtain ⟨a, addr⟩ := o
    have h := ih { r with data := (r.access a addr).2 }
    simp only [access_preserves] at h
    unfold runSeq
    simp only [access_preserves]
    exact ⟨h.1, by rw [h.2]; rfl⟩

/-- repeating a read gives the same result: equal calls at any two positions of any sequence -/
theorem repeat_same (r : Registers) (ops : List (Acc × UInt16)) (i j : Nat) (h : ops[i]? = ops[j]?) :
    (runSeq r ops).1[i]? = (runSeq r ops).1[j]? := by
  rw [(sequence r ops).2]
  simp only [List.getElem?_map, h]

/-- performing the reads in a different order gives the same results, permuted -/
theorem reorder_same (r : Registers) (ops ops' : List (Acc × UInt16)) (h : ops.Perm ops') :
    ((runSeq r ops).1).Perm ((runSeq r ops').1) := by
  rw [(sequence r ops).2, (sequence r ops').2]
  exact h.map _

/-- non-vacuity: a string read with the big-endian flag set, twice, on overlapping registers -/
example :
    let r : Registers := { order := 9, start := 0, end_ := 2, data := ⟨[0x41, 0x42, 0x43, 0x44], []⟩ }
    (runSeq r [(.str 4, 0), (.str 4, 0), (.u16, 1)]) =
      ([.ok (.str [0x42, 0x41, 0x44, 0x43]), .ok (.str [0x42, 0x41, 0x44, 0x43]), .ok (.u 16 0x4344)],
       ⟨[0x41, 0x42, 0x43, 0x44], []⟩) := by decide

end Modbus.Properties.C13
