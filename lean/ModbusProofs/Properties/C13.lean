import Modbus.Model.Registers
import Modbus.Model.Builder
/-
  C13 — Reading values out of a response never changes it.

  Every accessor of the model returns its result together with the payload as it is afterwards
  (`Registers.access`); Go accessors work on sub-slices aliasing the payload, so a write through one
  would show up there. After the repair 03f4be9 (`StringWithByteOrder` rearranges a copy) no accessor
  writes: the payload afterwards is the payload before, for every accessor, argument and payload.
  Hence for EVERY sequence of accessor calls the payload is unchanged and every result equals the
  result of the same call made alone on the untouched response - so repetition and reordering
  cannot change any result. The correspondence check compares the real payload bytes after each
  generated sequence and each result with a solo call on a fresh copy.
-/
namespace Modbus.Properties.C13
open Modbus Modbus.Model

/-- one call leaves the payload as it was -/
theorem access_preserves (r : Registers) (a : Acc) (addr : UInt16) : (r.access a addr).2 = r.data := rfl

/-- a sequence of calls, threading the payload through (what a caller observes) -/
def runSeq (r : Registers) : List (Acc × UInt16) → List (PRes Val) × Slice
  | [] => ([], r.data)
  | (a, addr) :: rest =>
    let (res, d') := r.access a addr
    let (more, final) := runSeq { r with data := d' } rest
    (res :: more, final)

/-- every sequence: payload unchanged, and each result is the result of that call alone -/
theorem sequence (r : Registers) (ops : List (Acc × UInt16)) :
    (runSeq r ops).2 = r.data ∧ (runSeq r ops).1 = ops.map fun o => (r.access o.1 o.2).1 := by
  induction ops generalizing r with
  | nil => exact ⟨rfl, rfl⟩
  | cons o rest ih =>
    obtain ⟨a, addr⟩ := o
    have h := ih { r with data := (r.access a addr).2 }
    simp only [access_preserves] at h
    unfold runSeq
    simp only [access_preserves]
    exact ⟨h.1, by rw [h.2]; rfl⟩

/-- repeating a read gives the same result: equal calls at any two positions of any sequence -/
theorem repeat_same (r : Registers) (ops : List (Acc × UInt16)) (i j : Nat) (h : ops[i]? = ops[j]?) :
    (runSeq r ops).1[i]? = (runSeq r ops).1[j]? := by
  rw [(sequence r ops).2]
  simp only [List.getElem?_map, h]

/-- performing the reads in a different order gives the same results, permuted -/
theorem reorder_same (r : Registers) (ops ops' : List (Acc × UInt16)) (h : ops.Perm ops') :
    ((runSeq r ops).1).Perm ((runSeq r ops').1) := by
  rw [(sequence r ops).2, (sequence r ops').2]
  exact h.map _

/-- non-vacuity: a string read with the big-endian flag set, twice, on overlapping registers -/
example :
    let r : Registers := { order := 9, start := 0, end_ := 2, data := ⟨[0x41, 0x42, 0x43, 0x44], []⟩ }
    (runSeq r [(.str 4, 0), (.str 4, 0), (.u16, 1)]) =
      ([.ok (.str [0x42, 0x41, 0x44, 0x43]), .ok (.str [0x42, 0x41, 0x44, 0x43]), .ok (.u 16 0x4344)],
       ⟨[0x41, 0x42, 0x43, 0x44], []⟩) := by decide

/-! ### sequences in which the view is configured again (`WithByteOrder`) between reads

A caller may configure the view, read, configure it differently and read again. Nothing a read does stays behind: each
result is the result of the same call made alone on a view configured with the order in force at that point, and the
payload is the payload of the response - whatever was read or configured before. -/

/-- a step of a caller's program: an accessor call, or `WithByteOrder o` -/
inductive Step where
  | acc (a : Acc) (addr : UInt16)
  | wbo (o : ByteOrder)

/-- run a program, threading payload and configured order through; the results of the accessor calls, in order -/
def runSteps (r : Registers) : List Step → List (PRes Val) × Slice
  | [] => ([], r.data)
  | .wbo o :: rest => runSteps { r with order := o } rest
  | .acc a addr :: rest =>
    let (res, d') := r.access a addr
    let (more, final) := runSteps { r with data := d' } rest
    (res :: more, final)

/-- the same program on views that are new at every step: only the configured order is carried along -/
def soloSteps (r : Registers) : List Step → List (PRes Val)
  | [] => []
  | .wbo o :: rest => soloSteps { r with order := o } rest
  | .acc a addr :: rest => (r.access a addr).1 :: soloSteps r rest

theorem sequence_reconfigured (r : Registers) (steps : List Step) :
    (runSteps r steps).2 = r.data ∧ (runSteps r steps).1 = soloSteps r steps := by
  induction steps generalizing r with
  | nil => exact ⟨rfl, rfl⟩
  | cons st rest ih =>
    cases st with
    | wbo o =>
      have h := ih { r with order := o }
      exact ⟨h.1, h.2⟩
    | acc a addr =>
      have h := ih { r with data := (r.access a addr).2 }
      simp only [access_preserves] at h
      unfold runSteps soloSteps
      simp only [access_preserves]
      exact ⟨h.1, by rw [h.2]⟩

/-- a read before the view is configured leaves nothing behind: the reads after `WithByteOrder o` are the reads of a
view configured with `o` that was never read before -/
theorem reads_before_configuring_leave_nothing (r : Registers) (before after : List (Acc × UInt16)) (o : ByteOrder) :
    (runSteps r (before.map (fun x => Step.acc x.1 x.2) ++ [Step.wbo o] ++ after.map (fun x => Step.acc x.1 x.2))).1 =
      (before.map fun x => (r.access x.1 x.2).1) ++ (after.map fun x => (({ r with order := o } : Registers).access x.1 x.2).1) := by
  rw [(sequence_reconfigured r _).2]
  induction before with
  | nil =>
    simp only [List.map_nil, List.nil_append, List.singleton_append, soloSteps]
    generalize ({ r with order := o } : Registers) = r'
    induction after with
    | nil => rfl
    | cons x rest ih => simp only [List.map_cons, soloSteps, ih]
  | cons x rest ih =>
    simp only [List.map_cons, List.cons_append, soloSteps]
    simp only [List.append_assoc] at ih
    rw [← ih]
    simp [List.append_assoc]

/-- non-vacuity: big-endian read, reconfigured little endian, the same register read again (and "no order" last) -/
example :
    let r : Registers := { order := 9, start := 10, end_ := 12, data := ⟨[0x12, 0x34, 0x56, 0x78], []⟩ }
    (runSteps r [.acc .u16 10, .wbo 10, .acc .u16 10, .wbo 0, .acc .u16 10]).1 =
      [.ok (.u 16 0x1234), .ok (.u 16 0x3412), .ok (.u 16 0x1234)] := by decide

/-! ### `ExtractFields`: the fields of one request are decoded independently of each other

`extractLoop` (the model of `BuilderRequest.extractRegisterFields`) threads the payload each `Field.ExtractFrom` leaves
behind into the next one. Because no accessor writes, every field's result is the result of extracting that field
ALONE from the untouched response, whatever came before it - for every payload (also truncated ones), every list of
fields (overlapping, repeated, unsorted, invalid) and both error modes. -/

/-- one `Field.ExtractFrom` leaves the payload as it was -/
theorem extractFrom_preserves (f : Field) (r : Registers) : (f.extractFrom r).2 = r.data := by
  unfold Field.extractFrom
  cases f.acc <;> rfl

/-- the payload after extracting a whole list of fields one after the other -/
def payloadAfter (r : Registers) (fs : List Field) : Slice :=
  fs.foldl (fun d f => (f.extractFrom { r with data := d }).2) r.data

theorem payloadAfter_eq (r : Registers) (fs : List Field) : payloadAfter r fs = r.data := by
  unfold payloadAfter
  generalize r.data = d
  induction fs generalizing d with
  | nil => rfl
  | cons f rest ih =>
    rw [List.foldl_cons, extractFrom_preserves]
    exact ih d

/-- the loop of `ExtractFields` driven by "this field alone on the untouched response" -/
def soloLoop (lenient : Bool) (r : Registers) : List Field → List (Field × PRes Val) → Bool → Extracted
  | [], acc, had => if had then .some_ acc else .all acc
  | f :: rest, acc, had =>
    match (f.extractFrom r).1 with
    | .ok v => soloLoop lenient r rest (acc ++ [(f, .ok v)]) had
    | .err e => if !lenient then .failed else soloLoop lenient r rest (acc ++ [(f, .err e)]) true
    | .panic => .panicked

/-- `ExtractFields` = every field on its own, for every response and every field list -/
theorem extract_solo (lenient : Bool) (r : Registers) :
    ∀ (fs : List Field) (acc : List (Field × PRes Val)) (had : Bool),
      extractLoop lenient r fs acc had = soloLoop lenient r fs acc had := by
  intro fs
  induction fs with
  | nil => intro acc had; rfl
  | cons f rest ih =>
    intro acc had
    unfold extractLoop soloLoop
    have hd : (f.extractFrom r).2 = r.data := extractFrom_preserves f r
    have hr : ({ r with data := (f.extractFrom r).2 } : Registers) = r := by rw [hd]
    cases hres : (f.extractFrom r).1 with
    | ok v => simp only [hres, hr]; exact ih _ _
    | err e =>
      simp only [hres, hr]
      cases lenient with
      | false => rfl
      | true => simp only [Bool.not_true, Bool.false_eq_true, if_false]; exact ih _ _
    | panic => simp only [hres]

/-- the values a lenient `ExtractFields` reports (none when it panicked) -/
def valuesOf : Extracted → Option (List (Field × PRes Val))
  | .all vs => some vs
  | .some_ vs => some vs
  | _ => none

/-- lenient mode: the reported list is, in order, every field with its own solo result -/
theorem lenient_values (r : Registers) :
    ∀ (fs : List Field) (acc : List (Field × PRes Val)) (had : Bool), (∀ f ∈ fs, (f.extractFrom r).1 ≠ .panic) →
      valuesOf (extractLoop true r fs acc had) = some (acc ++ fs.map fun f => (f, (f.extractFrom r).1)) := by
  intro fs
  induction fs with
  | nil => intro acc had _; cases had <;> simp [extractLoop, valuesOf]
  | cons f rest ih =>
    intro acc had hnp
    rw [extract_solo]
    unfold soloLoop
    cases hres : (f.extractFrom r).1 with
    | panic => exact absurd hres (hnp f (by simp))
    | err e =>
      simp only [Bool.not_true, Bool.false_eq_true, if_false]
      rw [← extract_solo, ih _ _ (fun g hg => hnp g (by simp [hg]))]
      simp [hres]
    | ok v =>
      simp only []
      rw [← extract_solo, ih _ _ (fun g hg => hnp g (by simp [hg]))]
      simp [hres]

/-- the error flag of a lenient `ExtractFields`: set exactly when it was set before or some field failed
(not only the last one, and a failure never leaks into the fields after it) -/
theorem lenient_flag (r : Registers) :
    ∀ (fs : List Field) (acc : List (Field × PRes Val)) (had : Bool), (∀ f ∈ fs, (f.extractFrom r).1 ≠ .panic) →
      ((∃ vs, extractLoop true r fs acc had = .some_ vs) ↔
        (had = true ∨ ∃ f ∈ fs, ∃ e, (f.extractFrom r).1 = .err e)) := by
  intro fs
  induction fs with
  | nil => intro acc had _; cases had <;> simp [extractLoop]
  | cons f rest ih =>
    intro acc had hnp
    have hrest : ∀ g ∈ rest, (g.extractFrom r).1 ≠ .panic := fun g hg => hnp g (by simp [hg])
    rw [extract_solo]
    unfold soloLoop
    cases hres : (f.extractFrom r).1 with
    | panic => exact absurd hres (hnp f (by simp))
    | err e =>
      simp only [Bool.not_true, Bool.false_eq_true, if_false]
      rw [← extract_solo, ih _ _ hrest]
      simp only [true_or, true_iff]
      exact Or.inr ⟨f, by simp, e, hres⟩
    | ok v =>
      simp only []
      rw [← extract_solo, ih _ _ hrest]
      constructor
      · rintro (h | ⟨g, hg, e, hge⟩)
        · exact Or.inl h
        · exact Or.inr ⟨g, by simp [hg], e, hge⟩
      · rintro (h | ⟨g, hg, e, hge⟩)
        · exact Or.inl h
        · simp only [List.mem_cons] at hg
          rcases hg with rfl | hg
          · rw [hres] at hge; cases hge
          · exact Or.inr ⟨g, hg, e, hge⟩

/-- extracting the fields in a different order reports the same (field, result) pairs, permuted -/
theorem lenient_reorder (r : Registers) (fs fs' : List Field) (h : fs.Perm fs')
    (hnp : ∀ f ∈ fs, (f.extractFrom r).1 ≠ .panic) :
    ∃ vs vs', valuesOf (extractLoop true r fs [] false) = some vs ∧
      valuesOf (extractLoop true r fs' [] false) = some vs' ∧ vs.Perm vs' := by
  refine ⟨_, _, lenient_values r fs [] false hnp,
    lenient_values r fs' [] false (fun f hf => hnp f (h.mem_iff.mpr hf)), ?_⟩
  simp only [List.nil_append]
  exact h.map _

/-- non-vacuity: an unreachable field first, a good one after it (the order no unit test uses) -/
example :
    let r : Registers := { order := 9, start := 10, end_ := 12, data := ⟨[0x12, 0x34, 0x56, 0x78], []⟩ }
    let bad : Field := { name := "b", server := "s", unit := 1, addr := 40, type := 5, bit := 0, fromHigh := false, length := 0, order := 0 }
    let good : Field := { name := "g", server := "s", unit := 1, addr := 11, type := 5, bit := 0, fromHigh := false, length := 0, order := 0 }
    valuesOf (extractLoop true r [bad, good] [] false) = some [(bad, .err .plain), (good, .ok (.u 16 0x5678))] := by
  decide

end Modbus.Properties.C13
