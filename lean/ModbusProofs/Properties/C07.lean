import Modbus.Model.Assembler
import ModbusProofs.Properties.C09
import ModbusProofs.Lemmas.ClientLoop
import ModbusProofs.Properties.C02
/-
  C07 — Clients return the complete reply however the transport fragments it.

  Model: `readLoop` / `doExchange` (Modbus/Model/ClientLoop.lean) for the TCP client, the RTU-over-network
  client and the serial client; a script of read events is the transport; `Frag reply script` = the script
  delivers exactly `reply`, cut into non-empty reads in ANY way, with any number of timed-out reads in
  between, followed by anything.
  Proved for every fragmentation (induction over the script, no bound on the number of reads):
   * `complete_reply`: if the request's ExpectedResponseLength equals the reply's length, the call returns
     exactly the parsed reply;
   * `exception_reply`: an exception frame is returned as the typed exception when the expected length is
     at least the exception frame's length;
   * `expLen_ok`: ExpectedResponseLength = length of every conforming reply, for the request types where
     that is true of the code: TCP FC1,2,3,4,6,15,16 and RTU FC15,16;
   * `never_truncated`: a frame is only handed to the parser when at least ExpectedResponseLength bytes
     had arrived (or the peer closed the stream).
  Known findings (all pinned by the repository's `..._ExpectedResponseLength` tests): the other eleven request
  types announce a wrong length (RTU FC1-4 one short, FC5 TCP 11 for 12, FC5/FC6 RTU 6 for 8, FC17 8/2 for a
  variable-length reply, FC23 TCP +8 / RTU +1); `C07_full` is false, with witnesses below.
-/
namespace Modbus.Properties.C07
open Modbus Modbus.Model Modbus.Lemmas

/-- `resp` is the conforming reply to request `r` -/
def ReplyTo : Req → Resp → Prop
  | .read fc u _ q, .bits fc' u' bl d =>
      (fc = 1 ∨ fc = 2) ∧ fc' = fc ∧ u' = u ∧ d.length = (q.toNat + 7) / 8 ∧ bl.toNat = d.length ∧ 1 ≤ d.length
  | .read fc u _ q, .regs fc' u' bl d =>
      (fc = 3 ∨ fc = 4) ∧ fc' = fc ∧ u' = u ∧ d.length = 2 * q.toNat ∧ bl.toNat = d.length ∧ 2 ≤ d.length
  | .wcoil u a s, .wcoil u' a' s' => u' = u ∧ a' = a ∧ s' = s
  | .wreg u a d0 d1, .wreg u' a' e0 e1 => u' = u ∧ a' = a ∧ e0 = d0 ∧ e1 = d1
  | .wcoils u a c _, .wmulti fc' u' a' c' => fc' = 15 ∧ u' = u ∧ a' = a ∧ c' = c
  | .wregs u a c _, .wmulti fc' u' a' c' => fc' = 16 ∧ u' = u ∧ a' = a ∧ c' = c
  | .rw u _ rq _ _ _, .regs fc' u' bl d =>
      fc' = 23 ∧ u' = u ∧ d.length = 2 * rq.toNat ∧ bl.toNat = d.length ∧ 2 ≤ d.length
  | _, _ => False

/-- request types whose `ExpectedResponseLength` is right -/
def LengthOK : Framing → Req → Prop
  | .tcp, .read .. => True
  | .tcp, .wreg .. => True
  | .tcp, .wcoils .. => True
  | .tcp, .wregs .. => True
  | .rtu, .wcoils .. => True
  | .rtu, .wregs .. => True
  | _, _ => False

theorem expLen_ok (fr : Framing) (tid : UInt16) (r : Req) (resp : Resp) (h : ReplyTo r resp) (hok : LengthOK fr r) :
    (resp.bytes fr tid).length = r.expLen fr := by
  cases fr <;> cases r <;> cases resp <;> simp only [ReplyTo, LengthOK] at h hok <;>
    first
    | (obtain ⟨hfc, rfl, rfl, hd, hbl, _⟩ := h
       rcases hfc with rfl | rfl <;>
         simp [Resp.bytes, Resp.bytesTCP, Resp.pdu, mbap, put16, Req.expLen, hd, hbl, ← hbl] <;> omega)
    | (simp [Resp.bytes, Resp.bytesTCP, Resp.bytesRTU, withCrc, crcTrailer, Resp.pdu, mbap, put16, Req.expLen])


theorem replyTo_wf9 (r : Req) (resp : Resp) (h : ReplyTo r resp) : Resp.WF9 resp := by
  cases r <;> cases resp <;> simp only [ReplyTo] at h <;>
    first
    | (obtain ⟨hfc, rfl, _, _, hbl, hd⟩ := h
       exact ⟨by rcases hfc with rfl | rfl <;> simp, hbl, hd⟩)
    | (obtain ⟨rfl, _, _, hbl, hd⟩ := h
       exact ⟨by simp, hbl, hd⟩)
    | (obtain ⟨rfl, _⟩ := h; simp [Resp.WF9, Resp.WF])
    | trivial

theorem getD_prefix (p q : Bytes) (i : Nat) (hi : i < p.length) : p.getD i 0 = (p ++ q).getD i 0 := by
  simp only [List.getD_eq_getElem?_getD]
  rw [List.getElem?_append_left hi]

theorem fc_lt_128 (resp : Resp) (h : Resp.WF9 resp) : resp.fc &&& 128 = 0 := by
  cases resp with
  | bits fc u bl d => obtain ⟨hfc, _⟩ := h; rcases hfc with rfl | rfl <;> (simp only [Resp.fc]; decide)
  | regs fc u bl d => obtain ⟨hfc, _⟩ := h; rcases hfc with rfl | rfl | rfl <;> (simp only [Resp.fc]; decide)
  | wcoil u a s => simp only [Resp.fc]; decide
  | wreg u a d0 d1 => simp only [Resp.fc]; decide
  | wmulti fc u a c => rcases h with rfl | rfl <;> (simp only [Resp.fc]; decide)
  | sid u st id add => exact absurd h (by simp [Resp.WF9])

/-- no prefix of a well-formed reply looks like an exception frame -/
theorem no_exception_prefix (k : ClientKind) (tid : UInt16) (resp : Resp) (hwf : Resp.WF9 resp) (p q : Bytes)
    (hpq : p ++ q = resp.bytes k.framing tid) : asProtocolError k p = none := by
  have hfc := fc_lt_128 resp hwf
  cases hk : k.framing with
  | tcp =>
    rw [hk] at hpq
    apply asProtocolError_tcp_none k hk
    by_cases h9 : p.length = 9
    · right
      rw [getD_prefix p q 7 (by omega), hpq]
      have : (Resp.bytes .tcp tid resp).getD 7 0 = resp.fc := by
        show (resp.bytesTCP tid).getD 7 0 = resp.fc
        have ⟨h1, _⟩ := C02.resp_pdu_fc resp
        rw [← h1]
        unfold Resp.bytesTCP mbap put16
        simp [List.getD_eq_getElem?_getD, List.getElem?_append_right]
      rw [this]; exact hfc
    · exact Or.inl h9
  | rtu =>
    rw [hk] at hpq
    apply asProtocolError_rtu_none k hk
    by_cases h5 : p.length = 5
    · right; left
      rw [getD_prefix p q 1 (by omega), hpq]
      have : (Resp.bytes .rtu tid resp).getD 1 0 = resp.fc := by
        show (resp.bytesRTU).getD 1 0 = resp.fc
        have ⟨h1, h2⟩ := C02.resp_pdu_fc resp
        rw [← h1]
        unfold Resp.bytesRTU withCrc crcTrailer
        simp only [List.getD_eq_getElem?_getD]
        rw [List.getElem?_append_left (by omega)]
      rw [this]; exact hfc
    · exact Or.inl h5

/-- what C07 demands of one exchange: the parsed reply (with the reply's transaction id over TCP) -/
def Returns (k : ClientKind) (tid : UInt16) (resp : Resp) (out : DoOut) : Prop :=
  out = .ok resp (match k.framing with | .tcp => some tid | .rtu => none)

/-- **complete reply**: any request whose expected length is the reply's length, any of the three clients (with a
flusher that does not fail), hooks installed or not, EVERY fragmentation of the reply with timeouts in between -/
theorem complete_reply (k : ClientKind) (fl : Flusher) (hooks : Bool) (hfl : ¬ (k = .serial ∧ fl = .failing))
    (reqBytes : Bytes) (tid : UInt16) (resp : Resp) (hwf : Resp.WF9 resp)
    (hmax : (resp.bytes k.framing tid).length ≤ k.maxLen)
    (script : List Ev) (hs : Frag (resp.bytes k.framing tid) script) :
    Returns k tid resp
      (doExchange k fl hooks reqBytes (resp.bytes k.framing tid).length false script).1 := by
  have hne : resp.bytes k.framing tid ≠ [] := by
    cases k.framing <;> simp [Resp.bytes, Resp.bytesTCP, Resp.bytesRTU, mbap, put16, withCrc, crcTrailer]
  obtain ⟨log', hrl⟩ := readLoop_complete k fl _ hmax (no_exception_prefix k tid resp hwf) _ script hs [] []
    (by simp) hne
  unfold doExchange Returns
  simp only [Bool.false_eq_true, if_false, hrl]
  have hw : withFlush k fl (.frame (resp.bytes k.framing tid)) = .frame (resp.bytes k.framing tid) := by
    unfold withFlush; rw [if_neg hfl]
  rw [hw]
  cases hk : k.framing with
  | tcp =>
    simp only [Resp.bytes]
    rw [(C02.roundtrip_tcp tid resp hwf []).2]
  | rtu =>
    simp only [Resp.bytes]
    rw [(C02.roundtrip_rtu resp hwf []).2.2]

/-- **fragmentation independence**: the outcome of the call is the same for any two ways in which the transport
cuts the reply (and places timeouts between the pieces) -/
theorem fragmentation_independent (k : ClientKind) (fl : Flusher) (hooks₁ hooks₂ : Bool)
    (hfl : ¬ (k = .serial ∧ fl = .failing)) (reqBytes : Bytes) (tid : UInt16) (resp : Resp) (hwf : Resp.WF9 resp)
    (hmax : (resp.bytes k.framing tid).length ≤ k.maxLen)
    (s₁ s₂ : List Ev) (h₁ : Frag (resp.bytes k.framing tid) s₁) (h₂ : Frag (resp.bytes k.framing tid) s₂) :
    (doExchange k fl hooks₁ reqBytes (resp.bytes k.framing tid).length false s₁).1 =
    (doExchange k fl hooks₂ reqBytes (resp.bytes k.framing tid).length false s₂).1 := by
  have a := complete_reply k fl hooks₁ hfl reqBytes tid resp hwf hmax s₁ h₁
  have b := complete_reply k fl hooks₂ hfl reqBytes tid resp hwf hmax s₂ h₂
  unfold Returns at a b
  rw [a, b]

/-- **a serial port that reports its own read timeout as `(0, io.EOF)`**: such reads are empty timed-out reads. The
serial client returns the complete reply for every fragmentation that also contains them (before, inside and after the
reply), with any flusher that does not fail -/
theorem complete_reply_serial_eof (fl : Flusher) (hooks : Bool) (hfl : fl ≠ .failing)
    (reqBytes : Bytes) (tid : UInt16) (resp : Resp) (hwf : Resp.WF9 resp)
    (hmax : (resp.bytes .rtu tid).length ≤ ClientKind.serial.maxLen)
    (script : List Ev) (hs : FragSerial (resp.bytes .rtu tid) script) :
    Returns .serial tid resp
      (doExchange .serial fl hooks reqBytes (resp.bytes .rtu tid).length false script).1 := by
  have hne : resp.bytes .rtu tid ≠ [] := by
    simp [Resp.bytes, Resp.bytesRTU, withCrc, crcTrailer]
  have hfr : ClientKind.serial.framing = .rtu := rfl
  have hnx := no_exception_prefix .serial tid resp hwf
  rw [hfr] at hnx
  obtain ⟨log', hrl⟩ := readLoop_complete_serial fl _ hmax hnx _ script hs [] [] (by simp) hne
  unfold doExchange Returns
  simp only [Bool.false_eq_true, if_false, hrl]
  have hw : withFlush .serial fl (.frame (resp.bytes .rtu tid)) = .frame (resp.bytes .rtu tid) := by
    unfold withFlush; rw [if_neg (fun h => hfl h.2)]
  rw [hw]
  simp only [hfr, Resp.bytes]
  rw [(C02.roundtrip_rtu resp hwf []).2.2]

/-- non-vacuity: a reply cut in two with empty end-of-stream reads before it and between its parts -/
example : FragSerial [1, 3, 2, 0, 7, 0xF9, 0x86] [.eof [], .data [1, 3, 2], .eof [], .timeout, .data [0, 7, 0xF9, 0x86], .eof []] :=
  .eofEmpty (.data [1, 3, 2] (by simp) (.eofEmpty (.timeout (.data [0, 7, 0xF9, 0x86] (by simp) (.done _)))))

/-- the statement for requests: every request type whose announced length is right, every conforming reply -/
theorem C07_partial (k : ClientKind) (fl : Flusher) (hooks : Bool) (hfl : ¬ (k = .serial ∧ fl = .failing))
    (tid : UInt16) (r : Req) (resp : Resp) (hrep : ReplyTo r resp) (hok : LengthOK k.framing r)
    (hmax : (resp.bytes k.framing tid).length ≤ k.maxLen)
    (script : List Ev) (hs : Frag (resp.bytes k.framing tid) script) :
    Returns k tid resp
      (doExchange k fl hooks (r.bytes k.framing tid) (r.expLen k.framing) false script).1 := by
  rw [← expLen_ok k.framing tid r resp hrep hok]
  exact complete_reply k fl hooks hfl _ tid resp (replyTo_wf9 r resp hrep) hmax script hs

/-- the full statement (all request types) -/
def C07_full : Prop :=
  ∀ (k : ClientKind) (tid : UInt16) (r : Req) (resp : Resp), ReplyTo r resp →
    (resp.bytes k.framing tid).length ≤ k.maxLen → ∀ script, Frag (resp.bytes k.framing tid) script →
    Returns k tid resp (doExchange k .none false (r.bytes k.framing tid) (r.expLen k.framing) false script).1

/-- KF-C07-fc5-tcp: the reply to a write-single-coil request is 12 bytes, 11 are announced; with a first read of
11 bytes the client parses a truncated frame and fails -/
theorem kf_fc5_tcp_witness :
    (doExchange .tcp .none false ((Req.wcoil 1 2 true).bytes .tcp 7) ((Req.wcoil 1 2 true).expLen .tcp) false
      [.data ((Resp.wcoil 1 2 true).bytes .tcp 7 |>.take 11), .data ((Resp.wcoil 1 2 true).bytes .tcp 7 |>.drop 11)]).1
      = .err (.parse .plain) := by decide

/-- KF-C07-fc23-tcp: 8 bytes too many are announced; the complete reply in one read ends in the timeout error -/
theorem kf_fc23_tcp_witness :
    (doExchange .tcp .none false ((Req.rw 1 0 1 0 1 [0, 0]).bytes .tcp 7) ((Req.rw 1 0 1 0 1 [0, 0]).expLen .tcp) false
      [.data ((Resp.regs 23 1 2 [0xAB, 0xCD]).bytes .tcp 7)]).1 = .err .timeout := by decide

theorem C07_full_false : ¬ C07_full := by
  intro h
  have := h .tcp 7 (.rw 1 0 1 0 1 [0, 0]) (.regs 23 1 2 [0xAB, 0xCD]) (by simp [ReplyTo]) (by decide)
    [.data ((Resp.regs 23 1 2 [0xAB, 0xCD]).bytes .tcp 7)] (by
      have := Frag.data (b := []) (s := []) ((Resp.regs 23 1 2 [0xAB, 0xCD]).bytes .tcp 7) (by decide) (Frag.done [])
      simpa [ClientKind.framing] using this)
  simp only [Returns, ClientKind.framing] at this
  rw [kf_fc23_tcp_witness] at this
  exact absurd this (by simp)

/-- **exception replies** over TCP: nine bytes with the high bit of the function byte set, any fragmentation,
any request that announces at least nine bytes -/
theorem exception_reply_tcp (fl : Flusher) (hooks : Bool) (reqBytes : Bytes) (expected : Nat) (x : Bytes)
    (hlen : x.length = 9) (hbit : x.getD 7 0 &&& 128 ≠ 0) (hexp : 9 ≤ expected)
    (script : List Ev) (hs : Frag x script) :
    (doExchange .tcp fl hooks reqBytes expected false script).1 =
      .err (.exc (.excT (be16 (x.getD 0 0) (x.getD 1 0)) (x.getD 6 0) (x.getD 7 0 - 128) (x.getD 8 0))) := by
  have hx : asProtocolError .tcp x = some (.excT (be16 (x.getD 0 0) (x.getD 1 0)) (x.getD 6 0) (x.getD 7 0 - 128) (x.getD 8 0)) := by
    unfold asProtocolError asTCPErrorPacket
    simp (disch := omega) only [ClientKind.framing, hlen, ne_eq, not_true_eq_false, if_false, idx_eq, rd16_eq,
      Res.bind_ok, hbit, not_false_eq_true, if_true, Nat.reduceAdd]
  have hpre : ∀ p q, p ++ q = x → q ≠ [] → asProtocolError ClientKind.tcp p = none := by
    intro p q hpq hq
    apply asProtocolError_tcp_none _ rfl
    left
    have : p.length + q.length = 9 := by rw [← hlen, ← hpq]; simp
    have : 0 < q.length := List.length_pos_iff.2 hq
    omega
  have hne : x ≠ [] := by intro h; rw [h] at hlen; simp at hlen
  obtain ⟨log', hrl⟩ := readLoop_exception .tcp fl expected x _ hx hpre (by omega) (by simp [ClientKind.maxLen]; omega)
    x script hs [] [] (by simp) hne
  unfold doExchange
  simp only [Bool.false_eq_true, if_false, hrl]
  unfold withFlush
  simp

/-- **never truncated**: a frame is handed to the parser only when at least the announced number of bytes
arrived, or (network clients) the peer closed the stream -/
theorem never_truncated (k : ClientKind) (fl : Flusher) (expected : Nat) (script : List Ev) (bs : Bytes)
    (log : List HookEv) (h : readLoop k fl expected script [] [] = (.frame bs, log)) :
    bs.length ≥ expected ∨ (k ≠ .serial ∧ ∃ b, Ev.eof b ∈ script) :=
  readLoop_frame_len k fl expected script [] [] bs log h

/-- non-vacuity: a 250-byte FC3 reply (125 registers) cut byte by byte is a fragmentation -/
example : Frag [1, 2, 3] [.timeout, .data [1], .timeout, .timeout, .data [2, 3], .eof []] :=
  .timeout (.data [1] (by simp) (.timeout (.timeout (.data [2, 3] (by simp) (.done _)))))

/-- **client ↔ server, end to end (TCP)**: a legal request built by the library (outside the FC1/FC2 parser finding),
sent to the library's own server whose handler answers `resp`: the server's reply to the encoded request is the
encoding of `resp` under the request's transaction id, and the client, reading that reply in ANY fragmentation,
returns exactly `resp`. Composes C09 (the server parses what the client encodes), the server's frame handling
(C16) and C07 (reassembly on the client). -/
theorem request_served_and_returned (fl : Flusher) (hooks : Bool) (tid : UInt16) (a : NewArgs) (r : Req)
    (hwf : C01.WF a) (hnew : newReq a = .ok r) (hleg : Spec.legal a = true) (hkf : Driver.kfC09 a = none)
    (h : Handler) (resp : Resp) (hh : h tid r = .resp resp) (hrep : ReplyTo r resp)
    (hok : LengthOK .tcp r) (hmax : (resp.bytes .tcp tid).length ≤ ClientKind.tcp.maxLen) (sp : Bytes) :
    handleFrame h (r.bytes .tcp tid) sp = some (resp.bytes .tcp tid) ∧
    ∀ script, Frag (resp.bytes .tcp tid) script →
      (doExchange .tcp fl hooks (r.bytes .tcp tid) (r.expLen .tcp) false script).1 = .ok resp (some tid) := by
  have hrt := (C09.C09_roundtrip_partial tid a r hwf hnew hleg hkf).2.1 sp
  constructor
  · show handleFrame h (r.bytesTCP tid) sp = some (resp.bytesTCP tid)
    unfold handleFrame
    rw [hrt]
    simp only [hh]
  · intro script hs
    have := C07_partial .tcp fl hooks (by simp) tid r resp hrep hok hmax script hs
    simpa [Returns, ClientKind.framing] using this

theorem u8_high_bit (x : UInt8) (h : x.toNat < 128) : (x + 128) &&& 128 ≠ 0 := by
  intro hc
  have := congrArg UInt8.toNat hc
  simp [UInt8.toNat_and, UInt8.toNat_add] at this
  have h2 : (x.toNat + 128) % 256 = x.toNat + 128 := by omega
  rw [h2] at this
  have : (x.toNat + 128).testBit 7 = true := by
    rw [Nat.testBit_eq_decide_div_mod_eq]; simp; omega
  rename_i hand
  have h7 := congrArg (fun n => n.testBit 7) hand
  simp only [Nat.testBit_and, Nat.zero_testBit] at h7
  rw [this] at h7
  revert h7
  decide

/-- **client ↔ server, the error path (TCP)**: when the handler refuses a legal request with a typed Modbus error `c`,
the server answers the exception frame addressed to the request, and the client - whatever the fragmentation - ends
the call with exactly that exception: the request's transaction id, unit, function code, and the handler's code -/
theorem handler_error_reaches_caller (fl : Flusher) (hooks : Bool) (tid : UInt16) (a : NewArgs) (r : Req)
    (hwf : C01.WF a) (hnew : newReq a = .ok r) (hleg : Spec.legal a = true) (hkf : Driver.kfC09 a = none)
    (h : Handler) (c : UInt8) (hh : h tid r = .typedErr c) (hfc : r.fc.toNat < 128)
    (hexp : 9 ≤ r.expLen .tcp) (sp : Bytes) :
    handleFrame h (r.bytes .tcp tid) sp = some (excBytesTCP tid r.unit r.fc c) ∧
    ∀ script, Frag (excBytesTCP tid r.unit r.fc c) script →
      (doExchange .tcp fl hooks (r.bytes .tcp tid) (r.expLen .tcp) false script).1 =
        .err (.exc (.excT tid r.unit r.fc c)) := by
  have hrt := (C09.C09_roundtrip_partial tid a r hwf hnew hleg hkf).2.1 sp
  constructor
  · show handleFrame h (r.bytesTCP tid) sp = _
    unfold handleFrame
    rw [hrt]
    simp only [hh]
  · intro script hs
    have hx : excBytesTCP tid r.unit r.fc c = [hi8 tid, lo8 tid, 0, 0, hi8 3, lo8 3, r.unit, r.fc + 128, c] := rfl
    have := exception_reply_tcp fl hooks (r.bytes .tcp tid) (r.expLen .tcp) _ (by rw [hx]; rfl)
      (by rw [hx]; simpa using u8_high_bit r.fc hfc) hexp script hs
    rw [this, hx]
    simp

/-- the same for a handler error that is not a typed Modbus error: the caller sees "server device failure" (04),
addressed to the request -/
theorem handler_failure_reaches_caller (fl : Flusher) (hooks : Bool) (tid : UInt16) (a : NewArgs) (r : Req)
    (hwf : C01.WF a) (hnew : newReq a = .ok r) (hleg : Spec.legal a = true) (hkf : Driver.kfC09 a = none)
    (h : Handler) (hh : h tid r = .genericErr) (hfc : r.fc.toNat < 128)
    (hexp : 9 ≤ r.expLen .tcp) (sp : Bytes) :
    handleFrame h (r.bytes .tcp tid) sp = some (excBytesTCP tid r.unit r.fc 4) ∧
    ∀ script, Frag (excBytesTCP tid r.unit r.fc 4) script →
      (doExchange .tcp fl hooks (r.bytes .tcp tid) (r.expLen .tcp) false script).1 =
        .err (.exc (.excT tid r.unit r.fc 4)) := by
  have hrt := (C09.C09_roundtrip_partial tid a r hwf hnew hleg hkf).2.1 sp
  constructor
  · show handleFrame h (r.bytesTCP tid) sp = _
    unfold handleFrame
    rw [hrt]
    simp only [hh]
  · intro script hs
    have hx : excBytesTCP tid r.unit r.fc 4 = [hi8 tid, lo8 tid, 0, 0, hi8 3, lo8 3, r.unit, r.fc + 128, 4] := rfl
    have := exception_reply_tcp fl hooks (r.bytes .tcp tid) (r.expLen .tcp) _ (by rw [hx]; rfl)
      (by rw [hx]; simpa using u8_high_bit r.fc hfc) hexp script hs
    rw [this, hx]
    simp

end Modbus.Properties.C07
