import ModbusProofs.Lemmas.RespRoundTrip
/-
  C02 — Responses decode to exactly what was sent; exceptions become typed errors.

  (1) every well-formed response value of FC1-6, 15, 16, 23 (byte count = payload length, at
      least one byte / one register) encodes to a frame that every parse path decodes to exactly
      that value - transaction id, unit id, addresses, counts, payload - which therefore re-encodes
      to the same frame; stated for all payload lengths 1..255 and arbitrary payload bytes.
      FC17 (variable layout): `roundtrip_sid_tcp` / `roundtrip_sid_rtu` below; (the sentence continues:)
      stated here (see DESIGN.md).
  (2) every 9-byte TCP / 5-byte RTU frame whose function byte has the high bit set is reported as the
      typed exception carrying the frame's unit id, function code - 128 and exception code; never as a value.
  (3) a byte-count carrying response whose length disagrees with its byte count field is rejected.
-/
namespace Modbus.Properties.C02
open Modbus Modbus.Model Modbus.Lemmas

theorem resp_pdu_fc (r : Resp) : r.pdu.getD 1 0 = r.fc ∧ 2 ≤ r.pdu.length := by
  cases r <;> simp [Resp.pdu, Resp.fc, put16]

theorem wf9_len (r : Resp) (h : Resp.WF9 r) : 4 ≤ r.pdu.length ∧ r.fc.toNat < 128 := by
  cases r with
  | bits fc u bl d => obtain ⟨hfc, _, hd⟩ := h; rcases hfc with rfl | rfl <;> simp [Resp.pdu, Resp.fc] <;> omega
  | regs fc u bl d =>
    obtain ⟨hfc, hbl, hd⟩ := h
    have := bl.toNat_lt
    rcases hfc with rfl | rfl | rfl <;> simp [Resp.pdu, Resp.fc] <;> omega
  | wcoil u a s => simp [Resp.pdu, Resp.fc, put16]
  | wreg u a d0 d1 => simp [Resp.pdu, Resp.fc, put16]
  | wmulti fc u a c => rcases h with rfl | rfl <;> simp [Resp.pdu, Resp.fc, put16]
  | sid u st id add => exact absurd h (by simp [Resp.WF9])

/-- (1) TCP: per-function parser and dispatcher return the value the frame encodes -/
theorem roundtrip_tcp (tid : UInt16) (r : Resp) (h : Resp.WF9 r) (sp : Bytes) :
    parseRespTCPfc r.fc ⟨r.bytesTCP tid, sp⟩ = .ok (tid, r) ∧
    parseTCPResponse ⟨r.bytesTCP tid, sp⟩ = .ok (tid, r) := by
  refine ⟨rt_resp_tcp_fc tid r h sp, ?_⟩
  have ⟨hfc, hl2⟩ := resp_pdu_fc r
  have ⟨hl, _⟩ := wf9_len r h
  have hlen : (r.bytesTCP tid).length = 6 + r.pdu.length := by
    unfold Resp.bytesTCP mbap put16; simp; omega
  have hfc7 : (r.bytesTCP tid).getD 7 0 = r.fc := by
    rw [← hfc]
    unfold Resp.bytesTCP mbap put16
    simp [List.getD_eq_getElem?_getD, List.getElem?_append_right]
  unfold parseTCPResponse asTCPErrorPacket
  dsimp only
  have h8 : ¬ (r.bytesTCP tid).length < 8 := by omega
  have h9 : (r.bytesTCP tid).length ≠ 9 := by omega
  simp (disch := omega) only [h8, h9, if_false, if_true, ne_eq, not_false_eq_true, Res.bind_ok, idx_eq, hfc7]
  exact rt_resp_tcp_fc tid r h sp

/-- (1) RTU: per-function parser, dispatcher and CRC-checking dispatcher -/
theorem roundtrip_rtu (r : Resp) (h : Resp.WF9 r) (sp : Bytes) :
    parseRespRTUfc r.fc ⟨r.bytesRTU, sp⟩ = .ok r ∧
    parseRTUResponse ⟨r.bytesRTU, sp⟩ = .ok r ∧
    parseRTUResponseWithCRC ⟨r.bytesRTU, sp⟩ = .ok r := by
  have ⟨hfc, hl2⟩ := resp_pdu_fc r
  have ⟨hl, _⟩ := wf9_len r h
  have e : r.bytesRTU = r.pdu ++ [lo8 (crc16 r.pdu), hi8 (crc16 r.pdu)] := rfl
  have h1 : parseRespRTUfc r.fc ⟨r.bytesRTU, sp⟩ = .ok r := by
    rw [e]; exact rt_resp_rtu_fc r h _ _ sp
  have hfc1 : r.bytesRTU.getD 1 0 = r.fc := by
    rw [← hfc, e]
    simp only [List.getD_eq_getElem?_getD]
    rw [List.getElem?_append_left (by omega)]
  have hlen : r.bytesRTU.length = r.pdu.length + 2 := by rw [e]; simp
  have h2 : parseRTUResponse ⟨r.bytesRTU, sp⟩ = .ok r := by
    unfold parseRTUResponse asRTUErrorPacket
    dsimp only
    have h4 : ¬ r.bytesRTU.length < 4 := by omega
    have h5 : r.bytesRTU.length ≠ 5 := by omega
    simp (disch := omega) only [h4, h5, if_false, if_true, ne_eq, not_false_eq_true, Res.bind_ok, idx_eq, hfc1]
    exact h1
  refine ⟨h1, h2, ?_⟩
  unfold parseRTUResponseWithCRC
  dsimp only
  have hc : crcMatches r.bytesRTU = true := by
    rw [e]; exact (crcMatches_iff _ _ _).2 ⟨rfl, rfl⟩
  have h4 : ¬ r.bytesRTU.length < 4 := by omega
  simp only [h4, if_false, hc, Bool.not_true, Bool.false_eq_true]
  exact h2

/-- (1) FC17 (read server id) over TCP, in the library's layout (id length, id, run status, additional data):
additional data is reported as absent or non-empty -/
theorem roundtrip_sid_tcp (tid : UInt16) (u st : UInt8) (id : Bytes) (add : Option Bytes)
    (h1 : 1 ≤ id.length) (h2 : id.length ≤ 255) (h3 : add ≠ some []) (sp : Bytes) :
    parseRespTCPfc 17 ⟨(Resp.sid u st id add).bytesTCP tid, sp⟩ = .ok (tid, .sid u st id add) ∧
    parseTCPResponse ⟨(Resp.sid u st id add).bytesTCP tid, sp⟩ = .ok (tid, .sid u st id add) := by
  have hbl : (UInt8.ofNat id.length).toNat = id.length := by simp [UInt8.toNat_ofNat']; omega
  have key : parseSidRespTCP ⟨(Resp.sid u st id add).bytesTCP tid, sp⟩ = .ok (tid, .sid u st id add) := by
    have := rt_sidresp_tcp_aux tid (UInt16.ofNat (Resp.sid u st id add).pdu.length) u st (UInt8.ofNat id.length) id
      (add.getD []) hbl h1 sp
    have e : (if add.getD [] = [] then none else some (add.getD [])) = add := by
      cases add with
      | none => rfl
      | some t =>
        have : t ≠ [] := fun e => h3 (by rw [e])
        simp [this]
    rw [e] at this
    exact this
  refine ⟨key, ?_⟩
  have hlen : ((Resp.sid u st id add).bytesTCP tid).length = 10 + id.length + (add.getD []).length := by
    unfold Resp.bytesTCP mbap put16 Resp.pdu; simp; omega
  have hfc7 : ((Resp.sid u st id add).bytesTCP tid).getD 7 0 = 17 := by
    unfold Resp.bytesTCP mbap put16 Resp.pdu; simp [List.getD_eq_getElem?_getD]
  unfold parseTCPResponse asTCPErrorPacket
  dsimp only
  have h8 : ¬ ((Resp.sid u st id add).bytesTCP tid).length < 8 := by omega
  have h9 : ((Resp.sid u st id add).bytesTCP tid).length ≠ 9 := by omega
  simp (disch := omega) only [h8, h9, if_false, if_true, ne_eq, not_false_eq_true, Res.bind_ok, idx_eq, hfc7]
  exact key

/-- (1) FC17 over RTU: the parser reports the additional data as a (possibly empty) byte string -/
theorem roundtrip_sid_rtu (u st : UInt8) (id t : Bytes) (h1 : 1 ≤ id.length) (h2 : id.length ≤ 255) (sp : Bytes) :
    parseRespRTUfc 17 ⟨(Resp.sid u st id (some t)).bytesRTU, sp⟩ = .ok (.sid u st id (some t)) ∧
    parseRTUResponse ⟨(Resp.sid u st id (some t)).bytesRTU, sp⟩ = .ok (.sid u st id (some t)) ∧
    parseRTUResponseWithCRC ⟨(Resp.sid u st id (some t)).bytesRTU, sp⟩ = .ok (.sid u st id (some t)) := by
  have hbl : (UInt8.ofNat id.length).toNat = id.length := by simp [UInt8.toNat_ofNat']; omega
  obtain ⟨r, hr⟩ : ∃ r, r = Resp.sid u st id (some t) := ⟨_, rfl⟩
  rw [← hr]
  have e : r.bytesRTU = r.pdu ++ [lo8 (crc16 r.pdu), hi8 (crc16 r.pdu)] := rfl
  have hpdu : r.pdu = [u, 17, UInt8.ofNat id.length] ++ id ++ [st] ++ t := by simp [hr, Resp.pdu]
  have h1' : parseRespRTUfc 17 ⟨r.bytesRTU, sp⟩ = .ok r := by
    rw [e, hpdu, hr]
    exact rt_sidresp_rtu_aux u st (UInt8.ofNat id.length) _ _ id t hbl h1 sp
  have hlen : r.bytesRTU.length = 6 + id.length + t.length := by rw [e, hpdu]; simp; omega
  have hfc1 : r.bytesRTU.getD 1 0 = 17 := by rw [e, hpdu]; simp [List.getD_eq_getElem?_getD]
  have h2' : parseRTUResponse ⟨r.bytesRTU, sp⟩ = .ok r := by
    unfold parseRTUResponse asRTUErrorPacket
    dsimp only
    have h4 : ¬ r.bytesRTU.length < 4 := by omega
    have h5 : r.bytesRTU.length ≠ 5 := by omega
    simp (disch := omega) only [h4, h5, if_false, if_true, ne_eq, not_false_eq_true, Res.bind_ok, idx_eq, hfc1]
    exact h1'
  refine ⟨h1', h2', ?_⟩
  unfold parseRTUResponseWithCRC
  dsimp only
  have hc : crcMatches r.bytesRTU = true := by
    rw [e]; exact (crcMatches_iff _ _ _).2 ⟨rfl, rfl⟩
  have h4 : ¬ r.bytesRTU.length < 4 := by omega
  simp only [h4, if_false, hc, Bool.not_true, Bool.false_eq_true]
  exact h2'

/-- the frame is reproduced byte for byte in both framings: absent and empty additional data encode alike -/
theorem sid_none_encodes_as_empty (u st : UInt8) (id : Bytes) :
    (Resp.sid u st id none).pdu = (Resp.sid u st id (some [])).pdu := by simp [Resp.pdu]

/-- non-vacuity: a 255-byte server id with additional data -/
example : (Resp.sid 1 0xFF (List.replicate 255 0x41) (some [1, 2, 3])).pdu.length = 262 := by
  decide +kernel

/-- (1) the payload bytes are arbitrary and every byte count 1..255 occurs: non-vacuity -/
example : Resp.WF9 (.bits 1 7 255 (List.replicate 255 0xA5)) := by
  refine ⟨Or.inl rfl, ?_, ?_⟩ <;> rw [List.length_replicate] <;> decide
example : Resp.WF9 (.regs 23 7 250 (List.replicate 250 0x5A)) := by
  refine ⟨Or.inr (Or.inr rfl), ?_, ?_⟩ <;> rw [List.length_replicate] <;> decide

/-- (2) TCP: ANY nine bytes with the high bit of byte 7 set are reported as the typed exception -/
theorem exception_tcp (v sp : Bytes) (hlen : v.length = 9) (hbit : (v.getD 7 0) &&& 128 ≠ 0) :
    parseTCPResponse ⟨v, sp⟩ =
      .err (.excT (be16 (v.getD 0 0) (v.getD 1 0)) (v.getD 6 0) (v.getD 7 0 - 128) (v.getD 8 0)) := by
  unfold parseTCPResponse asTCPErrorPacket
  dsimp only
  have h8 : ¬ v.length < 8 := by omega
  simp (disch := omega) only [h8, hlen, if_false, ne_eq, not_true_eq_false, Res.bind_ok, idx_eq, rd16_eq, hbit,
    not_false_eq_true, if_true, Nat.reduceAdd, Nat.reduceLT]

/-- (2) RTU: ANY five bytes with the high bit of byte 1 set -/
theorem exception_rtu (v sp : Bytes) (hlen : v.length = 5) (hbit : (v.getD 1 0) &&& 128 ≠ 0) :
    parseRTUResponse ⟨v, sp⟩ = .err (.excR (v.getD 0 0) (v.getD 1 0 - 128) (v.getD 2 0)) := by
  unfold parseRTUResponse asRTUErrorPacket
  dsimp only
  have h4 : ¬ v.length < 4 := by omega
  simp (disch := omega) only [h4, hlen, if_false, ne_eq, not_true_eq_false, Res.bind_ok, idx_eq, hbit,
    not_false_eq_true, if_true, Nat.reduceLT]

/-- (2) RTU with CRC check: the typed exception when the CRC is right, `ErrInvalidCRC` otherwise - never a value -/
theorem exception_rtu_crc (v sp : Bytes) (hlen : v.length = 5) (hbit : (v.getD 1 0) &&& 128 ≠ 0) :
    parseRTUResponseWithCRC ⟨v, sp⟩ =
      if crcMatches v then .err (.excR (v.getD 0 0) (v.getD 1 0 - 128) (v.getD 2 0)) else .err .badCRC := by
  unfold parseRTUResponseWithCRC
  dsimp only
  have h4 : ¬ v.length < 4 := by omega
  by_cases hc : crcMatches v = true
  · simp only [h4, if_false, hc, Bool.not_true, Bool.false_eq_true, if_true]
    exact exception_rtu v sp hlen hbit
  · simp [h4, hc]

/-- (3) a TCP response of a byte-count carrying function is only accepted when its length is 9 + byte count -/
theorem bytecount_mismatch_tcp (mk : UInt8 → UInt8 → Bytes → Resp) (n : Nat) (hn : 9 ≤ n) (v sp : Bytes)
    (hmis : v.length ≠ 9 + (v.getD 8 0).toNat) : ∃ e, parseByteCountRespTCP mk n ⟨v, sp⟩ = .err e := by
  unfold parseByteCountRespTCP
  dsimp only
  by_cases h : v.length < n
  · exact ⟨.plain, by simp only [h, if_true]⟩
  · simp (disch := omega) only [h, if_false, idx_eq, Res.bind_ok, hmis, ne_eq, not_false_eq_true, if_true]
    exact ⟨_, rfl⟩

theorem bytecount_mismatch_rtu (mk : UInt8 → UInt8 → Bytes → Resp) (n : Nat) (hn : 5 ≤ n) (v sp : Bytes)
    (hmis : v.length ≠ 3 + (v.getD 2 0).toNat + 2) : ∃ e, parseByteCountRespRTU mk n ⟨v, sp⟩ = .err e := by
  unfold parseByteCountRespRTU
  dsimp only
  by_cases h : v.length < n
  · exact ⟨.plain, by simp only [h, if_true]⟩
  · simp (disch := omega) only [h, if_false, idx_eq, Res.bind_ok, hmis, ne_eq, not_false_eq_true, if_true]
    exact ⟨_, rfl⟩

/-- (3) for each of FC1, FC2, FC3, FC4, FC23 over TCP -/
theorem bytecount_mismatch_tcp_fc (fc : UInt8) (hfc : fc = 1 ∨ fc = 2 ∨ fc = 3 ∨ fc = 4 ∨ fc = 23) (v sp : Bytes)
    (hmis : v.length ≠ 9 + (v.getD 8 0).toNat) : ∃ e, parseRespTCPfc fc ⟨v, sp⟩ = .err e := by
  rcases hfc with rfl | rfl | rfl | rfl | rfl <;>
    exact bytecount_mismatch_tcp _ _ (by omega) v sp hmis

theorem bytecount_mismatch_rtu_fc (fc : UInt8) (hfc : fc = 1 ∨ fc = 2 ∨ fc = 3 ∨ fc = 4 ∨ fc = 23) (v sp : Bytes)
    (hmis : v.length ≠ 3 + (v.getD 2 0).toNat + 2) : ∃ e, parseRespRTUfc fc ⟨v, sp⟩ = .err e := by
  rcases hfc with rfl | rfl | rfl | rfl | rfl <;>
    exact bytecount_mismatch_rtu _ _ (by omega) v sp hmis

/-! ### the error bit: whatever else a frame looks like, with the high bit of its function byte set the dispatchers never
return it as a response (of any length: a response-shaped frame with the bit set included) -/

theorem respTCPfc_supported (fc : UInt8) (s : Slice) (x : UInt16 × Resp) (h : parseRespTCPfc fc s = .ok x) :
    fc &&& 128 = 0 := by
  unfold parseRespTCPfc at h
  split at h <;> first | decide | (exact absurd h (by simp))

theorem respRTUfc_supported (fc : UInt8) (s : Slice) (x : Resp) (h : parseRespRTUfc fc s = .ok x) :
    fc &&& 128 = 0 := by
  unfold parseRespRTUfc at h
  split at h <;> first | decide | (exact absurd h (by simp))

/-- TCP dispatcher: a returned response has the error bit of byte 7 clear -/
theorem error_bit_never_response_tcp (v sp : Bytes) (x : UInt16 × Resp)
    (h : parseTCPResponse ⟨v, sp⟩ = .ok x) : (v.getD 7 0) &&& 128 = 0 := by
  unfold parseTCPResponse at h
  dsimp only at h
  by_cases h8 : v.length < 8
  · simp [h8] at h
  · simp only [h8, if_false] at h
    cases he : asTCPErrorPacket ⟨v, sp⟩ with
    | panic => rw [he] at h; simp [Res.bind] at h
    | err e => rw [he] at h; simp [Res.bind] at h
    | ok e =>
      rw [he] at h
      cases e with
      | some e => simp [Res.bind] at h
      | none =>
        simp only [Res.bind_ok] at h
        rw [Lemmas.idx_eq v sp 7 (by omega)] at h
        simp only [Res.bind_ok] at h
        exact respTCPfc_supported _ _ x h

/-- RTU dispatchers (with and without the CRC check): a returned response has the error bit of byte 1 clear -/
theorem error_bit_never_response_rtu (v sp : Bytes) (x : Resp)
    (h : parseRTUResponse ⟨v, sp⟩ = .ok x) : (v.getD 1 0) &&& 128 = 0 := by
  unfold parseRTUResponse at h
  dsimp only at h
  by_cases h4 : v.length < 4
  · simp [h4] at h
  · simp only [h4, if_false] at h
    cases he : asRTUErrorPacket ⟨v, sp⟩ with
    | panic => rw [he] at h; simp [Res.bind] at h
    | err e => rw [he] at h; simp [Res.bind] at h
    | ok e =>
      rw [he] at h
      cases e with
      | some e => simp [Res.bind] at h
      | none =>
        simp only [Res.bind_ok] at h
        rw [Lemmas.idx_eq v sp 1 (by omega)] at h
        simp only [Res.bind_ok] at h
        exact respRTUfc_supported _ _ x h

theorem error_bit_never_response_rtu_crc (v sp : Bytes) (x : Resp)
    (h : parseRTUResponseWithCRC ⟨v, sp⟩ = .ok x) : (v.getD 1 0) &&& 128 = 0 := by
  unfold parseRTUResponseWithCRC at h
  dsimp only at h
  split at h
  · simp at h
  · split at h
    · simp at h
    · exact error_bit_never_response_rtu v sp x h

/-! ### the exception recognisers decide exactly "an exception frame"

`AsTCPErrorPacket` / `AsRTUErrorPacket` (what the clients ask after every read) answer every input: an exception for the
nine (five) bytes whose function byte has the error bit, and NOTHING (`nil`, no error at all, no panic) for every other
input - in particular for frames of the exception size that are ordinary replies. -/

theorem recogniser_rtu (v sp : Bytes) :
    asRTUErrorPacket ⟨v, sp⟩ =
      if v.length = 5 ∧ (v.getD 1 0) &&& 128 ≠ 0 then .ok (some (.excR (v.getD 0 0) (v.getD 1 0 - 128) (v.getD 2 0)))
      else .ok none := by
  unfold asRTUErrorPacket
  dsimp only
  by_cases hlen : v.length = 5
  · by_cases hbit : (v.getD 1 0) &&& 128 ≠ 0
    · simp (disch := omega) only [hlen, ne_eq, not_true_eq_false, if_false, Res.bind_ok, idx_eq, hbit,
        not_false_eq_true, if_true, and_self, Nat.reduceLT]
    · have hb : (v.getD 1 0) &&& 128 = 0 := by simpa using hbit
      simp (disch := omega) only [hlen, ne_eq, not_true_eq_false, if_false, Res.bind_ok, idx_eq, hb,
        if_true, and_false, Nat.reduceLT]
  · simp only [ne_eq, hlen, not_false_eq_true, if_true, false_and, if_false]

theorem recogniser_tcp (v sp : Bytes) :
    asTCPErrorPacket ⟨v, sp⟩ =
      if v.length = 9 ∧ (v.getD 7 0) &&& 128 ≠ 0 then
        .ok (some (.excT (be16 (v.getD 0 0) (v.getD 1 0)) (v.getD 6 0) (v.getD 7 0 - 128) (v.getD 8 0)))
      else .ok none := by
  unfold asTCPErrorPacket
  dsimp only
  by_cases hlen : v.length = 9
  · by_cases hbit : (v.getD 7 0) &&& 128 ≠ 0
    · simp (disch := omega) only [hlen, ne_eq, not_true_eq_false, if_false, Res.bind_ok, idx_eq, rd16_eq, hbit,
        not_false_eq_true, if_true, and_self, Nat.reduceAdd, Nat.reduceLT]
    · have hb : (v.getD 7 0) &&& 128 = 0 := by simpa using hbit
      simp (disch := omega) only [hlen, ne_eq, not_true_eq_false, if_false, Res.bind_ok, idx_eq, hb,
        if_true, and_false, Nat.reduceLT]
  · simp only [ne_eq, hlen, not_false_eq_true, if_true, false_and, if_false]

/-- a frame of the exception size whose function byte has no error bit is not an error of any kind -/
theorem recogniser_rtu_ordinary_reply (v sp : Bytes) (h : (v.getD 1 0) &&& 128 = 0) :
    asRTUErrorPacket ⟨v, sp⟩ = .ok none := by
  rw [recogniser_rtu, if_neg]
  intro hc; exact hc.2 h

/-- non-vacuity: five bytes of an ordinary reply; five bytes of an exception -/
example : asRTUErrorPacket ⟨[1, 3, 2, 0xA1, 0x31], []⟩ = .ok none ∧
    asRTUErrorPacket ⟨[1, 0x83, 2, 0xC0, 0xF1], []⟩ = .ok (some (.excR 1 3 2)) := by decide

end Modbus.Properties.C02
