import ModbusProofs.Lemmas.ClientLoop
import ModbusProofs.Lemmas.Safe
/-
  C08 — A request call always terminates with a classified error on transport faults.

  The read loop of the model is a structural recursion over the transport script: every iteration
  consumes one read event; an exhausted script IS the stalling transport and ends in the timeout error.
  So every call terminates with an outcome (`readLoop` is a total function: no hang, no panic value
  exists in `LoopOut`), and:
    * every error outcome is one of the classified errors (`classified`);
    * after ANY harmless prefix of reads (data / timeouts that stay below the announced length, the frame
      limit and never look like an exception - in particular any proper prefix of a reply cut in any way):
        stall            → ClientError(timeout)                         (`stall`)
        I/O error        → ClientError(io)   [or the flush error]       (`io_error`)
        context cancel   → the context's error                          (`cancelled`)
        oversize         → ErrPacketTooLong  [or the flush error]       (`oversize`)
    * a rejected write → ClientError(write) [or the flush error]       (`write_rejected`)
    * success needs at least the announced number of bytes or a closed stream (`no_success_below_expected`);
    * the whole call (`doExchange`: write, read loop, reply parser) returns, for EVERY script, write outcome,
      flusher and hook setting, either a response or one of the classified errors - the model's `panic`
      outcome of the reply parsers (an index past the frame) is unreachable (`call_never_panics_and_is_classified`,
      composing the loop's classification with the parsers' safety theorems of C10).
  What the model cannot exhibit: real time. "Returns within a bounded time" is the total read timer of the
  Go code; the harness measures it (a 10 s watchdog per call turns a call that does not come back into the
  outcome HANG). Calls on an unconnected client or with a nil request return before the exchange
  (`doCall`, `refused_before_exchange`: the nil request is refused first; no write, no read, no hook).
  Known finding KF-C08-fc17-prefix: FC17 announces 8 (TCP) / 2 (RTU) bytes although its reply is longer, so a
  prefix of a reply can already satisfy the loop and - over TCP, where nothing compares the MBAP length
  with what arrived - be returned as a successful, truncated response.
-/
namespace Modbus.Properties.C08
open Modbus Modbus.Model Modbus.Lemmas

/-- reads that only deliver data or time out -/
def Harmless (k : ClientKind) (expected : Nat) (pre : List Ev) : Prop :=
  (∀ e ∈ pre, e = .timeout ∨ ∃ c, e = .data c) ∧ (evData pre).length < expected ∧
  (evData pre).length ≤ k.maxLen ∧ ∀ p q, p ++ q = evData pre → asProtocolError k p = none

theorem skip (k : ClientKind) (fl : Flusher) (expected : Nat) (pre tail : List Ev) (h : Harmless k expected pre) :
    ∃ log', readLoop k fl expected (pre ++ tail) [] [] = readLoop k fl expected tail (evData pre) log' := by
  obtain ⟨h1, h2, h3, h4⟩ := h
  have := readLoop_skip k fl expected tail pre [] [] h1 (by simpa using h2) (by simpa using h3) (by simpa using h4)
  simpa using this

/-- stall after any harmless prefix: the retryable client error (timeout) -/
theorem stall (k : ClientKind) (fl : Flusher) (expected : Nat) (pre : List Ev) (h : Harmless k expected pre) :
    (readLoop k fl expected pre [] []).1 = .err .timeout := by
  obtain ⟨log', hs⟩ := skip k fl expected pre [] h
  rw [List.append_nil] at hs
  rw [hs]; rfl

/-- I/O error after any harmless prefix -/
theorem io_error (k : ClientKind) (fl : Flusher) (expected : Nat) (pre : List Ev) (b : Bytes) (rest : List Ev)
    (h : Harmless k expected pre) :
    (readLoop k fl expected (pre ++ .ioerr b :: rest) [] []).1 = withFlush k fl (.err .io) := by
  obtain ⟨log', hs⟩ := skip k fl expected pre (.ioerr b :: rest) h
  rw [hs]
  obtain ⟨log'', h2⟩ := readLoop_ioerr k fl expected b rest (evData pre) log'
  rw [h2]

/-- cancellation after any harmless prefix: the context's error -/
theorem cancelled (k : ClientKind) (fl : Flusher) (expected : Nat) (pre : List Ev) (rest : List Ev)
    (h : Harmless k expected pre) :
    (readLoop k fl expected (pre ++ .cancel :: rest) [] []).1 = .err .ctx := by
  obtain ⟨log', hs⟩ := skip k fl expected pre (.cancel :: rest) h
  rw [hs]
  obtain ⟨_, h2, h3, h4⟩ := h
  unfold readLoop
  simp only [Ev.read, List.append_nil]
  have h1' : ¬ ((evData pre).length > k.maxLen) := by omega
  have h2' : ¬ ((evData pre).length ≥ expected) := by omega
  simp only [show ¬ ("timeout" = "io") by decide, if_false, h1', h4 (evData pre) [] (by simp), h2',
    show ¬ ("timeout" = "eof") by decide, false_and, if_true]

/-- oversize: as soon as more bytes than a frame can hold have arrived the call ends with ErrPacketTooLong -/
theorem oversize (k : ClientKind) (fl : Flusher) (expected : Nat) (pre : List Ev) (c : Bytes) (rest : List Ev)
    (h : Harmless k expected pre) (hbig : (evData pre).length + c.length > k.maxLen) :
    (readLoop k fl expected (pre ++ .data c :: rest) [] []).1 = withFlush k fl (.err .tooLong) := by
  obtain ⟨log', hs⟩ := skip k fl expected pre (.data c :: rest) h
  rw [hs]
  obtain ⟨_, _, h3, _⟩ := h
  unfold readLoop
  simp only [Ev.read]
  have hb := maxLen_lt_bufLen k
  have hlen : (evData pre ++ c.take (k.bufLen - (evData pre).length)).length > k.maxLen := by
    rw [List.length_append, List.length_take]
    omega
  simp only [show ¬ ("nil" = "io") by decide, if_false, hlen, if_true]

/-- a rejected write -/
theorem write_rejected (k : ClientKind) (fl : Flusher) (hooks : Bool) (req : Bytes) (expected : Nat) (script : List Ev) :
    (doExchange k fl hooks req expected true script).1 = .err .write ∨
    (doExchange k fl hooks req expected true script).1 = .err .flush := by
  unfold doExchange withFlush
  simp only [if_true]
  split_ifs <;> simp

/-- every error of the loop is one of the property's classes: timeout, I/O, flush, too long, context, no bytes, or a typed exception -/
theorem classified (k : ClientKind) (fl : Flusher) (expected : Nat) (script : List Ev) (e : CErr) (log : List HookEv)
    (h : readLoop k fl expected script [] [] = (.err e, log)) :
    e = .timeout ∨ e = .io ∨ e = .flush ∨ e = .tooLong ∨ e = .ctx ∨ e = .noBytes ∨ ∃ x, e = .exc x :=
  readLoop_err_class k fl expected script [] [] e log h

/-- no success on fewer bytes than announced (unless the peer closed the stream, network clients only) -/
theorem no_success_below_expected (k : ClientKind) (fl : Flusher) (expected : Nat) (script : List Ev) (bs : Bytes)
    (log : List HookEv) (h : readLoop k fl expected script [] [] = (.frame bs, log)) :
    bs.length ≥ expected ∨ (k ≠ .serial ∧ ∃ b, Ev.eof b ∈ script) :=
  readLoop_frame_len k fl expected script [] [] bs log h

/-- the error classes a call may return -/
def Classified (e : CErr) : Prop :=
  e = .timeout ∨ e = .io ∨ e = .write ∨ e = .flush ∨ e = .tooLong ∨ e = .ctx ∨ e = .noBytes ∨
  (∃ x, e = .exc x) ∨ ∃ x, e = .parse x

/-- the whole call - write, read loop, reply parser - for every transport script, write outcome, flusher and hook
setting: a response or a classified error; the parsers' `panic` outcome is unreachable, and so are the two errors
that are decided before the exchange starts (`notConnected`, `nilReq`) -/
theorem call_never_panics_and_is_classified (k : ClientKind) (fl : Flusher) (hooks : Bool) (req : Bytes)
    (expected : Nat) (writeFails : Bool) (script : List Ev) :
    (∃ r tid, (doExchange k fl hooks req expected writeFails script).1 = .ok r tid) ∨
    ∃ e, (doExchange k fl hooks req expected writeFails script).1 = .err e ∧ Classified e := by
  unfold doExchange
  by_cases hw : writeFails = true
  · right
    simp only [hw, if_true]
    unfold withFlush
    split_ifs <;> simp [Classified]
  · simp only [hw]
    rcases hrl : readLoop k fl expected script [] [] with ⟨out, log⟩
    cases out with
    | err e =>
      right
      refine ⟨e, by simp, ?_⟩
      rcases readLoop_err_class k fl expected script [] [] e log hrl with h | h | h | h | h | h | h <;>
        simp [Classified, h]
    | frame bs =>
      have ht := (safe_parseTCPResponse bs []).2
      have hr := (safe_parseRTUResponseWithCRC bs []).2
      cases hk : k.framing <;> simp only [Bool.false_eq_true, if_false]
      · rcases hp : parseTCPResponse ⟨bs, []⟩ with ⟨tid, r⟩ | e | _
        · left; exact ⟨r, some tid, by simp⟩
        · right; exact ⟨.parse e, by simp, by simp [Classified]⟩
        · exact absurd hp ht
      · rcases hp : parseRTUResponseWithCRC ⟨bs, []⟩ with r | e | _
        · left; exact ⟨r, none, by simp⟩
        · right; exact ⟨.parse e, by simp, by simp [Classified]⟩
        · exact absurd hp hr

/-- both sides of the disjunction occur: a complete FC3 reply is a response, a stalled transport a timeout -/
example : (doExchange .tcp .none false [] 11 false [.data [0, 1, 0, 0, 0, 5, 1, 3, 2, 0xAB, 0xCD]]).1 =
    .ok (.regs 3 1 2 [0xAB, 0xCD]) (some 1) := by decide +kernel
example : (doExchange .tcp .none false [] 11 false []).1 = .err .timeout := by decide +kernel

/-- before the exchange: a nil request is refused - first, whether or not the client is connected - and then an
unconnected client; in both cases nothing is written, read or shown to a hook, whatever the transport would do -/
theorem refused_before_exchange (k : ClientKind) (fl : Flusher) (hooks connected w : Bool) (req : Bytes × Nat)
    (script : List Ev) :
    doCall k fl hooks connected none w script = (.err .nilReq, []) ∧
    doCall k fl hooks false (some req) w script = (.err .notConnected, []) ∧
    doCall k fl hooks true (some req) w script = doExchange k fl hooks req.1 req.2 w script := by
  simp [doCall]

/-- the whole call including the two refusals: a response or a classified error, never a panic -/
theorem doCall_classified (k : ClientKind) (fl : Flusher) (hooks connected w : Bool) (req : Option (Bytes × Nat))
    (script : List Ev) :
    (∃ r tid, (doCall k fl hooks connected req w script).1 = .ok r tid) ∨
    ∃ e, (doCall k fl hooks connected req w script).1 = .err e ∧
      (Classified e ∨ e = .nilReq ∨ e = .notConnected) := by
  unfold doCall
  cases req with
  | none => right; exact ⟨.nilReq, rfl, Or.inr (Or.inl rfl)⟩
  | some rq =>
    cases connected with
    | false => right; exact ⟨.notConnected, rfl, Or.inr (Or.inr rfl)⟩
    | true =>
      simp only [Bool.not_true, Bool.false_eq_true, if_false]
      rcases call_never_panics_and_is_classified k fl hooks rq.1 rq.2 w script with h | ⟨e, h1, h2⟩
      · exact Or.inl h
      · exact Or.inr ⟨e, h1, Or.inl h2⟩

/-- KF-C08-fc17-prefix: a stall after the first 12 bytes of a 15-byte FC17 reply is reported as success -/
theorem kf_fc17_witness :
    (doExchange .tcp .none false ((Req.sid 16).bytes .tcp 1) ((Req.sid 16).expLen .tcp) false
      [.data (((Resp.sid 16 0 [1, 2] (some [9, 9, 9])).bytes .tcp 1).take 12)]).1 =
      .ok (.sid 16 0 [1, 2] none) (some 1) := by decide +kernel

/-- non-vacuity of `Harmless`: the first 7 of the 12 bytes of an FC3 reply, cut after 3 bytes, with a timeout -/
example : Harmless .tcp 11 [.data [0, 1, 0], .timeout, .data [0, 0, 5, 1]] := by
  refine ⟨by simp, by decide, by decide, ?_⟩
  intro p q hpq
  apply asProtocolError_tcp_none _ rfl
  left
  have : p.length + q.length = 7 := by
    have := congrArg List.length hpq
    simpa [evData] using this
  omega

/-- a call made with an already cancelled context returns the context's error (after the write), whatever the
transport would deliver -/
theorem precancelled_returns_ctx (k : ClientKind) (fl : Flusher) (hooks : Bool) (req : Bytes) :
    (doExchangeCancelled k fl hooks req false).1 = .err .ctx := by
  simp [doExchangeCancelled]

end Modbus.Properties.C08
