import ModbusProofs.Lemmas.RoundTrip
import ModbusProofs.Lemmas.Accepted
import ModbusProofs.Properties.C01
/-
  C09 — Legal requests survive encode → parse unchanged; illegal ones are refused.

  Round trip: for every request the constructors produce from specification-legal arguments,
  every applicable parser (per-function and dispatcher; TCP, RTU, RTU with CRC check, and the RTU
  per-function parsers on the frame without its CRC) returns exactly that request - hence it
  re-encodes to the same bytes. Known finding (test-pinned): the FC1/FC2 request parsers only
  accept quantities 1..125 (`Driver.kfC09` is the region 126..2000).
  Refusal: whatever a request parser accepts has its quantity / count / coil value inside the
  specification's limits and equal to the frame's own bytes - so a frame whose quantity field is
  outside the limits is never decoded.
-/
namespace Modbus.Properties.C09
open Modbus Modbus.Model Modbus.Lemmas Modbus.Properties.C01

theorem u16_le_ofNat (q : UInt16) (m : Nat) (hm : m < 65536) (h : q.toNat ≤ m) : q ≤ UInt16.ofNat m := by
  apply UInt16.le_iff_toNat_le.2
  simpa [UInt16.toNat_ofNat', Nat.mod_eq_of_lt hm] using h

theorem u16_ge_one (q : UInt16) (h : 1 ≤ q.toNat) : q ≥ 1 := by
  apply UInt16.le_iff_toNat_le.2
  simpa using h

theorem ofNat_range (n lo hi : Nat) (hhi : hi < 65536) (h1 : 1 ≤ n) (h2 : n ≤ hi) :
    UInt16.ofNat n ≥ 1 ∧ UInt16.ofNat n ≤ UInt16.ofNat hi := by
  have hn : (UInt16.ofNat n).toNat = n := u16_ofNat_toNat n (by omega)
  exact ⟨u16_ge_one _ (by omega), u16_le_ofNat _ hi hhi (by omega)⟩

/-- requests built from legal arguments outside the known-finding region are accepted back by the parsers -/
theorem legal_parserLegal (a : NewArgs) (r : Req) (hwf : WF a) (h : newReq a = .ok r)
    (hleg : Spec.legal a = true) (hkf : Driver.kfC09 a = none) : Req.ParserLegal r := by
  unfold newReq at h
  unfold WF at hwf
  split at h
  · rename_i hfc
    split_ifs at h with hq
    injection h with h; subst h
    simp only [Spec.legal, hfc, Bool.and_eq_true, decide_eq_true_eq] at hleg
    have hk : a.qty.toNat ≤ 125 := by
      apply Nat.le_of_not_lt; intro hgt
      have : 126 ≤ a.qty.toNat := hgt
      simp [Driver.kfC09, hfc, this, hleg.2] at hkf
    exact ⟨Or.inl rfl, u16_ge_one _ hleg.1, u16_le_ofNat _ 125 (by decide) hk⟩
  · rename_i hfc
    split_ifs at h with hq
    injection h with h; subst h
    simp only [Spec.legal, hfc, Bool.and_eq_true, decide_eq_true_eq] at hleg
    have hk : a.qty.toNat ≤ 125 := by
      apply Nat.le_of_not_lt; intro hgt
      have : 126 ≤ a.qty.toNat := hgt
      simp [Driver.kfC09, hfc, this, hleg.2] at hkf
    exact ⟨Or.inr (Or.inl rfl), u16_ge_one _ hleg.1, u16_le_ofNat _ 125 (by decide) hk⟩
  · rename_i hfc
    split_ifs at h with hq
    injection h with h; subst h
    simp only [Spec.legal, hfc, Bool.and_eq_true, decide_eq_true_eq] at hleg
    exact ⟨Or.inr (Or.inr (Or.inl rfl)), u16_ge_one _ hleg.1, u16_le_ofNat _ 125 (by decide) hleg.2⟩
  · rename_i hfc
    split_ifs at h with hq
    injection h with h; subst h
    simp only [Spec.legal, hfc, Bool.and_eq_true, decide_eq_true_eq] at hleg
    exact ⟨Or.inr (Or.inr (Or.inr rfl)), u16_ge_one _ hleg.1, u16_le_ofNat _ 125 (by decide) hleg.2⟩
  · injection h with h; subst h; exact trivial
  · injection h with h; subst h; exact trivial
  · rename_i hfc
    simp only [] at h
    split_ifs at h with hq
    injection h with h; subst h
    simp only [Spec.legal, hfc, Bool.and_eq_true, decide_eq_true_eq] at hleg
    have ⟨g1, g2⟩ := ofNat_range a.coils.length 1 1968 (by decide) hleg.1 hleg.2
    refine ⟨g1, g2, ?_⟩
    simp [coilsToBytes]; omega
  · rename_i hfc
    simp only [] at h
    split_ifs at h with hev hq
    injection h with h; subst h
    simp only [Spec.legal, hfc, Bool.and_eq_true, decide_eq_true_eq, beq_iff_eq] at hleg
    have ⟨g1, g2⟩ := ofNat_range (a.dataLen / 2) 1 123 (by decide) hleg.1.2 hleg.2
    refine ⟨g1, g2, ?_, ?_⟩ <;> omega
  · injection h with h; subst h; exact trivial
  · rename_i hfc
    simp only [] at h
    split_ifs at h with hrq hev hq
    injection h with h; subst h
    simp only [Spec.legal, hfc, Bool.and_eq_true, decide_eq_true_eq, beq_iff_eq] at hleg
    have ⟨g1, g2⟩ := ofNat_range (a.dataLen / 2) 1 121 (by decide) hleg.1.2 hleg.2
    refine ⟨u16_ge_one _ hleg.1.1.1.1, u16_le_ofNat _ 125 (by decide) hleg.1.1.1.2, g1, g2, ?_, ?_⟩ <;> omega
  · simp at h

/-- what C09's round-trip clause demands of one constructed request -/
def RoundTrips (tid : UInt16) (r : Req) : Prop :=
  (∀ sp, parseReqTCPfc r.fc ⟨r.bytesTCP tid, sp⟩ = .ok (tid, r)) ∧
  (∀ sp, parseTCPRequest ⟨r.bytesTCP tid, sp⟩ = .ok (tid, r)) ∧
  (∀ sp, parseReqRTUfc r.fc ⟨r.bytesRTU, sp⟩ = .ok r) ∧
  (∀ sp, parseRTURequest ⟨r.bytesRTU, sp⟩ = .ok r) ∧
  (∀ sp, parseRTURequestWithCRC ⟨r.bytesRTU, sp⟩ = .ok r) ∧
  (∀ sp, parseReqRTUfc r.fc ⟨r.pdu, sp⟩ = .ok r)

theorem roundTrips_of_parserLegal (tid : UInt16) (r : Req) (h : Req.ParserLegal r) : RoundTrips tid r := by
  refine ⟨fun sp => rt_tcp_fc tid r h sp, fun sp => rt_tcp tid r h sp, fun sp => ?_,
    fun sp => rt_rtu r h sp, fun sp => rt_rtu_crc r h sp, fun sp => ?_⟩
  · exact rt_rtu_fc r h _ sp (.two _ _ rfl)
  · have := rt_rtu_fc r h [] sp (.none rfl)
    simpa using this

/-- the full statement: every legal request the library constructs round-trips -/
def C09_full : Prop :=
  ∀ (tid : UInt16) (a : NewArgs) (r : Req), WF a → newReq a = .ok r → Spec.legal a = true → RoundTrips tid r

/-- proved: outside the FC1/FC2 126..2000 region -/
theorem C09_roundtrip_partial (tid : UInt16) (a : NewArgs) (r : Req) (hwf : WF a) (h : newReq a = .ok r)
    (hleg : Spec.legal a = true) (hkf : Driver.kfC09 a = none) : RoundTrips tid r :=
  roundTrips_of_parserLegal tid r (legal_parserLegal a r hwf h hleg hkf)

/-- KF-C09-fc1-126-2000: a legal read of 126 coils is constructed, encoded and then refused -/
theorem kf_fc1_witness :
    ∃ a r, WF a ∧ newReq a = .ok r ∧ Spec.legal a = true ∧ Driver.kfC09 a = some "KF-C09-fc1-126-2000" ∧
      parseTCPRequest ⟨r.bytesTCP 1, []⟩ = .err (.tcp 3 1 0 1) :=
  ⟨{ fc := 1, qty := 126 }, .read 1 0 0 126, by decide, by decide, by decide, by decide, by decide⟩

theorem kf_fc2_witness :
    ∃ a r, WF a ∧ newReq a = .ok r ∧ Spec.legal a = true ∧ Driver.kfC09 a = some "KF-C09-fc2-126-2000" ∧
      parseTCPRequest ⟨r.bytesTCP 1, []⟩ = .err (.tcp 3 1 0 2) :=
  ⟨{ fc := 2, qty := 126 }, .read 2 0 0 126, by decide, by decide, by decide, by decide, by decide⟩

theorem C09_full_false : ¬ C09_full := by
  intro h
  obtain ⟨a, r, hwf, hn, hl, _, hp⟩ := kf_fc1_witness
  have := (h 1 a r hwf hn hl).2.1 []
  rw [hp] at this
  exact absurd this (by simp)

/-- Refusal, TCP: anything a TCP request parser accepts consists of the frame's own fields with
quantities inside the limits (read 1..125, coils 1..1968, registers 1..123, read/write 1..125 / 1..121,
coil value FF00 or 0000). A frame with an out-of-range quantity can therefore not be accepted. -/
theorem accepted_tcp (v sp : Bytes) (x : UInt16 × Req) (h : parseTCPRequest ⟨v, sp⟩ = .ok x) :
    AcceptedTCP (v.getD 7 0) v x := (acc_tcp v sp).elim h

theorem accepted_tcp_fc (fc : UInt8) (v sp : Bytes) (x : UInt16 × Req) (h : parseReqTCPfc fc ⟨v, sp⟩ = .ok x) :
    AcceptedTCP fc v x := (acc_tcp_fc fc v sp).elim h

/-- Refusal, RTU (all three entry points) -/
theorem accepted_rtu (v sp : Bytes) (r : Req) :
    (parseRTURequest ⟨v, sp⟩ = .ok r → AcceptedRTU (v.getD 1 0) v r) ∧
    (parseRTURequestWithCRC ⟨v, sp⟩ = .ok r → AcceptedRTU (v.getD 1 0) v r) :=
  ⟨fun h => (acc_rtu v sp).elim h, fun h => (acc_rtu_crc v sp).elim h⟩

theorem accepted_rtu_fc (fc : UInt8) (v sp : Bytes) (r : Req) (h : parseReqRTUfc fc ⟨v, sp⟩ = .ok r) :
    AcceptedRTU fc v r := (acc_rtu_fc fc v sp).elim h

/-- the refusal clause spelled out for one function: a TCP FC3 frame whose quantity field is 0 or
above 125 is never decoded -/
theorem fc3_quantity_refused (v sp : Bytes) (x : UInt16 × Req)
    (hq : ¬ (be16 (v.getD 10 0) (v.getD 11 0) ≥ 1 ∧ be16 (v.getD 10 0) (v.getD 11 0) ≤ 125)) :
    parseReqTCPfc 3 ⟨v, sp⟩ ≠ .ok x := by
  intro h
  have hacc := accepted_tcp_fc 3 v sp x h
  obtain ⟨_, _, hfc, _, hf⟩ := hacc
  cases hx : x.2 with
  | read fc u a q =>
    rw [hx] at hf
    simp only [FieldsOf, getD_drop, Nat.reduceAdd] at hf
    exact hq ⟨hf.2.1 ▸ hf.2.2.1, hf.2.1 ▸ hf.2.2.2⟩
  | _ => rw [hx] at hfc; simp [Req.fc] at hfc

/-- non-vacuity: a maximal legal FC16 request (123 registers) meets the hypotheses of the round trip -/
example : Req.ParserLegal (.wregs 1 2 123 (List.replicate 246 0)) := by
  refine ⟨by decide, by decide, ?_, ?_⟩ <;> rw [List.length_replicate] <;> decide

end Modbus.Properties.C09
