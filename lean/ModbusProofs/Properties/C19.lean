import ModbusProofs.Lemmas.ClientLoop
/-
  C19 — Client hooks observe exactly the bytes sent, each chunk read and the final frame.

  `served k script acc` is what the transport hands out read by read; `readLoop_log` shows that the
  after-read hook is called with exactly those (bytes, count, error), in order, once per read performed.
  The before-write hook gets the encoded request, the before-parse hook the concatenation of the bytes read,
  and the outcome does not depend on whether hooks are installed.
-/
namespace Modbus.Properties.C19
open Modbus Modbus.Model Modbus.Lemmas

/-- installing hooks never changes the outcome -/
theorem outcome_independent (k : ClientKind) (fl : Flusher) (req : Bytes) (expected : Nat) (w : Bool) (script : List Ev) :
    (doExchange k fl true req expected w script).1 = (doExchange k fl false req expected w script).1 := by
  unfold doExchange
  simp only [if_true, Bool.false_eq_true, if_false]
  split_ifs
  · rfl
  · cases readLoop k fl expected script [] [] with
    | mk out log =>
      cases out with
      | err e => rfl
      | frame bs => simp only []; split <;> rfl

/-- the before-write hook receives exactly the encoded request, first -/
theorem before_write_first (k : ClientKind) (fl : Flusher) (req : Bytes) (expected : Nat) (w : Bool) (script : List Ev) :
    (doExchange k fl true req expected w script).2.head? = some (.beforeWrite req) := by
  unfold doExchange
  simp only [if_true]
  split_ifs
  · rfl
  · cases readLoop k fl expected script [] [] with
    | mk out log =>
      cases out with
      | err e => rfl
      | frame bs => simp only []; split <;> rfl

/-- the after-read hook sees exactly the reads the transport served, in order, one call per read; a frame handed to
the parser is the concatenation of the bytes of those reads -/
theorem after_each_read (k : ClientKind) (fl : Flusher) (expected : Nat) (script : List Ev) :
    ∃ n, n ≤ script.length ∧
      ((readLoop k fl expected script [] []).2 = ((served k script []).take n).map servedHook ∨
       (readLoop k fl expected script [] []).2 = (served k script []).map servedHook ++ [.stall]) ∧
      ∀ bs, (readLoop k fl expected script [] []).1 = .frame bs →
        bs = (((served k script []).take n).map (·.1)).flatten := by
  obtain ⟨n, h1, h2, h3⟩ := readLoop_log k fl expected script [] []
  exact ⟨n, h1, by simpa using h2, by simpa using h3⟩

/-- the before-parse hook receives exactly the frame that is parsed, and it is the last hook call -/
theorem before_parse_last (k : ClientKind) (fl : Flusher) (req : Bytes) (expected : Nat) (script : List Ev)
    (bs : Bytes) (log : List HookEv) (h : readLoop k fl expected script [] [] = (.frame bs, log)) :
    (doExchange k fl true req expected false script).2 = [.beforeWrite req] ++ log ++ [.beforeParse bs] := by
  unfold doExchange
  simp only [if_true, Bool.false_eq_true, if_false, h]
  split <;> rfl

/-- no before-parse call when no frame is handed to the parser -/
theorem no_parse_hook_on_error (k : ClientKind) (fl : Flusher) (req : Bytes) (expected : Nat) (script : List Ev)
    (e : CErr) (log : List HookEv) (h : readLoop k fl expected script [] [] = (.err e, log)) :
    (doExchange k fl true req expected false script).2 = [.beforeWrite req] ++ log := by
  unfold doExchange
  simp only [if_true, Bool.false_eq_true, if_false, h]

/-- non-vacuity: a reply in two chunks with a timeout in between -/
example : (doExchange .tcp .none true [0xAA] 4 false [.data [1, 2], .timeout, .data [3, 4]]).2 =
    [.beforeWrite [0xAA], .afterRead [1, 2] 2 "nil", .afterRead [] 0 "timeout", .afterRead [3, 4] 2 "nil",
     .beforeParse [1, 2, 3, 4]] := by decide

end Modbus.Properties.C19
