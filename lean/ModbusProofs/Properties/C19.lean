import ModbusProofs.Lemmas.ClientLoop
/-
  C19 — Client hooks observe exactly the bytes sent, each chunk read and the final frame.

  `served k script acc` is what the transport hands out read by read; `readLoop_log` shows that the
  after-read hook is called with exactly those (bytes, count, error), in order, once per read performed.
  The before-write hook gets the encoded request, the before-parse hook the concatenation of the bytes read,
  and the outcome does not depend on whether hooks are installed.
  Counting: the before-write hook fires exactly once per call, the before-parse hook at most once, a rejected
  write is followed by no other hook, and without hooks nothing is recorded.
-/
namespace Modbus.Properties.C19
open Modbus Modbus.Model Modbus.Lemmas

/-- installing hooks never changes the outcome -/
theorem outcome_independent (k : ClientKind) (fl : Flusher) (req : Bytes) (expected : Nat) (w : Bool) (script : List Ev) :
    (doExchange k fl true req expected w script).1 = (doExchange k fl false req expected w script).1 := by
  unfold doExchange
  simp only [if_true, Bool.false_eq_true, if_false]
  split_ifs
  · rfl
  · cases readLoop k fl expected script [] [] with
    | mk out log =>
      cases out with
      | err e => rfl
      | frame bs => simp only []; split <;> rfl

/-- the before-write hook receives exactly the encoded request, first -/
theorem before_write_first (k : ClientKind) (fl : Flusher) (req : Bytes) (expected : Nat) (w : Bool) (script : List Ev) :
    (doExchange k fl true req expected w script).2.head? = some (.beforeWrite req) := by
  unfold doExchange
  simp only [if_true]
  split_ifs
  · rfl
  · cases readLoop k fl expected script [] [] with
    | mk out log =>
      cases out with
      | err e => rfl
      | frame bs => simp only []; split <;> rfl

/-- the after-read hook sees exactly the reads the transport served, in order, one call per read; a frame handed to
the parser is the concatenation of the bytes of those reads -/
theorem after_each_read (k : ClientKind) (fl : Flusher) (expected : Nat) (script : List Ev) :
    ∃ n, n ≤ script.length ∧
      ((readLoop k fl expected script [] []).2 = ((served k script []).take n).map servedHook ∨
       (readLoop k fl expected script [] []).2 = (served k script []).map servedHook ++ [.stall]) ∧
      ∀ bs, (readLoop k fl expected script [] []).1 = .frame bs →
        bs = (((served k script []).take n).map (·.1)).flatten := by
  obtain ⟨n, h1, h2, h3⟩ := readLoop_log k fl expected script [] []
  exact ⟨n, h1, by simpa using h2, by simpa using h3⟩

/-- the before-parse hook receives exactly the frame that is parsed, and it is the last hook call -/
theorem before_parse_last (k : ClientKind) (fl : Flusher) (req : Bytes) (expected : Nat) (script : List Ev)
    (bs : Bytes) (log : List HookEv) (h : readLoop k fl expected script [] [] = (.frame bs, log)) :
    (doExchange k fl true req expected false script).2 = [.beforeWrite req] ++ log ++ [.beforeParse bs] := by
  unfold doExchange
  simp only [if_true, Bool.false_eq_true, if_false, h]
  split <;> rfl

/-- no before-parse call when no frame is handed to the parser -/
theorem no_parse_hook_on_error (k : ClientKind) (fl : Flusher) (req : Bytes) (expected : Nat) (script : List Ev)
    (e : CErr) (log : List HookEv) (h : readLoop k fl expected script [] [] = (.err e, log)) :
    (doExchange k fl true req expected false script).2 = [.beforeWrite req] ++ log := by
  unfold doExchange
  simp only [if_true, Bool.false_eq_true, if_false, h]

/-- non-vacuity: a reply in two chunks with a timeout in between -/
example : (doExchange .tcp .none true [0xAA] 4 false [.data [1, 2], .timeout, .data [3, 4]]).2 =
    [.beforeWrite [0xAA], .afterRead [1, 2] 2 "nil", .afterRead [] 0 "timeout", .afterRead [3, 4] 2 "nil",
     .beforeParse [1, 2, 3, 4]] := by decide

/-- without hooks nothing is recorded -/
theorem hooks_off_silent (k : ClientKind) (fl : Flusher) (req : Bytes) (expected : Nat) (w : Bool) (script : List Ev) :
    (doExchange k fl false req expected w script).2 = [] := by
  unfold doExchange
  simp only [Bool.false_eq_true, if_false]
  split_ifs
  · rfl
  · cases readLoop k fl expected script [] [] with
    | mk out log => cases out with
      | err e => rfl
      | frame bs => simp only []; split <;> rfl

/-- a rejected write: the hook saw the request, and nothing else (no read was attempted) -/
theorem write_rejected_log (k : ClientKind) (fl : Flusher) (req : Bytes) (expected : Nat) (script : List Ev) :
    (doExchange k fl true req expected true script).2 = [.beforeWrite req] := by
  unfold doExchange
  simp

def isBW : HookEv → Bool | .beforeWrite _ => true | _ => false
def isBP : HookEv → Bool | .beforeParse _ => true | _ => false

theorem loop_log_plain (k : ClientKind) (fl : Flusher) (expected : Nat) (script : List Ev) :
    ∀ e ∈ (readLoop k fl expected script [] []).2, isBW e = false ∧ isBP e = false := by
  obtain ⟨n, _, h2, _⟩ := readLoop_log k fl expected script [] []
  intro e he
  rcases h2 with h | h <;> rw [h] at he <;>
    simp only [List.nil_append, List.mem_append, List.mem_map, List.mem_singleton] at he
  · obtain ⟨x, _, rfl⟩ := he; exact ⟨rfl, rfl⟩
  · rcases he with ⟨x, _, rfl⟩ | rfl <;> exact ⟨rfl, rfl⟩

/-- the before-write hook fires exactly once per call and the before-parse hook at most once -/
theorem write_hook_once_parse_hook_at_most_once (k : ClientKind) (fl : Flusher) (req : Bytes) (expected : Nat)
    (w : Bool) (script : List Ev) :
    ((doExchange k fl true req expected w script).2.filter isBW).length = 1 ∧
    ((doExchange k fl true req expected w script).2.filter isBP).length ≤ 1 := by
  have hp := loop_log_plain k fl expected script
  have hbw : (readLoop k fl expected script [] []).2.filter isBW = [] :=
    List.filter_eq_nil_iff.mpr (fun e he => by simp [(hp e he).1])
  have hbp : (readLoop k fl expected script [] []).2.filter isBP = [] :=
    List.filter_eq_nil_iff.mpr (fun e he => by simp [(hp e he).2])
  unfold doExchange
  simp only [if_true]
  split_ifs
  · simp [List.filter_cons, isBW, isBP]
  · rcases hrl : readLoop k fl expected script [] [] with ⟨out, log⟩
    rw [hrl] at hbw hbp
    simp only at hbw hbp
    cases out with
    | err e => simp [List.filter_cons, hbw, hbp, isBW, isBP]
    | frame bs =>
      simp only []
      split <;> simp [List.filter_cons, List.filter_append, hbw, hbp, isBW, isBP]

end Modbus.Properties.C19
