import ModbusProofs.Properties.C04
import ModbusProofs.Properties.C06
import ModbusProofs.Properties.C13
/-
  C05 — Fields extracted via the request builder equal the device's memory contents.

  Device: a memory image `mem : ℕ → UInt16` per (server, unit); a conforming device answers a read of
  (start, q) with the big-endian bytes of mem(start) … mem(start+q-1) (`regsBytes`), or - for the
  truncation clause - with only the first k registers (1 ≤ k ≤ q).
  `direct mem f` = the field's value decoded directly from the device memory at the field's own
  address with the field's type and byte order (`Spec.access` on exactly the field's registers).
  Theorem `extract_eq`: for every request whose fields start at or after its start address and whose
  window lies in the address space, `ExtractFields` on the (possibly truncated) reply yields, for every
  field in order, `direct mem f` when the field's registers were delivered and an error otherwise;
  strict mode fails as a whole iff some field is unreachable, lenient mode returns every field with
  exactly the unreachable ones failed. `C05`: combined with C06 (every field in exactly one request,
  span inside the window) this holds for every request `split` produces.
-/
namespace Modbus.Properties.C05
open Modbus Modbus.Model Modbus.Lemmas

/-- wire bytes of `k` registers of the memory image starting at `addr` -/
def regsBytes (mem : Nat → UInt16) (addr k : Nat) : Bytes :=
  (List.range k).flatMap fun i => put16 (mem (addr + i))

theorem regsBytes_len (mem : Nat → UInt16) (addr k : Nat) : (regsBytes mem addr k).length = 2 * k := by
  unfold regsBytes
  induction k with
  | zero => rfl
  | succ n ih => rw [List.range_succ, List.flatMap_append, List.length_append, ih]; simp [put16]; omega

theorem regsBytes_succ (mem : Nat → UInt16) (addr k : Nat) :
    regsBytes mem addr (k + 1) = put16 (mem addr) ++ regsBytes mem (addr + 1) k := by
  unfold regsBytes
  rw [List.range_succ_eq_map, List.flatMap_cons, List.flatMap_map]
  simp only [Nat.add_zero]
  congr 1
  apply List.flatMap_congr
  intro i _
  simp [Nat.add_assoc, Nat.add_comm 1 i]

theorem regsBytes_add (mem : Nat → UInt16) (addr a b : Nat) :
    regsBytes mem addr (a + b) = regsBytes mem addr a ++ regsBytes mem (addr + a) b := by
  induction a generalizing addr with
  | zero => simp [regsBytes]
  | succ n ih =>
    rw [show n + 1 + b = (n + b) + 1 by omega, regsBytes_succ, regsBytes_succ, ih, List.append_assoc]
    congr 3
    omega

/-- the registers of a sub-window of a reply are the memory's registers at that address -/
theorem window_bytes (mem : Nat → UInt16) (start q addr k : Nat) (h1 : start ≤ addr) (h2 : addr + k ≤ start + q) :
    ((regsBytes mem start q).drop (2 * (addr - start))).take (2 * k) = regsBytes mem addr k := by
  have e : q = (addr - start) + (k + (start + q - (addr + k))) := by omega
  rw [e, regsBytes_add, regsBytes_add]
  have hl := regsBytes_len mem start (addr - start)
  rw [List.drop_append_of_le_length (by omega), ← hl, List.drop_length, List.nil_append]
  have hl2 := regsBytes_len mem (start + (addr - start)) k
  rw [List.take_append_of_le_length (by omega), ← hl2, List.take_length]
  congr 1
  omega

/-- the accessor a register field uses and the number of registers it needs -/
theorem field_acc (f : Field) (hv : f.valid = true) (hk : f.isCoil = false) :
    ∃ a, f.acc = some a ∧ Spec.need a = some f.size := by
  unfold Field.valid at hv
  unfold Field.isCoil at hk
  simp only [Bool.and_eq_true, Bool.not_eq_true', bne_iff_ne, decide_eq_true_eq, beq_eq_false_iff_ne] at hv hk
  obtain ⟨⟨⟨⟨_, ht0⟩, ht14⟩, hbit⟩, _⟩ := hv
  have hlt := f.type.toNat_lt
  have : f.type.toNat ∈ [1, 2, 3, 4, 5, 6, 7, 8, 9, 10, 11, 12, 13] := by
    have h0 : f.type.toNat ≠ 0 := fun h => ht0 (UInt8.toNat_inj.1 (by simpa using h))
    have h14 : f.type.toNat ≠ 14 := fun h => hk (UInt8.toNat_inj.1 (by simpa using h))
    simp only [List.mem_cons, List.mem_nil_iff, or_false]
    omega
  simp only [List.mem_cons, List.mem_nil_iff, or_false] at this
  have key : ∀ n : Nat, f.type.toNat = n → f.type = UInt8.ofNat n := by
    intro n hn; apply UInt8.toNat_inj.1; rw [hn]; simp [UInt8.toNat_ofNat']; omega
  rcases this with h | h | h | h | h | h | h | h | h | h | h | h | h <;>
    (have ht := key _ h; simp only [Field.acc, Field.size, ht]; refine ⟨_, rfl, ?_⟩; simp [Spec.need]) <;>
    first | omega | exact hbit | (split_ifs <;> omega)

/-- the field's value decoded directly from the device memory -/
def direct (mem : Nat → UInt16) (f : Field) : Option Val :=
  match f.acc with
  | none => none
  | some a => Spec.access 9 (regsBytes mem f.addr.toNat f.size) f.addr.toNat a f.addr.toNat

/-- what the specification says one field's extraction yields from a reply of `k` registers starting at `start` -/
def fieldResult (mem : Nat → UInt16) (start k : Nat) (f : Field) : PRes Val :=
  if f.addr.toNat + f.size ≤ start + k then C04.specRes (direct mem f) else .err .plain

theorem access_window (mem : Nat → UInt16) (start k : Nat) (f : Field) (a : Acc) (ha : f.acc = some a)
    (hn : Spec.need a = some f.size) (hlo : start ≤ f.addr.toNat) :
    C04.specRes (Spec.access 9 (regsBytes mem start k) start a f.addr.toNat) = fieldResult mem start k f := by
  unfold fieldResult direct Spec.access
  rw [ha]
  simp only [hn]
  unfold Spec.wire
  rw [regsBytes_len, regsBytes_len]
  have e1 : 2 * k / 2 = k := by omega
  have e2 : 2 * f.size / 2 = f.size := by omega
  rw [e1, e2]
  by_cases hin : f.addr.toNat + f.size ≤ start + k
  · simp only [hlo, hin, and_self, if_true, Nat.le_refl, Nat.sub_self, Nat.mul_zero, List.drop_zero]
    rw [window_bytes mem start k _ _ hlo hin]
    have : (regsBytes mem f.addr.toNat f.size).take (2 * f.size) = regsBytes mem f.addr.toNat f.size := by
      rw [← regsBytes_len mem f.addr.toNat f.size, List.take_length]
    rw [this]
  · simp only [hin, and_false, if_false]
    rfl


/-- the extraction loop driven by a per-field result function (the specification's shape of `ExtractFields`) -/
def specLoop (lenient : Bool) (res : Field → PRes Val) : List Field → List (Field × PRes Val) → Bool → Extracted
  | [], acc, had => if had then .some_ acc else .all acc
  | f :: rest, acc, had =>
    match res f with
    | .ok v => specLoop lenient res rest (acc ++ [(f, .ok v)]) had
    | .err e => if !lenient then .failed else specLoop lenient res rest (acc ++ [(f, .err e)]) true
    | .panic => .panicked

/-- a register field of a request: it has an accessor needing `size` registers and lies at or after the start -/
def FieldIn (start : Nat) (f : Field) : Prop :=
  (∃ a, f.acc = some a ∧ Spec.need a = some f.size) ∧ start ≤ f.addr.toNat

theorem extractFrom_eq (mem : Nat → UInt16) (k : Nat) (r : Registers) (sp : Bytes)
    (wf : RegWF r (regsBytes mem r.start.toNat k) sp k) (ho : r.order = 9) (f : Field)
    (hf : FieldIn r.start.toNat f) :
    f.extractFrom r = (fieldResult mem r.start.toNat k f, r.data) := by
  obtain ⟨⟨a, ha, hn⟩, hlo⟩ := hf
  unfold Field.extractFrom
  rw [ha]
  have h1 := C04.access_eq_spec r _ sp k wf a f.addr
  rw [ho] at h1
  have h2 := access_window mem r.start.toNat k f a ha hn hlo
  rw [← h2, ← h1]
  simp only []
  exact Prod.ext rfl (C13.access_preserves r a f.addr)

theorem extractLoop_eq (mem : Nat → UInt16) (k : Nat) (lenient : Bool) (r : Registers) (sp : Bytes)
    (wf : RegWF r (regsBytes mem r.start.toNat k) sp k) (ho : r.order = 9) :
    ∀ (fs : List Field) (acc : List (Field × PRes Val)) (had : Bool), (∀ f ∈ fs, FieldIn r.start.toNat f) →
      extractLoop lenient r fs acc had = specLoop lenient (fieldResult mem r.start.toNat k) fs acc had := by
  intro fs
  induction fs with
  | nil => intro acc had _; rfl
  | cons f rest ih =>
    intro acc had hall
    have hf := hall f (by simp)
    unfold extractLoop specLoop
    rw [extractFrom_eq mem k r sp wf ho f hf]
    have hr : ({ r with data := r.data } : Registers) = r := rfl
    cases hres : fieldResult mem r.start.toNat k f with
    | ok v => simp only [hr]; exact ih _ _ (fun g hg => hall g (by simp [hg]))
    | err e =>
      simp only [hr]
      cases lenient with
      | false => rfl
      | true => simp only [Bool.not_true, Bool.false_eq_true, if_false]; exact ih _ _ (fun g hg => hall g (by simp [hg]))
    | panic => rfl

/-- **C05, one request**: `ExtractFields` on the reply of `k` registers (1 ≤ k, window inside the address space) -/
theorem extract_eq (mem : Nat → UInt16) (b : BReq) (k : Nat) (sp : Bytes) (lenient : Bool) (hk : 1 ≤ k)
    (hfit : b.start.toNat + k ≤ 65536) (hall : ∀ f ∈ b.fields, FieldIn b.start.toNat f) :
    extractRegisterFields b ⟨regsBytes mem b.start.toNat k, sp⟩ lenient =
      specLoop lenient (fieldResult mem b.start.toNat k) b.fields [] false := by
  unfold extractRegisterFields
  obtain ⟨r, hr, ho, hs, wf⟩ := newRegisters_wf (regsBytes mem b.start.toNat k) sp b.start k
    (regsBytes_len _ _ _) hk hfit
  rw [hr]
  simp only []
  have wf' : RegWF r (regsBytes mem r.start.toNat k) sp k := by rw [hs]; exact wf
  have := extractLoop_eq mem k lenient r sp wf' ho b.fields [] false (by rw [hs]; exact hall)
  rw [hs] at this
  exact this

/-- corollary: when every field's registers were delivered (in particular for the full reply, k = q)
every field is reported, in order, attached to its own definition, with the directly decoded value -/
theorem specLoop_all (lenient : Bool) (res : Field → PRes Val) (val : Field → Val) :
    ∀ (fs : List Field) (acc : List (Field × PRes Val)) (had : Bool), (∀ f ∈ fs, res f = .ok (val f)) →
      specLoop lenient res fs acc had =
        (if had then Extracted.some_ (acc ++ fs.map fun f => (f, .ok (val f)))
         else Extracted.all (acc ++ fs.map fun f => (f, .ok (val f)))) := by
  intro fs
  induction fs with
  | nil => intro acc had _; simp [specLoop]
  | cons f rest ih =>
    intro acc had h
    unfold specLoop
    rw [h f (by simp)]
    simp only []
    rw [ih _ _ (fun g hg => h g (by simp [hg]))]
    simp

/-- corollary: strict mode fails as a whole as soon as one field is unreachable -/
theorem specLoop_strict_fails (res : Field → PRes Val) :
    ∀ (fs : List Field) (acc : List (Field × PRes Val)) (had : Bool),
      (∀ f ∈ fs, res f ≠ .panic) → (∃ f ∈ fs, ∃ e, res f = .err e) → specLoop false res fs acc had = .failed := by
  intro fs
  induction fs with
  | nil => intro _ _ _ h; obtain ⟨f, hf, _⟩ := h; simp at hf
  | cons f rest ih =>
    intro acc had hnp h
    unfold specLoop
    cases hres : res f with
    | panic => exact absurd hres (hnp f (by simp))
    | err e => rfl
    | ok v =>
      simp only []
      apply ih _ _ (fun g hg => hnp g (by simp [hg]))
      obtain ⟨g, hg, e, hge⟩ := h
      simp only [List.mem_cons] at hg
      rcases hg with rfl | hg
      · rw [hres] at hge; simp at hge
      · exact ⟨g, hg, e, hge⟩

/-- corollary: lenient mode returns every field, each with its own result (value or failure) -/
theorem specLoop_lenient (res : Field → PRes Val) :
    ∀ (fs : List Field) (acc : List (Field × PRes Val)) (had : Bool), (∀ f ∈ fs, res f ≠ .panic) →
      specLoop true res fs acc had = .all (acc ++ fs.map fun f => (f, res f)) ∨
      specLoop true res fs acc had = .some_ (acc ++ fs.map fun f => (f, res f)) := by
  intro fs
  induction fs with
  | nil => intro acc had _; cases had <;> simp [specLoop]
  | cons f rest ih =>
    intro acc had hnp
    unfold specLoop
    cases hres : res f with
    | panic => exact absurd hres (hnp f (by simp))
    | err e =>
      simp only [Bool.not_true, Bool.false_eq_true, if_false]
      have := ih (acc ++ [(f, .err e)]) true (fun g hg => hnp g (by simp [hg]))
      simpa [hres] using this
    | ok v =>
      simp only []
      have := ih (acc ++ [(f, .ok v)]) had (fun g hg => hnp g (by simp [hg]))
      simpa [hres] using this

theorem fieldResult_ne_panic (mem : Nat → UInt16) (start k : Nat) (f : Field) : fieldResult mem start k f ≠ .panic := by
  unfold fieldResult C04.specRes
  split_ifs
  · split <;> simp
  · simp

/-- **C05** for the requests `split` produces: every request's fields are register fields lying at or after its
start (C06), every field of the requested kind is in exactly one request (C06, permutation), so extraction
of the full reply reports every field exactly once with the value decoded directly from the device memory. -/
theorem builder_extract (fields : List Field) (target : Nat) (ht : target < 8) (hreg : targetCoils target = false)
    (reqs : List BReq) (h : split fields target = .ok reqs) :
    (reqs.flatMap (·.fields)).Perm (fields.filter fun f => f.isCoil == false) ∧
    ∀ b ∈ reqs, ∀ (mem : Nat → UInt16) (sp : Bytes) (lenient : Bool) (k : Nat), 1 ≤ k →
      b.start.toNat + k ≤ 65536 →
      extractRegisterFields b ⟨regsBytes mem b.start.toNat k, sp⟩ lenient =
        specLoop lenient (fieldResult mem b.start.toNat k) b.fields [] false := by
  obtain ⟨hperm, hreqs⟩ := C06.split_ok fields target ht reqs h
  rw [hreg] at hperm
  refine ⟨hperm, ?_⟩
  intro b hb mem sp lenient k hk hfit
  apply extract_eq mem b k sp lenient hk hfit
  intro f hf
  obtain ⟨q, _, _, _, _, hfs, _, _⟩ := hreqs b hb
  have hmem : f ∈ fields.filter fun f => f.isCoil == false :=
    hperm.mem_iff.1 (List.mem_flatMap.2 ⟨b, hb, hf⟩)
  have hcoil : f.isCoil = false := by simpa using (List.mem_filter.1 hmem).2
  have hvalid : f.valid = true := by
    unfold split at h
    cases hg : groupFields fields (targetCoils target) with
    | panic => simp [hg, Res.bind] at h
    | err e => simp [hg, Res.bind] at h
    | ok gs =>
      obtain ⟨_, _, _, hv⟩ := groupFields_go fields (targetCoils target) [] gs ⟨by simp, by simp⟩ (by simp) hg
      exact hv f (List.mem_filter.1 hmem).1
  exact ⟨field_acc f hvalid hcoil, (hfs f hf).2.2.1⟩

/-- non-vacuity: a string field and an overlapping 32-bit field in one request, full reply -/
example : (split [⟨"s", "dev", 1, 10, 13, 0, false, 4, 0⟩, ⟨"n", "dev", 1, 11, 7, 0, false, 0, 0⟩] 4).isOk = true := by
  decide

end Modbus.Properties.C05
