import ModbusProofs.Lemmas.Assembler
import ModbusProofs.Properties.C09
import ModbusProofs.Properties.C18
/-
  C16 — Every server reply is a well-formed ADU addressed to the request it answers.

  For every complete frame with a valid MBAP header (the classifier's conditions) the reply of the server is:
    * unsupported function code        → the 9-byte exception (tid, unit, fc|0x80, code 01)    (`reply_unsupported`)
    * refused by the request parser    → the 9-byte exception (tid, unit, fc|0x80, code 03)    (`server_reply`, first case)
      - out-of-range quantities / coil values / byte counts and truncated bodies are such frames (C09 `accepted_tcp`,
        C10: the parser never panics);
    * accepted and handled             → the handler's response encoded with the REQUEST's transaction id
    * accepted, handler returns an error → the 9-byte exception (tid, unit, fc|0x80, handler's code or 04)
  where tid, unit and fc are bytes 0-1, 6 and 7 of the request frame. (Before the repairs dd48c40 / 5ac6ba7 a
  truncated body panicked and handler errors were answered with tid 0, unit 0, function 0.)
  A panicking handler yields no reply; in the Go server the connection goroutine's `recover` closes that one
  connection - exercised end to end by the `srv` operations of C17; the model marks the connection as ended.
  Known finding: the FC17 request is not delimited by the classifier (KF-C18-fc17).
-/
namespace Modbus.Properties.C16
open Modbus Modbus.Model Modbus.Lemmas

/-- the layout of every exception reply: 9 bytes, protocol id 0, length 3 -/
theorem exception_layout (tid : UInt16) (unit fc code : UInt8) :
    excBytesTCP tid unit fc code = [hi8 tid, lo8 tid, 0, 0, hi8 3, lo8 3, unit, fc + 128, code] ∧
    (excBytesTCP tid unit fc code).length = 9 := ⟨rfl, rfl⟩

theorem hi8_be16 (a b : UInt8) : hi8 (be16 a b) = a := by
  have h0 := a.toNat_lt
  have h1 := b.toNat_lt
  apply UInt8.toNat_inj.1
  unfold hi8 be16
  rw [UInt8.toNat_ofNat', UInt16.toNat_ofNat', Nat.mod_eq_of_lt (by omega : a.toNat * 256 + b.toNat < 2 ^ 16)]
  omega

theorem lo8_be16 (a b : UInt8) : lo8 (be16 a b) = b := by
  have h0 := a.toNat_lt
  have h1 := b.toNat_lt
  apply UInt8.toNat_inj.1
  unfold lo8 be16
  rw [UInt8.toNat_ofNat', UInt16.toNat_ofNat', Nat.mod_eq_of_lt (by omega : a.toNat * 256 + b.toNat < 2 ^ 16)]
  omega

/-- the exception reply starts with the first two bytes of the request (its transaction id) -/
theorem exception_tid (v : Bytes) (unit fc code : UInt8) :
    (excBytesTCP (be16 (v.getD 0 0) (v.getD 1 0)) unit fc code).take 2 = [v.getD 0 0, v.getD 1 0] := by
  rw [(exception_layout _ _ _ _).1, hi8_be16, lo8_be16]; rfl

/-- what the server answers to one complete frame with a supported function code -/
inductive ReplyShape (h : Handler) (v : Bytes) : Option Bytes → Prop
  /-- the request parser refuses the frame: illegal data value, addressed to the request -/
  | refused : ReplyShape h v (some (excBytesTCP (be16 (v.getD 0 0) (v.getD 1 0)) (v.getD 6 0) (v.getD 7 0) 3))
  /-- the handler answers: its response, encoded with the request's transaction id -/
  | handled (req : Req) (r : Resp) : h (be16 (v.getD 0 0) (v.getD 1 0)) req = .resp r → req.unit = v.getD 6 0 → req.fc = v.getD 7 0 →
      ReplyShape h v (some (r.bytesTCP (be16 (v.getD 0 0) (v.getD 1 0))))
  /-- the handler returns a typed error: its code, addressed to the request -/
  | typed (req : Req) (c : UInt8) : h (be16 (v.getD 0 0) (v.getD 1 0)) req = .typedErr c →
      ReplyShape h v (some (excBytesTCP (be16 (v.getD 0 0) (v.getD 1 0)) (v.getD 6 0) (v.getD 7 0) c))
  /-- the handler returns any other error: server failure (04), addressed to the request -/
  | generic (req : Req) : h (be16 (v.getD 0 0) (v.getD 1 0)) req = .genericErr →
      ReplyShape h v (some (excBytesTCP (be16 (v.getD 0 0) (v.getD 1 0)) (v.getD 6 0) (v.getD 7 0) 4))
  /-- the handler panics: no reply; the connection ends -/
  | panicked (req : Req) : h (be16 (v.getD 0 0) (v.getD 1 0)) req = .panics → ReplyShape h v none

/-- **server reply** to a complete frame with a valid header and a supported function code, for any handler and
whatever follows the frame in the reassembly buffer -/
theorem server_reply (h : Handler) (v sp : Bytes) (h8 : 8 ≤ v.length) (hm : MBAPrest v)
    (hs : supportedFunctionCodes.contains (v.getD 7 0) = true) : ReplyShape h v (handleFrame h v sp) := by
  unfold handleFrame
  have herr := errfor_dispatch v sp h8 hm hs
  have hacc := acc_tcp v sp
  cases hp : parseTCPRequest ⟨v, sp⟩ with
  | panic => exact absurd hp (safe_parseTCPRequest v sp).2
  | err e =>
    rw [hp] at herr
    cases herr with
    | err he => rw [he]; exact .refused
  | ok x =>
    obtain ⟨tid, req⟩ := x
    rw [hp] at hacc
    cases hacc with
    | ok ha =>
      obtain ⟨h1, h2, h3, h4, _⟩ := ha
      simp only [] at h1 h2 h3
      subst h1
      simp only []
      cases hh : h (be16 (v.getD 0 0) (v.getD 1 0)) req with
      | resp r => exact .handled req r hh h2 (h3.trans h4.symm)
      | typedErr c => rw [h2, h3, ← h4]; exact .typed req c hh
      | genericErr => rw [h2, h3, ← h4]; exact .generic req hh
      | panics => exact .panicked req hh

/-- **unsupported function codes** (1..127 and beyond, not zero): the frame is consumed and answered with the
illegal-function exception carrying the request's transaction id, unit id and function code -/
theorem reply_unsupported (h : Handler) (f : Bytes) (h8 : 8 ≤ f.length)
    (hp : f.getD 2 0 = 0 ∧ f.getD 3 0 = 0) (hlen : ¬ be16 (f.getD 4 0) (f.getD 5 0) < 3)
    (hself : f.length = (be16 (f.getD 4 0) (f.getD 5 0)).toNat + 6)
    (hfc0 : f.getD 7 0 ≠ 0) (hun : supportedFunctionCodes.contains (f.getD 7 0) = false) :
    frameReply h f = some (excBytesTCP (be16 (f.getD 0 0) (f.getD 1 0)) (f.getD 6 0) (f.getD 7 0) 1) := by
  unfold frameReply
  rw [C18.unsupported f [] h8 hp hlen hfc0 hun]
  rfl

/-- out-of-range quantities: a frame whose FC3 quantity field is 0 or above 125 is answered with code 03
(it is never handed to the handler) - spelled out for one function; `C09.accepted_tcp` gives the general form -/
theorem fc3_quantity_code3 (h : Handler) (v sp : Bytes) (h8 : 8 ≤ v.length) (hm : MBAPrest v) (hfc : v.getD 7 0 = 3)
    (hq : ¬ (be16 (v.getD 10 0) (v.getD 11 0) ≥ 1 ∧ be16 (v.getD 10 0) (v.getD 11 0) ≤ 125)) :
    handleFrame h v sp = some (excBytesTCP (be16 (v.getD 0 0) (v.getD 1 0)) (v.getD 6 0) 3 3) := by
  have hs : supportedFunctionCodes.contains (v.getD 7 0) = true := by rw [hfc]; decide
  have herr := errfor_dispatch v sp h8 hm hs
  unfold handleFrame
  cases hp : parseTCPRequest ⟨v, sp⟩ with
  | panic => exact absurd hp (safe_parseTCPRequest v sp).2
  | err e =>
    rw [hp] at herr
    cases herr with
    | err he => rw [he, hfc]; rfl
  | ok x =>
    exfalso
    have : parseReqTCPfc 3 ⟨v, sp⟩ = .ok x := by
      unfold parseTCPRequest at hp
      have hlt : ¬ v.length < 8 := by omega
      simp (disch := omega) only [hlt, if_false, idx_eq, Res.bind_ok, hfc] at hp
      exact hp
    exact C09.fc3_quantity_refused v sp x hq this

/-- non-vacuity: a header-consistent FC3 frame cut after the address (the case that used to panic) -/
example : handleFrame (fun _ _ => .genericErr) [0x12, 0x34, 0, 0, 0, 4, 7, 3, 0, 1] [0xAA, 0xBB] =
    some (excBytesTCP 0x1234 7 3 3) := by decide

theorem resp_bytesTCP_tid (r : Resp) (tid : UInt16) : (r.bytesTCP tid).take 2 = [hi8 tid, lo8 tid] := by
  cases r <;> simp [Resp.bytesTCP, mbap, put16]

/-- whatever the server answers to a complete frame - response or exception, any handler - starts with the two
transaction-id bytes of that frame and carries its unit id -/
theorem reply_echoes_tid (h : Handler) (v sp : Bytes) (h8 : 8 ≤ v.length) (hm : MBAPrest v)
    (hs : supportedFunctionCodes.contains (v.getD 7 0) = true) (out : Bytes)
    (ho : handleFrame h v sp = some out) : out.take 2 = [v.getD 0 0, v.getD 1 0] := by
  have hsh := server_reply h v sp h8 hm hs
  rw [ho] at hsh
  generalize hso : some out = so at hsh
  cases hsh with
  | refused => cases hso; exact exception_tid v _ _ _
  | handled req r _ _ _ => cases hso; rw [resp_bytesTCP_tid, hi8_be16, lo8_be16]
  | typed req c _ => cases hso; exact exception_tid v _ _ _
  | generic req _ => cases hso; exact exception_tid v _ _ _
  | panicked req _ => cases hso

end Modbus.Properties.C16
