import Modbus.Model.Response
import Modbus.Spec.Crc
import ModbusProofs.Lemmas.Crc
/-
  C03 — CRC-16 equals the Modbus CRC for every message and is enforced on RTU frames.
-/
namespace Modbus.Properties.C03
open Modbus Modbus.Model

/-- (1) For every byte string of every length the code's CRC16 is the bit-serial Modbus CRC. -/
theorem crc16_eq_spec (data : Bytes) : (crc16 data).toBitVec = Spec.crc data :=
  Lemmas.crcBV_eq_spec data

/-- check value of the CRC-16/MODBUS parameter set: "123456789" ↦ 0x4B37 -/
example : crc16 [0x31, 0x32, 0x33, 0x34, 0x35, 0x36, 0x37, 0x38, 0x39] = 0x4B37 := by decide +kernel

/-- (2) every RTU request the encoders emit ends with the CRC of the preceding bytes, low byte first -/
theorem request_rtu_trailer (r : Req) :
    r.bytesRTU = r.pdu ++ [lo8 (crc16 r.pdu), hi8 (crc16 r.pdu)] := rfl

/-- (2) every RTU response -/
theorem response_rtu_trailer (r : Resp) :
    r.bytesRTU = r.pdu ++ [lo8 (crc16 r.pdu), hi8 (crc16 r.pdu)] := rfl

/-- (2) every RTU exception frame -/
theorem exception_rtu_trailer (unit fc code : UInt8) :
    excBytesRTU unit fc code =
      [unit, fc + 128, code] ++ [lo8 (crc16 [unit, fc + 128, code]), hi8 (crc16 [unit, fc + 128, code])] := rfl

/-- the trailer check of the `…WithCRC` entry points accepts exactly the frames whose last two
bytes are the CRC (low byte first) of the rest -/
theorem crcMatches_iff (body : Bytes) (l h : UInt8) :
    crcMatches (body ++ [l, h]) = true ↔ (l = lo8 (crc16 body) ∧ h = hi8 (crc16 body)) :=
  Lemmas.crcMatches_iff body l h

/-- (3) `ParseRTURequestWithCRC` refuses with `ErrInvalidCRC` iff the trailer is not the CRC of the rest
(frames of at least 4 bytes; shorter ones are refused as too short) -/
theorem request_withCRC_badCRC_iff (body : Bytes) (l h : UInt8) (sp : Bytes) (hlen : 2 ≤ body.length) :
    parseRTURequestWithCRC ⟨body ++ [l, h], sp⟩ = .err .badCRC ↔
      ¬ (l = lo8 (crc16 body) ∧ h = hi8 (crc16 body)) :=
  Lemmas.reqWithCRC_badCRC_iff body l h sp hlen

theorem response_withCRC_badCRC_iff (body : Bytes) (l h : UInt8) (sp : Bytes) (hlen : 2 ≤ body.length) :
    parseRTUResponseWithCRC ⟨body ++ [l, h], sp⟩ = .err .badCRC ↔
      ¬ (l = lo8 (crc16 body) ∧ h = hi8 (crc16 body)) :=
  Lemmas.respWithCRC_badCRC_iff body l h sp hlen

/-- every frame an RTU encoder emits passes the trailer check (non-vacuity of the above, for all frames) -/
theorem emitted_frames_accepted (body : Bytes) : crcMatches (withCrc body) = true := by
  unfold withCrc crcTrailer
  exact (crcMatches_iff body _ _).2 ⟨rfl, rfl⟩

/-- (3) the third CRC-verifying entry point, `AsRTUErrorPacketWithCRC` (the recogniser both RTU clients use while they
read): five bytes are an exception reply if and only if the function byte carries the error bit AND the last two
bytes are the CRC of the first three, low byte first. With any other trailer - also the CRC with its two bytes
exchanged - the bytes are not an exception. -/
theorem exception_withCRC_iff (u f c l h : UInt8) (sp : Bytes) (e : PErr) :
    asRTUErrorPacketWithCRC ⟨[u, f, c, l, h], sp⟩ = .ok (some e) ↔
      (l = lo8 (crc16 [u, f, c]) ∧ h = hi8 (crc16 [u, f, c]) ∧ f &&& 128 ≠ 0 ∧ e = .excR u (f - 128) c) := by
  have hm := crcMatches_iff [u, f, c] l h
  simp only [List.cons_append, List.nil_append] at hm
  have hx : asRTUErrorPacket ⟨[u, f, c, l, h], sp⟩ =
      if f &&& 128 ≠ 0 then .ok (some (.excR u (f - 128) c)) else .ok none := by
    unfold asRTUErrorPacket
    simp [Slice.idx, Res.bind]
  unfold asRTUErrorPacketWithCRC
  simp only [List.length_cons, List.length_nil, ne_eq, not_true_eq_false, if_false]
  by_cases hc : crcMatches [u, f, c, l, h] = true
  · have hlh := hm.1 hc
    simp only [hc, Bool.not_true, Bool.false_eq_true, if_false, hx]
    by_cases hf : f &&& 128 = 0
    · simp [hf]
    · simp only [ne_eq, hf, not_false_eq_true, if_true, Res.ok.injEq, Option.some.injEq]
      constructor
      · intro he; exact ⟨hlh.1, hlh.2, trivial, he.symm⟩
      · intro he; exact he.2.2.2.symm
  · have : ¬ (l = lo8 (crc16 [u, f, c]) ∧ h = hi8 (crc16 [u, f, c])) := fun x => hc (hm.2 x)
    simp only [hc, Bool.not_false, if_true]
    constructor
    · intro he; cases he
    · intro he; exact absurd ⟨he.1, he.2.1⟩ this

/-- anything that is not five bytes long is not an exception reply for this recogniser -/
theorem exception_withCRC_length (s : Slice) (h : s.vis.length ≠ 5) : asRTUErrorPacketWithCRC s = .ok none := by
  unfold asRTUErrorPacketWithCRC
  simp [h]

example : asRTUErrorPacketWithCRC ⟨withCrc [0x0a, 0x83, 0x02], []⟩ = .ok (some (.excR 0x0a 3 2)) := by decide +kernel
/-- the same frame with the two CRC bytes exchanged -/
example : asRTUErrorPacketWithCRC ⟨[0x0a, 0x83, 0x02, 177, 51], []⟩ = .ok (some (.excR 0x0a 3 2)) ∧
    asRTUErrorPacketWithCRC ⟨[0x0a, 0x83, 0x02, 51, 177], []⟩ = .ok none := by decide +kernel

/-- **too short to carry a checksum**: fewer than four bytes (no bytes at all included) are refused by both
CRC-verifying parsers with an error - neither accepted nor answered with a panic -, whatever lies behind them in memory -/
theorem too_short_refused (v sp : Bytes) (h : v.length < 4) :
    parseRTURequestWithCRC ⟨v, sp⟩ = .err .plain ∧ parseRTUResponseWithCRC ⟨v, sp⟩ = .err .plain := by
  unfold parseRTURequestWithCRC parseRTUResponseWithCRC
  simp only [h, if_true, and_self]

/-- ... and five bytes the CRC-verifying recogniser does not accept are no error of any kind (`nil`): four or fewer,
six or more, or a trailer that is not the CRC of the first three -/
theorem recogniser_other_lengths (v sp : Bytes) (h : v.length ≠ 5) :
    asRTUErrorPacketWithCRC ⟨v, sp⟩ = .ok none := by
  unfold asRTUErrorPacketWithCRC
  simp only [ne_eq, h, not_false_eq_true, if_true]

example : parseRTUResponseWithCRC ⟨[], [0xEE, 0xEE]⟩ = .err .plain ∧ parseRTURequestWithCRC ⟨[7], []⟩ = .err .plain := by
  decide

end Modbus.Properties.C03
