import Modbus.Model.Response
import Modbus.Spec.Crc
import ModbusProofs.Lemmas.Crc
/-
  C03 — CRC-16 equals the Modbus CRC for every message and is enforced on RTU frames.
-/
namespace Modbus.Properties.C03
open Modbus Modbus.Model

/-- (1) For every byte string of every length the code's CRC16 is the bit-serial Modbus CRC. -/
theorem crc16_eq_spec (data : Bytes) : (crc16 data).toBitVec = Spec.crc data :=
  Lemmas.crcBV_eq_spec data

/-- check value of the CRC-16/MODBUS parameter set: "123456789" ↦ 0x4B37 -/
example : crc16 [0x31, 0x32, 0x33, 0x34, 0x35, 0x36, 0x37, 0x38, 0x39] = 0x4B37 := by decide +kernel

/-- (2) every RTU request the encoders emit ends with the CRC of the preceding bytes, low byte first -/
theorem request_rtu_trailer (r : Req) :
    r.bytesRTU = r.pdu ++ [lo8 (crc16 r.pdu), hi8 (crc16 r.pdu)] := rfl

/-- (2) every RTU response -/
theorem response_rtu_trailer (r : Resp) :
    r.bytesRTU = r.pdu ++ [lo8 (crc16 r.pdu), hi8 (crc16 r.pdu)] := rfl

/-- (2) every RTU exception frame -/
theorem exception_rtu_trailer (unit fc code : UInt8) :
    excBytesRTU unit fc code =
      [unit, fc + 128, code] ++ [lo8 (crc16 [unit, fc + 128, code]), hi8 (crc16 [unit, fc + 128, code])] := rfl

/-- the trailer check of the `…WithCRC` entry points accepts exactly the frames whose last two
bytes are the CRC (low byte first) of the rest -/
theorem crcMatches_iff (body : Bytes) (l h : UInt8) :
    crcMatches (body ++ [l, h]) = true ↔ (l = lo8 (crc16 body) ∧ h = hi8 (crc16 body)) :=
  Lemmas.crcMatches_iff body l h

/-- (3) `ParseRTURequestWithCRC` refuses with `ErrInvalidCRC` iff the trailer is not the CRC of the rest
(frames of at least 4 bytes; shorter ones are refused as too short) -/
theorem request_withCRC_badCRC_iff (body : Bytes) (l h : UInt8) (sp : Bytes) (hlen : 2 ≤ body.length) :
    parseRTURequestWithCRC ⟨body ++ [l, h], sp⟩ = .err .badCRC ↔
      ¬ (l = lo8 (crc16 body) ∧ h = hi8 (crc16 body)) :=
  Lemmas.reqWithCRC_badCRC_iff body l h sp hlen

theorem response_withCRC_badCRC_iff (body : Bytes) (l h : UInt8) (sp : Bytes) (hlen : 2 ≤ body.length) :
    parseRTUResponseWithCRC ⟨body ++ [l, h], sp⟩ = .err .badCRC ↔
      ¬ (l = lo8 (crc16 body) ∧ h = hi8 (crc16 body)) :=
  Lemmas.respWithCRC_badCRC_iff body l h sp hlen

/-- every frame an RTU encoder emits passes the trailer check (non-vacuity of the above, for all frames) -/
theorem emitted_frames_accepted (body : Bytes) : crcMatches (withCrc body) = true := by
  unfold withCrc crcTrailer
  exact (crcMatches_iff body _ _).2 ⟨rfl, rfl⟩

end Modbus.Properties.C03
