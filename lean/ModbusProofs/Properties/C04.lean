import ModbusProofs.Lemmas.Registers
/-
  C04 — Typed register access returns the addressed wire bytes or an error, never junk.

  `Spec.access` (Modbus/Spec/Registers.lean): over natural-number addresses, an access whose
  registers all lie in the window [start, start+n) yields the decoding of exactly those registers'
  wire bytes under the selected byte/word order; any other access is an error.
  Theorem `C04`: for EVERY payload of n ≥ 1 registers, every content of the slice's spare capacity,
  every window position with start + n ≤ 65536 (including windows ending at address 65535), every
  accessor, every order and every requested address 0..65535, the model's accessor returns exactly
  that - in particular it never panics, never reads outside the payload and does not depend on the
  spare capacity. (Before the repair 03e4f05 the uint16 window arithmetic made this false.)
-/
namespace Modbus.Properties.C04
open Modbus Modbus.Model Modbus.Lemmas

/-- the specification's answer as a result -/
def specRes (o : Option Val) : PRes Val :=
  match o with
  | some v => .ok v
  | none => .err .plain

theorem two_bytes (w : Bytes) (h : w.length = 2) : ∃ a b, w = [a, b] := by
  match w, h with
  | [a, b], _ => exact ⟨a, b, rfl⟩

theorem wire_eq (r : Registers) (d : Bytes) (n : Nat) (hl : d.length = 2 * n) (addr : UInt16) (k : Nat) :
    Spec.wire d r.start.toNat addr.toNat k = if inWin r n addr k then some (winBytes r d addr k) else none := by
  unfold Spec.wire inWin winBytes
  have : d.length / 2 = n := by omega
  rw [this]

theorem testBit_lo (h l : UInt8) (b : Nat) (hb : b ≤ 7) : (h.toNat * 256 + l.toNat).testBit b = l.toNat.testBit b := by
  have := Nat.testBit_two_pow_mul_add h.toNat (i := 8) (b := l.toNat) (by have := l.toNat_lt; omega) b
  simp only [show (2 : Nat) ^ 8 = 256 from rfl] at this
  rw [Nat.mul_comm, this, if_pos (by omega)]

theorem testBit_hi (h l : UInt8) (b : Nat) (hb : 8 ≤ b) : (h.toNat * 256 + l.toNat).testBit b = h.toNat.testBit (b - 8) := by
  have := Nat.testBit_two_pow_mul_add h.toNat (i := 8) (b := l.toNat) (by have := l.toNat_lt; omega) b
  simp only [show (2 : Nat) ^ 8 = 256 from rfl] at this
  rw [Nat.mul_comm, this, if_neg (by omega)]

theorem beNat2 (a b : UInt8) : beNat [a, b] = a.toNat * 256 + b.toNat := by simp [beNat]

/-- one-register accessors -/
theorem one_reg (r : Registers) (d sp : Bytes) (n : Nat) (wf : RegWF r d sp n) (addr : UInt16)
    (f : Bytes → PRes Val) (g : Bytes → Val) (hfg : ∀ a b, f [a, b] = .ok (g [a, b])) :
    (r.register addr).bind f =
      specRes (match Spec.wire d r.start.toNat addr.toNat 1 with | none => none | some w => some (g w)) := by
  rw [register_eq r d sp n wf, wire_eq r d n wf.len]
  by_cases h : inWin r n addr 1
  · simp only [h, if_true, Res.bind_ok]
    obtain ⟨a, b, hab⟩ := two_bytes _ (winBytes_len r d n addr 1 wf.len h)
    rw [hab, hfg]; rfl
  · simp only [h, if_false]; rfl

theorem intOf_reorder (o : ByteOrder) (w : Bytes) : intOf o (reorder o w) = Spec.intVal o w := rfl

/-- two-register accessors -/
theorem two_reg (r : Registers) (d sp : Bytes) (n : Nat) (wf : RegWF r d sp n) (addr : UInt16) (o : ByteOrder)
    (f : Bytes → PRes Val) (g : Bytes → Val) (hfg : ∀ w, f (reorder o w) = .ok (g w)) :
    (r.doubleRegister addr o).bind f =
      specRes (match Spec.wire d r.start.toNat addr.toNat 2 with | none => none | some w => some (g w)) := by
  rw [doubleRegister_eq r d sp n wf, wire_eq r d n wf.len]
  by_cases h : inWin r n addr 2
  · simp only [h, if_true, Res.bind_ok, hfg]; rfl
  · simp only [h, if_false]; rfl

/-- four-register accessors -/
theorem four_reg (r : Registers) (d sp : Bytes) (n : Nat) (wf : RegWF r d sp n) (addr : UInt16) (o : ByteOrder)
    (f : Bytes → PRes Val) (g : Bytes → Val) (hfg : ∀ w, f (reorder o w) = .ok (g w)) :
    (r.quadRegister addr o).bind f =
      specRes (match Spec.wire d r.start.toNat addr.toNat 4 with | none => none | some w => some (g w)) := by
  rw [quadRegister_eq r d sp n wf, wire_eq r d n wf.len]
  by_cases h : inWin r n addr 4
  · simp only [h, if_true, Res.bind_ok, hfg]; rfl
  · simp only [h, if_false]; rfl

theorem ord_eq (r : Registers) (o : ByteOrder) : r.ord o = Spec.effOrder r.order o := rfl

theorem access_eq_spec (r : Registers) (d sp : Bytes) (n : Nat) (wf : RegWF r d sp n) (a : Acc) (addr : UInt16) :
    (r.access a addr).1 = specRes (Spec.access r.order d r.start.toNat a addr.toNat) := by
  unfold Registers.access Spec.access
  dsimp only
  cases a with
  | bit b =>
    simp only [Spec.need]
    by_cases hb : b > 15
    · have : ¬ b.toNat ≤ 15 := by rw [gt_iff_lt, UInt8.lt_iff_toNat_lt] at hb; simpa using hb
      simp only [hb, if_true, this, if_false]; rfl
    · have hb' : b.toNat ≤ 15 := by rw [gt_iff_lt, UInt8.lt_iff_toNat_lt] at hb; simpa using hb
      simp only [hb, if_false, hb', if_true]
      apply one_reg r d sp n wf addr _ (Spec.decode r.order (.bit b))
      intro x y
      simp only [Spec.decode, List.getD_cons_zero, List.getD_cons_succ, beNat2]
      congr 2
      by_cases h7 : b > 7
      · have h7' : 8 ≤ b.toNat := by rw [gt_iff_lt, UInt8.lt_iff_toNat_lt] at h7; have : (7 : UInt8).toNat = 7 := rfl; omega
        simp only [h7, if_true]
        rw [testBit_hi x y b.toNat h7']
        congr 1
        rw [UInt8.toNat_sub_of_le _ _ (by rw [UInt8.le_iff_toNat_le]; simpa using h7')]
        rfl
      · have h7' : b.toNat ≤ 7 := by rw [gt_iff_lt, UInt8.lt_iff_toNat_lt] at h7; have : (7 : UInt8).toNat = 7 := rfl; omega
        simp only [h7, if_false]
        rw [testBit_lo x y b.toNat h7']
  | byte hi =>
    simp only [Spec.need]
    apply one_reg r d sp n wf addr _ (Spec.decode r.order (.byte hi))
    intro x y
    have := y.toNat_lt
    cases hi <;> simp [Spec.decode, beNat2] <;> omega
  | u8 hi =>
    simp only [Spec.need]
    apply one_reg r d sp n wf addr _ (Spec.decode r.order (.u8 hi))
    intro x y
    have := y.toNat_lt
    cases hi <;> simp [Spec.decode, beNat2] <;> omega
  | i8 hi =>
    simp only [Spec.need]
    apply one_reg r d sp n wf addr _ (Spec.decode r.order (.i8 hi))
    intro x y
    have := y.toNat_lt
    cases hi <;> simp [Spec.decode, beNat2] <;> congr 2 <;> omega
  | u16 =>
    simp only [Spec.need]
    apply one_reg r d sp n wf addr _ (Spec.decode r.order .u16)
    intro x y; simp [Spec.decode, intOf]
  | i16 =>
    simp only [Spec.need]
    apply one_reg r d sp n wf addr _ (Spec.decode r.order .i16)
    intro x y; simp [Spec.decode, intOf]
  | reg =>
    simp only [Spec.need]
    apply one_reg r d sp n wf addr _ (Spec.decode r.order .reg)
    intro x y; simp [Spec.decode]
  | u32 =>
    simp only [Spec.need]
    exact two_reg r d sp n wf addr _ _ (Spec.decode r.order .u32) (fun w => by simp [Spec.decode, intOf_reorder])
  | u32o o =>
    simp only [Spec.need]
    exact two_reg r d sp n wf addr _ _ (Spec.decode r.order (.u32o o))
      (fun w => by simp [Spec.decode, intOf_reorder, ord_eq])
  | i32 =>
    simp only [Spec.need]
    exact two_reg r d sp n wf addr _ _ (Spec.decode r.order .i32) (fun w => by simp [Spec.decode, intOf_reorder])
  | i32o o =>
    simp only [Spec.need]
    exact two_reg r d sp n wf addr _ _ (Spec.decode r.order (.i32o o))
      (fun w => by simp [Spec.decode, intOf_reorder, ord_eq])
  | u64 =>
    simp only [Spec.need]
    exact four_reg r d sp n wf addr _ _ (Spec.decode r.order .u64) (fun w => by simp [Spec.decode, intOf_reorder])
  | u64o o =>
    simp only [Spec.need]
    exact four_reg r d sp n wf addr _ _ (Spec.decode r.order (.u64o o))
      (fun w => by simp [Spec.decode, intOf_reorder, ord_eq])
  | i64 =>
    simp only [Spec.need]
    exact four_reg r d sp n wf addr _ _ (Spec.decode r.order .i64) (fun w => by simp [Spec.decode, intOf_reorder])
  | i64o o =>
    simp only [Spec.need]
    exact four_reg r d sp n wf addr _ _ (Spec.decode r.order (.i64o o))
      (fun w => by simp [Spec.decode, intOf_reorder, ord_eq])
  | f32 =>
    simp only [Spec.need]
    exact two_reg r d sp n wf addr _ _ (Spec.decode r.order .f32) (fun w => by simp [Spec.decode, intOf_reorder])
  | f32o o =>
    simp only [Spec.need]
    exact two_reg r d sp n wf addr _ _ (Spec.decode r.order (.f32o o))
      (fun w => by simp [Spec.decode, intOf_reorder, ord_eq])
  | f64 =>
    simp only [Spec.need]
    exact four_reg r d sp n wf addr _ _ (Spec.decode r.order .f64) (fun w => by simp [Spec.decode, intOf_reorder])
  | f64o o =>
    simp only [Spec.need]
    exact four_reg r d sp n wf addr _ _ (Spec.decode r.order (.f64o o))
      (fun w => by simp [Spec.decode, intOf_reorder, ord_eq])
  | str len =>
    simp only [Spec.need]
    rw [string_eq r d sp n wf, wire_eq r d n wf.len]
    by_cases h : inWin r n addr ((len.toNat + 1) / 2)
    · simp only [h, if_true, Res.bind_ok]
      simp [Spec.decode, specRes, ord_eq, Spec.effOrder]
    · simp only [h, if_false]; rfl
  | stro len o =>
    simp only [Spec.need]
    rw [string_eq r d sp n wf, wire_eq r d n wf.len]
    by_cases h : inWin r n addr ((len.toNat + 1) / 2)
    · simp only [h, if_true, Res.bind_ok]
      simp [Spec.decode, specRes, ord_eq]
    · simp only [h, if_false]; rfl
  | dreg o =>
    simp only [Spec.need]
    exact two_reg r d sp n wf addr _ _ (Spec.decode r.order (.dreg o)) (fun w => by simp [Spec.decode, reorder])
  | qreg o =>
    simp only [Spec.need]
    exact four_reg r d sp n wf addr _ _ (Spec.decode r.order (.qreg o)) (fun w => by simp [Spec.decode, reorder])

/-- the statement from the constructor on: every payload of n ≥ 1 registers, every spare content, every start
with start + n ≤ 65536, optional `WithByteOrder`, every accessor and address -/
theorem C04 (d sp : Bytes) (start : UInt16) (n : Nat) (hl : d.length = 2 * n) (hn : 1 ≤ n)
    (hf : start.toNat + n ≤ 65536) (order : ByteOrder) (a : Acc) (addr : UInt16) :
    ∃ r, newRegisters ⟨d, sp⟩ start = .ok r ∧
      (({ r with order := order } : Registers).access a addr).1 =
        specRes (Spec.access order d start.toNat a addr.toNat) := by
  obtain ⟨r, hr, _, hs, wf⟩ := newRegisters_wf d sp start n hl hn hf
  refine ⟨r, hr, ?_⟩
  have wf' : RegWF { r with order := order } d sp n := ⟨wf.data, wf.len, wf.pos, wf.end_, wf.fits⟩
  have := access_eq_spec { r with order := order } d sp n wf' a addr
  simpa [hs] using this

/-- consequences spelled out: never a panic, and the result does not depend on the spare capacity -/
theorem never_panics (d sp : Bytes) (start : UInt16) (n : Nat) (hl : d.length = 2 * n) (hn : 1 ≤ n)
    (hf : start.toNat + n ≤ 65536) (order : ByteOrder) (a : Acc) (addr : UInt16) (r : Registers)
    (hr : newRegisters ⟨d, sp⟩ start = .ok r) :
    (({ r with order := order } : Registers).access a addr).1 ≠ .panic := by
  obtain ⟨r', hr', h⟩ := C04 d sp start n hl hn hf order a addr
  rw [hr] at hr'; injection hr' with e; subst e
  rw [h]; unfold specRes; split <;> simp

/-- non-vacuity: a window that ends at address 65535 (the case the unrepaired code refused entirely) -/
example : (Spec.access 9 [0x12, 0x34, 0xAB, 0xCD] 65534 .u16 65535) = some (.u 16 0xABCD) := by decide
example : ∃ r, newRegisters ⟨[0x12, 0x34, 0xAB, 0xCD], []⟩ 65534 = .ok r ∧
    (r.access .u16 65535).1 = .ok (.u 16 0xABCD) := ⟨_, rfl, by decide⟩

end Modbus.Properties.C04
