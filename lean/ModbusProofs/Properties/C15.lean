import ModbusProofs.Properties.C09
import ModbusProofs.Lemmas.Assembler
import ModbusProofs.Properties.C18
/-
  C15 — The TCP server answers each request once and in order, whatever the segmentation.

  Model: `receiveRead` / `asmLoop` (Modbus/Model/Assembler.lean) = ModbusTCPAssembler.ReceiveRead after
  the repair 34186ce; the connection loop calls it after every non-empty read and writes what it returns
  (`runReads`). A `Delimited` frame is one the classifier accepts (or reports as an unsupported function)
  with expected length = its own length - by C18 every encodable request other than FC17 is one.
  Theorems, for every handler that does not panic and EVERY way of cutting the stream into reads:
    * `segmentation_independent`: the concatenation of everything the connection sends and the bytes it
      keeps buffered are the same as if the whole stream had arrived in a single read;
    * `answered_once_in_order`: for a stream of delimited frames followed by the beginning of a further
      frame, what is sent is exactly the frames' replies, in order, each once; the buffer afterwards is
      exactly the unfinished frame (empty when the stream ends on a frame boundary) - so nothing is sent
      for a request before it is complete (apply the theorem to the reads delivered so far) and no
      left-over bytes reach the next request.
  Known finding: the FC17 request is not delimited (KF-C18-fc17, test-pinned): it is answered with a
  "not Modbus" error and the connection is closed.
-/
namespace Modbus.Properties.C15
open Modbus Modbus.Model Modbus.Lemmas

/-- the connection loop: everything sent so far and the reassembly buffer; `none` once the connection was closed
or the handler panicked -/
def runReads (h : Handler) : List Bytes → Bytes → Bytes → Option (Bytes × Bytes)
  | [], buf, out => some (out, buf)
  | c :: rest, buf, out =>
    let o := receiveRead h buf c
    if o.close || o.panicked then none else runReads h rest o.buf (out ++ o.reply)

/-- the connection loop of the model (`connLoop`) sends exactly what `runReads` accumulates -/
theorem runReads_connLoop (h : Handler) : ∀ (cs : List Bytes) (buf out r b : Bytes),
    runReads h cs buf out = some (r, b) →
      r = out ++ ((connLoop h cs buf).map (·.reply)).flatten ∧ ∀ o ∈ connLoop h cs buf, o.close = false ∧ o.panicked = false := by
  intro cs
  induction cs with
  | nil => intro buf out r b h; simp [runReads] at h; simp [connLoop, h.1]
  | cons c rest ih =>
    intro buf out r b hrun
    unfold runReads at hrun
    unfold connLoop
    simp only [] at hrun ⊢
    by_cases hc : ((receiveRead h buf c).close || (receiveRead h buf c).panicked) = true
    · simp [hc] at hrun
    · simp only [hc, Bool.false_eq_true, if_false] at hrun ⊢
      obtain ⟨h1, h2⟩ := ih _ _ _ _ hrun
      refine ⟨by rw [h1]; simp [List.append_assoc], ?_⟩
      intro o ho
      simp only [List.mem_cons] at ho
      rcases ho with rfl | ho
      · simp only [Bool.or_eq_true, not_or, Bool.not_eq_true] at hc; exact hc
      · exact h2 o ho

/-- a buffer on which the frame loop makes no progress (what `ReceiveRead` leaves behind; initially empty) -/
def AtRest (h : Handler) (buf : Bytes) : Prop :=
  ∀ F, buf.length < F → asmLoop h F buf [] = { reply := [], close := false, buf := buf }

theorem atRest_nil (h : Handler) : AtRest h [] := by
  intro F hF
  obtain ⟨F', rfl⟩ : ∃ F', F = F' + 1 := ⟨F - 1, by omega⟩
  exact asmLoop_pending h F' [] [] (Or.inl (by simp))

/-- whatever the loop leaves in the buffer is at rest -/
theorem atRest_result (h : Handler) (f : Nat) (a : Bytes) (hf : a.length < f)
    (hc : (asmLoop h f a []).close = false) (hp : (asmLoop h f a []).panicked = false) :
    AtRest h (asmLoop h f a []).buf := by
  intro F hF
  have hle := asmLoop_buf_le h f a []
  have hF2 : (a ++ []).length < F + a.length + 1 := by simp; omega
  have happ := asmLoop_append h f a [] [] hf hc hp (F + a.length + 1) hF2
  simp only [List.append_nil] at happ
  rw [asmLoop_fuel h (F + a.length + 1) f a [] (by omega) hf] at happ
  rw [asmLoop_out h _ (asmLoop h f a []).buf (asmLoop h f a []).reply] at happ
  rw [asmLoop_fuel h (F + a.length + 1) F _ [] (by omega) hF] at happ
  -- compare the fields
  have hr := congrArg AsmOut.reply happ
  have hb := congrArg AsmOut.buf happ
  have hcl := congrArg AsmOut.close happ
  have hpn := congrArg AsmOut.panicked happ
  simp only [] at hr hb hcl hpn
  have hr' : (asmLoop h F (asmLoop h f a []).buf []).reply = [] := by
    have : (asmLoop h f a []).reply ++ [] = (asmLoop h f a []).reply ++ (asmLoop h F (asmLoop h f a []).buf []).reply := by
      rw [List.append_nil]; exact hr
    exact (List.append_cancel_left this).symm
  cases hres : asmLoop h F (asmLoop h f a []).buf [] with
  | mk reply close buf panicked =>
    rw [hres] at hr' hb hcl hpn
    simp only [] at hr' hb hcl hpn
    rw [hr', ← hb, ← hcl, hc]
    congr 1
    rw [← hpn, hp]

theorem segmentation_independent' (h : Handler) : ∀ (cs : List Bytes) (buf out r b : Bytes), AtRest h buf →
    runReads h cs buf out = some (r, b) → ∀ F, (buf ++ cs.flatten).length < F →
      asmLoop h F (buf ++ cs.flatten) out = { reply := r, close := false, buf := b } := by
  intro cs
  induction cs with
  | nil =>
    intro buf out r b hrest hrun F hF
    simp [runReads] at hrun
    obtain ⟨rfl, rfl⟩ := hrun
    simp only [List.flatten_nil, List.append_nil] at hF ⊢
    rw [asmLoop_out, hrest F hF]
    simp
  | cons c rest ih =>
    intro buf out r b hrest hrun F hF
    unfold runReads at hrun
    simp only [] at hrun
    by_cases hc : ((receiveRead h buf c).close || (receiveRead h buf c).panicked) = true
    · simp [hc] at hrun
    · simp only [hc, Bool.false_eq_true, if_false] at hrun
      simp only [Bool.or_eq_true, not_or, Bool.not_eq_true] at hc
      unfold receiveRead at hrun hc
      simp only [] at hrun hc
      have hlen : (buf ++ c).length < (buf ++ c).length + 1 := by omega
      have hrest' := atRest_result h _ (buf ++ c) hlen hc.1 hc.2
      have hflat : buf ++ (c :: rest).flatten = (buf ++ c) ++ rest.flatten := by simp
      rw [hflat] at hF ⊢
      -- the accumulator version of the first read
      have hout := asmLoop_out h ((buf ++ c).length + 1) (buf ++ c) out
      have hc1 : (asmLoop h ((buf ++ c).length + 1) (buf ++ c) out).close = false := by rw [hout]; exact hc.1
      have hp1 : (asmLoop h ((buf ++ c).length + 1) (buf ++ c) out).panicked = false := by rw [hout]; exact hc.2
      rw [asmLoop_append h _ (buf ++ c) rest.flatten out hlen hc1 hp1 F hF]
      have hb1 : (asmLoop h ((buf ++ c).length + 1) (buf ++ c) out).buf = (asmLoop h ((buf ++ c).length + 1) (buf ++ c) []).buf := by
        rw [hout]
      have hr1 : (asmLoop h ((buf ++ c).length + 1) (buf ++ c) out).reply = out ++ (asmLoop h ((buf ++ c).length + 1) (buf ++ c) []).reply := by
        rw [hout]
      rw [hb1, hr1]
      apply ih _ _ _ _ hrest' hrun
      have hle := asmLoop_buf_le h ((buf ++ c).length + 1) (buf ++ c) []
      rw [List.length_append] at hF ⊢
      omega

/-- **segmentation independence**: however the stream is cut into reads, as long as the connection stays open the
bytes sent and the bytes left in the buffer are those of a single read of the whole stream -/
theorem segmentation_independent (h : Handler) (cs : List Bytes) (r b : Bytes)
    (hrun : runReads h cs [] [] = some (r, b)) :
    receiveRead h [] cs.flatten = { reply := r, close := false, buf := b } := by
  unfold receiveRead
  have := segmentation_independent' h cs [] [] r b (atRest_nil h) hrun (([] ++ cs.flatten).length + 1) (by omega)
  simpa using this

/-- if the single read of the whole stream leaves the connection open, so does every segmentation of it -/
theorem runReads_defined (h : Handler) : ∀ (cs : List Bytes) (buf out : Bytes), AtRest h buf →
    (∀ F, (buf ++ cs.flatten).length < F → ¬ Stopped (asmLoop h F (buf ++ cs.flatten) out)) →
    ∃ r b, runReads h cs buf out = some (r, b) := by
  intro cs
  induction cs with
  | nil => intro buf out _ _; exact ⟨out, buf, rfl⟩
  | cons c rest ih =>
    intro buf out hrest hopen
    unfold runReads
    simp only []
    have hlen : (buf ++ c).length < (buf ++ c).length + 1 := by omega
    have hflat : buf ++ (c :: rest).flatten = (buf ++ c) ++ rest.flatten := by simp
    -- the first read alone does not stop the connection, otherwise the whole stream would have
    have hns : ¬ Stopped (asmLoop h ((buf ++ c).length + 1) (buf ++ c) out) := by
      intro hs
      have := asmLoop_append_stopped h _ (buf ++ c) rest.flatten out hlen hs
        (((buf ++ c) ++ rest.flatten).length + 1) (by omega)
      exact hopen (((buf ++ c) ++ rest.flatten).length + 1) (by rw [hflat]; omega) (by rw [hflat]; exact this)
    have hout := asmLoop_out h ((buf ++ c).length + 1) (buf ++ c) out
    have hc : (receiveRead h buf c).close = false ∧ (receiveRead h buf c).panicked = false := by
      unfold receiveRead
      simp only []
      unfold Stopped at hns
      rw [hout] at hns
      simp only [not_or, Bool.not_eq_true] at hns
      exact hns
    have hcc : ((receiveRead h buf c).close || (receiveRead h buf c).panicked) = false := by simp [hc.1, hc.2]
    simp only [hcc, Bool.false_eq_true, if_false]
    unfold receiveRead at hc ⊢
    simp only [] at hc ⊢
    apply ih _ _ (atRest_result h _ (buf ++ c) hlen hc.1 hc.2)
    intro F hF hs
    -- the rest of the run is the rest of the whole run
    have hc1 : (asmLoop h ((buf ++ c).length + 1) (buf ++ c) out).close = false := by rw [hout]; exact hc.1
    have hp1 : (asmLoop h ((buf ++ c).length + 1) (buf ++ c) out).panicked = false := by rw [hout]; exact hc.2
    have hle := asmLoop_buf_le h ((buf ++ c).length + 1) (buf ++ c) []
    let F2 := F + (buf ++ c).length + rest.flatten.length + 1
    have hF2 : ((buf ++ c) ++ rest.flatten).length < F2 := by simp only [F2, List.length_append]; omega
    have happ := asmLoop_append h _ (buf ++ c) rest.flatten out hlen hc1 hp1 F2 hF2
    have hb1 : (asmLoop h ((buf ++ c).length + 1) (buf ++ c) out).buf = (asmLoop h ((buf ++ c).length + 1) (buf ++ c) []).buf := by
      rw [hout]
    have hr1 : (asmLoop h ((buf ++ c).length + 1) (buf ++ c) out).reply = out ++ (asmLoop h ((buf ++ c).length + 1) (buf ++ c) []).reply := by
      rw [hout]
    rw [hb1, hr1] at happ
    apply hopen F2 (by rw [hflat]; exact hF2)
    rw [hflat, happ]
    rw [asmLoop_fuel h F2 F _ _ (by simp only [F2, List.length_append] at *; omega) hF]
    exact hs

/-- **exactly once, in order, nothing early, nothing left over**: the stream consists of delimited frames followed
by the beginning `p` of a further frame (or nothing); the handler answers each frame. Then for EVERY cutting of the
stream into reads the connection sends exactly the frames' replies in order and keeps exactly `p` buffered. -/
theorem answered_once_in_order (h : Handler) (fs : List Bytes) (p : Bytes) (cs : List Bytes)
    (hd : ∀ f ∈ fs, Delimited f) (hp : Pending p) (hr : ∀ f ∈ fs, (frameReply h f).isSome)
    (hcs : cs.flatten = fs.flatten ++ p) :
    runReads h cs [] [] = some ((fs.map fun f => (frameReply h f).getD []).flatten, p) := by
  have hwhole : ∀ F, ([] ++ cs.flatten).length < F →
      asmLoop h F ([] ++ cs.flatten) [] =
        { reply := (fs.map fun f => (frameReply h f).getD []).flatten, close := false, buf := p } := by
    intro F hF
    rw [List.nil_append, hcs] at hF ⊢
    simpa using asmLoop_frames h fs p [] F hd hp hr hF
  obtain ⟨r, b, hrun⟩ := runReads_defined h cs [] [] (atRest_nil h) (by
    intro F hF hs
    rw [hwhole F hF] at hs
    simp [Stopped] at hs)
  have := segmentation_independent' h cs [] [] r b (atRest_nil h) hrun _ (Nat.lt_succ_self _)
  rw [hwhole _ (Nat.lt_succ_self _)] at this
  injection this with h1 _ h3 _
  rw [hrun, ← h1, ← h3]

/-- every encoded request of a supported function other than FC17 is a delimited frame (from C18) -/
theorem encoded_request_delimited (tid : UInt16) (r : Req) (hl : 3 ≤ r.pdu.length ∧ r.pdu.length < 65536)
    (hfc : supportedFunctionCodes.contains r.fc = true) : Delimited (r.bytesTCP tid) := by
  refine ⟨none, ?_, by simp, by simp⟩
  have := C18.C18_prefix_partial tid r hl hfc (r.bytesTCP tid).length (by
    have := (C18.enc_header tid r).2.2.2.2.2.2.2.2; omega) []
  simpa using this

/-- nothing pending: a stream that ends on a frame boundary -/
theorem pending_nil : Pending [] := Or.inl (by simp)

/-- a proper prefix of a delimited frame is pending: nothing is answered before the frame is complete -/
theorem prefix_pending (f : Bytes) (hd : Delimited f) (k : Nat) (hk : k < f.length) : Pending (f.take k) := by
  obtain ⟨e, hl, hts, hnt⟩ := hd
  by_cases h8 : k < 8
  · left; simp; omega
  · right
    refine ⟨f.length, e, ?_, hts, hnt, by simp; omega⟩
    have : f = f.take k ++ f.drop k := (List.take_append_drop k f).symm
    rw [← hl]
    have h2 := looksLike_append (f.take k) (f.drop k) [] [] false (by simp; omega)
    rw [← this] at h2
    exact h2.symm

/-- non-vacuity: two FC3 requests, the second one cut in the middle, delivered byte by byte -/
example : Delimited ((Req.read 3 1 107 3).bytesTCP 0x8180) :=
  encoded_request_delimited _ _ (by decide) (by decide)

/-- any two segmentations of the same byte stream (delimited requests followed by a pending rest) produce the same
reply stream and leave the same rest in the buffer -/
theorem any_two_segmentations_agree (h : Handler) (fs : List Bytes) (p : Bytes) (cs₁ cs₂ : List Bytes)
    (hd : ∀ f ∈ fs, Delimited f) (hp : Pending p) (hr : ∀ f ∈ fs, (frameReply h f).isSome)
    (h₁ : cs₁.flatten = fs.flatten ++ p) (h₂ : cs₂.flatten = fs.flatten ++ p) :
    runReads h cs₁ [] [] = runReads h cs₂ [] [] := by
  rw [answered_once_in_order h fs p cs₁ hd hp hr h₁, answered_once_in_order h fs p cs₂ hd hp hr h₂]

/-- one exchange of a pipelined conversation: transaction id, constructor arguments, the request built from them, and
the response the handler gives -/
structure Exch where
  tid : UInt16
  a : NewArgs
  r : Req
  resp : Resp

/-- the request is a legal one built by the library (outside the FC1/FC2 parser finding), with a supported function
code, and the handler answers it with `resp` -/
def Exch.Good (h : Handler) (x : Exch) : Prop :=
  C01.WF x.a ∧ newReq x.a = .ok x.r ∧ Spec.legal x.a = true ∧ Driver.kfC09 x.a = none ∧
  (3 ≤ x.r.pdu.length ∧ x.r.pdu.length < 65536) ∧ supportedFunctionCodes.contains x.r.fc = true ∧
  h x.tid x.r = .resp x.resp

theorem frameReply_good (h : Handler) (x : Exch) (hx : x.Good h) :
    Delimited (x.r.bytesTCP x.tid) ∧ frameReply h (x.r.bytesTCP x.tid) = some (x.resp.bytesTCP x.tid) := by
  obtain ⟨hwf, hnew, hleg, hkf, hl, hfc, hh⟩ := hx
  have hll := C18.C18_prefix_partial x.tid x.r hl hfc (x.r.bytesTCP x.tid).length (by
    have := (C18.enc_header x.tid x.r).2.2.2.2.2.2.2.2; omega) []
  have hll' : looksLike ⟨x.r.bytesTCP x.tid, []⟩ false = .ok ((x.r.bytesTCP x.tid).length, none) := by
    simpa using hll
  refine ⟨⟨none, hll', by simp, by simp⟩, ?_⟩
  have hrt := (C09.C09_roundtrip_partial x.tid x.a x.r hwf hnew hleg hkf).2.1 []
  unfold frameReply
  rw [hll']
  simp only [handleFrame, hrt, hh]

/-- **pipelined requests, any segmentation**: any number of legal library-built requests written back to back, cut
into TCP reads in any way, possibly followed by a pending rest `p`: the server writes exactly the handler's responses,
each under its request's transaction id, in request order, and keeps `p` -/
theorem pipelined_requests_served (h : Handler) (xs : List Exch) (hx : ∀ x ∈ xs, x.Good h) (p : Bytes) (hp : Pending p)
    (cs : List Bytes) (hcs : cs.flatten = (xs.map fun x => x.r.bytesTCP x.tid).flatten ++ p) :
    runReads h cs [] [] = some ((xs.map fun x => x.resp.bytesTCP x.tid).flatten, p) := by
  have := answered_once_in_order h (xs.map fun x => x.r.bytesTCP x.tid) p cs
    (by intro f hf; obtain ⟨x, hxm, rfl⟩ := List.mem_map.1 hf; exact (frameReply_good h x (hx x hxm)).1)
    hp
    (by intro f hf; obtain ⟨x, hxm, rfl⟩ := List.mem_map.1 hf; rw [(frameReply_good h x (hx x hxm)).2]; rfl)
    hcs
  rw [this]
  congr 3
  rw [List.map_map]
  apply List.map_congr_left
  intro x hxm
  simp [(frameReply_good h x (hx x hxm)).2]

/-- non-vacuity: a read of one holding register, answered by a constant handler -/
example : (Exch.mk 7 { fc := 3, qty := 1 } (.read 3 0 0 1) (.regs 3 0 2 [0, 0])).Good (fun _ _ => .resp (.regs 3 0 2 [0, 0])) :=
  ⟨by decide, by decide, by decide, by decide, by decide, by decide, rfl⟩

end Modbus.Properties.C15
