import ModbusProofs.Lemmas.Frames
import ModbusProofs.Lemmas.Slice
import Modbus.Driver.JudgePacket
import Modbus.Model.Builder
import ModbusProofs.Properties.C06
import Mathlib.Tactic.SplitIfs
/-
  C11 — Coil lookup follows the Modbus bit layout and inverts the library's packing.

  `Driver.specCoilAt d i` = bit `i % 8` of byte `i / 8` (Modbus layout = `CoilsToBytes` layout).
  The code's `isBitSet` indexes payload bytes from the END (`len-1-i/8`): known finding
  KF-C11-byte-order, pinned by the repository's IsCoilSet tests. `Driver.kfC11` is the exact region
  (the two candidate bits differ); outside it the lookup is proved to follow the Modbus layout.
  The error cases (before the start address, beyond the last bit) hold without exception.
-/
namespace Modbus.Properties.C11
open Modbus Modbus.Model Modbus.Lemmas Modbus.Driver

/-- an address before the start address is an error -/
theorem before_start (d : Bytes) (start addr : UInt16) (h : addr < start) :
    isBitSet d start addr = .err .plain := by
  unfold isBitSet; simp [h]

/-- an address beyond the payload's last bit is an error -/
theorem beyond_end (d : Bytes) (start addr : UInt16) (h1 : ¬ addr < start)
    (h2 : d.length * 8 ≤ (addr - start).toNat) : isBitSet d start addr = .err .plain := by
  unfold isBitSet; simp [h1, h2]

/-- what the code computes inside the window: bit `i % 8` of byte `len - 1 - i / 8` -/
theorem inside (d : Bytes) (start addr : UInt16) (h1 : ¬ addr < start)
    (h2 : (addr - start).toNat < d.length * 8) :
    isBitSet d start addr =
      .ok ((d.getD (d.length - 1 - (addr - start).toNat / 8) 0).toNat.testBit ((addr - start).toNat % 8)) := by
  unfold isBitSet
  have h3 : ¬ d.length * 8 ≤ (addr - start).toNat := by omega
  simp only [h1, h3, if_false]
  rw [idx_eq d [] _ (by omega)]
  rfl

/-- the property's lookup clause at full strength -/
def C11_full : Prop :=
  ∀ (d : Bytes) (start addr : UInt16), ¬ addr < start → (addr - start).toNat < d.length * 8 →
    isBitSet d start addr = .ok (specCoilAt d (addr - start).toNat)

/-- proved: outside the known-finding region the lookup follows the Modbus layout -/
theorem C11_partial (d : Bytes) (start addr : UInt16) (h1 : ¬ addr < start)
    (h2 : (addr - start).toNat < d.length * 8) (hkf : kfC11 d start addr = none) :
    isBitSet d start addr = .ok (specCoilAt d (addr - start).toNat) := by
  rw [inside d start addr h1 h2]
  unfold kfC11 at hkf
  have hle : start ≤ addr := by
    rw [UInt16.le_iff_toNat_le]; rw [UInt16.lt_iff_toNat_lt] at h1; omega
  have h2' : (addr - start).toNat < 8 * d.length := by omega
  simp only [hle, h2', decide_true, Bool.and_self, if_true] at hkf
  split at hkf
  · exact absurd hkf (by simp)
  · rename_i hne
    simp only [bne_iff_ne, ne_eq, Decidable.not_not] at hne
    rw [hne]

/-- one-byte payloads are entirely outside the region: the lookup is the Modbus one for every coil of a single byte -/
theorem single_byte (b : UInt8) (start addr : UInt16) (h1 : ¬ addr < start) (h2 : (addr - start).toNat < 8) :
    isBitSet [b] start addr = .ok (b.toNat.testBit ((addr - start).toNat % 8)) := by
  rw [inside [b] start addr h1 (by simpa using h2)]
  have : (addr - start).toNat / 8 = 0 := by omega
  simp [this]

/-- KF-C11-byte-order: payload `01 00`, start 10: coil 10 is set in the Modbus layout, the lookup says false -/
theorem kf_witness :
    isBitSet [1, 0] 10 10 = .ok false ∧ specCoilAt [1, 0] 0 = true ∧
    kfC11 [1, 0] 10 10 = some "KF-C11-byte-order" := by decide

theorem C11_full_false : ¬ C11_full := by
  intro h
  have := h [1, 0] 10 10 (by decide) (by decide)
  rw [kf_witness.1] at this
  have e : specCoilAt [1, 0] ((10 : UInt16) - 10).toNat = true := by decide
  rw [e] at this
  exact absurd this (by simp)

/-- write side: `CoilsToBytes` puts coil `i` into bit `i % 8` of byte `i / 8`, so a conforming device that
stores a write-multiple-coils payload and returns it for a read returns a payload whose Modbus-layout
lookup recovers every coil that was written -/
theorem write_readback (cs : List Bool) (i : Nat) (h : i < cs.length) :
    specCoilAt (coilsToBytes cs) i = cs.getD i false := by
  unfold specCoilAt
  exact coilsToBytes_bit cs i h

/-! ### coil fields extracted through the request builder

`BuilderRequest.ExtractFields` on a coil / discrete input response is one lookup per field, in field order, with the
request's start address: every reported value is exactly `isBitSet payload start field.address`, so everything proved
above about the lookup (errors before the start and beyond the last bit, Modbus layout outside the known-finding
region) carries over to every field, however many fields share an address. -/

/-- what the extraction reports for one field: the result of its own lookup -/
def coilVal (payload : Bytes) (start : UInt16) (f : Field) : PRes Val :=
  match isBitSet payload start f.addr with
  | .ok b => .ok (.bool b)
  | .err e => .err e
  | .panic => .panic

/-- the lookup never panics (it indexes inside the payload after its two range checks) -/
theorem isBitSet_no_panic (d : Bytes) (start addr : UInt16) : isBitSet d start addr ≠ .panic := by
  unfold isBitSet
  dsimp only
  split_ifs
  · intro h; cases h
  · intro h; cases h
  · rename_i h1 h2
    have : d.length - 1 - (addr - start).toNat / 8 < d.length := by omega
    simp (disch := omega) only [idx_eq, Res.bind_ok]
    intro h; cases h

/-- the extraction loop in lenient mode reports every field, in order, with the result of its own lookup; the
outcome is `all` when no lookup failed and `some` otherwise -/
theorem coilLoop_lenient (payload : Bytes) (start : UInt16) (fs : List Field) (acc : List (Field × PRes Val)) (he : Bool) :
    extractCoilLoop true payload start fs acc he =
        .all (acc ++ fs.map fun f => (f, coilVal payload start f)) ∨
    extractCoilLoop true payload start fs acc he =
        .some_ (acc ++ fs.map fun f => (f, coilVal payload start f)) := by
  induction fs generalizing acc he with
  | nil => cases he <;> simp [extractCoilLoop]
  | cons f rest ih =>
    unfold extractCoilLoop
    cases hb : isBitSet payload start f.addr with
    | panic => exact absurd hb (isBitSet_no_panic _ _ _)
    | err e =>
      have hv : coilVal payload start f = .err e := by simp [coilVal, hb]
      simp only [Bool.not_true, Bool.false_eq_true, if_false, List.map_cons, hv]
      have := ih (acc ++ [(f, .err e)]) true
      simpa [List.append_assoc] using this
    | ok v =>
      have hv : coilVal payload start f = .ok (.bool v) := by simp [coilVal, hb]
      simp only [List.map_cons, hv]
      have := ih (acc ++ [(f, .ok (.bool v))]) he
      simpa [List.append_assoc] using this

/-- strict mode: when every field's lookup succeeds every field is reported with its own value -/
theorem coilLoop_strict_all_ok (payload : Bytes) (start : UInt16) (fs : List Field) (acc : List (Field × PRes Val))
    (hok : ∀ f ∈ fs, ∃ b, isBitSet payload start f.addr = .ok b) :
    extractCoilLoop false payload start fs acc false =
      .all (acc ++ fs.map fun f => (f, coilVal payload start f)) := by
  induction fs generalizing acc with
  | nil => simp [extractCoilLoop]
  | cons f rest ih =>
    obtain ⟨b, hb⟩ := hok f List.mem_cons_self
    have hv : coilVal payload start f = .ok (.bool b) := by simp [coilVal, hb]
    unfold extractCoilLoop
    rw [hb]
    simp only [List.map_cons, hv]
    rw [ih _ (fun g hg => hok g (List.mem_cons_of_mem _ hg))]
    simp [List.append_assoc]

/-- strict mode: a field whose lookup is an error makes the extraction fail as a whole -/
theorem coilLoop_strict_fails (payload : Bytes) (start : UInt16) (pre : List Field) (f : Field) (post : List Field)
    (acc : List (Field × PRes Val)) (hpre : ∀ g ∈ pre, ∃ b, isBitSet payload start g.addr = .ok b)
    (e : PErr) (hf : isBitSet payload start f.addr = .err e) :
    extractCoilLoop false payload start (pre ++ f :: post) acc false = .failed := by
  induction pre generalizing acc with
  | nil => simp [extractCoilLoop, hf]
  | cons g rest ih =>
    obtain ⟨b, hb⟩ := hpre g List.mem_cons_self
    simp only [List.cons_append]
    unfold extractCoilLoop
    rw [hb]
    exact ih _ (fun x hx => hpre x (List.mem_cons_of_mem _ hx))

/-- **builder → device → extraction for coils**: for every field list and coil / discrete-input target for which the
request builder returns requests, every coil field is in exactly one request (permutation, C06), and for every request
and every reply payload that holds at least the requested number of coils (what a conforming device sends), the
lookup of EVERY field of that request succeeds - so strict extraction reports every field, each with the result of its
own lookup (whose value is the Modbus-layout bit outside the known-finding region, `C11_partial`). -/
theorem builder_coil_extract (fields : List Field) (target : Nat) (ht : target < 8) (hcoil : targetCoils target = true)
    (reqs : List BReq) (h : split fields target = .ok reqs) :
    (reqs.flatMap (·.fields)).Perm (fields.filter fun f => f.isCoil == true) ∧
    ∀ b ∈ reqs, ∃ q, b.req = .read (targetFC target) b.unit b.start (UInt16.ofNat q) ∧ 1 ≤ q ∧ q ≤ 2000 ∧
      ∀ (payload : Bytes), q ≤ payload.length * 8 →
        (∀ f ∈ b.fields, ∃ v, isBitSet payload b.start f.addr = .ok v) ∧
        extractCoilFields b payload false = .all (b.fields.map fun f => (f, coilVal payload b.start f)) := by
  obtain ⟨hperm, hreqs⟩ := Modbus.Properties.C06.split_ok fields target ht reqs h
  rw [hcoil] at hperm
  refine ⟨hperm, ?_⟩
  intro b hb
  obtain ⟨q, hreq, hq1, hq2, _, hfs, _, _⟩ := hreqs b hb
  have hlim : Modbus.Properties.C06.limitOf target = 2000 := by simp [Modbus.Properties.C06.limitOf, hcoil]
  rw [hlim] at hq2
  refine ⟨q, hreq, hq1, hq2, ?_⟩
  intro payload hp
  have hall : ∀ f ∈ b.fields, ∃ v, isBitSet payload b.start f.addr = .ok v := by
    intro f hf
    obtain ⟨_, _, hlo, hhi⟩ := hfs f hf
    have hmem : f ∈ fields.filter fun f => f.isCoil == true :=
      hperm.mem_iff.1 (List.mem_flatMap.2 ⟨b, hb, hf⟩)
    have hty : f.type = 14 := by
      have := (List.mem_filter.1 hmem).2
      simpa [Field.isCoil] using this
    have hsz : f.size = 1 := by unfold Field.size; simp [hty]
    have hnl : ¬ f.addr < b.start := by
      rw [UInt16.lt_iff_toNat_lt]; omega
    have hsub : (f.addr - b.start).toNat = f.addr.toNat - b.start.toNat := by
      rw [UInt16.toNat_sub_of_le _ _ (by rw [UInt16.le_iff_toNat_le]; exact hlo)]
    have hin : (f.addr - b.start).toNat < payload.length * 8 := by rw [hsub]; omega
    exact ⟨_, inside payload b.start f.addr hnl hin⟩
  refine ⟨hall, ?_⟩
  unfold extractCoilFields
  have := coilLoop_strict_all_ok payload b.start b.fields [] hall
  simpa using this

end Modbus.Properties.C11
