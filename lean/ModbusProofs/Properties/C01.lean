import ModbusProofs.Lemmas.Frames
import Modbus.Driver.JudgePacket
/-
  C01 — Encoded requests are exactly the ADUs the Modbus specification defines.

  `Spec.adu`, `Spec.legal`, `Spec.maxADU` (Modbus/Spec/Frames.lean) are written from the Modbus
  documents; `newReq`, `Req.bytes` are the model of the 20 constructors and their `Bytes()`.
  The unchanged code violates the property in two regions (both pinned by existing tests, so
  recorded as known findings, not repaired): the FC16 constructors accept 124 registers and the
  FC23 constructors 122..124 write registers. `Driver.kfC01` is the exact region predicate the
  correspondence driver uses; the theorem is proved for everything outside it.
-/
namespace Modbus.Properties.C01
open Modbus Modbus.Model Modbus.Lemmas

/-- the argument record is consistent: `dataLen` is the length of `data` -/
def WF (a : NewArgs) : Prop := a.dataLen = a.data.length

instance (a : NewArgs) : Decidable (WF a) := by unfold WF; infer_instance

theorem u16_pos_le (q : UInt16) (m : Nat) (hm : m < 65536)
    (h : ¬((q == 0 || q > UInt16.ofNat m) = true)) : 1 ≤ q.toNat ∧ q.toNat ≤ m := by
  simp only [Bool.or_eq_true, beq_iff_eq, decide_eq_true_eq, not_or, gt_iff_lt, UInt16.not_lt] at h
  obtain ⟨h0, hle⟩ := h
  constructor
  · rcases Nat.eq_zero_or_pos q.toNat with hz | hp
    · exact absurd (UInt16.toNat_inj.1 (by simpa using hz)) h0
    · exact hp
  · have := UInt16.le_iff_toNat_le.1 hle
    simpa [UInt16.toNat_ofNat', Nat.mod_eq_of_lt hm] using this

theorem read_case (fc : UInt8) (hfc : fc = 1 ∨ fc = 2 ∨ fc = 3 ∨ fc = 4) (a : NewArgs) (hafc : a.fc = fc) :
    (Req.read fc a.unit a.addr a.qty).pdu = a.unit :: Spec.pdu a := by
  unfold Req.pdu Spec.pdu
  rcases hfc with h | h | h | h <;> subst h <;> simp [hafc, put16_eq_be]



/-- what C01 demands of one constructor call -/
def Holds (f : Framing) (tid : UInt16) (a : NewArgs) (r : Req) : Prop :=
  Spec.legal a = true ∧ r.bytes f tid = Spec.adu f tid a ∧ (r.bytes f tid).length ≤ Spec.maxADU f

/-- the property at full strength: every request the library agrees to construct -/
def C01_full : Prop :=
  ∀ (f : Framing) (tid : UInt16) (a : NewArgs) (r : Req), WF a → newReq a = .ok r → Holds f tid a r

/-- proved: the full statement outside the two known-finding regions -/
theorem C01_partial (f : Framing) (tid : UInt16) (a : NewArgs) (r : Req) (hwf : WF a)
    (h : newReq a = .ok r) (hkf : Driver.kfC01 a = none) : Holds f tid a r := by
  unfold Holds
  unfold newReq at h
  split at h
  · -- FC1
    rename_i hfc
    split_ifs at h with hq
    injection h with h; subst h
    have ⟨h1, h2⟩ := u16_pos_le a.qty 2000 (by decide) hq
    have hp := read_case 1 (Or.inl rfl) a hfc
    refine ⟨?_, frame_eq f tid a _ hp (by simp [Req.pdu, put16]), frame_len f tid _ (by simp [Req.pdu, put16])⟩
    simp [Spec.legal, hfc, h1, h2]
  · -- FC2
    rename_i hfc
    split_ifs at h with hq
    injection h with h; subst h
    have ⟨h1, h2⟩ := u16_pos_le a.qty 2000 (by decide) hq
    have hp := read_case 2 (Or.inr (Or.inl rfl)) a hfc
    refine ⟨?_, frame_eq f tid a _ hp (by simp [Req.pdu, put16]), frame_len f tid _ (by simp [Req.pdu, put16])⟩
    simp [Spec.legal, hfc, h1, h2]
  · -- FC3
    rename_i hfc
    split_ifs at h with hq
    injection h with h; subst h
    have ⟨h1, h2⟩ := u16_pos_le a.qty 125 (by decide) hq
    have hp := read_case 3 (Or.inr (Or.inr (Or.inl rfl))) a hfc
    refine ⟨?_, frame_eq f tid a _ hp (by simp [Req.pdu, put16]), frame_len f tid _ (by simp [Req.pdu, put16])⟩
    simp [Spec.legal, hfc, h1, h2]
  · -- FC4
    rename_i hfc
    split_ifs at h with hq
    injection h with h; subst h
    have ⟨h1, h2⟩ := u16_pos_le a.qty 125 (by decide) hq
    have hp := read_case 4 (Or.inr (Or.inr (Or.inr rfl))) a hfc
    refine ⟨?_, frame_eq f tid a _ hp (by simp [Req.pdu, put16]), frame_len f tid _ (by simp [Req.pdu, put16])⟩
    simp [Spec.legal, hfc, h1, h2]
  · -- FC5
    rename_i hfc
    injection h with h; subst h
    have hp : (Req.wcoil a.unit a.addr a.state).pdu = a.unit :: Spec.pdu a := by
      unfold Req.pdu Spec.pdu
      cases hs : a.state <;> simp [hfc, put16_eq_be, Spec.be]
    refine ⟨?_, frame_eq f tid a _ hp (by simp [Req.pdu, put16]), frame_len f tid _ (by simp [Req.pdu, put16])⟩
    simp [Spec.legal, hfc]
  · -- FC6
    rename_i hfc
    injection h with h; subst h
    have hp : (Req.wreg a.unit a.addr (a.data.getD 0 0) (a.data.getD 1 0)).pdu = a.unit :: Spec.pdu a := by
      unfold Req.pdu Spec.pdu
      simp [hfc, put16_eq_be]
    refine ⟨?_, frame_eq f tid a _ hp (by simp [Req.pdu, put16]), frame_len f tid _ (by simp [Req.pdu, put16])⟩
    simp [Spec.legal, hfc]
  · -- FC15
    rename_i hfc
    simp only [] at h
    split_ifs at h with hq
    injection h with h; subst h
    have hn : 1 ≤ a.coils.length ∧ a.coils.length ≤ 1968 := by
      simp only [Bool.or_eq_true, beq_iff_eq, decide_eq_true_eq, not_or] at hq
      omega
    have hlen : (coilsToBytes a.coils).length = (a.coils.length + 7) / 8 := by simp [coilsToBytes]
    have hp : (Req.wcoils a.unit a.addr (UInt16.ofNat a.coils.length) (coilsToBytes a.coils)).pdu
        = a.unit :: Spec.pdu a := by
      unfold Req.pdu Spec.pdu
      simp only [hfc]
      rw [put16_ofNat _ (by omega), hlen, coilsToBytes_eq_pack, put16_eq_be]
      simp
    refine ⟨?_, frame_eq f tid a _ hp (by simp [Req.pdu, put16, hlen]; omega),
      frame_len f tid _ (by simp [Req.pdu, put16, hlen]; omega)⟩
    simp [Spec.legal, hfc, hn.1, hn.2]
  · -- FC16
    rename_i hfc
    simp only [] at h
    split_ifs at h with hev hq
    injection h with h; subst h
    unfold WF at hwf
    have hev' : a.dataLen % 2 = 0 := by simpa using hev
    have hn : 1 ≤ a.dataLen / 2 ∧ a.dataLen / 2 ≤ 124 := by
      simp only [Bool.or_eq_true, beq_iff_eq, decide_eq_true_eq, not_or] at hq
      omega
    have hkf' : a.dataLen / 2 ≠ 124 := by
      intro h124
      simp [Driver.kfC01, hfc, hev', h124] at hkf
    have hp : (Req.wregs a.unit a.addr (UInt16.ofNat (a.dataLen / 2)) a.data).pdu = a.unit :: Spec.pdu a := by
      unfold Req.pdu Spec.pdu
      simp only [hfc]
      rw [put16_ofNat _ (by omega), put16_eq_be, hwf]
      simp
    refine ⟨?_, frame_eq f tid a _ hp (by simp [Req.pdu, put16]; omega),
      frame_len f tid _ (by simp [Req.pdu, put16]; omega)⟩
    simp [Spec.legal, hfc, hev']
    omega
  · -- FC17
    rename_i hfc
    injection h with h; subst h
    have hp : (Req.sid a.unit).pdu = a.unit :: Spec.pdu a := by
      unfold Req.pdu Spec.pdu
      simp [hfc]
    refine ⟨?_, frame_eq f tid a _ hp (by simp [Req.pdu]), frame_len f tid _ (by simp [Req.pdu])⟩
    simp [Spec.legal, hfc]
  · -- FC23
    rename_i hfc
    simp only [] at h
    split_ifs at h with hrq hev hq
    injection h with h; subst h
    unfold WF at hwf
    have ⟨h1, h2⟩ := u16_pos_le a.qty 124 (by decide) hrq
    have hev' : a.dataLen % 2 = 0 := by simpa using hev
    have hn : 1 ≤ a.dataLen / 2 ∧ a.dataLen / 2 ≤ 124 := by
      simp only [Bool.or_eq_true, beq_iff_eq, decide_eq_true_eq, not_or] at hq
      omega
    have hkf' : a.dataLen / 2 ≤ 121 := by
      apply Nat.le_of_not_lt
      intro hgt
      have : 122 ≤ a.dataLen / 2 := hgt
      simp [Driver.kfC01, hfc, hev', h1, h2, this, hn.2] at hkf
    have hp : (Req.rw a.unit a.addr a.qty a.waddr (UInt16.ofNat (a.dataLen / 2)) a.data).pdu
        = a.unit :: Spec.pdu a := by
      unfold Req.pdu Spec.pdu
      simp only [hfc]
      rw [put16_ofNat _ (by omega), put16_eq_be, put16_eq_be, put16_eq_be, hwf]
      simp
    refine ⟨?_, frame_eq f tid a _ hp (by simp [Req.pdu, put16]; omega),
      frame_len f tid _ (by simp [Req.pdu, put16]; omega)⟩
    simp [Spec.legal, hfc, hev', h1]
    omega
  · -- no such constructor
    simp at h

/-- KF-C01-fc16-124: 124 registers are accepted (a 261-byte TCP frame); the full statement is false -/
theorem kf_fc16_124_witness :
    ∃ a r, WF a ∧ newReq a = .ok r ∧ Driver.kfC01 a = some "KF-C01-fc16-124" ∧
      Spec.legal a = false ∧ (r.bytes .tcp 1).length = 261 :=
  ⟨{ fc := 16, data := List.replicate 248 0, dataLen := 248 }, .wregs 0 0 124 (List.replicate 248 0),
    by decide +kernel, by decide +kernel, by decide +kernel, by decide +kernel, by decide +kernel⟩

/-- KF-C01-fc23-w122-124 -/
theorem kf_fc23_w122_witness :
    ∃ a r, WF a ∧ newReq a = .ok r ∧ Driver.kfC01 a = some "KF-C01-fc23-w122-124" ∧
      Spec.legal a = false ∧ (r.bytes .tcp 1).length = 261 :=
  ⟨{ fc := 23, qty := 1, data := List.replicate 244 0, dataLen := 244 }, .rw 0 0 1 0 122 (List.replicate 244 0),
    by decide +kernel, by decide +kernel, by decide +kernel, by decide +kernel, by decide +kernel⟩

theorem C01_full_false : ¬ C01_full := by
  intro h
  obtain ⟨a, r, hwf, hn, _, hl, _⟩ := kf_fc16_124_witness
  have := (h .tcp 1 a r hwf hn).1
  rw [hl] at this
  exact absurd this (by decide)

/-- corollary: coil `i` of a write-multiple-coils request is bit `i % 8` of payload byte `i / 8` -/
theorem coil_layout (cs : List Bool) (i : Nat) (h : i < cs.length) :
    ((coilsToBytes cs).getD (i / 8) 0).toNat.testBit (i % 8) = cs.getD i false :=
  coilsToBytes_bit cs i h

/-- corollary: the MBAP length field equals the number of bytes that follow it -/
theorem length_field (tid : UInt16) (r : Req) (hl : r.pdu.length < 65536) :
    ∃ hi lo rest, r.bytesTCP tid = put16 tid ++ [0, 0] ++ [hi, lo] ++ rest ∧
      hi.toNat * 256 + lo.toNat = rest.length := by
  refine ⟨UInt8.ofNat (r.pdu.length / 256), UInt8.ofNat (r.pdu.length % 256), r.pdu, ?_, ?_⟩
  · unfold Req.bytesTCP
    rw [mbap_eq tid _ hl]
    simp [put16_eq_be, Spec.be]
  · simp [UInt8.toNat_ofNat']
    omega

/-- non-vacuity: a legal, non-trivial request meets every hypothesis -/
example : WF { fc := 15, unit := 17, addr := 19, coils := [true, false, true, true, false, false, true, true, true, false] } ∧
    Driver.kfC01 { fc := 15, unit := 17, addr := 19, coils := [true, false, true, true, false, false, true, true, true, false] } = none ∧
    (newReq { fc := 15, unit := 17, addr := 19, coils := [true, false, true, true, false, false, true, true, true, false] }).isOk = true := by
  decide

end Modbus.Properties.C01
