import ModbusProofs.Lemmas.Safe
/-
  C10 — No parser panics or reads past its input, for any byte string.

  For every parse entry point `e` of the model and EVERY byte string `v` and EVERY content `sp`
  of the slice's spare capacity:   e ⟨v, sp⟩ = e ⟨v, []⟩   and   e ⟨v, sp⟩ ≠ panic.
  (`SpareSafe`, Lemmas/Safe.lean.) The model's slice operations follow Go: indexing panics
  beyond `len`, re-slicing is allowed up to `cap` and then exposes the spare bytes - so a
  missing length guard in the model would make these statements false.

  "When it returns an error the accompanying value is nil": in the model a result is
  `ok v | err e | panic`, an error carries no value by construction; on the Go side the
  harness checks it by reflection for every operation (marker VALUE-NONNIL).
  `LooksLikeModbusTCP` returns `(int, error)`; both may be set for unsupported function codes
  (documented behaviour; an `int` is not a partially filled packet).
-/
namespace Modbus.Properties.C10
open Modbus Modbus.Model Modbus.Lemmas

/-- `ParseMBAPHeader` -/
theorem header : SpareSafe parseMBAP := safe_parseMBAP
/-- `LooksLikeModbusTCP(data, allowUnsupported)` for both flag values -/
theorem classifier (allow : Bool) : SpareSafe (fun s => looksLike s allow) := safe_looksLike allow
/-- `AsTCPErrorPacket`, `AsRTUErrorPacket` -/
theorem exception_recognisers : SpareSafe asTCPErrorPacket ∧ SpareSafe asRTUErrorPacket :=
  ⟨safe_asTCPErr, safe_asRTUErr⟩
/-- the ten `Parse*RequestTCP` functions (any function code selects one of them or the default branch) -/
theorem request_parsers_tcp (fc : UInt8) : SpareSafe (parseReqTCPfc fc) := safe_reqTCPfc fc
/-- the ten `Parse*RequestRTU` functions -/
theorem request_parsers_rtu (fc : UInt8) : SpareSafe (parseReqRTUfc fc) := safe_reqRTUfc fc
/-- the ten `Parse*ResponseTCP` functions -/
theorem response_parsers_tcp (fc : UInt8) : SpareSafe (parseRespTCPfc fc) := safe_respTCPfc fc
/-- the ten `Parse*ResponseRTU` functions -/
theorem response_parsers_rtu (fc : UInt8) : SpareSafe (parseRespRTUfc fc) := safe_respRTUfc fc
/-- `ParseTCPRequest`, `ParseRTURequest`, `ParseRTURequestWithCRC` -/
theorem request_dispatchers :
    SpareSafe parseTCPRequest ∧ SpareSafe parseRTURequest ∧ SpareSafe parseRTURequestWithCRC :=
  ⟨safe_parseTCPRequest, safe_parseRTURequest, safe_parseRTURequestWithCRC⟩
/-- `ParseTCPResponse`, `ParseRTUResponse`, `ParseRTUResponseWithCRC` -/
theorem response_dispatchers :
    SpareSafe parseTCPResponse ∧ SpareSafe parseRTUResponse ∧ SpareSafe parseRTUResponseWithCRC :=
  ⟨safe_parseTCPResponse, safe_parseRTUResponse, safe_parseRTUResponseWithCRC⟩

/-- the statement unfolded once, for the request dispatcher the server uses: for all bytes, all spare contents -/
theorem server_dispatcher_unfolded (v sp : Bytes) :
    parseTCPRequest ⟨v, sp⟩ = parseTCPRequest ⟨v, []⟩ ∧ parseTCPRequest ⟨v, sp⟩ ≠ .panic :=
  safe_parseTCPRequest v sp

/-- non-vacuity / sensitivity: the Go slice semantics of the model do expose spare bytes and do
panic when a guard is missing - an unguarded read of `data[10:12]` on a 9-byte slice -/
example : (Slice.mk [0,1,0,0,0,3,1,1,0x16] [0xAA, 0xBB, 0xCC]).rd16 (ε := PErr) 10 = .ok 0xBBCC := by decide
example : (Slice.mk [0,1,0,0,0,3,1,1,0x16] []).rd16 (ε := PErr) 10 = .panic := by decide
/-- …which the guarded parser refuses with the illegal-data-value exception for that request -/
example : parseTCPRequest ⟨[0,1,0,0,0,3,1,1,0x16], [0xAA, 0xBB, 0xCC]⟩ = .err (.tcp 3 1 1 1) := by decide

end Modbus.Properties.C10
