import ModbusProofs.Lemmas.ClientLock
/-
  C14 — One client instance can be shared by goroutines without interleaving.

  Over the model `Model.ClientLock` (N threads; atomic steps acquire / dial / close / write / read / release; a
  transport that answers in arrival order), for EVERY schedule (any list of thread choices, of any length), any
  number of threads, any programs of Do / Connect / Close calls and any chunking of the replies:
    * `mutual_exclusion`   at most one thread is inside a call, and it is the holder of the mutex;
    * `wire_never_interleaved`  the transport's log is accepted by the serial-exchange automaton `wireRun`:
                           a sequence of whole exchanges (write, then all chunks of that request's reply, read by the
                           same thread on the same connection), dials and closes, followed by at most the holder's
                           exchange in progress; with nobody inside a call it is a sequence of whole exchanges;
    * `own_reply`          every response returned by `Do` answers the caller's own request;
    * `once_in_order`      every thread's completed calls ++ remaining calls = its program;
    * `no_deadlock`        while some call is pending or in progress, some thread can move.
  `unlocked_interleaves` shows that the statement is about the mutex: with the acquire test removed the same
  model has a schedule in which a caller receives the reply to another caller's request.

  Partial in one respect, stated in DESIGN.md: the Go scheduler and memory model are not modelled; the hypothesis
  that the steps between acquire and release are exactly the transport accesses is discharged by the static
  lock-discipline facts extracted from client.go / serialclient.go on every run and by replaying the event logs of
  real concurrent runs through `step` (correspondence check, `conc` operations).
-/
namespace Modbus.Properties.C14
open Modbus.Model.ClientLock Modbus.Lemmas.ClientLock

variable (nch : Nat → Nat) (progs : Nat → List Call) (connected : Bool) (sched : List Nat)

theorem reachable_inv : Inv nch progs (run nch (init progs connected) sched) :=
  inv_run nch progs _ sched (inv_init nch progs connected)

/-- at most one thread is inside a call at any time, and it holds the mutex -/
theorem mutual_exclusion (t u : Nat)
    (ht : ((run nch (init progs connected) sched).th t).stage ≠ .out)
    (hu : ((run nch (init progs connected) sched).th u).stage ≠ .out) :
    t = u ∧ (run nch (init progs connected) sched).holder = some t := by
  have h := reachable_inv nch progs connected sched
  have h1 := (h.mutex t).1 ht
  have h2 := (h.mutex u).1 hu
  rw [h1] at h2
  exact ⟨by cases h2; rfl, h1⟩

/-- request frames are never interleaved on the wire: the log is a run of the serial-exchange automaton -/
theorem wire_never_interleaved :
    ∃ st, wireRun none (run nch (init progs connected) sched).wire = some st ∧
      ((run nch (init progs connected) sched).holder = none → st = none) := by
  have h := reachable_inv nch progs connected sched
  refine ⟨_, h.wire, ?_⟩
  intro hn
  simp [cur, hn]

/-- each caller receives the reply to its own request -/
theorem own_reply (t id id' : Nat)
    (hx : (Call.doReq id, Outcome.reply id') ∈ ((run nch (init progs connected) sched).th t).done) : id' = id :=
  (reachable_inv nch progs connected sched).done t _ hx

/-- every call is carried out exactly once, in program order, with an outcome that fits it -/
theorem once_in_order (t : Nat) :
    ((run nch (init progs connected) sched).th t).done.map (·.1) ++ ((run nch (init progs connected) sched).th t).todo = progs t ∧
    ∀ x ∈ ((run nch (init progs connected) sched).th t).done, Matches x :=
  ⟨(reachable_inv nch progs connected sched).prog t, (reachable_inv nch progs connected sched).done t⟩

/-- no deadlock: as long as some thread has a call left or is inside one, some thread can take a step that changes
the state -/
theorem no_deadlock (s : St) (h : Inv nch progs s) (t : Nat)
    (hwork : (s.th t).todo ≠ [] ∨ (s.th t).stage ≠ .out) : ∃ u, step nch s u ≠ s := by
  cases hh : s.holder with
  | some u =>
    refine ⟨u, ?_⟩
    have hne := (h.mutex u).2 hh
    have hp := h.pend u hh
    cases hst : (s.th u).stage with
    | out => exact absurd hst hne
    | held c =>
      -- the holder finishes or writes: in every branch either the mutex is dropped or the wire grows
      intro heq
      have hl : (step nch s u).wire.length = s.wire.length := by rw [heq]
      have hho : (step nch s u).holder = s.holder := by rw [heq]
      cases c with
      | connect => simp [step, hst, finish, hh] at hho
      | close =>
        cases hc : s.conn with
        | none => simp [step, hst, finish, hh, hc] at hho
        | some kc => simp [step, hst, finish, hh, hc] at hho
      | doReq id =>
        cases hc : s.conn with
        | none => simp [step, hst, finish, hh, hc] at hho
        | some kc =>
          obtain ⟨k, b⟩ := kc
          cases b with
          | false => simp [step, hst, finish, hh, hc] at hho
          | true => simp [step, hst, hc] at hl
    | reading id =>
      rw [hst] at hp
      obtain ⟨k, r, hc, _, hpe⟩ := hp
      intro heq
      have hl : (step nch s u).wire.length = s.wire.length := by rw [heq]
      simp only [step, hst, hc, hpe, chunksAux_head] at hl
      split at hl <;> simp [finish] at hl
  | none =>
    refine ⟨t, ?_⟩
    have hout : (s.th t).stage = .out := by
      by_cases hs : (s.th t).stage = .out
      · exact hs
      · have := (h.mutex t).1 hs; rw [hh] at this; cases this
    have htodo : (s.th t).todo ≠ [] := by
      rcases hwork with hw | hw
      · exact hw
      · exact absurd hout hw
    intro heq
    have hho : (step nch s t).holder = s.holder := by rw [heq]
    cases hl : (s.th t).todo with
    | nil => exact absurd hl htodo
    | cons c cs => simp [step, hout, hl, hh] at hho

/-! ### the statement is about the mutex -/

/-- the same steps without the acquire test (what `Do` without `c.mu.Lock()` would be) -/
def stepUnlocked (nch : Nat → Nat) (s : St) (t : Nat) : St :=
  match (s.th t).stage with
  | .out => step nch { s with holder := none } t
  | _ => step nch s t

/-- without the mutex there is a schedule (two threads, one request each) in which thread 0 is handed the reply
to thread 1's request -/
theorem unlocked_interleaves :
    ∃ sched : List Nat,
      (Call.doReq 1, Outcome.reply 2) ∈
        ((sched.foldl (stepUnlocked (fun _ => 0)) (init (fun t => if t = 0 then [.doReq 1] else if t = 1 then [.doReq 2] else []) true)).th 0).done := by
  refine ⟨[1, 0, 1, 0, 0], ?_⟩
  decide

/-- non-vacuity: a concrete interleaved schedule of three threads (requests in 1-3 chunks, a close and a reconnect)
in which every call completes -/
example :
    let progs : Nat → List Call := fun t =>
      if t = 0 then [.doReq 1, .close] else if t = 1 then [.doReq 2, .connect, .doReq 5] else if t = 2 then [.doReq 3] else []
    let s := run (fun id => id % 3) (init progs true) ((List.replicate 16 [0, 1, 2, 2, 1]).flatten)
    (s.th 0).todo = [] ∧ (s.th 1).todo = [] ∧ (s.th 2).todo = [] ∧ s.holder = none ∧ s.wire.length ≥ 8 := by
  decide +kernel

end Modbus.Properties.C14
