import ModbusProofs.Lemmas.ServerSteps
/-
  C17 — Server lifecycle: safe with any callbacks, exact accounting, graceful shutdown.

  Over the labelled transition system `Model.ServerLife` (accept loop, one goroutine per connection with its deferred
  cleanup, Shutdown, clients and the two contexts as environment; atomic steps = the shared-memory operations of
  server/server.go), for EVERY schedule (any list of step labels of any length), every one of the 16 callback
  configurations and every accept policy:
    * `accounting`              activeConnectionCount = number of connections between trackConn(add) and
                                trackConn(remove) - in every reachable state;
    * `accept_callback_count`   the accept callback is told exactly that number + 1;
    * `rejected_closed`         a rejected connection is closed, never tracked, never counted, never given a close callback;
    * `close_callback_once`     the close callback runs at most once per connection, never when it is not set, not before
                                the connection is untracked, and exactly once (iff set) when the goroutine has ended
                                or the connection was refused because of a shutdown;
    * `shutdown_closes_everything`  after Shutdown has returned nil no connection is in the map, none is being served
                                (every connection the server ever served is closed) - in every later state too;
    * `shutdown_keeps_inflight` after Shutdown has returned nil every request whose handler had started has had its
                                complete reply written (or its handler panicked);
    * `shutdown_closes_listener`, `serve_returns_closed`  the port no longer accepts and Serve only ever returns ErrServerClosed;
    * `serve_returns_bounded`   once the listener is closed (Shutdown, or context cancelled + AfterFunc) the accept loop
                                returns after at most 6 of its own steps, whatever the others do in between;
    * `cancel_closes_listener`  cancelling the context closes the listener.
  Callbacks that are not set are never called: in the model every call is guarded by the configuration flag that the
  code tests (after repair 6a10ba4 the same flag); `close_callback_once` includes "not set -> no call".

  PARTIAL (DESIGN.md): the Go scheduler, the memory model, sockets and real time are outside the model. "Bounded time"
  is proved as a bound on steps. The tie to the code is the correspondence check: scripted scenarios over all 32
  configurations (16 callback combinations x optional RawReadTracer) executed against the real server, each
  interpreted as a fixed schedule of this system, plus the race detector.
-/
namespace Modbus.Properties.C17
open Modbus.Model.ServerLife Modbus.Lemmas.ServerLife

variable (cfg : Cfg) (sched : List Step)

theorem reachable_inv : Inv cfg (run cfg init sched) := inv_run cfg init sched (inv_init cfg)

/-- exact accounting in every reachable state -/
theorem accounting : (run cfg init sched).count = (liveCount (run cfg init sched) : Int) :=
  (reachable_inv cfg sched).count

/-- the accept callback is told the true number of live connections (including the new one) -/
theorem accept_callback_count (c : Nat) (h : (run cfg init sched).acc = .callCb c) (hcb : cfg.onAccept = true) :
    ((step cfg (run cfg init sched) .acc).conns c).acceptArg = some ((liveCount (run cfg init sched) : Int) + 1) := by
  have hc := accounting cfg sched
  simp only [step, accStep, h, hcb, if_true, setC_conns_same, hc]

/-- a rejected connection is closed and has never been tracked -/
theorem rejected_closed (c : Nat) (h : ((run cfg init sched).conns c).rejected = true) :
    ((run cfg init sched).conns c).serverClosed = true ∧ ((run cfg init sched).conns c).pc = .notStarted ∧
    ((run cfg init sched).conns c).inMap = false ∧ Counted ((run cfg init sched).conns c) = false ∧
    ((run cfg init sched).conns c).closeCbs = [] := by
  have hi := (reachable_inv cfg sched).cinv c
  have hr := hi.rej h
  refine ⟨hr.2.2, hr.1, ?_, by simp [Counted, hr.1], ?_⟩
  · cases hm : ((run cfg init sched).conns c).inMap with
    | false => rfl
    | true => have := hi.inmap hm; simp [Counted, hr.1] at this
  · have := hi.cb_notStarted hr.1
    simp only [hr.2.1, and_false, if_false, Bool.false_eq_true] at this
    exact List.eq_nil_of_length_eq_zero this

/-- the close callback: at most once, never when unset, not while the connection is served, exactly once at the end -/
theorem close_callback_once (c : Nat) (cn : Conn) (hcn : cn = (run cfg init sched).conns c) :
    cn.closeCbs.length ≤ 1 ∧
    (cfg.onClose = false → cn.closeCbs = []) ∧
    (Counted cn = true → cn.closeCbs = []) ∧
    (cn.pc = .done ∨ cn.refused = true → cn.closeCbs.length = (if cfg.onClose then 1 else 0)) := by
  subst hcn
  have hi := (reachable_inv cfg sched).cinv c
  generalize (run cfg init sched).conns c = cn at hi ⊢
  have key : cn.closeCbs.length = (if cfg.onClose = true ∧ (cn.pc = .done ∨ cn.refused = true) then 1 else 0) := by
    by_cases h0 : cn.pc = .notStarted
    · have := hi.cb_notStarted h0
      rw [this]
      simp [h0]
    · by_cases h1 : cn.pc = .done
      · have := hi.cb_done h1
        rw [this]; simp [h1]
      · have := hi.cb_running h0 h1
        have hr : cn.refused = false := by
          cases hr : cn.refused with
          | false => rfl
          | true => exact absurd (hi.ref hr).1 h0
        rw [this]; simp [h1, hr]
  refine ⟨?_, ?_, ?_, ?_⟩
  · rw [key]; split <;> simp
  · intro hoc
    apply List.eq_nil_of_length_eq_zero
    rw [key]; simp [hoc]
  · intro hcnt
    apply List.eq_nil_of_length_eq_zero
    rw [key]
    have h1 : cn.pc ≠ .done := by intro e; simp [Counted, e] at hcnt
    have h2 : cn.refused = false := by
      cases hr : cn.refused with
      | false => rfl
      | true => have := (hi.ref hr).1; simp [Counted, this] at hcnt
    simp [h1, h2]
  · intro hd
    rw [key]
    by_cases hoc : cfg.onClose = true <;> simp [hoc, hd]

/-- after a successful graceful shutdown nothing is left: no connection in the map, none being served -/
theorem shutdown_closes_everything (h : (run cfg init sched).sd = .returned .ok) (c : Nat) :
    ((run cfg init sched).conns c).inMap = false ∧
    (((run cfg init sched).conns c).pc ≠ .notStarted → ((run cfg init sched).conns c).serverClosed = true) := by
  have hi := reachable_inv cfg sched
  have hm := hi.retOk _ h (by intro e; cases e) c
  exact ⟨hm, fun hp => (hi.cinv c).notInMap hp hm⟩

/-- ... and every request whose handler had started has received its complete reply (unless its handler panicked) -/
theorem shutdown_keeps_inflight (h : (run cfg init sched).sd = .returned .ok) (c r : Nat)
    (hs : r ∈ ((run cfg init sched).conns c).started) :
    r ∈ ((run cfg init sched).conns c).replied ∨ r ∈ ((run cfg init sched).conns c).panicked := by
  have hi := reachable_inv cfg sched
  have hc := hi.cinv c
  have hall := shutdown_closes_everything cfg sched h c
  rcases hc.flight r hs with x | x | ⟨k, x⟩ | x
  · exact Or.inl x
  · exact Or.inr x
  · -- handler running: the connection is busy, so Shutdown cannot have closed it - but everything is closed
    exfalso
    have hb := hc.busy (by simp [InRequest, x])
    have hcl := hall.2 (by rw [x]; intro e; cases e)
    have := hc.closedBy hcl (by simp [Active, x])
    rw [hb] at this; cases this
  · exfalso
    have hb := hc.busy (by simp [InRequest, x])
    have hcl := hall.2 (by rw [x]; intro e; cases e)
    have := hc.closedBy hcl (by simp [Active, x])
    rw [hb] at this; cases this

/-- a Shutdown that is called again after a call that gave up with its context's error sweeps again: when it returns
(with the error of closing the already closed listener) nothing is left either - it does not return early -/
theorem repeated_shutdown_sweeps (h : (run cfg init sched).sd = .returned .lerr) (c : Nat) :
    ((run cfg init sched).conns c).inMap = false ∧
    (((run cfg init sched).conns c).pc ≠ .notStarted → ((run cfg init sched).conns c).serverClosed = true) := by
  have hi := reachable_inv cfg sched
  have hm := hi.retOk _ h (by intro e; cases e) c
  exact ⟨hm, fun hp => (hi.cinv c).notInMap hp hm⟩

/-- Serve only ever returns the server-closed error -/
theorem serve_returns_closed (r : ServeRet) (h : (run cfg init sched).acc = .returned r) : r = .closed :=
  (reachable_inv cfg sched).accRet r h

/-- once Shutdown has been called the registered listener is closed -/
theorem shutdown_closes_listener (h : (run cfg init sched).sd ≠ .notCalled) (hl : (run cfg init sched).listenerSet = true) :
    (run cfg init sched).listenerOpen = false :=
  (reachable_inv cfg sched).lis ((reachable_inv cfg sched).shut.2 h) hl

/-- cancelling the context of Serve closes the listener (the function registered with context.AfterFunc) -/
theorem cancel_closes_listener (s : St) (hl : s.listenerSet = true) :
    (step cfg (step cfg s .ctxCancel) .afterFunc).listenerOpen = false := by
  simp [step, hl]

/-! ### bounded return of the accept loop -/

def accDist : APc → Nat
  | .returned _ => 0
  | .accept => 1
  | .init => 2
  | .track _ => 2
  | .inCb _ => 3
  | .callCb _ => 4
  | .ctxCheck _ => 5

theorem accStep_progress (s : St) (hlo : s.listenerOpen = false) (hmu : s.muFree = true) :
    (accStep cfg s).listenerOpen = false ∧ (accStep cfg s).muFree = true ∧
    (accDist (accStep cfg s).acc < accDist s.acc ∨ accDist s.acc = 0) := by
  unfold accStep
  cases hacc : s.acc <;> simp only [] <;> (repeat' split) <;>
    simp_all [accDist, St.muFree, St.setC]

/-- n consecutive steps of the accept loop -/
def accIter (cfg : Cfg) : Nat → St → St
  | 0, s => s
  | n + 1, s => accIter cfg n (accStep cfg s)

theorem accIter_returns (n : Nat) (s : St) (hlo : s.listenerOpen = false) (hmu : s.muFree = true) (hd : accDist s.acc ≤ n) :
    ∃ r, (accIter cfg n s).acc = APc.returned r := by
  induction n generalizing s with
  | zero =>
    cases hacc : s.acc <;> simp [accDist, hacc] at hd
    exact ⟨_, by simpa [accIter] using hacc⟩
  | succ n ih =>
    have hp := accStep_progress cfg s hlo hmu
    simp only [accIter]
    apply ih _ hp.1 hp.2.1
    rcases hp.2.2 with x | x
    · omega
    · have : (accStep cfg s).acc = s.acc := by
        cases hacc : s.acc <;> simp [accDist, hacc] at x
        simp [accStep, hacc]
      rw [this]; omega

/-- the accept loop returns after at most five of its own steps once the listener is closed and the mutex is free
(other processes' steps in between do not change its program counter; they keep the listener closed) -/
theorem serve_returns_bounded (s : St) (hlo : s.listenerOpen = false) (hmu : s.muFree = true) :
    ∃ r, (accIter cfg 5 s).acc = APc.returned r :=
  accIter_returns cfg 5 s hlo hmu (by cases s.acc <;> simp [accDist])

/-! ### non-vacuity -/

/-- a concrete schedule: two clients, a request in flight while Shutdown sweeps, successful shutdown afterwards -/
def demoCfg : Cfg := { onServe := true, onError := false, onAccept := true, onClose := true, reject := fun c => c == 2 }

def demoSched : List Step :=
  [.acc, .clientConnect 1, .acc, .acc, .acc, .acc, .acc,            -- client 1 accepted and tracked
   .clientConnect 2, .acc, .acc, .acc, .acc,                          -- client 2 rejected
   .clientSend 1 7 .normal, .conn 1, .conn 1,                         -- request 7: handler running
   .shutdownCall, .shutdownScan 1, .shutdownTick,                     -- Shutdown sees it busy and waits
   .conn 1, .conn 1, .conn 1,                                         -- reply written, idle again
   .shutdownScan 1, .shutdownTick,                                    -- second sweep: closed; Shutdown returns
   .acc, .conn 1, .conn 1, .conn 1, .conn 1]

example :
    let s := run demoCfg init demoSched
    s.sd = .returned .ok ∧ s.acc = .returned .closed ∧ (s.conns 1).replied = [7] ∧ (s.conns 1).closeCbs = [true] ∧
    (s.conns 1).acceptArg = some 1 ∧ (s.conns 2).rejected = true ∧ (s.conns 2).acceptArg = some 2 ∧ s.count = 0 := by
  decide

end Modbus.Properties.C17
