import ModbusProofs
import Lean
/-
  Audit: lists every theorem of the property modules (`ModbusProofs.Properties.*`) with the
  axioms it depends on (`Lean.collectAxioms`) and a structural hash of its statement, as JSON on stdout.
  Run with `lake env lean ModbusProofs/Audit.lean`.
-/
open Lean Elab Command

def jsonEscape (s : String) : String := (s.replace "\\" "\\\\").replace "\"" "\\\""

#eval show CommandElabM Unit from do
  let env ← getEnv
  let mut items : Array String := #[]
  let mods := env.header.moduleNames
  for (n, ci) in env.constants.map₁.toList do
    match ci with
    | .thmInfo _ =>
      match env.getModuleIdxFor? n with
      | some idx =>
        let m := mods[idx.toNat]!
        -- equation lemmas that Lean generates for definitions (`f.eq_def`, `f.eq_1`, …) are not obligations of a property
        let last := match n with | .str _ s => s | _ => ""
        let generated := last == "eq_def" || (last.startsWith "eq_" && (last.drop 3).all Char.isDigit)
        if (`ModbusProofs.Properties).isPrefixOf m && !n.isInternalDetail && !generated then
          let ax ← liftCoreM (collectAxioms n)
          let axs := ", ".intercalate (ax.toList.map fun a => "\"" ++ jsonEscape a.toString ++ "\"")
          -- structural hash of the statement (binder names do not enter it): recorded in OBLIGATIONS.json, so that a
          -- statement cannot be weakened silently while a proof is repaired
          items := items.push s!"\{\"name\": \"{jsonEscape n.toString}\", \"module\": \"{m}\", \"stmt\": \"{ci.type.hash}\", \"axioms\": [{axs}]}"
      | none => pure ()
    | _ => pure ()
  let sorted := items.qsort (· < ·)
  IO.println ("{\"theorems\": [\n" ++ ",\n".intercalate sorted.toList ++ "\n]}")
