import Modbus.Model.ClientLock
/-
  The invariant of the client lock model and its preservation by every atomic step of every thread.
-/
namespace Modbus.Lemmas.ClientLock
open Modbus.Model.ClientLock

@[simp] theorem upd_same (f : Nat → Thread) (t : Nat) (v : Thread) : upd f t v t = v := by simp [upd]
theorem upd_other (f : Nat → Thread) (t u : Nat) (v : Thread) (h : u ≠ t) : upd f t v u = f u := by simp [upd, h]

theorem wireRun_append (st : Option Open) (a b : List WireEv) :
    wireRun st (a ++ b) = match wireRun st a with
      | some st' => wireRun st' b
      | none => none := by
  induction a generalizing st with
  | nil => rfl
  | cons e es ih =>
    simp only [List.cons_append, wireRun]
    cases wireStep st e with
    | none => rfl
    | some st' => exact ih st'

theorem wireRun_snoc (st : Option Open) (a : List WireEv) (e : WireEv) (st' : Option Open)
    (h : wireRun st a = some st') : wireRun st (a ++ [e]) = wireStep st' e := by
  rw [wireRun_append, h]
  simp only [wireRun]
  cases wireStep st' e <;> rfl

/-- the exchange that is open on the wire in state `s` -/
def cur (s : St) : Option Open :=
  match s.holder with
  | none => none
  | some t =>
    match (s.th t).stage, s.conn, s.pending with
    | .reading id, some (k, _), (_, i, _) :: _ => some (t, k, id, i)
    | _, _, _ => none

structure Inv (nch : Nat → Nat) (progs : Nat → List Call) (s : St) : Prop where
  /-- mutual exclusion: exactly the holder of the mutex is inside a call -/
  mutex : ∀ t, (s.th t).stage ≠ .out ↔ s.holder = some t
  /-- the transport's queue holds the rest of the holder's reply and nothing else -/
  pend : ∀ t, s.holder = some t →
    match (s.th t).stage with
    | .reading id => ∃ k r, s.conn = some (k, true) ∧ r < nch id + 1 ∧ s.pending = chunksAux id (nch id + 1) (r + 1)
    | _ => s.pending = []
  pend0 : s.holder = none → s.pending = []
  /-- the wire log is a sequence of whole exchanges followed by the holder's exchange so far -/
  wire : wireRun none s.wire = some (cur s)
  /-- every completed call got an outcome that fits it -/
  done : ∀ t, ∀ x ∈ (s.th t).done, Matches x
  /-- calls are carried out once each, in program order -/
  prog : ∀ t, (s.th t).done.map (·.1) ++ (s.th t).todo = progs t
  headH : ∀ t c, (s.th t).stage = .held c → (s.th t).todo.head? = some c
  headR : ∀ t id, (s.th t).stage = .reading id → (s.th t).todo.head? = some (.doReq id)

theorem inv_init (nch : Nat → Nat) (progs : Nat → List Call) (c : Bool) : Inv nch progs (init progs c) where
  mutex := by intro t; simp [init]
  pend := by intro t h; simp [init] at h
  pend0 := by intro _; rfl
  wire := by simp [init, wireRun, cur]
  done := by intro t x hx; simp [init] at hx
  prog := by intro t; simp [init]
  headH := by intro t c h; simp [init] at h
  headR := by intro t id h; simp [init] at h

theorem chunksAux_head (id n r : Nat) : chunksAux id n (r + 1) = (id, n - r, n) :: chunksAux id n r := rfl

/-- the state after `finish`: nobody holds the mutex, thread `t` is outside with one more completed call -/
theorem inv_finish (nch : Nat → Nat) (progs : Nat → List Call) (s : St) (t : Nat) (o : Outcome) (c : Call)
    (hm : ∀ u, u ≠ t → (s.th u).stage = .out)
    (hp : s.pending = [])
    (hw : wireRun none s.wire = some none)
    (hd : ∀ u, ∀ x ∈ (s.th u).done, Matches x)
    (hpr : ∀ u, (s.th u).done.map (·.1) ++ (s.th u).todo = progs u)
    (hh : (s.th t).todo.head? = some c)
    (hmatch : Matches (c, o)) : Inv nch progs (finish s t o) := by
  have htodo : (s.th t).todo = c :: (s.th t).todo.tail := by
    cases h : (s.th t).todo with
    | nil => rw [h] at hh; simp at hh
    | cons a as => rw [h] at hh; simp at hh; simp [hh]
  constructor
  · intro u
    by_cases hu : u = t
    · subst hu; simp [finish]
    · simp [finish, upd_other _ _ _ _ hu, hm u hu]
  · intro u h; simp [finish] at h
  · intro _; simpa [finish] using hp
  · simpa [finish, cur] using hw
  · intro u x hx
    by_cases hu : u = t
    · subst hu
      simp only [finish, upd_same, List.mem_append, List.mem_singleton] at hx
      rcases hx with hx | hx
      · exact hd u x hx
      · rw [hx, htodo]; simpa using hmatch
    · simp only [finish, upd_other _ _ _ _ hu] at hx; exact hd u x hx
  · intro u
    by_cases hu : u = t
    · subst hu
      have := hpr u
      rw [htodo] at this
      simp only [finish, upd_same, List.map_append, List.map_cons, List.map_nil, List.append_assoc, List.cons_append,
        List.nil_append]
      rw [htodo]; simpa using this
    · simp only [finish, upd_other _ _ _ _ hu]; exact hpr u
  · intro u c' h
    by_cases hu : u = t
    · subst hu; simp [finish] at h
    · simp only [finish, upd_other _ _ _ _ hu] at h; rw [hm u hu] at h; cases h
  · intro u id h
    by_cases hu : u = t
    · subst hu; simp [finish] at h
    · simp only [finish, upd_other _ _ _ _ hu] at h; rw [hm u hu] at h; cases h

theorem others_out {nch progs s} (h : Inv nch progs s) (t : Nat) (ht : s.holder = some t) :
    ∀ u, u ≠ t → (s.th u).stage = .out := by
  intro u hu
  by_cases hs : (s.th u).stage = .out
  · exact hs
  · have := (h.mutex u).1 hs
    rw [ht] at this; cases this; exact absurd rfl hu

/-- every atomic step of every thread preserves the invariant -/
theorem inv_step (nch : Nat → Nat) (progs : Nat → List Call) (s : St) (t : Nat) (h : Inv nch progs s) :
    Inv nch progs (step nch s t) := by
  cases hst : (s.th t).stage with
  | out =>
    simp only [step, hst]
    cases htodo : (s.th t).todo with
    | nil => simp only []; exact h
    | cons c cs =>
      cases hh : s.holder with
      | some u => simp only []; exact h
      | none =>
        simp only []
        have hall : ∀ u, (s.th u).stage = .out := by
          intro u
          by_cases hs : (s.th u).stage = .out
          · exact hs
          · have := (h.mutex u).1 hs; rw [hh] at this; cases this
        constructor
        · intro u
          by_cases hu : u = t
          · subst hu; simp
          · simp only [upd_other _ _ _ _ hu, hall u, ne_eq, not_true_eq_false, Option.some.injEq, false_iff]
            exact fun e => hu e.symm
        · intro u hu'
          simp only [Option.some.injEq] at hu'
          subst hu'
          simp only [upd_same]
          exact h.pend0 hh
        · intro hc; cases hc
        · have := h.wire
          simp only [cur, hh] at this
          simp only [cur, upd_same]
          exact this
        · intro u x hx
          by_cases hu : u = t
          · subst hu; simp only [upd_same] at hx; exact h.done u x hx
          · simp only [upd_other _ _ _ _ hu] at hx; exact h.done u x hx
        · intro u
          by_cases hu : u = t
          · subst hu; simp only [upd_same]; rw [← htodo]; exact h.prog u
          · simp only [upd_other _ _ _ _ hu]; exact h.prog u
        · intro u c' hc
          by_cases hu : u = t
          · subst hu; simp only [upd_same] at hc; cases hc; simp [htodo]
          · simp only [upd_other _ _ _ _ hu] at hc; rw [hall u] at hc; cases hc
        · intro u id hc
          by_cases hu : u = t
          · subst hu; simp only [upd_same] at hc; cases hc
          · simp only [upd_other _ _ _ _ hu] at hc; rw [hall u] at hc; cases hc
  | held c =>
    have hne : (s.th t).stage ≠ .out := by rw [hst]; intro e; cases e
    have hholder := (h.mutex t).1 hne
    have hoth := others_out h t hholder
    have hpend : s.pending = [] := by have := h.pend t hholder; rw [hst] at this; exact this
    have hwire : wireRun none s.wire = some none := by
      have := h.wire; simp only [cur, hholder, hst] at this; exact this
    have hhead := h.headH t c hst
    cases c with
    | connect =>
      simp only [step, hst]
      apply inv_finish nch progs _ t .connected .connect
      · exact hoth
      · first | exact hpend | rfl
      · first | exact hwire | (simp only []; rw [wireRun_snoc _ _ _ _ hwire]; simp [wireStep])
      · exact h.done
      · exact h.prog
      · exact hhead
      · first | trivial | rfl
    | close =>
      simp only [step, hst]
      cases hc : s.conn with
      | none =>
        simp only []
        apply inv_finish nch progs _ t .closed .close
        · exact hoth
        · first | exact hpend | rfl
        · first | exact hwire | (simp only []; rw [wireRun_snoc _ _ _ _ hwire]; simp [wireStep])
        · exact h.done
        · exact h.prog
        · exact hhead
        · first | trivial | rfl
      | some kc =>
        obtain ⟨k, b⟩ := kc
        simp only []
        apply inv_finish nch progs _ t .closed .close
        · exact hoth
        · first | exact hpend | rfl
        · first | exact hwire | (simp only []; rw [wireRun_snoc _ _ _ _ hwire]; simp [wireStep])
        · exact h.done
        · exact h.prog
        · exact hhead
        · first | trivial | rfl
    | doReq id =>
      simp only [step, hst]
      cases hc : s.conn with
      | none =>
        simp only []
        apply inv_finish nch progs _ t .notConnected (.doReq id)
        · exact hoth
        · first | exact hpend | rfl
        · first | exact hwire | (simp only []; rw [wireRun_snoc _ _ _ _ hwire]; simp [wireStep])
        · exact h.done
        · exact h.prog
        · exact hhead
        · first | trivial | rfl
      | some kc =>
        obtain ⟨k, b⟩ := kc
        cases b with
        | false =>
          simp only []
          apply inv_finish nch progs _ t .writeErr (.doReq id)
          · exact hoth
          · first | exact hpend | rfl
          · first | exact hwire | (simp only []; rw [wireRun_snoc _ _ _ _ hwire]; simp [wireStep])
          · exact h.done
          · exact h.prog
          · exact hhead
          · first | trivial | rfl
        | true =>
          simp only []
          constructor
          · intro u
            by_cases hu : u = t
            · subst hu; simp [hholder]
            · simp only [upd_other _ _ _ _ hu, hoth u hu, ne_eq, not_true_eq_false, hholder, Option.some.injEq, false_iff]
              exact fun e => hu e.symm
          · intro u hu'
            rw [hholder] at hu'
            simp only [Option.some.injEq] at hu'
            subst hu'
            simp only [upd_same]
            refine ⟨k, nch id, rfl, Nat.lt_succ_self _, ?_⟩
            rw [hpend]; rfl
          · intro hn; rw [hholder] at hn; cases hn
          · simp only [cur, hholder, upd_same, hc, hpend, List.nil_append, chunks, chunksAux_head]
            rw [wireRun_snoc _ _ _ _ hwire]
            simp [wireStep]
          · intro u x hx
            by_cases hu : u = t
            · subst hu; simp only [upd_same] at hx; exact h.done u x hx
            · simp only [upd_other _ _ _ _ hu] at hx; exact h.done u x hx
          · intro u
            by_cases hu : u = t
            · subst hu; simp only [upd_same]; exact h.prog u
            · simp only [upd_other _ _ _ _ hu]; exact h.prog u
          · intro u c' hcc
            by_cases hu : u = t
            · subst hu; simp only [upd_same] at hcc; cases hcc
            · simp only [upd_other _ _ _ _ hu] at hcc; rw [hoth u hu] at hcc; cases hcc
          · intro u id' hcc
            by_cases hu : u = t
            · subst hu; simp only [upd_same] at hcc; cases hcc; simp only [upd_same]; exact hhead
            · simp only [upd_other _ _ _ _ hu] at hcc; rw [hoth u hu] at hcc; cases hcc
  | reading id =>
    have hne : (s.th t).stage ≠ .out := by rw [hst]; intro e; cases e
    have hholder := (h.mutex t).1 hne
    have hoth := others_out h t hholder
    obtain ⟨k, r, hc, hr, hp⟩ : ∃ k r, s.conn = some (k, true) ∧ r < nch id + 1 ∧
        s.pending = chunksAux id (nch id + 1) (r + 1) := by
      have := h.pend t hholder; rw [hst] at this; exact this
    have hhead := h.headR t id hst
    have hwire : wireRun none s.wire = some (some (t, k, id, nch id + 1 - r)) := by
      have := h.wire
      simp only [cur, hholder, hst, hc, hp, chunksAux_head] at this
      exact this
    simp only [step, hst, hc, hp, chunksAux_head]
    by_cases hlast : nch id + 1 - r = nch id + 1
    · -- the last chunk: the call returns with the reply to its own request
      have hr0 : r = 0 := by omega
      subst hr0
      simp only [hlast, if_true]
      apply inv_finish nch progs _ t (.reply id) (.doReq id)
      · exact hoth
      · first | exact hpend | rfl
      · first | exact hwire | (simp only []; rw [wireRun_snoc _ _ _ _ hwire]; simp [wireStep])
      · exact h.done
      · exact h.prog
      · exact hhead
      · first | trivial | rfl
    · simp only [hlast, if_false]
      obtain ⟨r', hr'⟩ : ∃ r', r = r' + 1 := ⟨r - 1, by omega⟩
      subst hr'
      constructor
      · exact h.mutex
      · intro u hu'
        simp only [] at hu'
        rw [hholder] at hu'
        simp only [Option.some.injEq] at hu'
        subst hu'
        simp only [hst]
        exact ⟨k, r', rfl, by omega, rfl⟩
      · intro hn; simp only [] at hn; rw [hholder] at hn; cases hn
      · simp only [cur, hholder, hst, hc, chunksAux_head]
        rw [wireRun_snoc _ _ _ _ hwire]
        have h1 : ¬ nch id + 1 - (r' + 1) = nch id + 1 := hlast
        have h2 : nch id + 1 - (r' + 1) + 1 = nch id + 1 - r' := by omega
        simp only [wireStep, and_self, if_true, h1, if_false, h2]
      · exact h.done
      · exact h.prog
      · exact h.headH
      · exact h.headR

theorem inv_run (nch : Nat → Nat) (progs : Nat → List Call) (s : St) (sched : List Nat) (h : Inv nch progs s) :
    Inv nch progs (run nch s sched) := by
  induction sched generalizing s with
  | nil => exact h
  | cons t ts ih => exact ih _ (inv_step nch progs s t h)

end Modbus.Lemmas.ClientLock
