import ModbusProofs.Lemmas.Slice
import Mathlib.Tactic.SplitIfs
/-
  Every parse entry point of the model returns a result that does not depend on the spare
  capacity of the slice it is given and never panics.
-/
namespace Modbus.Lemmas
open Modbus Modbus.Model

/-- independent of the spare capacity, and not a panic -/
def SpareSafe {ε α} (f : Slice → Res ε α) : Prop :=
  ∀ v sp, f ⟨v, sp⟩ = f ⟨v, []⟩ ∧ f ⟨v, sp⟩ ≠ .panic

macro "safe_simp" : tactic => `(tactic|
  (simp (disch := omega) only [idx_eq, rd16_eq, bytes_eq, from_eq, copyOut_eq, Res.bind_ok, Res.bind_err,
      Slice.len, Nat.reduceAdd, reduceCtorEq, ne_eq, not_false_eq_true, and_self, if_true, if_false, ↓reduceIte, *]))

macro "safe" : tactic => `(tactic| ((try dsimp only); refine ⟨?_, ?_⟩ <;> repeat' (first | safe_simp | split_ifs | (simp_all; done))))

/-- the header conditions other than the minimum length -/
def MBAPrest (v : Bytes) : Prop :=
  v.getD 2 0 = 0 ∧ v.getD 3 0 = 0 ∧ be16 (v.getD 4 0) (v.getD 5 0) ≠ 0 ∧
    v.length = 6 + (be16 (v.getD 4 0) (v.getD 5 0)).toNat

instance (v : Bytes) : Decidable (MBAPrest v) := by unfold MBAPrest; infer_instance

/-- `ParseMBAPHeader` in closed form: at least 7 bytes, protocol id 0, non-zero length field equal
to the number of bytes that follow -/
theorem parseMBAP_eq (v sp : Bytes) :
    parseMBAP ⟨v, sp⟩ =
      if v.length < 7 then .err (.tcp 4 0 0 0) else
      if MBAPrest v then .ok (be16 (v.getD 0 0) (v.getD 1 0)) else .err (.tcp 4 0 0 0) := by
  unfold parseMBAP MBAPrest
  by_cases h6 : v.length < 6
  · have : v.length < 7 := by omega
    simp [h6, this]
  · simp (disch := omega) only [h6, if_false, idx_eq, rd16_eq, Res.bind_ok, Nat.reduceAdd]
    by_cases h7 : v.length < 7
    · simp only [h7, if_true]
      split_ifs <;> first | rfl | skip
      rename_i h1 h2 h3
      exfalso
      have : (be16 (v.getD 4 0) (v.getD 5 0)).toNat ≠ 0 := by
        intro h; apply h2; exact UInt16.toNat_inj.1 (by simpa using h)
      omega
    · simp only [h7, if_false]
      split_ifs <;> simp_all

theorem safe_parseMBAP : SpareSafe parseMBAP := by
  intro v sp; simp only [parseMBAP_eq]; safe

theorem safe_readReqTCP (fc : UInt8) (m : UInt16) : SpareSafe (parseReadReqTCP fc m) := by
  intro v sp; unfold parseReadReqTCP; simp only [parseMBAP_eq]; safe
theorem safe_readReqRTU (fc : UInt8) (m : UInt16) : SpareSafe (parseReadReqRTU fc m) := by
  intro v sp; unfold parseReadReqRTU; safe
theorem safe_wcoilReqTCP : SpareSafe parseWCoilReqTCP := by
  intro v sp; unfold parseWCoilReqTCP; simp only [parseMBAP_eq]; safe
theorem safe_wcoilReqRTU : SpareSafe parseWCoilReqRTU := by
  intro v sp; unfold parseWCoilReqRTU; safe
theorem safe_wregReqTCP : SpareSafe parseWRegReqTCP := by
  intro v sp; unfold parseWRegReqTCP; simp only [parseMBAP_eq]; safe
theorem safe_wregReqRTU : SpareSafe parseWRegReqRTU := by
  intro v sp; unfold parseWRegReqRTU; safe
theorem safe_wcoilsReqTCP : SpareSafe parseWCoilsReqTCP := by
  intro v sp; unfold parseWCoilsReqTCP; simp only [parseMBAP_eq]; safe
theorem safe_wcoilsReqRTU : SpareSafe parseWCoilsReqRTU := by
  intro v sp; unfold parseWCoilsReqRTU; safe
theorem safe_wregsReqTCP : SpareSafe parseWRegsReqTCP := by
  intro v sp; unfold parseWRegsReqTCP; simp only [parseMBAP_eq]; safe
theorem safe_wregsReqRTU : SpareSafe parseWRegsReqRTU := by
  intro v sp; unfold parseWRegsReqRTU; safe
theorem safe_sidReqTCP : SpareSafe parseSidReqTCP := by
  intro v sp; unfold parseSidReqTCP; simp only [parseMBAP_eq]; safe
theorem safe_sidReqRTU : SpareSafe parseSidReqRTU := by
  intro v sp; unfold parseSidReqRTU; safe
set_option maxHeartbeats 1000000 in
theorem safe_rwReqTCP : SpareSafe parseRWReqTCP := by
  intro v sp; unfold parseRWReqTCP; simp only [parseMBAP_eq]; safe
theorem safe_rwReqRTU : SpareSafe parseRWReqRTU := by
  intro v sp; unfold parseRWReqRTU; safe

theorem safe_reqTCPfc (fc : UInt8) : SpareSafe (parseReqTCPfc fc) := by
  intro v sp
  unfold parseReqTCPfc
  split
  · exact safe_readReqTCP _ _ v sp
  · exact safe_readReqTCP _ _ v sp
  · exact safe_readReqTCP _ _ v sp
  · exact safe_readReqTCP _ _ v sp
  · exact safe_wcoilReqTCP v sp
  · exact safe_wregReqTCP v sp
  · exact safe_wcoilsReqTCP v sp
  · exact safe_wregsReqTCP v sp
  · exact safe_sidReqTCP v sp
  · exact safe_rwReqTCP v sp
  · exact ⟨rfl, by simp⟩

theorem safe_reqRTUfc (fc : UInt8) : SpareSafe (parseReqRTUfc fc) := by
  intro v sp
  unfold parseReqRTUfc
  split
  · exact safe_readReqRTU _ _ v sp
  · exact safe_readReqRTU _ _ v sp
  · exact safe_readReqRTU _ _ v sp
  · exact safe_readReqRTU _ _ v sp
  · exact safe_wcoilReqRTU v sp
  · exact safe_wregReqRTU v sp
  · exact safe_wcoilsReqRTU v sp
  · exact safe_wregsReqRTU v sp
  · exact safe_sidReqRTU v sp
  · exact safe_rwReqRTU v sp
  · exact ⟨rfl, by simp⟩

theorem safe_parseTCPRequest : SpareSafe parseTCPRequest := by
  intro v sp
  unfold parseTCPRequest
  by_cases h : v.length < 8
  · simp [h]
  · simp (disch := omega) only [h, if_false, idx_eq, Res.bind_ok]
    exact safe_reqTCPfc _ v sp

theorem safe_parseRTURequest : SpareSafe parseRTURequest := by
  intro v sp
  unfold parseRTURequest
  by_cases h : v.length < 4
  · simp [h]
  · simp (disch := omega) only [h, if_false, idx_eq, Res.bind_ok]
    exact safe_reqRTUfc _ v sp

theorem safe_parseRTURequestWithCRC : SpareSafe parseRTURequestWithCRC := by
  intro v sp
  unfold parseRTURequestWithCRC
  by_cases h : v.length < 4
  · simp [h]
  · by_cases hc : crcMatches v = true
    · simp only [h, hc, if_false, Bool.not_true, Bool.false_eq_true]
      exact safe_parseRTURequest v sp
    · simp [h, hc]

/-! responses -/

theorem safe_asTCPErr : SpareSafe asTCPErrorPacket := by
  intro v sp; unfold asTCPErrorPacket; safe
theorem safe_asRTUErr : SpareSafe asRTUErrorPacket := by
  intro v sp; unfold asRTUErrorPacket; safe
theorem safe_looksLike (allow : Bool) : SpareSafe (fun s => looksLike s allow) := by
  intro v sp; unfold looksLike; safe

theorem safe_byteCountTCP (mk : UInt8 → UInt8 → Bytes → Resp) (n : Nat) (hn : 9 ≤ n) :
    SpareSafe (parseByteCountRespTCP mk n) := by
  intro v sp; unfold parseByteCountRespTCP; safe
theorem safe_byteCountRTU (mk : UInt8 → UInt8 → Bytes → Resp) (n : Nat) (hn : 5 ≤ n) :
    SpareSafe (parseByteCountRespRTU mk n) := by
  intro v sp; unfold parseByteCountRespRTU; safe
theorem safe_wcoilRespTCP : SpareSafe (parseFixedRespTCP (mkWCoilResp 8)) := by
  intro v sp; unfold parseFixedRespTCP mkWCoilResp; safe
theorem safe_wregRespTCP : SpareSafe (parseFixedRespTCP (mkWRegResp 8)) := by
  intro v sp; unfold parseFixedRespTCP mkWRegResp; safe
theorem safe_wmultiRespTCP (fc : UInt8) : SpareSafe (parseFixedRespTCP (mkWMultiResp fc 8)) := by
  intro v sp; unfold parseFixedRespTCP mkWMultiResp; safe
theorem safe_wcoilRespRTU : SpareSafe (parseFixedRespRTU (mkWCoilResp 2)) := by
  intro v sp; unfold parseFixedRespRTU mkWCoilResp; safe
theorem safe_wregRespRTU : SpareSafe (parseFixedRespRTU (mkWRegResp 2)) := by
  intro v sp; unfold parseFixedRespRTU mkWRegResp; safe
theorem safe_wmultiRespRTU (fc : UInt8) : SpareSafe (parseFixedRespRTU (mkWMultiResp fc 2)) := by
  intro v sp; unfold parseFixedRespRTU mkWMultiResp; safe
theorem safe_sidRespTCP : SpareSafe parseSidRespTCP := by
  intro v sp; unfold parseSidRespTCP; safe
theorem safe_sidRespRTU : SpareSafe parseSidRespRTU := by
  intro v sp; unfold parseSidRespRTU; safe

theorem safe_respTCPfc (fc : UInt8) : SpareSafe (parseRespTCPfc fc) := by
  intro v sp
  unfold parseRespTCPfc
  split
  · exact safe_byteCountTCP _ _ (by omega) v sp
  · exact safe_byteCountTCP _ _ (by omega) v sp
  · exact safe_byteCountTCP _ _ (by omega) v sp
  · exact safe_byteCountTCP _ _ (by omega) v sp
  · exact safe_wcoilRespTCP v sp
  · exact safe_wregRespTCP v sp
  · exact safe_wmultiRespTCP _ v sp
  · exact safe_wmultiRespTCP _ v sp
  · exact safe_sidRespTCP v sp
  · exact safe_byteCountTCP _ _ (by omega) v sp
  · exact ⟨rfl, by simp⟩

theorem safe_respRTUfc (fc : UInt8) : SpareSafe (parseRespRTUfc fc) := by
  intro v sp
  unfold parseRespRTUfc
  split
  · exact safe_byteCountRTU _ _ (by omega) v sp
  · exact safe_byteCountRTU _ _ (by omega) v sp
  · exact safe_byteCountRTU _ _ (by omega) v sp
  · exact safe_byteCountRTU _ _ (by omega) v sp
  · exact safe_wcoilRespRTU v sp
  · exact safe_wregRespRTU v sp
  · exact safe_wmultiRespRTU _ v sp
  · exact safe_wmultiRespRTU _ v sp
  · exact safe_sidRespRTU v sp
  · exact safe_byteCountRTU _ _ (by omega) v sp
  · exact ⟨rfl, by simp⟩

end Modbus.Lemmas

namespace Modbus.Lemmas
open Modbus Modbus.Model

theorem safe_parseTCPResponse : SpareSafe parseTCPResponse := by
  intro v sp
  unfold parseTCPResponse
  by_cases h : v.length < 8
  · simp [h]
  · simp only [h, if_false]
    have ha := safe_asTCPErr v sp
    rw [ha.1]
    cases he : asTCPErrorPacket ⟨v, []⟩ with
    | panic => exact absurd (ha.1 ▸ he) ha.2
    | err e => simp
    | ok o =>
      cases o with
      | some e => simp
      | none =>
        simp (disch := omega) only [Res.bind_ok, idx_eq]
        exact safe_respTCPfc _ v sp

theorem safe_parseRTUResponse : SpareSafe parseRTUResponse := by
  intro v sp
  unfold parseRTUResponse
  by_cases h : v.length < 4
  · simp [h]
  · simp only [h, if_false]
    have ha := safe_asRTUErr v sp
    rw [ha.1]
    cases he : asRTUErrorPacket ⟨v, []⟩ with
    | panic => exact absurd (ha.1 ▸ he) ha.2
    | err e => simp
    | ok o =>
      cases o with
      | some e => simp
      | none =>
        simp (disch := omega) only [Res.bind_ok, idx_eq]
        exact safe_respRTUfc _ v sp

theorem safe_parseRTUResponseWithCRC : SpareSafe parseRTUResponseWithCRC := by
  intro v sp
  unfold parseRTUResponseWithCRC
  by_cases h : v.length < 4
  · simp [h]
  · by_cases hc : crcMatches v = true
    · simp only [h, hc, if_false, Bool.not_true, Bool.false_eq_true]
      exact safe_parseRTUResponse v sp
    · simp [h, hc]

end Modbus.Lemmas
