import ModbusProofs.Lemmas.ServerLife
/-
  The global invariant of the server lifecycle model and its preservation by every step of every process.
-/
namespace Modbus.Lemmas.ServerLife
open Modbus.Model.ServerLife

structure Inv (cfg : Cfg) (s : St) : Prop where
  nodup : s.ids.Nodup
  qnodup : s.queue.Nodup
  qsub : ∀ c ∈ s.queue, c ∈ s.ids ∧ Fresh (s.conns c)
  accC : ∀ c, accConn s.acc = some c → c ∈ s.ids ∧ Fresh (s.conns c) ∧ c ∉ s.queue
  fresh : ∀ c, c ∉ s.ids → Fresh (s.conns c)
  cinv : ∀ c, CInv cfg (s.conns c)
  /-- exact accounting -/
  count : s.count = (liveCount s : Int)
  shut : s.isShutdown = true ↔ s.sd ≠ .notCalled
  /-- the sweep of Shutdown: what is left to look at is in the map, and (while everything seen was idle)
  everything in the map is still to be looked at -/
  remMap : ∀ rem ai, s.sd = .sweeping rem ai → rem.Nodup ∧ ∀ c ∈ rem, (s.conns c).inMap = true
  sweep : ∀ rem ai, s.sd = .sweeping rem ai → ai = true → ∀ c ∈ s.ids, (s.conns c).inMap = true → c ∈ rem
  /-- a Shutdown that returned without giving up (nil, or the listener error of a repeated call) has swept everything -/
  retOk : ∀ r, s.sd = .returned r → r ≠ .ctxErr → ∀ c, (s.conns c).inMap = false
  lis : s.isShutdown = true → s.listenerSet = true → s.listenerOpen = false
  lisC : s.listenerOpen = false → s.isShutdown = true ∨ s.ctxCancelled = true ∨ ∃ r, s.acc = .returned r
  accRet : ∀ r, s.acc = .returned r → r = .closed

theorem fresh_default : Fresh ({} : Conn) := ⟨rfl, rfl, rfl, rfl, rfl, rfl, rfl, rfl⟩

theorem inv_init (cfg : Cfg) : Inv cfg init where
  nodup := List.nodup_nil
  qnodup := List.nodup_nil
  qsub := by intro c h; cases h
  accC := by intro c h; simp [init, accConn] at h
  fresh := by intro c _; exact fresh_default
  cinv := by intro c; exact fresh_default.cinv
  count := by simp [init, liveCount]
  shut := by simp [init]
  remMap := by intro rem ai h; simp [init] at h
  sweep := by intro rem ai h; simp [init] at h
  retOk := by intro r h; simp [init] at h
  lis := by intro h; simp [init] at h
  lisC := by intro h; simp [init] at h
  accRet := by intro r h; simp [init] at h

/-- membership in ids of a connection that the server has touched -/
theorem Inv.mem_ids {cfg : Cfg} {s : St} (h : Inv cfg s) (c : Nat) (hp : (s.conns c).pc ≠ .notStarted) : c ∈ s.ids := by
  by_cases hc : c ∈ s.ids
  · exact hc
  · exact absurd (h.fresh c hc).pc hp

theorem muFree_of_not_sweeping {s : St} (h : ∀ rem ai, s.sd ≠ .sweeping rem ai) : s.muFree = true := by
  unfold St.muFree
  cases hs : s.sd with
  | sweeping rem ai => exact absurd hs (h rem ai)
  | _ => rfl

theorem not_sweeping_of_muFree {s : St} (h : s.muFree = true) (rem : List Nat) (ai : Bool) : s.sd ≠ .sweeping rem ai := by
  intro hs
  simp [St.muFree, hs] at h

/-! ### the generic step: one connection record is rewritten, the counter follows `Counted` -/

theorem inv_conn_upd (cfg : Cfg) (s : St) (c : Nat) (v : Conn) (δ : Int) (h : Inv cfg s)
    (hC : CInv cfg v)
    (hF : Fresh (s.conns c) → Fresh v ∨ (c ∈ s.ids ∧ c ∉ s.queue ∧ accConn s.acc ≠ some c))
    (hδ : δ = (if Counted v then (1 : Int) else 0) - (if Counted (s.conns c) then 1 else 0))
    (hM : v.inMap = true → (s.conns c).inMap = true ∨ s.sd = .notCalled)
    (hM2 : (s.conns c).inMap = true → v.inMap = true ∨ s.muFree = true) :
    Inv cfg { (s.setC c v) with count := s.count + δ } := by
  have hI : ∀ d, ((s.setC c v).conns d).inMap = true → (s.conns d).inMap = true ∨ s.sd = .notCalled := by
    intro d
    by_cases hdc : d = c
    · subst hdc; rw [setC_conns_same]; exact hM
    · rw [setC_conns_other _ _ _ _ hdc]; exact Or.inl
  constructor
  · exact h.nodup
  · exact h.qnodup
  · intro d hd
    refine ⟨(h.qsub d hd).1, ?_⟩
    by_cases hdc : d = c
    · subst hdc; rw [setC_conns_same]
      rcases hF (h.qsub d hd).2 with hf | hf
      · exact hf
      · exact absurd hd hf.2.1
    · show Fresh ((s.setC c v).conns d); rw [setC_conns_other _ _ _ _ hdc]; exact (h.qsub d hd).2
  · intro d hd
    refine ⟨(h.accC d hd).1, ?_, (h.accC d hd).2.2⟩
    by_cases hdc : d = c
    · subst hdc; show Fresh ((s.setC d v).conns d); rw [setC_conns_same]
      rcases hF (h.accC d hd).2.1 with hf | hf
      · exact hf
      · exact absurd hd hf.2.2
    · show Fresh ((s.setC c v).conns d); rw [setC_conns_other _ _ _ _ hdc]; exact (h.accC d hd).2.1
  · intro d hd
    by_cases hdc : d = c
    · subst hdc; show Fresh ((s.setC d v).conns d); rw [setC_conns_same]
      rcases hF (h.fresh d hd) with hf | hf
      · exact hf
      · exact absurd hf.1 hd
    · show Fresh ((s.setC c v).conns d); rw [setC_conns_other _ _ _ _ hdc]; exact h.fresh d hd
  · intro d
    by_cases hdc : d = c
    · subst hdc; show CInv cfg ((s.setC d v).conns d); rw [setC_conns_same]; exact hC
    · show CInv cfg ((s.setC c v).conns d); rw [setC_conns_other _ _ _ _ hdc]; exact h.cinv d
  · show s.count + δ = ((liveCount (s.setC c v) : Nat) : Int)
    rw [liveCount_setC s h.nodup c v, h.count, hδ]
    by_cases hc : c ∈ s.ids
    · simp [hc]
    · have hf := h.fresh c hc
      rcases hF hf with hf' | hf'
      · simp [hc, Counted, hf.pc, hf'.pc]
      · exact absurd hf'.1 hc
  · exact h.shut
  · intro rem ai hs
    have hmf : s.muFree = false := by simp [St.muFree, show s.sd = .sweeping rem ai from hs]
    refine ⟨(h.remMap rem ai hs).1, ?_⟩
    intro d hd
    have hold := (h.remMap rem ai hs).2 d hd
    by_cases hdc : d = c
    · subst hdc; show ((s.setC d v).conns d).inMap = true; rw [setC_conns_same]
      rcases hM2 hold with h1 | h1
      · exact h1
      · rw [hmf] at h1; cases h1
    · show ((s.setC c v).conns d).inMap = true; rw [setC_conns_other _ _ _ _ hdc]; exact hold
  · intro rem ai hs ha d hd hm
    rcases hI d hm with h1 | h1
    · exact h.sweep rem ai hs ha d hd h1
    · rw [show s.sd = .sweeping rem ai from hs] at h1; cases h1
  · intro r hs hr d
    have := h.retOk r hs hr d
    cases hm : ((s.setC c v).conns d).inMap with
    | false => rfl
    | true =>
      rcases hI d hm with h1 | h1
      · rw [h1] at this; cases this
      · rw [show s.sd = .returned r from hs] at h1; cases h1
  · exact h.lis
  · exact h.lisC
  · exact h.accRet

theorem setC_count_zero (s : St) (c : Nat) (v : Conn) : ({ (s.setC c v) with count := s.count + 0 } : St) = s.setC c v := by
  simp [St.setC]

/-- a rewrite of fields the invariant does not mention (inbox, clientOpen, acceptArg) -/
theorem inv_conn_irrelevant (cfg : Cfg) (s : St) (c : Nat) (v : Conn) (h : Inv cfg s)
    (e1 : v.pc = (s.conns c).pc) (e2 : v.serverClosed = (s.conns c).serverClosed) (e3 : v.state = (s.conns c).state)
    (e4 : v.inMap = (s.conns c).inMap) (e5 : v.rejected = (s.conns c).rejected) (e6 : v.refused = (s.conns c).refused)
    (e7 : v.closeCbs = (s.conns c).closeCbs) (e8 : v.started = (s.conns c).started)
    (e9 : v.panicked = (s.conns c).panicked) (e10 : v.replied = (s.conns c).replied) :
    Inv cfg (s.setC c v) := by
  have hc := h.cinv c
  have := inv_conn_upd cfg s c v 0 h
    (by
      constructor
      · rw [e1, e7]; exact hc.cb_running
      · rw [e1, e7]; exact hc.cb_done
      · rw [e1, e7, e6]; exact hc.cb_notStarted
      · rw [e1, e2, e5, e6]; exact hc.rej
      · rw [e1, e2, e6]; exact hc.ref
      · simp only [InRequest, e1, e3]; exact hc.busy
      · rw [e2, e3, e4]; exact hc.closedS
      · simp only [Active, e1, e2, e3]; exact hc.closedBy
      · simp only [Counted, e1, e4]; exact hc.inmap
      · rw [e1, e2, e4]; exact hc.notInMap
      · simp only [Cleaned, e1, e2]; exact hc.cleaned
      · rw [e1, e8, e9, e10]; exact hc.flight)
    (by intro hf; exact Or.inl ⟨e1 ▸ hf.pc, e2 ▸ hf.open_, e5 ▸ hf.rej, e6 ▸ hf.ref, e7 ▸ hf.cbs, e4 ▸ hf.map, e3 ▸ hf.st, e8 ▸ hf.started⟩)
    (by have e : Counted v = Counted (s.conns c) := by simp only [Counted, e1]
        rw [e]; exact (Int.sub_self _).symm)
    (by rw [e4]; exact Or.inl)
    (by rw [e4]; exact Or.inl)
  rw [setC_count_zero] at this; exact this

/-! ### steps that change only shared flags and program counters (no connection record, no counter) -/

theorem inv_globals (cfg : Cfg) (s s' : St) (h : Inv cfg s)
    (e1 : s'.conns = s.conns) (e2 : s'.ids = s.ids) (e3 : s'.count = s.count)
    (hq : s'.queue.Nodup ∧ ∀ c ∈ s'.queue, c ∈ s.queue)
    (ha : ∀ c, accConn s'.acc = some c → (accConn s.acc = some c ∧ c ∉ s'.queue) ∨ (c ∈ s.queue ∧ c ∉ s'.queue))
    (hshut : s'.isShutdown = true ↔ s'.sd ≠ .notCalled)
    (hrem : ∀ rem ai, s'.sd = .sweeping rem ai → rem.Nodup ∧ ∀ c ∈ rem, (s.conns c).inMap = true)
    (hsweep : ∀ rem ai, s'.sd = .sweeping rem ai → ai = true → ∀ c ∈ s.ids, (s.conns c).inMap = true → c ∈ rem)
    (hret : ∀ r, s'.sd = .returned r → r ≠ .ctxErr → ∀ c, (s.conns c).inMap = false)
    (hlis : s'.isShutdown = true → s'.listenerSet = true → s'.listenerOpen = false)
    (hlisC : s'.listenerOpen = false → s'.isShutdown = true ∨ s'.ctxCancelled = true ∨ ∃ r, s'.acc = .returned r)
    (hret2 : ∀ r, s'.acc = .returned r → r = .closed) : Inv cfg s' := by
  constructor
  · rw [e2]; exact h.nodup
  · exact hq.1
  · intro c hc; rw [e1, e2]; exact h.qsub c (hq.2 c hc)
  · intro c hc
    rw [e1, e2]
    rcases ha c hc with ⟨h1, h2⟩ | ⟨h1, h2⟩
    · exact ⟨(h.accC c h1).1, (h.accC c h1).2.1, h2⟩
    · exact ⟨(h.qsub c h1).1, (h.qsub c h1).2, h2⟩
  · intro c hc; rw [e1]; rw [e2] at hc; exact h.fresh c hc
  · intro c; rw [e1]; exact h.cinv c
  · rw [e3, h.count]; simp [liveCount, e1, e2]
  · exact hshut
  · intro rem ai hs; rw [e1]; exact hrem rem ai hs
  · intro rem ai hs hai; rw [e1, e2]; exact hsweep rem ai hs hai
  · intro r hs hr; rw [e1]; exact hret r hs hr
  · exact hlis
  · exact hlisC
  · exact hret2

end Modbus.Lemmas.ServerLife
