import Modbus.Model.Builder
import Mathlib.Tactic.SplitIfs
/-
  The greedy batching loop of `batchToRequests` (splitter.go) over a list of slots sorted by address.
-/
namespace Modbus.Lemmas
open Modbus Modbus.Model

/-- batch `b` is exactly the window of the non-empty slot list `cs` -/
structure GoodBatch (limit : Nat) (server : String) (unit : UInt8) (b : Batch) (cs : List Slot) : Prop where
  ne : cs ≠ []
  srv : b.server = server ∧ b.unit = unit
  fields : b.fields = cs.flatMap (·.fields)
  lo : ∀ s ∈ cs, b.start.toNat ≤ s.addr.toNat
  hi : ∀ s ∈ cs, s.addr.toNat + s.size ≤ b.start.toNat + b.qty
  loAtt : ∃ s ∈ cs, s.addr.toNat = b.start.toNat
  hiAtt : ∃ s ∈ cs, s.addr.toNat + s.size = b.start.toNat + b.qty
  qtyB : b.qty ≤ limit ∨ ∃ s ∈ cs, b.qty = s.size

/-- a list of batches matches a list of slot segments -/
inductive GoodAll (limit : Nat) (server : String) (unit : UInt8) : List Batch → List (List Slot) → Prop
  | nil : GoodAll limit server unit [] []
  | cons {b bs cs css} : GoodBatch limit server unit b cs → GoodAll limit server unit bs css →
      GoodAll limit server unit (b :: bs) (cs :: css)

theorem GoodAll.append {limit server unit} {bs1 bs2 : List Batch} {c1 c2 : List (List Slot)}
    (h1 : GoodAll limit server unit bs1 c1) (h2 : GoodAll limit server unit bs2 c2) :
    GoodAll limit server unit (bs1 ++ bs2) (c1 ++ c2) := by
  induction h1 with
  | nil => exact h2
  | cons hb _ ih => exact .cons hb ih

/-- slots sorted by address, every slot of positive size -/
def SortedFrom (first : Nat) : List Slot → Prop
  | [] => True
  | s :: rest => first ≤ s.addr.toNat ∧ 1 ≤ s.size ∧ SortedFrom s.addr.toNat rest

theorem SortedFrom.mono {a b : Nat} (h : a ≤ b) : ∀ {l : List Slot}, SortedFrom b l → SortedFrom a l
  | [], _ => trivial
  | _ :: _, ⟨h1, h2, h3⟩ => ⟨Nat.le_trans h h1, h2, h3⟩

/-- the loop, from a state in which a batch is open -/
theorem batchLoop_open (server : String) (unit : UInt8) (limit : Nat) :
    ∀ (rest : List Slot) (closed : List Batch) (cur : Batch) (css : List (List Slot)) (cs : List Slot),
      GoodAll limit server unit closed css → GoodBatch limit server unit cur cs →
      SortedFrom cur.start.toNat rest →
      ∃ css', GoodAll limit server unit
          ((batchLoop server unit limit rest (closed, cur, cur.start.toNat, true)).1 ++
            [(batchLoop server unit limit rest (closed, cur, cur.start.toNat, true)).2]) css' ∧
        css'.flatten = css.flatten ++ cs ++ rest := by
  intro rest
  induction rest with
  | nil =>
    intro closed cur css cs hc hb _
    refine ⟨css ++ [cs], ?_, by simp⟩
    simp only [batchLoop]
    exact hc.append (.cons hb .nil)
  | cons s rest ih =>
    intro closed cur css cs hc hb hs
    obtain ⟨hle, hpos, hrest⟩ := hs
    simp only [batchLoop, Bool.not_true, Bool.false_eq_true, if_false]
    by_cases hd : s.addr.toNat + s.size - cur.start.toNat > limit
    · -- close the current batch, open a new one at this slot
      simp only [hd, if_true]
      have hnew : GoodBatch limit server unit
          { server := server, unit := unit, start := s.addr, qty := s.size, fields := s.fields } [s] :=
        { ne := by simp, srv := ⟨rfl, rfl⟩, fields := by simp,
          lo := by intro t ht; simp at ht; subst ht; exact Nat.le_refl _,
          hi := by intro t ht; simp at ht; subst ht; exact Nat.le_refl _,
          loAtt := ⟨s, by simp, rfl⟩, hiAtt := ⟨s, by simp, rfl⟩, qtyB := Or.inr ⟨s, by simp, rfl⟩ }
      obtain ⟨css', h1, h2⟩ := ih (closed ++ [cur])
        { server := server, unit := unit, start := s.addr, qty := s.size, fields := s.fields }
        (css ++ [cs]) [s] (hc.append (.cons hb .nil)) hnew hrest
      exact ⟨css', h1, by rw [h2]; simp⟩
    · -- extend the current batch
      simp only [hd, if_false]
      have hd' : s.addr.toNat + s.size ≤ cur.start.toNat + limit := by omega
      have hext : GoodBatch limit server unit
          { cur with qty := if cur.qty < s.addr.toNat + s.size - cur.start.toNat then
                              s.addr.toNat + s.size - cur.start.toNat else cur.qty,
                     fields := cur.fields ++ s.fields } (cs ++ [s]) := by
        have hsrv := hb.srv; have hf := hb.fields; have hlo := hb.lo; have hhi := hb.hi
        have hla := hb.loAtt; have hha := hb.hiAtt; have hqb0 := hb.qtyB
        clear hb
        refine { ne := by simp, srv := hsrv, fields := by simp [hf], lo := ?_, hi := ?_, loAtt := ?_,
                 hiAtt := ?_, qtyB := ?_ }
        · intro t ht
          rcases List.mem_append.1 ht with h | h
          · exact hlo t h
          · simp at h; subst h; exact hle
        · clear hqb0 hla hha
          intro t ht
          dsimp only
          rcases List.mem_append.1 ht with h | h
          · have := hhi t h
            split_ifs <;> omega
          · simp at h; subst h
            split_ifs <;> omega
        · obtain ⟨t, ht, hte⟩ := hla
          exact ⟨t, List.mem_append_left _ ht, hte⟩
        · clear hqb0 hla
          dsimp only
          by_cases hq : cur.qty < s.addr.toNat + s.size - cur.start.toNat
          · simp only [hq, if_true]
            clear hha
            exact ⟨s, by simp, by omega⟩
          · simp only [hq, if_false]
            obtain ⟨t, ht, hte⟩ := hha
            exact ⟨t, List.mem_append_left _ ht, hte⟩
        · dsimp only
          by_cases hq : cur.qty < s.addr.toNat + s.size - cur.start.toNat
          · simp only [hq, if_true]
            clear hqb0 hla hha
            left; omega
          · simp only [hq, if_false]
            rcases hqb0 with h | ⟨t, ht, hte⟩
            · exact Or.inl h
            · exact Or.inr ⟨t, List.mem_append_left _ ht, hte⟩
      obtain ⟨css', h1, h2⟩ := ih closed _ css (cs ++ [s]) hc hext (SortedFrom.mono hle hrest)
      exact ⟨css', h1, by rw [h2]; simp⟩


/-- if every remaining slot ends within `limit` of the open batch's first address, no batch is closed -/
theorem batchLoop_nosplit (server : String) (unit : UInt8) (limit : Nat) :
    ∀ (rest : List Slot) (closed : List Batch) (cur : Batch) (first : Nat),
      (∀ t ∈ rest, t.addr.toNat + t.size - first ≤ limit) →
      (batchLoop server unit limit rest (closed, cur, first, true)).1 = closed := by
  intro rest
  induction rest with
  | nil => intro closed cur first _; rfl
  | cons s rest ih =>
    intro closed cur first h
    have hs := h s (by simp)
    simp only [batchLoop, Bool.not_true, Bool.false_eq_true, if_false]
    have : ¬ (s.addr.toNat + s.size - first > limit) := by omega
    simp only [this, if_false]
    exact ih _ _ _ (fun t ht => h t (by simp [ht]))

/-- the initial, not yet opened batch -/
def batch0 : Batch := { server := "", unit := 0, start := 0, qty := 0, fields := [] }

/-- `batchGroup` on a group whose sorted slot list starts with a slot that fits the limit -/
theorem batchGroup_spec (g : Group) (s : Slot) (rest : List Slot) (hsort : sortSlots g.slots = s :: rest)
    (hs : SortedFrom s.addr.toNat rest) (hpos : 1 ≤ s.size)
    (hfit : s.size ≤ (if g.isCoil then 2000 else 125)) :
    ∃ css, GoodAll (if g.isCoil then 2000 else 125) g.server g.unit (batchGroup g) css ∧
      css.flatten = sortSlots g.slots := by
  unfold batchGroup
  rw [hsort]
  simp only [batchLoop, Bool.not_false, if_true]
  have hadd : s.addr.toNat + s.size - s.addr.toNat = s.size := by omega
  have hd : ¬ (s.addr.toNat + s.size - s.addr.toNat > (if g.isCoil then 2000 else 125)) := by
    rw [hadd]; omega
  simp only [hd, if_false]
  have hq : (if (0 : Nat) < s.addr.toNat + s.size - s.addr.toNat then s.addr.toNat + s.size - s.addr.toNat else 0)
      = s.size := by rw [hadd]; simp; omega
  have hgood : GoodBatch (if g.isCoil then 2000 else 125) g.server g.unit
      { server := g.server, unit := g.unit, start := s.addr, qty := s.size, fields := [] ++ s.fields } [s] :=
    { ne := by simp, srv := ⟨rfl, rfl⟩, fields := by simp,
      lo := by intro t ht; simp at ht; subst ht; exact Nat.le_refl _,
      hi := by intro t ht; simp at ht; subst ht; exact Nat.le_refl _,
      loAtt := ⟨s, by simp, rfl⟩, hiAtt := ⟨s, by simp, rfl⟩, qtyB := Or.inr ⟨s, by simp, rfl⟩ }
  have := batchLoop_open g.server g.unit (if g.isCoil then 2000 else 125) rest [] _ [] [s] .nil hgood hs
  obtain ⟨css, h1, h2⟩ := this
  refine ⟨css, ?_, by simpa using h2⟩
  simp only [hq] at *
  exact h1

/-- batches already closed stay at the front of the result -/
theorem batchLoop_head (server : String) (unit : UInt8) (limit : Nat) :
    ∀ (rest : List Slot) (closed : List Batch) (cur : Batch) (first : Nat) (b0 : Batch) (tl : List Batch),
      closed = b0 :: tl →
      ∃ more, (batchLoop server unit limit rest (closed, cur, first, true)).1 ++
        [(batchLoop server unit limit rest (closed, cur, first, true)).2] = b0 :: more := by
  intro rest
  induction rest with
  | nil => intro closed cur first b0 tl h; exact ⟨tl ++ [cur], by simp [batchLoop, h]⟩
  | cons t rest ih =>
    intro closed cur first b0 tl h
    simp only [batchLoop, Bool.not_true, Bool.false_eq_true, if_false]
    by_cases hd : t.addr.toNat + t.size - first > limit
    · simp only [hd, if_true]
      exact ih _ _ _ b0 (tl ++ [cur]) (by simp [h])
    · simp only [hd, if_false]
      exact ih _ _ _ b0 tl h

/-- when the first slot alone exceeds the limit an empty batch (quantity 0) is emitted first -/
theorem batchGroup_overlong (g : Group) (s : Slot) (rest : List Slot) (hsort : sortSlots g.slots = s :: rest)
    (hbig : s.size > (if g.isCoil then 2000 else 125)) :
    ∃ more, batchGroup g = { server := g.server, unit := g.unit, start := s.addr, qty := 0, fields := [] } :: more := by
  unfold batchGroup
  rw [hsort]
  simp only [batchLoop, Bool.not_false, if_true]
  have hadd : s.addr.toNat + s.size - s.addr.toNat = s.size := by omega
  have hd : (s.addr.toNat + s.size - s.addr.toNat > (if g.isCoil then 2000 else 125)) := by
    rw [hadd]; exact hbig
  simp only [hd, if_true, List.nil_append]
  exact batchLoop_head g.server g.unit _ rest _ _ _ _ [] rfl

end Modbus.Lemmas
