import Modbus.Model.ClientLoop
import ModbusProofs.Lemmas.Crc
import ModbusProofs.Lemmas.Slice
import Mathlib.Tactic.SplitIfs
/-
  The client read loop (client.go / serialclient.go `do`): fragmentation, faults, hooks.
-/
namespace Modbus.Lemmas
open Modbus Modbus.Model

/-- `script` delivers exactly the bytes `b`, cut into non-empty reads in any way, with any number of
timed-out reads in between, followed by anything -/
inductive Frag : Bytes → List Ev → Prop
  | done (rest : List Ev) : Frag [] rest
  | timeout {b : Bytes} {s : List Ev} : Frag b s → Frag b (.timeout :: s)
  | data {b : Bytes} {s : List Ev} (c : Bytes) : c ≠ [] → Frag b s → Frag (c ++ b) (.data c :: s)
  /-- a read that delivers bytes together with a deadline error (io.Reader allows both at once) -/
  | tdata {b : Bytes} {s : List Ev} (c : Bytes) : c ≠ [] → Frag b s → Frag (c ++ b) (.tdata c :: s)

theorem maxLen_lt_bufLen (k : ClientKind) : k.maxLen + 10 = k.bufLen := rfl

/-- **fragmentation**: if the request's expected length is the reply's length, the reply fits a frame and no
prefix of it (including itself) is recognised as an exception frame, then from any state in which the bytes
received so far plus the bytes still to come are the reply, the loop returns exactly the reply -/
theorem readLoop_complete (k : ClientKind) (fl : Flusher) (reply : Bytes)
    (hmax : reply.length ≤ k.maxLen)
    (hnoexc : ∀ p q, p ++ q = reply → asProtocolError k p = none) :
    ∀ (rest : Bytes) (script : List Ev), Frag rest script → ∀ (acc : Bytes) (log : List HookEv),
      acc ++ rest = reply → rest ≠ [] →
      ∃ log', readLoop k fl reply.length script acc log = (withFlush k fl (.frame reply), log') := by
  intro rest script hf
  induction hf with
  | done _ => intro acc log _ hne; exact absurd rfl hne
  | @timeout b s _ ih =>
    intro acc log hacc hne
    unfold readLoop
    simp only [Ev.read, List.append_nil]
    have hlen : acc.length < reply.length := by
      rw [← hacc, List.length_append]
      have : 0 < b.length := List.length_pos_iff.2 hne
      omega
    have h1 : ¬ (acc.length > k.maxLen) := by omega
    simp only [show ¬ ("timeout" = "io") by decide, if_false, h1, hnoexc acc b hacc]
    have h2 : ¬ (acc.length ≥ reply.length) := by omega
    simp only [h2, if_false, show ¬ ("timeout" = "eof") by decide, false_and, Bool.false_eq_true]
    exact ih acc _ hacc hne
  | @data b s c hc _ ih =>
    intro acc log hacc _
    unfold readLoop
    have hlen : acc.length + c.length + b.length = reply.length := by
      rw [← hacc]; simp [List.length_append]; omega
    have hspace : c.length ≤ k.bufLen - acc.length := by
      have := maxLen_lt_bufLen k; omega
    simp only [Ev.read, List.take_of_length_le hspace]
    have h1 : ¬ ((acc ++ c).length > k.maxLen) := by simp [List.length_append]; omega
    have hpre : (acc ++ c) ++ b = reply := by rw [List.append_assoc]; exact hacc
    simp only [show ¬ ("nil" = "io") by decide, if_false, h1, hnoexc (acc ++ c) b hpre]
    by_cases hb : b = []
    · subst hb
      have e : acc ++ c = reply := by simpa using hpre
      have h3 : ¬ (reply.length = 0) := by
        have : 0 < c.length := List.length_pos_iff.2 hc
        rw [← e, List.length_append]; omega
      simp only [e, ge_iff_le, Nat.le_refl, if_true, h3, if_false]
      exact ⟨_, rfl⟩
    · have h2 : ¬ ((acc ++ c).length ≥ reply.length) := by
        have : 0 < b.length := List.length_pos_iff.2 hb
        simp [List.length_append]; omega
      simp only [h2, if_false, show ¬ ("nil" = "eof") by decide, false_and, Bool.false_eq_true]
      exact ih (acc ++ c) _ hpre hb

  | @tdata b s c hc _ ih =>
    intro acc log hacc _
    unfold readLoop
    have hlen : acc.length + c.length + b.length = reply.length := by
      rw [← hacc]; simp [List.length_append]; omega
    have hspace : c.length ≤ k.bufLen - acc.length := by
      have := maxLen_lt_bufLen k; omega
    simp only [Ev.read, List.take_of_length_le hspace]
    have h1 : ¬ ((acc ++ c).length > k.maxLen) := by simp [List.length_append]; omega
    have hpre : (acc ++ c) ++ b = reply := by rw [List.append_assoc]; exact hacc
    simp only [show ¬ ("timeout" = "io") by decide, if_false, h1, hnoexc (acc ++ c) b hpre]
    by_cases hb : b = []
    · subst hb
      have e : acc ++ c = reply := by simpa using hpre
      have h3 : ¬ (reply.length = 0) := by
        have : 0 < c.length := List.length_pos_iff.2 hc
        rw [← e, List.length_append]; omega
      simp only [e, ge_iff_le, Nat.le_refl, if_true, h3, if_false]
      exact ⟨_, rfl⟩
    · have h2 : ¬ ((acc ++ c).length ≥ reply.length) := by
        have : 0 < b.length := List.length_pos_iff.2 hb
        simp [List.length_append]; omega
      simp only [h2, if_false, show ¬ ("timeout" = "eof") by decide, false_and, Bool.false_eq_true]
      exact ih (acc ++ c) _ hpre hb

/-- the serial line: as `Frag`, and the port may also report its own read timeout as "no bytes, end of stream"
(`(0, io.EOF)`), any number of times, before, inside and after the reply -/
inductive FragSerial : Bytes → List Ev → Prop
  | done (rest : List Ev) : FragSerial [] rest
  | timeout {b : Bytes} {s : List Ev} : FragSerial b s → FragSerial b (.timeout :: s)
  | eofEmpty {b : Bytes} {s : List Ev} : FragSerial b s → FragSerial b (.eof [] :: s)
  | data {b : Bytes} {s : List Ev} (c : Bytes) : c ≠ [] → FragSerial b s → FragSerial (c ++ b) (.data c :: s)
  | tdata {b : Bytes} {s : List Ev} (c : Bytes) : c ≠ [] → FragSerial b s → FragSerial (c ++ b) (.tdata c :: s)

theorem Frag.toSerial {b : Bytes} {s : List Ev} (h : Frag b s) : FragSerial b s := by
  induction h with
  | done r => exact .done r
  | timeout _ ih => exact .timeout ih
  | data c hc _ ih => exact .data c hc ih
  | tdata c hc _ ih => exact .tdata c hc ih

/-- **fragmentation on the serial line**: the statement of `readLoop_complete` for the serial client, with empty
end-of-stream reads allowed everywhere: they are skipped like timed-out reads -/
theorem readLoop_complete_serial (fl : Flusher) (reply : Bytes)
    (hmax : reply.length ≤ ClientKind.serial.maxLen)
    (hnoexc : ∀ p q, p ++ q = reply → asProtocolError .serial p = none) :
    ∀ (rest : Bytes) (script : List Ev), FragSerial rest script → ∀ (acc : Bytes) (log : List HookEv),
      acc ++ rest = reply → rest ≠ [] →
      ∃ log', readLoop .serial fl reply.length script acc log = (withFlush .serial fl (.frame reply), log') := by
  intro rest script hf
  induction hf with
  | done _ => intro acc log _ hne; exact absurd rfl hne
  | @timeout b s _ ih =>
    intro acc log hacc hne
    unfold readLoop
    simp only [Ev.read, List.append_nil]
    have hlen : acc.length < reply.length := by
      rw [← hacc, List.length_append]
      have : 0 < b.length := List.length_pos_iff.2 hne
      omega
    have h1 : ¬ (acc.length > ClientKind.serial.maxLen) := by omega
    simp only [show ¬ ("timeout" = "io") by decide, if_false, h1, hnoexc acc b hacc]
    have h2 : ¬ (acc.length ≥ reply.length) := by omega
    simp only [h2, if_false, show ¬ ("timeout" = "eof") by decide, false_and, Bool.false_eq_true]
    exact ih acc _ hacc hne
  | @eofEmpty b s _ ih =>
    intro acc log hacc hne
    unfold readLoop
    simp only [Ev.read, List.take_nil, List.append_nil]
    have hlen : acc.length < reply.length := by
      rw [← hacc, List.length_append]
      have : 0 < b.length := List.length_pos_iff.2 hne
      omega
    have h1 : ¬ (acc.length > ClientKind.serial.maxLen) := by omega
    simp only [show ¬ ("eof" = "io") by decide, if_false, h1, hnoexc acc b hacc]
    have h2 : ¬ (acc.length ≥ reply.length) := by omega
    simp only [h2, if_false, ne_eq, not_true_eq_false, and_false, Bool.false_eq_true]
    exact ih acc _ hacc hne
  | @data b s c hc _ ih =>
    intro acc log hacc _
    unfold readLoop
    have hlen : acc.length + c.length + b.length = reply.length := by
      rw [← hacc]; simp [List.length_append]; omega
    have hspace : c.length ≤ ClientKind.serial.bufLen - acc.length := by
      have := maxLen_lt_bufLen .serial; omega
    simp only [Ev.read, List.take_of_length_le hspace]
    have h1 : ¬ ((acc ++ c).length > ClientKind.serial.maxLen) := by simp [List.length_append]; omega
    have hpre : (acc ++ c) ++ b = reply := by rw [List.append_assoc]; exact hacc
    simp only [show ¬ ("nil" = "io") by decide, if_false, h1, hnoexc (acc ++ c) b hpre]
    by_cases hb : b = []
    · subst hb
      have e : acc ++ c = reply := by simpa using hpre
      have h3 : ¬ (reply.length = 0) := by
        have : 0 < c.length := List.length_pos_iff.2 hc
        rw [← e, List.length_append]; omega
      simp only [e, ge_iff_le, Nat.le_refl, if_true, h3, if_false]
      exact ⟨_, rfl⟩
    · have h2 : ¬ ((acc ++ c).length ≥ reply.length) := by
        have : 0 < b.length := List.length_pos_iff.2 hb
        simp [List.length_append]; omega
      simp only [h2, if_false, show ¬ ("nil" = "eof") by decide, false_and, Bool.false_eq_true]
      exact ih (acc ++ c) _ hpre hb
  | @tdata b s c hc _ ih =>
    intro acc log hacc _
    unfold readLoop
    have hlen : acc.length + c.length + b.length = reply.length := by
      rw [← hacc]; simp [List.length_append]; omega
    have hspace : c.length ≤ ClientKind.serial.bufLen - acc.length := by
      have := maxLen_lt_bufLen .serial; omega
    simp only [Ev.read, List.take_of_length_le hspace]
    have h1 : ¬ ((acc ++ c).length > ClientKind.serial.maxLen) := by simp [List.length_append]; omega
    have hpre : (acc ++ c) ++ b = reply := by rw [List.append_assoc]; exact hacc
    simp only [show ¬ ("timeout" = "io") by decide, if_false, h1, hnoexc (acc ++ c) b hpre]
    by_cases hb : b = []
    · subst hb
      have e : acc ++ c = reply := by simpa using hpre
      have h3 : ¬ (reply.length = 0) := by
        have : 0 < c.length := List.length_pos_iff.2 hc
        rw [← e, List.length_append]; omega
      simp only [e, ge_iff_le, Nat.le_refl, if_true, h3, if_false]
      exact ⟨_, rfl⟩
    · have h2 : ¬ ((acc ++ c).length ≥ reply.length) := by
        have : 0 < b.length := List.length_pos_iff.2 hb
        simp [List.length_append]; omega
      simp only [h2, if_false, show ¬ ("timeout" = "eof") by decide, false_and, Bool.false_eq_true]
      exact ih (acc ++ c) _ hpre hb

end Modbus.Lemmas

namespace Modbus.Lemmas
open Modbus Modbus.Model

/-- **exception replies**: an exception frame `x` (recognised as `e`, no proper prefix recognised), with the
request's expected length at least `|x|`, is returned as the typed exception for every fragmentation -/
theorem readLoop_exception (k : ClientKind) (fl : Flusher) (expected : Nat) (x : Bytes) (e : PErr)
    (hx : asProtocolError k x = some e)
    (hpre : ∀ p q, p ++ q = x → q ≠ [] → asProtocolError k p = none)
    (hexp : x.length ≤ expected) (hmax : x.length ≤ k.maxLen) :
    ∀ (rest : Bytes) (script : List Ev), Frag rest script → ∀ (acc : Bytes) (log : List HookEv),
      acc ++ rest = x → rest ≠ [] →
      ∃ log', readLoop k fl expected script acc log = (withFlush k fl (.err (.exc e)), log') := by
  intro rest script hf
  induction hf with
  | done _ => intro acc log _ hne; exact absurd rfl hne
  | @timeout b s _ ih =>
    intro acc log hacc hne
    unfold readLoop
    simp only [Ev.read, List.append_nil]
    have hlen : acc.length < x.length := by
      rw [← hacc, List.length_append]
      have : 0 < b.length := List.length_pos_iff.2 hne
      omega
    have h1 : ¬ (acc.length > k.maxLen) := by omega
    simp only [show ¬ ("timeout" = "io") by decide, if_false, h1, hpre acc b hacc hne]
    have h2 : ¬ (acc.length ≥ expected) := by omega
    simp only [h2, if_false, show ¬ ("timeout" = "eof") by decide, false_and, Bool.false_eq_true]
    exact ih acc _ hacc hne
  | @data b s c hc _ ih =>
    intro acc log hacc _
    unfold readLoop
    have hlen : acc.length + c.length + b.length = x.length := by
      rw [← hacc]; simp [List.length_append]; omega
    have hspace : c.length ≤ k.bufLen - acc.length := by
      have := maxLen_lt_bufLen k; omega
    simp only [Ev.read, List.take_of_length_le hspace]
    have h1 : ¬ ((acc ++ c).length > k.maxLen) := by simp [List.length_append]; omega
    have hpre' : (acc ++ c) ++ b = x := by rw [List.append_assoc]; exact hacc
    simp only [show ¬ ("nil" = "io") by decide, if_false, h1]
    by_cases hb : b = []
    · subst hb
      have e' : acc ++ c = x := by simpa using hpre'
      rw [e', hx]
      exact ⟨_, rfl⟩
    · rw [hpre (acc ++ c) b hpre' hb]
      have h2 : ¬ ((acc ++ c).length ≥ expected) := by
        have : 0 < b.length := List.length_pos_iff.2 hb
        simp [List.length_append]; omega
      simp only [h2, if_false, show ¬ ("nil" = "eof") by decide, false_and, Bool.false_eq_true]
      exact ih (acc ++ c) _ hpre' hb

  | @tdata b s c hc _ ih =>
    intro acc log hacc _
    unfold readLoop
    have hlen : acc.length + c.length + b.length = x.length := by
      rw [← hacc]; simp [List.length_append]; omega
    have hspace : c.length ≤ k.bufLen - acc.length := by
      have := maxLen_lt_bufLen k; omega
    simp only [Ev.read, List.take_of_length_le hspace]
    have h1 : ¬ ((acc ++ c).length > k.maxLen) := by simp [List.length_append]; omega
    have hpre' : (acc ++ c) ++ b = x := by rw [List.append_assoc]; exact hacc
    simp only [show ¬ ("timeout" = "io") by decide, if_false, h1]
    by_cases hb : b = []
    · subst hb
      have e' : acc ++ c = x := by simpa using hpre'
      rw [e', hx]
      exact ⟨_, rfl⟩
    · rw [hpre (acc ++ c) b hpre' hb]
      have h2 : ¬ ((acc ++ c).length ≥ expected) := by
        have : 0 < b.length := List.length_pos_iff.2 hb
        simp [List.length_append]; omega
      simp only [h2, if_false, show ¬ ("timeout" = "eof") by decide, false_and, Bool.false_eq_true]
      exact ih (acc ++ c) _ hpre' hb

/-- a network-framed byte string that is not exactly 9 bytes long, or whose function byte has the high bit
clear, is not an exception frame -/
theorem asProtocolError_tcp_none (k : ClientKind) (hk : k.framing = .tcp) (p : Bytes)
    (h : p.length ≠ 9 ∨ (p.getD 7 0) &&& 128 = 0) : asProtocolError k p = none := by
  unfold asProtocolError asTCPErrorPacket
  rw [hk]
  dsimp only
  by_cases h9 : p.length = 9
  · rcases h with h | h
    · exact absurd h9 h
    · simp (disch := omega) only [h9, ne_eq, not_true_eq_false, if_false, idx_eq, Res.bind_ok, h]
  · simp only [h9, ne_eq, not_false_eq_true, if_true]

theorem asProtocolError_rtu_none (k : ClientKind) (hk : k.framing = .rtu) (p : Bytes)
    (h : p.length ≠ 5 ∨ (p.getD 1 0) &&& 128 = 0 ∨ crcMatches p = false) : asProtocolError k p = none := by
  unfold asProtocolError asRTUErrorPacketWithCRC asRTUErrorPacket
  rw [hk]
  dsimp only
  by_cases h5 : p.length = 5
  · rcases h with h | h | h
    · exact absurd h5 h
    · by_cases hc : crcMatches p = true
      · simp (disch := omega) only [h5, ne_eq, not_true_eq_false, if_false, hc, Bool.not_true, Bool.false_eq_true,
          idx_eq, Res.bind_ok, h]
      · simp [h5, hc]
    · simp [h5, h]
  · simp only [h5, ne_eq, not_false_eq_true, if_true]

/-! ### faults (C08) and truncation -/

theorem withFlush_frame (k : ClientKind) (fl : Flusher) (o : LoopOut) (bs : Bytes)
    (h : withFlush k fl o = .frame bs) : o = .frame bs := by
  unfold withFlush at h
  split_ifs at h
  exact h

theorem read_eof (ev : Ev) (space : Nat) (h : (ev.read space).2.1 = "eof") : ∃ b, ev = .eof b := by
  cases ev <;> simp [Ev.read] at h
  exact ⟨_, rfl⟩

/-- success implies that at least `expected` bytes had been accumulated, or (network clients only) the stream
was closed: a value is never assembled from fewer bytes than the request announced unless the peer closed -/
theorem readLoop_frame_len (k : ClientKind) (fl : Flusher) (expected : Nat) :
    ∀ (script : List Ev) (acc : Bytes) (log : List HookEv) (bs : Bytes) (log' : List HookEv),
      readLoop k fl expected script acc log = (.frame bs, log') →
      bs.length ≥ expected ∨ (k ≠ .serial ∧ ∃ b, Ev.eof b ∈ script) := by
  intro script
  induction script with
  | nil => intro acc log bs log' h; simp [readLoop] at h
  | cons ev rest ih =>
    intro acc log bs log' h
    unfold readLoop at h
    generalize hr : ev.read (k.bufLen - acc.length) = r at h
    obtain ⟨chunk, tag, cancelled⟩ := r
    simp only [] at h
    by_cases h1 : tag = "io"
    · simp only [h1, if_true] at h
      have := withFlush_frame k fl _ bs (congrArg Prod.fst h)
      simp at this
    · simp only [h1, if_false] at h
      by_cases h2 : (acc ++ chunk).length > k.maxLen
      · simp only [h2, if_true] at h
        have := withFlush_frame k fl _ bs (congrArg Prod.fst h)
        simp at this
      · simp only [h2, if_false] at h
        cases hp : asProtocolError k (acc ++ chunk) with
        | some e =>
          simp only [hp] at h
          have := withFlush_frame k fl _ bs (congrArg Prod.fst h)
          simp at this
        | none =>
          simp only [hp] at h
          by_cases h3 : (acc ++ chunk).length ≥ expected
          · simp only [h3, if_true] at h
            have := withFlush_frame k fl _ bs (congrArg Prod.fst h)
            split_ifs at this
            injection this with this
            left; rw [← this]; exact h3
          · simp only [h3, if_false] at h
            by_cases h4 : tag = "eof" ∧ k ≠ .serial
            · right
              have : (ev.read (k.bufLen - acc.length)).2.1 = "eof" := by rw [hr]; exact h4.1
              obtain ⟨b, hb⟩ := read_eof ev _ this
              exact ⟨h4.2, b, by simp [hb]⟩
            · simp only [h4, if_false] at h
              by_cases h5 : cancelled = true
              · simp [h5] at h
              · simp only [h5, Bool.false_eq_true, if_false] at h
                rcases ih _ _ _ _ h with hh | ⟨hk, b, hb⟩
                · exact Or.inl hh
                · exact Or.inr ⟨hk, b, by simp [hb]⟩

/-- the bytes a script of data/timeout events delivers -/
def evData : List Ev → Bytes
  | [] => []
  | .data c :: rest => c ++ evData rest
  | _ :: rest => evData rest

/-- **stall**: a transport that delivers fewer than `expected` bytes (nothing that looks like an exception at any
point) and then nothing more ends in the retryable timeout error -/
theorem readLoop_stall (k : ClientKind) (fl : Flusher) (expected : Nat) :
    ∀ (script : List Ev) (acc : Bytes) (log : List HookEv),
      (∀ e ∈ script, e = .timeout ∨ ∃ c, e = .data c) →
      (acc ++ evData script).length < expected → (acc ++ evData script).length ≤ k.maxLen →
      (∀ p q, p ++ q = acc ++ evData script → asProtocolError k p = none) →
      ∃ log', readLoop k fl expected script acc log = (.err .timeout, log') := by
  intro script
  induction script with
  | nil => intro acc log _ _ _ _; exact ⟨_, rfl⟩
  | cons ev rest ih =>
    intro acc log hall hlt hmax hno
    rcases hall ev (by simp) with rfl | ⟨c, rfl⟩
    · unfold readLoop
      simp only [Ev.read, List.append_nil]
      simp only [evData] at hlt hmax hno
      have hl : acc.length ≤ (acc ++ evData rest).length := by simp
      have h1 : ¬ (acc.length > k.maxLen) := by omega
      have h2 : ¬ (acc.length ≥ expected) := by omega
      simp only [show ¬ ("timeout" = "io") by decide, if_false, h1, hno acc (evData rest) rfl, h2,
        show ¬ ("timeout" = "eof") by decide, false_and, Bool.false_eq_true]
      exact ih acc _ (fun e he => hall e (by simp [he])) hlt hmax hno
    · unfold readLoop
      simp only [evData] at hlt hmax hno
      have hlen : (acc ++ (c ++ evData rest)).length = acc.length + c.length + (evData rest).length := by
        simp [List.length_append]; omega
      have hspace : c.length ≤ k.bufLen - acc.length := by
        have := maxLen_lt_bufLen k; omega
      simp only [Ev.read, List.take_of_length_le hspace]
      have h1 : ¬ ((acc ++ c).length > k.maxLen) := by simp [List.length_append]; omega
      have h2 : ¬ ((acc ++ c).length ≥ expected) := by simp [List.length_append]; omega
      have hpre : (acc ++ c) ++ evData rest = acc ++ (c ++ evData rest) := by rw [List.append_assoc]
      simp only [show ¬ ("nil" = "io") by decide, if_false, h1, hno (acc ++ c) (evData rest) hpre, h2,
        show ¬ ("nil" = "eof") by decide, false_and, Bool.false_eq_true]
      exact ih (acc ++ c) _ (fun e he => hall e (by simp [he])) (by rw [hpre]; exact hlt) (by rw [hpre]; exact hmax)
        (fun p q hpq => hno p q (by rw [hpq, hpre]))

/-- **I/O error**: the first read that fails with an I/O error ends the call with the client error wrapping it
(or the flush error of a failing flusher), whatever was received before -/
theorem readLoop_ioerr (k : ClientKind) (fl : Flusher) (expected : Nat) (b : Bytes) (rest : List Ev) (acc : Bytes)
    (log : List HookEv) : ∃ log', readLoop k fl expected (.ioerr b :: rest) acc log = (withFlush k fl (.err .io), log') := by
  unfold readLoop
  simp only [Ev.read, if_true]
  exact ⟨_, rfl⟩

/-- **never a panic, always an outcome**: the loop is a total function; every outcome is a frame or a classified error.
Moreover an outcome that is not a frame is one of the error classes of the property. -/
theorem readLoop_err_class (k : ClientKind) (fl : Flusher) (expected : Nat) :
    ∀ (script : List Ev) (acc : Bytes) (log : List HookEv) (e : CErr) (log' : List HookEv),
      readLoop k fl expected script acc log = (.err e, log') →
      e = .timeout ∨ e = .io ∨ e = .flush ∨ e = .tooLong ∨ e = .ctx ∨ e = .noBytes ∨ ∃ x, e = .exc x := by
  intro script
  induction script with
  | nil => intro acc log e log' h; simp [readLoop] at h; exact Or.inl h.1.symm
  | cons ev rest ih =>
    intro acc log e log' h
    unfold readLoop at h
    generalize hr : ev.read (k.bufLen - acc.length) = r at h
    obtain ⟨chunk, tag, cancelled⟩ := r
    simp only [] at h
    have wf : ∀ (o : LoopOut) (e : CErr), withFlush k fl o = .err e → e = .flush ∨ o = .err e := by
      intro o e ho; unfold withFlush at ho; split_ifs at ho
      · injection ho with ho; exact Or.inl ho.symm
      · exact Or.inr ho
    by_cases h1 : tag = "io"
    · simp only [h1, if_true] at h
      rcases wf _ _ (congrArg Prod.fst h) with hh | hh
      · exact Or.inr (Or.inr (Or.inl hh))
      · injection hh with hh; exact Or.inr (Or.inl hh.symm)
    · simp only [h1, if_false] at h
      by_cases h2 : (acc ++ chunk).length > k.maxLen
      · simp only [h2, if_true] at h
        rcases wf _ _ (congrArg Prod.fst h) with hh | hh
        · exact Or.inr (Or.inr (Or.inl hh))
        · injection hh with hh; exact Or.inr (Or.inr (Or.inr (Or.inl hh.symm)))
      · simp only [h2, if_false] at h
        cases hp : asProtocolError k (acc ++ chunk) with
        | some x =>
          simp only [hp] at h
          rcases wf _ _ (congrArg Prod.fst h) with hh | hh
          · exact Or.inr (Or.inr (Or.inl hh))
          · injection hh with hh; exact Or.inr (Or.inr (Or.inr (Or.inr (Or.inr (Or.inr ⟨x, hh.symm⟩)))))
        | none =>
          simp only [hp] at h
          by_cases h3 : (acc ++ chunk).length ≥ expected
          · simp only [h3, if_true] at h
            rcases wf _ _ (congrArg Prod.fst h) with hh | hh
            · exact Or.inr (Or.inr (Or.inl hh))
            · split_ifs at hh
              injection hh with hh; exact Or.inr (Or.inr (Or.inr (Or.inr (Or.inr (Or.inl hh.symm)))))
          · simp only [h3, if_false] at h
            by_cases h4 : tag = "eof" ∧ k ≠ .serial
            · rw [if_pos h4] at h
              have hh := congrArg Prod.fst h
              simp only [] at hh
              split_ifs at hh
              injection hh with hh; exact Or.inr (Or.inr (Or.inr (Or.inr (Or.inr (Or.inl hh.symm)))))
            · simp only [h4, if_false] at h
              by_cases h5 : cancelled = true
              · simp only [h5, if_true] at h
                have hh := congrArg Prod.fst h
                injection hh with hh; exact Or.inr (Or.inr (Or.inr (Or.inr (Or.inl hh.symm))))
              · simp only [h5, Bool.false_eq_true, if_false] at h
                exact ih _ _ _ _ h

/-! ### hooks (C19) -/

/-- what the transport serves, read by read: the bytes and error tag each `Read` call produced -/
def served (k : ClientKind) : List Ev → Bytes → List (Bytes × String)
  | [], _ => []
  | ev :: rest, acc =>
    let r := ev.read (k.bufLen - acc.length)
    (r.1, r.2.1) :: served k rest (acc ++ r.1)

def servedHook (x : Bytes × String) : HookEv := .afterRead x.1 x.1.length x.2

/-- the after-read hook sees exactly the reads the transport served, in order (the first `n` of them, where the
loop stopped; followed by the stall marker when the script ran out), and a frame handed on is exactly the
concatenation of the bytes of those reads after what had been received before -/
theorem readLoop_log (k : ClientKind) (fl : Flusher) (expected : Nat) :
    ∀ (script : List Ev) (acc : Bytes) (log : List HookEv),
      ∃ n, n ≤ script.length ∧
        ((readLoop k fl expected script acc log).2 = log ++ ((served k script acc).take n).map servedHook ∨
         (readLoop k fl expected script acc log).2 = log ++ (served k script acc).map servedHook ++ [.stall]) ∧
        ∀ bs, (readLoop k fl expected script acc log).1 = .frame bs →
          bs = acc ++ (((served k script acc).take n).map (·.1)).flatten := by
  intro script
  induction script with
  | nil =>
    intro acc log
    exact ⟨0, Nat.le_refl _, Or.inr (by simp [readLoop, served]), by intro bs h; simp [readLoop] at h⟩
  | cons ev rest ih =>
    intro acc log
    unfold readLoop
    generalize hr : ev.read (k.bufLen - acc.length) = r
    obtain ⟨chunk, tag, cancelled⟩ := r
    have hs : served k (ev :: rest) acc = (chunk, tag) :: served k rest (acc ++ chunk) := by
      simp [served, hr]
    simp only [hs]
    -- every terminating branch stops after this read (n = 1)
    have stop : ∀ (o : LoopOut), (∀ bs, o = .frame bs → bs = acc ++ chunk) →
        ∃ n, n ≤ (ev :: rest).length ∧
          ((o, log ++ [HookEv.afterRead chunk chunk.length tag]).2 =
              log ++ (((chunk, tag) :: served k rest (acc ++ chunk)).take n).map servedHook ∨
           (o, log ++ [HookEv.afterRead chunk chunk.length tag]).2 =
              log ++ ((chunk, tag) :: served k rest (acc ++ chunk)).map servedHook ++ [.stall]) ∧
          ∀ bs, (o, log ++ [HookEv.afterRead chunk chunk.length tag]).1 = .frame bs →
            bs = acc ++ ((((chunk, tag) :: served k rest (acc ++ chunk)).take n).map (·.1)).flatten := by
      intro o ho
      exact ⟨1, by simp, Or.inl (by simp [servedHook]), by intro bs h; simpa using ho bs h⟩
    have wfr : ∀ (o : LoopOut), (∀ bs, o = .frame bs → bs = acc ++ chunk) →
        ∀ bs, withFlush k fl o = .frame bs → bs = acc ++ chunk :=
      fun o ho bs h => ho bs (withFlush_frame k fl o bs h)
    by_cases h1 : tag = "io"
    · simp only [h1, if_true]
      rw [← h1]
      exact stop _ (wfr _ (by intro bs h; simp at h))
    · simp only [h1, if_false]
      by_cases h2 : (acc ++ chunk).length > k.maxLen
      · simp only [h2, if_true]
        exact stop _ (wfr _ (by intro bs h; simp at h))
      · simp only [h2, if_false]
        cases hp : asProtocolError k (acc ++ chunk) with
        | some x => simp only []; exact stop _ (wfr _ (by intro bs h; simp at h))
        | none =>
          simp only []
          by_cases h3 : (acc ++ chunk).length ≥ expected
          · simp only [h3, if_true]
            exact stop _ (wfr _ (by intro bs h; split_ifs at h; injection h with h; exact h.symm))
          · simp only [h3, if_false]
            by_cases h4 : tag = "eof" ∧ k ≠ .serial
            · rw [if_pos h4]
              exact stop _ (by intro bs h; split_ifs at h; injection h with h; exact h.symm)
            · rw [if_neg h4]
              by_cases h5 : cancelled = true
              · simp only [h5, if_true]
                exact stop _ (by intro bs h; simp at h)
              · simp only [h5, Bool.false_eq_true, if_false]
                obtain ⟨n, hn, hlog, hfr⟩ := ih (acc ++ chunk) (log ++ [HookEv.afterRead chunk chunk.length tag])
                refine ⟨n + 1, by simp; omega, ?_, ?_⟩
                · rcases hlog with hl | hl
                  · left; rw [hl]; simp [servedHook]
                  · right; rw [hl]; simp [servedHook]
                · intro bs h
                  rw [hfr bs h]; simp

/-! ### CRC (C12) -/

/-- an exception recognised by an RTU client during reading has a matching CRC -/
theorem asProtocolError_rtu_crc (k : ClientKind) (hk : k.framing = .rtu) (p : Bytes) (e : PErr)
    (h : asProtocolError k p = some e) : crcMatches p = true := by
  unfold asProtocolError asRTUErrorPacketWithCRC at h
  rw [hk] at h
  dsimp only at h
  by_cases h5 : p.length ≠ 5
  · simp [h5] at h
  · by_cases hc : crcMatches p = true
    · exact hc
    · simp [h5, hc] at h

end Modbus.Lemmas

namespace Modbus.Lemmas
open Modbus Modbus.Model

/-- **skipping a harmless prefix**: reads that deliver data or time out, stay below the announced length and the
frame limit and never look like an exception, just accumulate -/
theorem readLoop_skip (k : ClientKind) (fl : Flusher) (expected : Nat) (tail : List Ev) :
    ∀ (pre : List Ev) (acc : Bytes) (log : List HookEv),
      (∀ e ∈ pre, e = .timeout ∨ ∃ c, e = .data c) →
      (acc ++ evData pre).length < expected → (acc ++ evData pre).length ≤ k.maxLen →
      (∀ p q, p ++ q = acc ++ evData pre → asProtocolError k p = none) →
      ∃ log', readLoop k fl expected (pre ++ tail) acc log = readLoop k fl expected tail (acc ++ evData pre) log' := by
  intro pre
  induction pre with
  | nil => intro acc log _ _ _ _; exact ⟨log, by simp [evData]⟩
  | cons ev rest ih =>
    intro acc log hall hlt hmax hno
    rcases hall ev (by simp) with rfl | ⟨c, rfl⟩
    · simp only [List.cons_append]
      rw [readLoop]
      simp only [Ev.read, List.append_nil]
      simp only [evData] at hlt hmax hno ⊢
      have hl : acc.length ≤ (acc ++ evData rest).length := by simp
      have h1 : ¬ (acc.length > k.maxLen) := by omega
      have h2 : ¬ (acc.length ≥ expected) := by omega
      simp only [show ¬ ("timeout" = "io") by decide, if_false, h1, hno acc (evData rest) rfl, h2,
        show ¬ ("timeout" = "eof") by decide, false_and, Bool.false_eq_true]
      exact ih acc _ (fun e he => hall e (by simp [he])) hlt hmax hno
    · simp only [List.cons_append]
      rw [readLoop]
      simp only [evData] at hlt hmax hno ⊢
      have hlen : (acc ++ (c ++ evData rest)).length = acc.length + c.length + (evData rest).length := by
        simp [List.length_append]; omega
      have hspace : c.length ≤ k.bufLen - acc.length := by
        have := maxLen_lt_bufLen k; omega
      simp only [Ev.read, List.take_of_length_le hspace]
      have h1 : ¬ ((acc ++ c).length > k.maxLen) := by simp [List.length_append]; omega
      have h2 : ¬ ((acc ++ c).length ≥ expected) := by simp [List.length_append]; omega
      have hpre : (acc ++ c) ++ evData rest = acc ++ (c ++ evData rest) := by rw [List.append_assoc]
      simp only [show ¬ ("nil" = "io") by decide, if_false, h1, hno (acc ++ c) (evData rest) hpre, h2,
        show ¬ ("nil" = "eof") by decide, false_and, Bool.false_eq_true]
      obtain ⟨log', h⟩ := ih (acc ++ c) (log ++ [HookEv.afterRead c c.length "nil"]) (fun e he => hall e (by simp [he]))
        (by rw [hpre]; exact hlt) (by rw [hpre]; exact hmax) (fun p q hpq => hno p q (by rw [hpq, hpre]))
      exact ⟨log', by rw [h, hpre]⟩

/-- the source of a recognised exception: it was recognised on the bytes accumulated at some read boundary -/
theorem readLoop_exc_src (k : ClientKind) (fl : Flusher) (expected : Nat) :
    ∀ (script : List Ev) (acc : Bytes) (log : List HookEv) (e : PErr) (log' : List HookEv),
      readLoop k fl expected script acc log = (.err (.exc e), log') → ∃ p, asProtocolError k p = some e := by
  intro script
  induction script with
  | nil => intro acc log e log' h; simp [readLoop] at h
  | cons ev rest ih =>
    intro acc log e log' h
    unfold readLoop at h
    generalize hr : ev.read (k.bufLen - acc.length) = r at h
    obtain ⟨chunk, tag, cancelled⟩ := r
    simp only [] at h
    have wf : ∀ (o : LoopOut), withFlush k fl o = .err (.exc e) → o = .err (.exc e) := by
      intro o ho; unfold withFlush at ho; split_ifs at ho
      · simp at ho
      · exact ho
    by_cases h1 : tag = "io"
    · simp only [h1, if_true] at h
      have := wf _ (congrArg Prod.fst h); simp at this
    · simp only [h1, if_false] at h
      by_cases h2 : (acc ++ chunk).length > k.maxLen
      · simp only [h2, if_true] at h
        have := wf _ (congrArg Prod.fst h); simp at this
      · simp only [h2, if_false] at h
        cases hp : asProtocolError k (acc ++ chunk) with
        | some x =>
          simp only [hp] at h
          have := wf _ (congrArg Prod.fst h)
          injection this with this; injection this with this
          exact ⟨acc ++ chunk, by rw [hp, this]⟩
        | none =>
          simp only [hp] at h
          by_cases h3 : (acc ++ chunk).length ≥ expected
          · simp only [h3, if_true] at h
            have := wf _ (congrArg Prod.fst h)
            split_ifs at this <;> simp at this
          · simp only [h3, if_false] at h
            by_cases h4 : tag = "eof" ∧ k ≠ .serial
            · rw [if_pos h4] at h
              have hh := congrArg Prod.fst h
              simp only [] at hh
              split_ifs at hh <;> simp at hh
            · rw [if_neg h4] at h
              by_cases h5 : cancelled = true
              · simp [h5] at h
              · simp only [h5, Bool.false_eq_true, if_false] at h
                exact ih _ _ _ _ h

/-- what has been received after the first `n` reads of a script (starting from `acc`) -/
def receivedAfter (k : ClientKind) (script : List Ev) (acc : Bytes) (n : Nat) : Bytes :=
  acc ++ (((served k script acc).take n).map (·.1)).flatten

theorem receivedAfter_cons (k : ClientKind) (ev : Ev) (rest : List Ev) (acc : Bytes) (n : Nat) :
    receivedAfter k (ev :: rest) acc (n + 1) =
      receivedAfter k rest (acc ++ (ev.read (k.bufLen - acc.length)).1) n := by
  simp [receivedAfter, served]

/-- sharper form of `readLoop_exc_src`: the exception was recognised on exactly what had been received at a read
boundary (after 1..length reads) -/
theorem readLoop_exc_src_at (k : ClientKind) (fl : Flusher) (expected : Nat) :
    ∀ (script : List Ev) (acc : Bytes) (log : List HookEv) (e : PErr) (log' : List HookEv),
      readLoop k fl expected script acc log = (.err (.exc e), log') →
        ∃ n, n ≤ script.length ∧ asProtocolError k (receivedAfter k script acc n) = some e := by
  intro script
  induction script with
  | nil => intro acc log e log' h; simp [readLoop] at h
  | cons ev rest ih =>
    intro acc log e log' h
    unfold readLoop at h
    generalize hr : ev.read (k.bufLen - acc.length) = r at h
    obtain ⟨chunk, tag, cancelled⟩ := r
    simp only [] at h
    have hrec : ∀ n, receivedAfter k (ev :: rest) acc (n + 1) = receivedAfter k rest (acc ++ chunk) n := by
      intro n; rw [receivedAfter_cons, hr]
    have wf : ∀ (o : LoopOut), withFlush k fl o = .err (.exc e) → o = .err (.exc e) := by
      intro o ho; unfold withFlush at ho; split_ifs at ho
      · simp at ho
      · exact ho
    by_cases h1 : tag = "io"
    · simp only [h1, if_true] at h
      have := wf _ (congrArg Prod.fst h); simp at this
    · simp only [h1, if_false] at h
      by_cases h2 : (acc ++ chunk).length > k.maxLen
      · simp only [h2, if_true] at h
        have := wf _ (congrArg Prod.fst h); simp at this
      · simp only [h2, if_false] at h
        cases hp : asProtocolError k (acc ++ chunk) with
        | some x =>
          simp only [hp] at h
          have := wf _ (congrArg Prod.fst h)
          injection this with this; injection this with this
          refine ⟨1, by simp, ?_⟩
          rw [hrec 0]
          simp only [receivedAfter, List.take_zero, List.map_nil, List.flatten_nil, List.append_nil]
          rw [hp, this]
        | none =>
          simp only [hp] at h
          by_cases h3 : (acc ++ chunk).length ≥ expected
          · simp only [h3, if_true] at h
            have := wf _ (congrArg Prod.fst h)
            split_ifs at this <;> simp at this
          · simp only [h3, if_false] at h
            by_cases h4 : tag = "eof" ∧ k ≠ .serial
            · rw [if_pos h4] at h
              have hh := congrArg Prod.fst h
              simp only [] at hh
              split_ifs at hh <;> simp at hh
            · rw [if_neg h4] at h
              by_cases h5 : cancelled = true
              · simp [h5] at h
              · simp only [h5, Bool.false_eq_true, if_false] at h
                obtain ⟨n, hn, hx⟩ := ih _ _ _ _ h
                exact ⟨n + 1, by simp; omega, by rw [hrec n]; exact hx⟩

/-- a frame handed to the parser is exactly what had been received at a read boundary -/
theorem readLoop_frame_at (k : ClientKind) (fl : Flusher) (expected : Nat) (script : List Ev) (acc : Bytes)
    (log : List HookEv) (bs : Bytes) (log' : List HookEv)
    (h : readLoop k fl expected script acc log = (.frame bs, log')) :
    ∃ n, n ≤ script.length ∧ bs = receivedAfter k script acc n := by
  obtain ⟨n, hn, _, hfr⟩ := readLoop_log k fl expected script acc log
  exact ⟨n, hn, hfr bs (by rw [h])⟩

end Modbus.Lemmas
