import ModbusProofs.Lemmas.Safe
import ModbusProofs.Lemmas.Frames
/-
  Encode → parse round trips of request values (used by C09, C18, C15/C16).
-/
namespace Modbus.Lemmas
open Modbus Modbus.Model

@[simp] theorem be16_hi_lo (v : UInt16) : be16 (hi8 v) (lo8 v) = v := by
  unfold be16 hi8 lo8
  apply UInt16.toNat_inj.1
  have := v.toNat_lt
  simp [UInt8.toNat_ofNat', UInt16.toNat_ofNat']
  omega

theorem u16_ofNat_toNat (n : Nat) (h : n < 65536) : (UInt16.ofNat n).toNat = n := by
  simp [UInt16.toNat_ofNat', Nat.mod_eq_of_lt h]
theorem u8_ofNat_toNat (n : Nat) (h : n < 256) : (UInt8.ofNat n).toNat = n := by
  simp [UInt8.toNat_ofNat', Nat.mod_eq_of_lt h]

macro "rt_simp" : tactic => `(tactic|
  simp (disch := first | (simp; done) | (simp; omega) | omega) only [idx_eq, rd16_eq, copyOut_eq, bytes_eq, from_eq,
    List.cons_append, List.nil_append, List.length_cons, List.length_nil, List.length_append,
    Nat.reduceAdd, Nat.reduceLT, Nat.reduceLeDiff, if_false, if_true, List.getD_cons_zero, List.getD_cons_succ,
    Res.bind_ok, be16_hi_lo, ne_eq, not_true_eq_false, List.drop_succ_cons, List.drop_zero, reduceIte])

/-- the header of an encoded TCP frame passes `ParseMBAPHeader`'s conditions -/
theorem mbapRest_enc (tid : UInt16) (n : Nat) (hn : 1 ≤ n ∧ n < 65536) (rest : Bytes) (hr : rest.length = n) :
    MBAPrest (hi8 tid :: lo8 tid :: 0 :: 0 :: hi8 (UInt16.ofNat n) :: lo8 (UInt16.ofNat n) :: rest) := by
  unfold MBAPrest
  simp only [List.getD_cons_zero, List.getD_cons_succ, be16_hi_lo, List.length_cons, u16_ofNat_toNat n hn.2]
  refine ⟨trivial, trivial, ?_, by omega⟩
  intro h
  have := congrArg UInt16.toNat h
  rw [u16_ofNat_toNat n hn.2] at this
  simp at this
  omega

theorem take_if (d : Bytes) : List.take d.length d = d := by simp

theorem take_if_app (d t : Bytes) : List.take d.length (d ++ t) = d := by simp

/-! ### TCP -/

theorem rt_read_tcp (fc : UInt8) (maxQ : UInt16) (tid : UInt16) (unit : UInt8) (addr q : UInt16)
    (hq : q ≥ 1 ∧ q ≤ maxQ) (sp : Bytes) :
    parseReadReqTCP fc maxQ ⟨(Req.read fc unit addr q).bytesTCP tid, sp⟩ = .ok (tid, .read fc unit addr q) := by
  unfold Req.bytesTCP Req.pdu mbap put16 parseReadReqTCP
  simp only [parseMBAP_eq]
  rt_simp
  rw [if_pos (mbapRest_enc tid 6 (by omega) _ rfl)]
  simp only [Res.bind_ok, hq, and_self, not_true_eq_false, if_false]

theorem rt_wcoil_tcp (tid : UInt16) (unit : UInt8) (addr : UInt16) (st : Bool) (sp : Bytes) :
    parseWCoilReqTCP ⟨(Req.wcoil unit addr st).bytesTCP tid, sp⟩ = .ok (tid, .wcoil unit addr st) := by
  unfold Req.bytesTCP Req.pdu mbap put16 parseWCoilReqTCP
  simp only [parseMBAP_eq]
  rt_simp
  rw [if_pos (mbapRest_enc tid 6 (by omega) _ rfl)]
  cases st <;> simp

theorem rt_wreg_tcp (tid : UInt16) (unit : UInt8) (addr : UInt16) (d0 d1 : UInt8) (sp : Bytes) :
    parseWRegReqTCP ⟨(Req.wreg unit addr d0 d1).bytesTCP tid, sp⟩ = .ok (tid, .wreg unit addr d0 d1) := by
  unfold Req.bytesTCP Req.pdu mbap put16 parseWRegReqTCP
  simp only [parseMBAP_eq]
  rt_simp
  rw [if_pos (mbapRest_enc tid 6 (by omega) _ rfl)]
  simp

theorem rt_sid_tcp (tid : UInt16) (unit : UInt8) (sp : Bytes) :
    parseSidReqTCP ⟨(Req.sid unit).bytesTCP tid, sp⟩ = .ok (tid, .sid unit) := by
  unfold Req.bytesTCP Req.pdu mbap put16 parseSidReqTCP
  simp only [parseMBAP_eq]
  rt_simp
  rw [if_pos (mbapRest_enc tid 2 (by omega) _ rfl)]
  simp

theorem rt_wcoils_tcp (tid : UInt16) (unit : UInt8) (addr c : UInt16) (d : Bytes)
    (hc : c ≥ 1 ∧ c ≤ 1968) (hd : d.length ≤ 255) (sp : Bytes) :
    parseWCoilsReqTCP ⟨(Req.wcoils unit addr c d).bytesTCP tid, sp⟩ = .ok (tid, .wcoils unit addr c d) := by
  unfold Req.bytesTCP Req.pdu mbap put16 parseWCoilsReqTCP
  simp only [parseMBAP_eq]
  rt_simp
  have e : (UInt8.ofNat d.length).toNat = d.length := u8_ofNat_toNat _ (by omega)
  have hm := mbapRest_enc tid (d.length + 1 + 1 + 1 + 1 + 1 + 1 + 1) (by omega)
    (unit :: 15 :: hi8 addr :: lo8 addr :: hi8 c :: lo8 c :: UInt8.ofNat (List.length d) :: d) (by simp)
  simp only [e, hm, if_true, take_if, hc, and_self, not_true_eq_false, if_false]
  split_ifs <;> first | omega | rfl

theorem rt_wregs_tcp (tid : UInt16) (unit : UInt8) (addr c : UInt16) (d : Bytes)
    (hc : c ≥ 1 ∧ c ≤ 123) (hd : d.length ≤ 255) (sp : Bytes) :
    parseWRegsReqTCP ⟨(Req.wregs unit addr c d).bytesTCP tid, sp⟩ = .ok (tid, .wregs unit addr c d) := by
  unfold Req.bytesTCP Req.pdu mbap put16 parseWRegsReqTCP
  simp only [parseMBAP_eq]
  rt_simp
  have e : (UInt8.ofNat d.length).toNat = d.length := u8_ofNat_toNat _ (by omega)
  have hm := mbapRest_enc tid (d.length + 1 + 1 + 1 + 1 + 1 + 1 + 1) (by omega)
    (unit :: 16 :: hi8 addr :: lo8 addr :: hi8 c :: lo8 c :: UInt8.ofNat (List.length d) :: d) (by simp)
  simp only [e, hm, if_true, take_if, hc, and_self, not_true_eq_false, if_false]
  split_ifs <;> first | omega | rfl

theorem rt_rw_tcp (tid : UInt16) (unit : UInt8) (ra rq wa wq : UInt16) (d : Bytes)
    (hr : rq ≥ 1 ∧ rq ≤ 125) (hw : wq ≥ 1 ∧ wq ≤ 121) (hd : d.length ≤ 255) (sp : Bytes) :
    parseRWReqTCP ⟨(Req.rw unit ra rq wa wq d).bytesTCP tid, sp⟩ = .ok (tid, .rw unit ra rq wa wq d) := by
  unfold Req.bytesTCP Req.pdu mbap put16 parseRWReqTCP
  simp only [parseMBAP_eq]
  rt_simp
  have e : (UInt8.ofNat d.length).toNat = d.length := u8_ofNat_toNat _ (by omega)
  have hm := mbapRest_enc tid (d.length + 1 + 1 + 1 + 1 + 1 + 1 + 1 + 1 + 1 + 1 + 1) (by omega)
    (unit :: 23 :: hi8 ra :: lo8 ra :: hi8 rq :: lo8 rq :: hi8 wa :: lo8 wa :: hi8 wq :: lo8 wq ::
      UInt8.ofNat (List.length d) :: d) (by simp)
  simp only [e, hm, if_true, take_if, hr, hw, and_self, not_true_eq_false, if_false]
  split_ifs <;> first | omega | rfl

end Modbus.Lemmas

namespace Modbus.Lemmas
open Modbus Modbus.Model

/-! ### RTU: the PDU followed by nothing (frame without CRC) or by a two byte trailer -/

inductive Trailer (t : Bytes) : Prop where
  | none : t = [] → Trailer t
  | two (l h : UInt8) : t = [l, h] → Trailer t

theorem rt_read_rtu (fc : UInt8) (maxQ : UInt16) (unit : UInt8) (addr q : UInt16)
    (hq : q ≥ 1 ∧ q ≤ maxQ) (t sp : Bytes) (ht : Trailer t) :
    parseReadReqRTU fc maxQ ⟨(Req.read fc unit addr q).pdu ++ t, sp⟩ = .ok (.read fc unit addr q) := by
  unfold Req.pdu put16 parseReadReqRTU
  rcases ht with rfl | ⟨l, h, rfl⟩ <;>
  · rt_simp
    simp [hq]

theorem rt_wcoil_rtu (unit : UInt8) (addr : UInt16) (st : Bool) (t sp : Bytes) (ht : Trailer t) :
    parseWCoilReqRTU ⟨(Req.wcoil unit addr st).pdu ++ t, sp⟩ = .ok (.wcoil unit addr st) := by
  unfold Req.pdu put16 parseWCoilReqRTU
  rcases ht with rfl | ⟨l, h, rfl⟩ <;>
  · rt_simp
    cases st <;> simp

theorem rt_wreg_rtu (unit : UInt8) (addr : UInt16) (d0 d1 : UInt8) (t sp : Bytes) (ht : Trailer t) :
    parseWRegReqRTU ⟨(Req.wreg unit addr d0 d1).pdu ++ t, sp⟩ = .ok (.wreg unit addr d0 d1) := by
  unfold Req.pdu put16 parseWRegReqRTU
  rcases ht with rfl | ⟨l, h, rfl⟩ <;>
  · rt_simp
    simp

theorem rt_sid_rtu (unit : UInt8) (t sp : Bytes) (ht : Trailer t) :
    parseSidReqRTU ⟨(Req.sid unit).pdu ++ t, sp⟩ = .ok (.sid unit) := by
  unfold Req.pdu parseSidReqRTU
  rcases ht with rfl | ⟨l, h, rfl⟩ <;>
  · rt_simp
    simp

theorem rt_wcoils_rtu (unit : UInt8) (addr c : UInt16) (d : Bytes)
    (hc : c ≥ 1 ∧ c ≤ 1968) (hd : d.length ≤ 255) (t sp : Bytes) (ht : Trailer t) :
    parseWCoilsReqRTU ⟨(Req.wcoils unit addr c d).pdu ++ t, sp⟩ = .ok (.wcoils unit addr c d) := by
  unfold Req.pdu put16 parseWCoilsReqRTU
  have e : (UInt8.ofNat d.length).toNat = d.length := u8_ofNat_toNat _ (by omega)
  rcases ht with rfl | ⟨l, h, rfl⟩
  · rt_simp
    simp only [e, List.append_nil, take_if, hc, and_self, not_true_eq_false, if_false]
    split_ifs <;> first | omega | rfl
  · rt_simp
    simp only [e, take_if_app, hc, and_self, not_true_eq_false, if_false]
    split_ifs <;> first | omega | rfl

theorem rt_wregs_rtu (unit : UInt8) (addr c : UInt16) (d : Bytes)
    (hc : c ≥ 1 ∧ c ≤ 123) (hd : d.length ≤ 255) (hd1 : 1 ≤ d.length) (t sp : Bytes) (ht : Trailer t) :
    parseWRegsReqRTU ⟨(Req.wregs unit addr c d).pdu ++ t, sp⟩ = .ok (.wregs unit addr c d) := by
  unfold Req.pdu put16 parseWRegsReqRTU
  have e : (UInt8.ofNat d.length).toNat = d.length := u8_ofNat_toNat _ (by omega)
  rcases ht with rfl | ⟨l, h, rfl⟩
  · rt_simp
    simp only [e, List.append_nil, take_if, hc, and_self, not_true_eq_false, if_false]
    split_ifs <;> first | omega | rfl
  · rt_simp
    simp only [e, take_if_app, hc, and_self, not_true_eq_false, if_false]
    split_ifs <;> first | omega | rfl

theorem rt_rw_rtu (unit : UInt8) (ra rq wa wq : UInt16) (d : Bytes)
    (hr : rq ≥ 1 ∧ rq ≤ 125) (hw : wq ≥ 1 ∧ wq ≤ 121) (hd : d.length ≤ 255) (hd1 : 1 ≤ d.length)
    (t sp : Bytes) (ht : Trailer t) :
    parseRWReqRTU ⟨(Req.rw unit ra rq wa wq d).pdu ++ t, sp⟩ = .ok (.rw unit ra rq wa wq d) := by
  unfold Req.pdu put16 parseRWReqRTU
  have e : (UInt8.ofNat d.length).toNat = d.length := u8_ofNat_toNat _ (by omega)
  rcases ht with rfl | ⟨l, h, rfl⟩
  · rt_simp
    simp only [e, List.append_nil, take_if, hr, hw, and_self, not_true_eq_false, if_false]
    split_ifs <;> first | omega | rfl
  · rt_simp
    simp only [e, take_if_app, hr, hw, and_self, not_true_eq_false, if_false]
    split_ifs <;> first | omega | rfl

/-! ### request values the library's own parsers accept back -/

/-- the conditions under which the parsers return a request value unchanged
(the parsers' own limits; for FC1/FC2 that is 125, not the specification's 2000: KF-C09) -/
def Req.ParserLegal : Req → Prop
  | .read fc _ _ q => (fc = 1 ∨ fc = 2 ∨ fc = 3 ∨ fc = 4) ∧ q ≥ 1 ∧ q ≤ 125
  | .wcoil .. => True
  | .wreg .. => True
  | .wcoils _ _ c d => c ≥ 1 ∧ c ≤ 1968 ∧ d.length ≤ 255
  | .wregs _ _ c d => c ≥ 1 ∧ c ≤ 123 ∧ d.length ≤ 255 ∧ 1 ≤ d.length
  | .sid _ => True
  | .rw _ _ rq _ wq d => rq ≥ 1 ∧ rq ≤ 125 ∧ wq ≥ 1 ∧ wq ≤ 121 ∧ d.length ≤ 255 ∧ 1 ≤ d.length

theorem pdu_fc (r : Req) : r.pdu.getD 1 0 = r.fc := by
  cases r <;> simp [Req.pdu, Req.fc]

theorem pdu_len_ge (r : Req) : 2 ≤ r.pdu.length := by
  cases r <;> simp [Req.pdu, put16]

/-- per-function TCP parser on the encoding -/
theorem rt_tcp_fc (tid : UInt16) (r : Req) (h : Req.ParserLegal r) (sp : Bytes) :
    parseReqTCPfc r.fc ⟨r.bytesTCP tid, sp⟩ = .ok (tid, r) := by
  cases r with
  | read fc u a q =>
    obtain ⟨hfc, hq⟩ := h
    rcases hfc with rfl | rfl | rfl | rfl <;> exact rt_read_tcp _ _ tid u a q hq sp
  | wcoil u a s => exact rt_wcoil_tcp tid u a s sp
  | wreg u a d0 d1 => exact rt_wreg_tcp tid u a d0 d1 sp
  | wcoils u a c d => exact rt_wcoils_tcp tid u a c d ⟨h.1, h.2.1⟩ h.2.2 sp
  | wregs u a c d => exact rt_wregs_tcp tid u a c d ⟨h.1, h.2.1⟩ h.2.2.1 sp
  | sid u => exact rt_sid_tcp tid u sp
  | rw u ra rq wa wq d => exact rt_rw_tcp tid u ra rq wa wq d ⟨h.1, h.2.1⟩ ⟨h.2.2.1, h.2.2.2.1⟩ h.2.2.2.2.1 sp

/-- the function code byte of an encoded TCP frame -/
theorem bytesTCP_fc (tid : UInt16) (r : Req) : (r.bytesTCP tid).getD 7 0 = r.fc ∧ 8 ≤ (r.bytesTCP tid).length := by
  unfold Req.bytesTCP mbap put16
  have := pdu_fc r
  have hl := pdu_len_ge r
  constructor
  · simpa [List.getD_eq_getElem?_getD, List.getElem?_append_right] using this
  · simp; omega

/-- the TCP dispatcher on the encoding -/
theorem rt_tcp (tid : UInt16) (r : Req) (h : Req.ParserLegal r) (sp : Bytes) :
    parseTCPRequest ⟨r.bytesTCP tid, sp⟩ = .ok (tid, r) := by
  unfold parseTCPRequest
  have ⟨hfc, hl⟩ := bytesTCP_fc tid r
  have hlt : ¬ (r.bytesTCP tid).length < 8 := by omega
  simp (disch := omega) only [hlt, if_false, idx_eq, Res.bind_ok, hfc]
  exact rt_tcp_fc tid r h sp

/-- per-function RTU parser on the PDU with or without a trailer -/
theorem rt_rtu_fc (r : Req) (h : Req.ParserLegal r) (t sp : Bytes) (ht : Trailer t) :
    parseReqRTUfc r.fc ⟨r.pdu ++ t, sp⟩ = .ok r := by
  cases r with
  | read fc u a q =>
    obtain ⟨hfc, hq⟩ := h
    rcases hfc with rfl | rfl | rfl | rfl <;> exact rt_read_rtu _ _ u a q hq t sp ht
  | wcoil u a s => exact rt_wcoil_rtu u a s t sp ht
  | wreg u a d0 d1 => exact rt_wreg_rtu u a d0 d1 t sp ht
  | wcoils u a c d => exact rt_wcoils_rtu u a c d ⟨h.1, h.2.1⟩ h.2.2 t sp ht
  | wregs u a c d => exact rt_wregs_rtu u a c d ⟨h.1, h.2.1⟩ h.2.2.1 h.2.2.2 t sp ht
  | sid u => exact rt_sid_rtu u t sp ht
  | rw u ra rq wa wq d =>
    exact rt_rw_rtu u ra rq wa wq d ⟨h.1, h.2.1⟩ ⟨h.2.2.1, h.2.2.2.1⟩ h.2.2.2.2.1 h.2.2.2.2.2 t sp ht

/-- the RTU dispatcher (no CRC check) on the encoding with its CRC -/
theorem rt_rtu (r : Req) (h : Req.ParserLegal r) (sp : Bytes) :
    parseRTURequest ⟨r.bytesRTU, sp⟩ = .ok r := by
  unfold parseRTURequest Req.bytesRTU withCrc crcTrailer
  have hl := pdu_len_ge r
  have hfc : (r.pdu ++ [lo8 (crc16 r.pdu), hi8 (crc16 r.pdu)]).getD 1 0 = r.fc := by
    rw [← pdu_fc r]
    simp only [List.getD_eq_getElem?_getD]
    rw [List.getElem?_append_left (by omega)]
  have hlt : ¬ (r.pdu ++ [lo8 (crc16 r.pdu), hi8 (crc16 r.pdu)]).length < 4 := by simp; omega
  simp (disch := first | (simp; done) | (simp; omega) | omega) only [hlt, if_false, idx_eq, Res.bind_ok, hfc]
  exact rt_rtu_fc r h _ sp (.two _ _ rfl)

/-- the CRC-checking RTU dispatcher on the encoding -/
theorem rt_rtu_crc (r : Req) (h : Req.ParserLegal r) (sp : Bytes) :
    parseRTURequestWithCRC ⟨r.bytesRTU, sp⟩ = .ok r := by
  unfold parseRTURequestWithCRC
  have hl := pdu_len_ge r
  have hc : crcMatches r.bytesRTU = true := by
    unfold Req.bytesRTU withCrc crcTrailer
    exact (crcMatches_iff _ _ _).2 ⟨rfl, rfl⟩
  dsimp only
  have hlen : ¬ r.bytesRTU.length < 4 := by
    unfold Req.bytesRTU withCrc crcTrailer; simp; omega
  rw [if_neg hlen]
  simp only [hc, Bool.not_true, Bool.false_eq_true, if_false]
  exact rt_rtu r h sp

end Modbus.Lemmas
