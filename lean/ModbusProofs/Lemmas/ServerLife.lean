import Modbus.Model.ServerLife
/-
  Invariants of the server lifecycle model, proved for every step of every process (hence for every schedule).
  Group A: structure (identities of connections, the backlog, the connection in the hands of the accept loop).
  Group B: accounting (`activeConnectionCount` = number of connections between trackConn(add) and trackConn(remove)).
-/
namespace Modbus.Lemmas.ServerLife
open Modbus.Model.ServerLife

@[simp] theorem updC_same (f : Nat → Conn) (c : Nat) (v : Conn) : updC f c v c = v := by simp [updC]
theorem updC_other (f : Nat → Conn) (c d : Nat) (v : Conn) (h : d ≠ c) : updC f c v d = f d := by simp [updC, h]

@[simp] theorem setC_conns_same (s : St) (c : Nat) (v : Conn) : (s.setC c v).conns c = v := by simp [St.setC]
theorem setC_conns_other (s : St) (c d : Nat) (v : Conn) (h : d ≠ c) : (s.setC c v).conns d = s.conns d := by
  simp [St.setC, updC, h]
@[simp] theorem setC_ids (s : St) (c : Nat) (v : Conn) : (s.setC c v).ids = s.ids := rfl
@[simp] theorem setC_acc (s : St) (c : Nat) (v : Conn) : (s.setC c v).acc = s.acc := rfl
@[simp] theorem setC_sd (s : St) (c : Nat) (v : Conn) : (s.setC c v).sd = s.sd := rfl
@[simp] theorem setC_queue (s : St) (c : Nat) (v : Conn) : (s.setC c v).queue = s.queue := rfl
@[simp] theorem setC_count (s : St) (c : Nat) (v : Conn) : (s.setC c v).count = s.count := rfl
@[simp] theorem setC_isShutdown (s : St) (c : Nat) (v : Conn) : (s.setC c v).isShutdown = s.isShutdown := rfl
@[simp] theorem setC_listenerOpen (s : St) (c : Nat) (v : Conn) : (s.setC c v).listenerOpen = s.listenerOpen := rfl
@[simp] theorem setC_listenerSet (s : St) (c : Nat) (v : Conn) : (s.setC c v).listenerSet = s.listenerSet := rfl
@[simp] theorem setC_ctx (s : St) (c : Nat) (v : Conn) : (s.setC c v).ctxCancelled = s.ctxCancelled := rfl
@[simp] theorem setC_sdctx (s : St) (c : Nat) (v : Conn) : (s.setC c v).sdCtxExpired = s.sdCtxExpired := rfl
@[simp] theorem setC_muFree (s : St) (c : Nat) (v : Conn) : (s.setC c v).muFree = s.muFree := rfl

/-- the connection in the hands of the accept loop -/
def accConn : APc → Option Nat
  | .ctxCheck c => some c
  | .callCb c => some c
  | .inCb c => some c
  | .track c => some c
  | _ => none

/-- between trackConn(c, true) and trackConn(c, false) -/
def Counted (cn : Conn) : Bool :=
  match cn.pc with
  | .loopTop | .gotRequest _ _ | .handling _ _ | .writing _ | .written | .cleanupClose | .cleanupUntrack => true
  | _ => false

def liveCount (s : St) : Nat := s.ids.countP fun c => Counted (s.conns c)

/-- in the read loop or in a request: the goroutine uses the socket -/
def Active (cn : Conn) : Bool :=
  match cn.pc with
  | .loopTop | .gotRequest _ _ | .handling _ _ | .writing _ | .written => true
  | _ => false

def InRequest (cn : Conn) : Bool :=
  match cn.pc with
  | .handling _ _ | .writing _ | .written => true
  | _ => false

def Cleaned (cn : Conn) : Bool :=
  match cn.pc with
  | .cleanupUntrack | .cleanupCb | .done => true
  | _ => false

/-- a connection the server has not touched yet -/
structure Fresh (cn : Conn) : Prop where
  pc : cn.pc = .notStarted
  open_ : cn.serverClosed = false
  rej : cn.rejected = false
  ref : cn.refused = false
  cbs : cn.closeCbs = []
  map : cn.inMap = false
  st : cn.state = .idle
  started : cn.started = []

/-- per-connection invariant -/
structure CInv (cfg : Cfg) (cn : Conn) : Prop where
  cb_running : cn.pc ≠ .notStarted → cn.pc ≠ .done → cn.closeCbs = []
  cb_done : cn.pc = .done → cn.closeCbs.length = (if cfg.onClose then 1 else 0)
  cb_notStarted : cn.pc = .notStarted → cn.closeCbs.length = (if cfg.onClose = true ∧ cn.refused = true then 1 else 0)
  rej : cn.rejected = true → cn.pc = .notStarted ∧ cn.refused = false ∧ cn.serverClosed = true
  ref : cn.refused = true → cn.pc = .notStarted ∧ cn.serverClosed = true
  busy : InRequest cn = true → cn.state = .busy
  closedS : cn.state = .closedByShutdown → cn.serverClosed = true ∧ cn.inMap = false
  closedBy : cn.serverClosed = true → Active cn = true → cn.state = .closedByShutdown
  inmap : cn.inMap = true → Counted cn = true
  notInMap : cn.pc ≠ .notStarted → cn.inMap = false → cn.serverClosed = true
  cleaned : Cleaned cn = true → cn.serverClosed = true
  flight : ∀ r ∈ cn.started, r ∈ cn.replied ∨ r ∈ cn.panicked ∨ (∃ k, cn.pc = .handling r k) ∨ cn.pc = .writing r

theorem Fresh.cinv {cfg : Cfg} {cn : Conn} (h : Fresh cn) : CInv cfg cn where
  cb_running := fun h1 _ => absurd h.pc h1
  cb_done := fun h1 => by rw [h.pc] at h1; cases h1
  cb_notStarted := fun _ => by simp [h.cbs, h.ref]
  rej := fun h1 => by rw [h.rej] at h1; cases h1
  ref := fun h1 => by rw [h.ref] at h1; cases h1
  busy := fun h1 => by simp [InRequest, h.pc] at h1
  closedS := fun h1 => by rw [h.st] at h1; cases h1
  closedBy := fun h1 => by rw [h.open_] at h1; cases h1
  inmap := fun h1 => by rw [h.map] at h1; cases h1
  notInMap := fun h1 => absurd h.pc h1
  cleaned := fun h1 => by simp [Cleaned, h.pc] at h1
  flight := fun r hr => by rw [h.started] at hr; cases hr

/-! ### the goroutine of a connection -/

theorem connTrans_notStarted (cfg : Cfg) (a b d : Bool) (cn : Conn) (h : cn.pc = .notStarted) :
    connTrans cfg a b d cn = (cn, 0) := by simp [connTrans, h]

/-- a goroutine that has started never returns to `notStarted`, and never touches the flags the accept loop sets -/
theorem connTrans_pc (cfg : Cfg) (a b d : Bool) (cn : Conn) (h : cn.pc ≠ .notStarted) :
    (connTrans cfg a b d cn).1.pc ≠ .notStarted := by
  unfold connTrans
  cases hpc : cn.pc <;> simp only [] <;> (try exact absurd hpc h) <;> (repeat' split) <;> simp_all

/-- accounting of one step of a goroutine: the counter changes exactly as `Counted` does -/
theorem connTrans_counted (cfg : Cfg) (a b d : Bool) (cn : Conn) :
    (connTrans cfg a b d cn).2 =
      (if Counted (connTrans cfg a b d cn).1 then (1 : Int) else 0) - (if Counted cn then 1 else 0) := by
  unfold connTrans
  cases hpc : cn.pc <;> simp only [] <;> (repeat' split) <;> simp_all [Counted]

theorem cinv_connTrans (cfg : Cfg) (a b d : Bool) (cn : Conn) (h : CInv cfg cn) :
    CInv cfg (connTrans cfg a b d cn).1 := by
  have h0 := h
  obtain ⟨h1, h2, h3, h4, h5, h6, h7, h8, h9, h10, h11, h12⟩ := h
  unfold connTrans
  cases hpc : cn.pc <;> simp only [] <;> (repeat' split) <;> first
    | exact h0
    | (constructor <;> simp_all [InRequest, Active, Counted, Cleaned] <;> grind)

/-- the goroutine removes its connection from the map only in trackConn(c, false), which needs the mutex -/
theorem connTrans_inMap (cfg : Cfg) (a b d : Bool) (cn : Conn) :
    ((connTrans cfg a b d cn).1.inMap = true → cn.inMap = true) ∧
    (cn.inMap = true → (connTrans cfg a b d cn).1.inMap = true ∨ b = true) := by
  unfold connTrans
  cases hpc : cn.pc <;> simp only [] <;> (repeat' split) <;> simp_all

/-! ### counting under a point update -/

theorem countP_updC_notMem (l : List Nat) (f : Nat → Conn) (c : Nat) (v : Conn) (p : Conn → Bool) (h : c ∉ l) :
    l.countP (fun i => p (updC f c v i)) = l.countP (fun i => p (f i)) := by
  apply List.countP_congr
  intro x hx
  have : x ≠ c := fun e => h (e ▸ hx)
  simp [updC, this]

theorem countP_updC (l : List Nat) (hnd : l.Nodup) (f : Nat → Conn) (c : Nat) (v : Conn) (p : Conn → Bool) (hc : c ∈ l) :
    ((l.countP (fun i => p (updC f c v i)) : Nat) : Int) =
      (l.countP (fun i => p (f i)) : Nat) + ((if p v then (1 : Int) else 0) - (if p (f c) then 1 else 0)) := by
  induction l with
  | nil => cases hc
  | cons a as ih =>
    have hnd' := (List.nodup_cons.1 hnd)
    by_cases hac : a = c
    · subst hac
      have h1 := countP_updC_notMem as f a v p hnd'.1
      simp only [List.countP_cons, h1, updC_same]
      split <;> split <;> simp <;> omega
    · have hc' : c ∈ as := by
        rcases List.mem_cons.1 hc with e | e
        · exact absurd e.symm hac
        · exact e
      have := ih hnd'.2 hc'
      simp only [List.countP_cons, updC_other _ _ _ _ hac]
      split <;> simp <;> omega

theorem liveCount_setC (s : St) (hnd : s.ids.Nodup) (c : Nat) (v : Conn) :
    ((liveCount (s.setC c v) : Nat) : Int) =
      liveCount s + (if c ∈ s.ids then ((if Counted v then (1 : Int) else 0) - (if Counted (s.conns c) then 1 else 0)) else 0) := by
  unfold liveCount
  by_cases hc : c ∈ s.ids
  · simp only [hc, if_true, setC_ids]
    exact countP_updC s.ids hnd s.conns c v Counted hc
  · simp only [hc, if_false, setC_ids, Int.add_zero]
    have := countP_updC_notMem s.ids s.conns c v Counted hc
    simp only [St.setC]
    rw [this]

/-- a point update that keeps `Counted` keeps the number of live connections -/
theorem liveCount_setC_same (s : St) (c : Nat) (v : Conn) (h : Counted v = Counted (s.conns c)) :
    liveCount (s.setC c v) = liveCount s := by
  unfold liveCount
  simp only [setC_ids]
  apply List.countP_congr
  intro x _
  by_cases hx : x = c
  · subst hx; simp [h]
  · simp [St.setC, updC, hx]

end Modbus.Lemmas.ServerLife
