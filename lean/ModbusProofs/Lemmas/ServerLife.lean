import Modbus.Model.ServerLife
/-
  Invariants of the server lifecycle model, proved for every step of every process (hence for every schedule).
  Group A: structure (identities of connections, the backlog, the connection in the hands of the accept loop).
  Group B: accounting (`activeConnectionCount` = number of connections between trackConn(add) and trackConn(remove)).
-/
namespace Modbus.Lemmas.ServerLife
open Modbus.Model.ServerLife

@[simp] theorem updC_same (f : Nat → Conn) (c : Nat) (v : Conn) : updC f c v c = v := by simp [updC]
theorem updC_other (f : Nat → Conn) (c d : Nat) (v : Conn) (h : d ≠ c) : updC f c v d = f d := by simp [updC, h]

@[simp] theorem setC_conns_same (s : St) (c : Nat) (v : Conn) : (s.setC c v).conns c = v := by simp [St.setC]
theorem setC_conns_other (s : St) (c d : Nat) (v : Conn) (h : d ≠ c) : (s.setC c v).conns d = s.conns d := by
  simp [St.setC, updC, h]
@[simp] theorem setC_ids (s : St) (c : Nat) (v : Conn) : (s.setC c v).ids = s.ids := rfl
@[simp] theorem setC_acc (s : St) (c : Nat) (v : Conn) : (s.setC c v).acc = s.acc := rfl
@[simp] theorem setC_sd (s : St) (c : Nat) (v : Conn) : (s.setC c v).sd = s.sd := rfl
@[simp] theorem setC_queue (s : St) (c : Nat) (v : Conn) : (s.setC c v).queue = s.queue := rfl
@[simp] theorem setC_count (s : St) (c : Nat) (v : Conn) : (s.setC c v).count = s.count := rfl
@[simp] theorem setC_isShutdown (s : St) (c : Nat) (v : Conn) : (s.setC c v).isShutdown = s.isShutdown := rfl
@[simp] theorem setC_listenerOpen (s : St) (c : Nat) (v : Conn) : (s.setC c v).listenerOpen = s.listenerOpen := rfl
@[simp] theorem setC_listenerSet (s : St) (c : Nat) (v : Conn) : (s.setC c v).listenerSet = s.listenerSet := rfl
@[simp] theorem setC_ctx (s : St) (c : Nat) (v : Conn) : (s.setC c v).ctxCancelled = s.ctxCancelled := rfl
@[simp] theorem setC_sdctx (s : St) (c : Nat) (v : Conn) : (s.setC c v).sdCtxExpired = s.sdCtxExpired := rfl
@[simp] theorem setC_muFree (s : St) (c : Nat) (v : Conn) : (s.setC c v).muFree = s.muFree := rfl

/-- the connection in the hands of the accept loop -/
def accConn : APc → Option Nat
  | .ctxCheck c => some c
  | .callCb c => some c
  | .inCb c => some c
  | .track c => some c
  | _ => none

/-- between trackConn(c, true) and trackConn(c, false) -/
def Counted (cn : Conn) : Bool :=
  match cn.pc with
  | .loopTop | .gotRequest _ _ | .handling _ _ | .writing _ | .written | .cleanupClose | .cleanupUntrack => true
  | _ => false

def liveCount (s : St) : Nat := s.ids.countP fun c => Counted (s.conns c)

/-! ### what a step of connection c's goroutine can change -/

theorem connStep_notStarted (cfg : Cfg) (s : St) (c : Nat) (h : (s.conns c).pc = .notStarted) : connStep cfg s c = s := by
  simp [connStep, h]

/-- the goroutine's step rewrites only its own connection record and, at untrack, the counter -/
theorem connStep_shape (cfg : Cfg) (s : St) (c : Nat) :
    ∃ v k, connStep cfg s c = { (s.setC c v) with count := k } ∨ connStep cfg s c = s := by
  unfold connStep
  split
  all_goals first
    | exact ⟨default, 0, Or.inr rfl⟩
    | (repeat' split) <;> first
        | exact ⟨default, 0, Or.inr rfl⟩
        | exact ⟨_, s.count, Or.inl rfl⟩
        | exact ⟨_, _, Or.inl rfl⟩

end Modbus.Lemmas.ServerLife
