import ModbusProofs.Lemmas.Crc
import Modbus.Spec.Frames
import Mathlib.Tactic.SplitIfs
/-
  Helper lemmas relating the model encoders to the Spec frame layout.
-/
namespace Modbus.Lemmas
open Modbus Modbus.Model

theorem put16_eq_be (v : UInt16) : put16 v = Spec.be v.toNat := rfl

theorem put16_ofNat (n : Nat) (h : n < 65536) : put16 (UInt16.ofNat n) = Spec.be n := by
  rw [put16_eq_be]
  congr 1
  simp [UInt16.toNat_ofNat']
  omega

theorem mbap_eq (tid : UInt16) (n : Nat) (h : n < 65536) :
    mbap tid (UInt16.ofNat n) = Spec.be tid.toNat ++ [0, 0] ++ Spec.be n := by
  unfold mbap
  rw [put16_ofNat n h, put16_eq_be]

theorem withCrc_eq (body : Bytes) :
    withCrc body = body ++ [UInt8.ofNat ((Spec.crc body).toNat % 256), UInt8.ofNat ((Spec.crc body).toNat / 256)] := by
  unfold withCrc crcTrailer lo8 hi8
  have : (crc16 body).toNat = (Spec.crc body).toNat := by
    rw [← crcBV_eq_spec]; rfl
  rw [this]

theorem packBits_eq (l : List Bool) (h : l.length ≤ 8) :
    packBits l = (List.range 8).foldl (fun acc k => acc + (if l.getD k false then 2 ^ k else 0)) 0 := by
  match l, h with
  | [], _ => rfl
  | [a], _ => cases a <;> rfl
  | [a, b], _ => cases a <;> cases b <;> rfl
  | [a, b, c], _ => cases a <;> cases b <;> cases c <;> rfl
  | [a, b, c, d], _ => cases a <;> cases b <;> cases c <;> cases d <;> rfl
  | [a, b, c, d, e], _ => cases a <;> cases b <;> cases c <;> cases d <;> cases e <;> rfl
  | [a, b, c, d, e, f], _ => cases a <;> cases b <;> cases c <;> cases d <;> cases e <;> cases f <;> rfl
  | [a, b, c, d, e, f, g], _ =>
    cases a <;> cases b <;> cases c <;> cases d <;> cases e <;> cases f <;> cases g <;> rfl
  | [a, b, c, d, e, f, g, i], _ =>
    cases a <;> cases b <;> cases c <;> cases d <;> cases e <;> cases f <;> cases g <;> cases i <;> rfl
  | _ :: _ :: _ :: _ :: _ :: _ :: _ :: _ :: _ :: _, h => exact absurd h (by simp only [List.length_cons]; omega)

theorem getD_drop_take (coils : List Bool) (j k : Nat) (hk : k < 8) :
    ((coils.drop (8 * j)).take 8).getD k false = coils.getD (8 * j + k) false := by
  simp only [List.getD_eq_getElem?_getD, List.getElem?_take, List.getElem?_drop, hk, if_true]

theorem coilsToBytes_eq_pack (coils : List Bool) : coilsToBytes coils = Spec.pack coils := by
  unfold coilsToBytes Spec.pack Spec.packByte
  apply List.map_congr_left
  intro j _
  congr 1
  rw [packBits_eq _ (by simp; omega)]
  simp only [List.range, List.range.loop, List.foldl]
  simp only [getD_drop_take coils j _ (by decide : 0 < 8), getD_drop_take coils j 1 (by decide),
    getD_drop_take coils j 2 (by decide), getD_drop_take coils j 3 (by decide),
    getD_drop_take coils j 4 (by decide), getD_drop_take coils j 5 (by decide),
    getD_drop_take coils j 6 (by decide), getD_drop_take coils j 7 (by decide)]

theorem frame_eq (f : Framing) (tid : UInt16) (a : NewArgs) (r : Req)
    (hp : r.pdu = a.unit :: Spec.pdu a) (hl : r.pdu.length < 65536) :
    r.bytes f tid = Spec.adu f tid a := by
  cases f with
  | tcp =>
    show r.bytesTCP tid = _
    unfold Req.bytesTCP Spec.adu
    simp only []
    rw [mbap_eq tid _ hl, hp]
    simp [List.append_assoc]
  | rtu =>
    show r.bytesRTU = _
    unfold Req.bytesRTU Spec.adu
    simp only []
    rw [withCrc_eq, hp]
    simp

theorem frame_len (f : Framing) (tid : UInt16) (r : Req) (hl : r.pdu.length ≤ 254) :
    (r.bytes f tid).length ≤ Spec.maxADU f := by
  cases f with
  | tcp => show (r.bytesTCP tid).length ≤ 260; unfold Req.bytesTCP mbap put16; simp; omega
  | rtu => show (r.bytesRTU).length ≤ 256; unfold Req.bytesRTU withCrc crcTrailer; simp; omega


theorem packBits_lt (l : List Bool) : packBits l < 2 ^ l.length := by
  induction l with
  | nil => simp [packBits]
  | cons b r ih =>
    unfold packBits
    rw [List.length_cons, Nat.pow_succ]
    cases b <;> simp <;> omega

theorem packBits_testBit (l : List Bool) (k : Nat) : (packBits l).testBit k = l.getD k false := by
  induction l generalizing k with
  | nil => simp [packBits]
  | cons b r ih =>
    unfold packBits
    cases k with
    | zero =>
      cases b <;> simp [Nat.testBit_zero]
    | succ k =>
      rw [Nat.testBit_succ]
      have : ((if b = true then 1 else 0) + 2 * packBits r) / 2 = packBits r := by
        cases b <;> simp <;> omega
      rw [this, ih]
      simp

/-- coil `i` is bit `i % 8` of byte `i / 8` of the packed payload -/
theorem coilsToBytes_bit (cs : List Bool) (i : Nat) (h : i < cs.length) :
    ((coilsToBytes cs).getD (i / 8) 0).toNat.testBit (i % 8) = cs.getD i false := by
  unfold coilsToBytes
  have hj : i / 8 < (cs.length + 7) / 8 := by omega
  rw [List.getD_eq_getElem?_getD, List.getElem?_map, List.getElem?_range hj]
  simp only [Option.map_some, Option.getD_some]
  have hlt : packBits ((cs.drop (8 * (i / 8))).take 8) < 256 := by
    have := packBits_lt ((cs.drop (8 * (i / 8))).take 8)
    have h8 : ((cs.drop (8 * (i / 8))).take 8).length ≤ 8 := by simp; omega
    calc _ < 2 ^ _ := this
      _ ≤ 2 ^ 8 := Nat.pow_le_pow_right (by decide) h8
  rw [show (UInt8.ofNat (packBits ((cs.drop (8 * (i / 8))).take 8))).toNat = packBits ((cs.drop (8 * (i / 8))).take 8) by
    simp [UInt8.toNat_ofNat']; omega]
  rw [packBits_testBit, getD_drop_take cs (i / 8) (i % 8) (Nat.mod_lt _ (by decide))]
  congr 1
  omega


end Modbus.Lemmas
