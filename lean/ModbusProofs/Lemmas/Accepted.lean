import ModbusProofs.Lemmas.Safe
import Lean.Elab.Tactic
/-
  Decoder soundness: whatever a request parser accepts is made of the frame's own bytes at the
  offsets the specification gives, and its quantities are inside the limits the parser enforces.
-/
namespace Modbus.Lemmas
open Modbus Modbus.Model

/-- every value returned satisfies `P` -/
inductive OkSat {ε α} (P : α → Prop) : Res ε α → Prop
  | ok {a : α} : P a → OkSat P (.ok a)
  | err {e : ε} : OkSat P (.err e)
  | panic : OkSat P .panic

theorem OkSat.elim {ε α} {P : α → Prop} {x : Res ε α} (h : OkSat P x) {a : α} (hx : x = .ok a) : P a := by
  subst hx; cases h; assumption

theorem OkSat.mono {ε α} {P Q : α → Prop} {x : Res ε α} (h : OkSat P x) (hpq : ∀ a, P a → Q a) : OkSat Q x := by
  cases h with
  | ok h => exact .ok (hpq _ h)
  | err => exact .err
  | panic => exact .panic

open Lean Elab Tactic Meta in
/-- succeeds iff the goal is `OkSat P x` with `x` an `if` or a `bind` of an `if` (a cheap syntactic
guard in front of `split_ifs`, which is slow to fail on goals without any `if`) -/
elab "guard_ite_head" : tactic => do
  let g := (← instantiateMVars (← getMainTarget)).consumeMData
  let args := g.getAppArgs
  if args.size = 4 then
    let x := (args[3]!).consumeMData
    if x.isAppOf ``ite then return
    if x.isAppOf ``Res.bind then
      let bargs := x.getAppArgs
      if bargs.size ≥ 5 && (bargs[3]!).isAppOf ``ite then return
    throwError "no if at the head"
  else throwError "not an OkSat goal"

macro "oksat" : tactic => `(tactic| ((try dsimp only); repeat' (first
  | with_reducible exact OkSat.err
  | with_reducible exact OkSat.panic
  | (simp (disch := omega) only [idx_eq, rd16_eq, bytes_eq, from_eq, copyOut_eq, Res.bind_ok, Res.bind_err,
      Slice.len, Nat.reduceAdd])
  | (simp only [*, ↓reduceIte, if_true, if_false])
  | (guard_ite_head; split_ifs))))

/-- the fields of an accepted request, in terms of the PDU bytes `p` (function code at `p[0]`) -/
def FieldsOf (p : Bytes) : Req → Prop
  | .read _ _ a q =>
      a = be16 (p.getD 1 0) (p.getD 2 0) ∧ q = be16 (p.getD 3 0) (p.getD 4 0) ∧ q ≥ 1 ∧ q ≤ 125
  | .wcoil _ a s =>
      a = be16 (p.getD 1 0) (p.getD 2 0) ∧
      ((be16 (p.getD 3 0) (p.getD 4 0) = 0xFF00 ∧ s = true) ∨ (be16 (p.getD 3 0) (p.getD 4 0) = 0 ∧ s = false))
  | .wreg _ a d0 d1 => a = be16 (p.getD 1 0) (p.getD 2 0) ∧ d0 = p.getD 3 0 ∧ d1 = p.getD 4 0
  | .wcoils _ a c d =>
      a = be16 (p.getD 1 0) (p.getD 2 0) ∧ c = be16 (p.getD 3 0) (p.getD 4 0) ∧ c ≥ 1 ∧ c ≤ 1968 ∧
      d = (p.drop 6).take (p.getD 5 0).toNat ∧ d.length = (p.getD 5 0).toNat
  | .wregs _ a c d =>
      a = be16 (p.getD 1 0) (p.getD 2 0) ∧ c = be16 (p.getD 3 0) (p.getD 4 0) ∧ c ≥ 1 ∧ c ≤ 123 ∧
      d = (p.drop 6).take (p.getD 5 0).toNat ∧ d.length = (p.getD 5 0).toNat
  | .sid _ => True
  | .rw _ ra rq wa wq d =>
      ra = be16 (p.getD 1 0) (p.getD 2 0) ∧ rq = be16 (p.getD 3 0) (p.getD 4 0) ∧ rq ≥ 1 ∧ rq ≤ 125 ∧
      wa = be16 (p.getD 5 0) (p.getD 6 0) ∧ wq = be16 (p.getD 7 0) (p.getD 8 0) ∧ wq ≥ 1 ∧ wq ≤ 121 ∧
      d = (p.drop 10).take (p.getD 9 0).toNat ∧ d.length = (p.getD 9 0).toNat

/-- an accepted TCP request: transaction id, unit id, function code and fields are the frame's -/
def AcceptedTCP (fc : UInt8) (v : Bytes) (x : UInt16 × Req) : Prop :=
  x.1 = be16 (v.getD 0 0) (v.getD 1 0) ∧ x.2.unit = v.getD 6 0 ∧ x.2.fc = fc ∧ v.getD 7 0 = fc ∧
  FieldsOf (v.drop 7) x.2

/-- an accepted RTU request -/
def AcceptedRTU (fc : UInt8) (v : Bytes) (r : Req) : Prop :=
  r.unit = v.getD 0 0 ∧ r.fc = fc ∧ v.getD 1 0 = fc ∧ FieldsOf (v.drop 1) r

theorem getD_drop (v : Bytes) (k i : Nat) : (v.drop k).getD i 0 = v.getD (k + i) 0 := by
  simp [List.getD_eq_getElem?_getD, List.getElem?_drop]

macro "accept_leaf" : tactic => `(tactic|
  (apply OkSat.ok
   simp only [AcceptedTCP, AcceptedRTU, FieldsOf, Req.unit, Req.fc, getD_drop, List.drop_drop, Nat.reduceAdd]
   first
     | (simp_all; done)
     | (simp_all; omega)
     | (simp_all)))

theorem acc_read_tcp (fc : UInt8) (v sp : Bytes) :
    OkSat (AcceptedTCP fc v) (parseReadReqTCP fc 125 ⟨v, sp⟩) := by
  unfold parseReadReqTCP; simp only [parseMBAP_eq]; oksat
  all_goals accept_leaf
theorem acc_wcoil_tcp (v sp : Bytes) : OkSat (AcceptedTCP 5 v) (parseWCoilReqTCP ⟨v, sp⟩) := by
  unfold parseWCoilReqTCP; simp only [parseMBAP_eq]; oksat
  all_goals accept_leaf
  by_cases hh : be16 (v[10]?.getD 0) (v[11]?.getD 0) = 65280 <;> simp_all
theorem acc_wreg_tcp (v sp : Bytes) : OkSat (AcceptedTCP 6 v) (parseWRegReqTCP ⟨v, sp⟩) := by
  unfold parseWRegReqTCP; simp only [parseMBAP_eq]; oksat
  all_goals accept_leaf
theorem acc_wcoils_tcp (v sp : Bytes) : OkSat (AcceptedTCP 15 v) (parseWCoilsReqTCP ⟨v, sp⟩) := by
  unfold parseWCoilsReqTCP; simp only [parseMBAP_eq]; oksat
  all_goals accept_leaf
theorem acc_wregs_tcp (v sp : Bytes) : OkSat (AcceptedTCP 16 v) (parseWRegsReqTCP ⟨v, sp⟩) := by
  unfold parseWRegsReqTCP; simp only [parseMBAP_eq]; oksat
  all_goals accept_leaf
theorem acc_sid_tcp (v sp : Bytes) : OkSat (AcceptedTCP 17 v) (parseSidReqTCP ⟨v, sp⟩) := by
  unfold parseSidReqTCP; simp only [parseMBAP_eq]; oksat
  all_goals accept_leaf
theorem acc_rw_tcp (v sp : Bytes) : OkSat (AcceptedTCP 23 v) (parseRWReqTCP ⟨v, sp⟩) := by
  unfold parseRWReqTCP; simp only [parseMBAP_eq]; oksat
  all_goals accept_leaf



theorem acc_read_rtu (fc : UInt8) (v sp : Bytes) :
    OkSat (AcceptedRTU fc v) (parseReadReqRTU fc 125 ⟨v, sp⟩) := by
  unfold parseReadReqRTU; oksat
  all_goals accept_leaf
theorem acc_wcoil_rtu (v sp : Bytes) : OkSat (AcceptedRTU 5 v) (parseWCoilReqRTU ⟨v, sp⟩) := by
  unfold parseWCoilReqRTU; oksat
  all_goals accept_leaf
  all_goals (by_cases hh : be16 (v[4]?.getD 0) (v[5]?.getD 0) = 65280 <;> simp_all)
theorem acc_wreg_rtu (v sp : Bytes) : OkSat (AcceptedRTU 6 v) (parseWRegReqRTU ⟨v, sp⟩) := by
  unfold parseWRegReqRTU; oksat
  all_goals accept_leaf
theorem acc_wcoils_rtu (v sp : Bytes) : OkSat (AcceptedRTU 15 v) (parseWCoilsReqRTU ⟨v, sp⟩) := by
  unfold parseWCoilsReqRTU; oksat
  all_goals accept_leaf
theorem acc_wregs_rtu (v sp : Bytes) : OkSat (AcceptedRTU 16 v) (parseWRegsReqRTU ⟨v, sp⟩) := by
  unfold parseWRegsReqRTU; oksat
  all_goals accept_leaf
theorem acc_sid_rtu (v sp : Bytes) : OkSat (AcceptedRTU 17 v) (parseSidReqRTU ⟨v, sp⟩) := by
  unfold parseSidReqRTU; oksat
  all_goals accept_leaf
theorem acc_rw_rtu (v sp : Bytes) : OkSat (AcceptedRTU 23 v) (parseRWReqRTU ⟨v, sp⟩) := by
  unfold parseRWReqRTU; oksat
  all_goals accept_leaf

theorem acc_tcp_fc (fc : UInt8) (v sp : Bytes) : OkSat (AcceptedTCP fc v) (parseReqTCPfc fc ⟨v, sp⟩) := by
  unfold parseReqTCPfc
  split
  · exact acc_read_tcp 1 v sp
  · exact acc_read_tcp 2 v sp
  · exact acc_read_tcp 3 v sp
  · exact acc_read_tcp 4 v sp
  · exact acc_wcoil_tcp v sp
  · exact acc_wreg_tcp v sp
  · exact acc_wcoils_tcp v sp
  · exact acc_wregs_tcp v sp
  · exact acc_sid_tcp v sp
  · exact acc_rw_tcp v sp
  · exact .err

theorem acc_rtu_fc (fc : UInt8) (v sp : Bytes) : OkSat (AcceptedRTU fc v) (parseReqRTUfc fc ⟨v, sp⟩) := by
  unfold parseReqRTUfc
  split
  · exact acc_read_rtu 1 v sp
  · exact acc_read_rtu 2 v sp
  · exact acc_read_rtu 3 v sp
  · exact acc_read_rtu 4 v sp
  · exact acc_wcoil_rtu v sp
  · exact acc_wreg_rtu v sp
  · exact acc_wcoils_rtu v sp
  · exact acc_wregs_rtu v sp
  · exact acc_sid_rtu v sp
  · exact acc_rw_rtu v sp
  · exact .err

/-- the TCP dispatcher: whatever it accepts is the frame's own content (function code from byte 7) -/
theorem acc_tcp (v sp : Bytes) : OkSat (AcceptedTCP (v.getD 7 0) v) (parseTCPRequest ⟨v, sp⟩) := by
  unfold parseTCPRequest
  by_cases h : v.length < 8
  · simp only [h, if_true]; exact .err
  · simp (disch := omega) only [h, if_false, idx_eq, Res.bind_ok]
    exact acc_tcp_fc _ v sp

theorem acc_rtu (v sp : Bytes) : OkSat (AcceptedRTU (v.getD 1 0) v) (parseRTURequest ⟨v, sp⟩) := by
  unfold parseRTURequest
  by_cases h : v.length < 4
  · simp only [h, if_true]; exact .err
  · simp (disch := omega) only [h, if_false, idx_eq, Res.bind_ok]
    exact acc_rtu_fc _ v sp

theorem acc_rtu_crc (v sp : Bytes) : OkSat (AcceptedRTU (v.getD 1 0) v) (parseRTURequestWithCRC ⟨v, sp⟩) := by
  unfold parseRTURequestWithCRC
  by_cases h : v.length < 4
  · simp only [h, if_true]; exact .err
  · by_cases hc : crcMatches v = true
    · simp only [h, hc, if_false, Bool.not_true, Bool.false_eq_true]
      exact acc_rtu v sp
    · simp only [h, if_false, hc, Bool.not_false, if_true]
      exact .err

end Modbus.Lemmas
