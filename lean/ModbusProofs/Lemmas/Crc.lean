import Modbus.Model.Response
import Modbus.Spec.Crc
import ModbusProofs.Lemmas.ErrSat
/-
  Helper lemmas for C03 (CRC).
-/
namespace Modbus.Lemmas
open Modbus Modbus.Model


theorem crcBit_xor (c d : BitVec 16) :
    crcBit (c ^^^ d) = Spec.crcStep c (d.getLsbD 0) ^^^ (d >>> 1) := by
  unfold crcBit Spec.crcStep
  rw [BitVec.getLsbD_xor, BitVec.ushiftRight_xor_distrib]
  cases hc : c.getLsbD 0 <;> cases hd : d.getLsbD 0 <;> simp <;> ac_rfl

theorem shift_shift (d : BitVec 16) (a b : Nat) : (d >>> a) >>> b = d >>> (a + b) := by
  simp [BitVec.shiftRight_add]

theorem getLsbD_shift0 (d : BitVec 16) (k : Nat) : (d >>> k).getLsbD 0 = d.getLsbD k := by
  simp

theorem zext_shift8 (b : UInt8) : (b.toBitVec.setWidth 16) >>> 8 = 0#16 := by
  ext i hi
  simp [BitVec.getLsbD_setWidth]

theorem zext_getLsbD (b : UInt8) (k : Nat) (hk : k < 8) :
    (b.toBitVec.setWidth 16).getLsbD k = b.toBitVec.getLsbD k := by
  simp [BitVec.getLsbD_setWidth]; omega

theorem crcByte_eq (c : BitVec 16) (b : UInt8) :
    crcByte c b = (Spec.bitsOfByte b).foldl Spec.crcStep c := by
  unfold crcByte Spec.bitsOfByte
  simp only [List.foldl]
  generalize hd : b.toBitVec.setWidth 16 = d
  rw [crcBit_xor, crcBit_xor, crcBit_xor, crcBit_xor, crcBit_xor, crcBit_xor, crcBit_xor, crcBit_xor]
  simp only [shift_shift, getLsbD_shift0]
  have h8 : d >>> 8 = 0#16 := by rw [← hd]; exact zext_shift8 b
  simp only [Nat.reduceAdd, h8, BitVec.xor_zero]
  subst hd
  simp only [zext_getLsbD b _ (by decide : 0 < 8), zext_getLsbD b 1 (by decide), zext_getLsbD b 2 (by decide),
    zext_getLsbD b 3 (by decide), zext_getLsbD b 4 (by decide), zext_getLsbD b 5 (by decide),
    zext_getLsbD b 6 (by decide), zext_getLsbD b 7 (by decide)]


theorem crcBV_fold (data : Bytes) (c : BitVec 16) :
    data.foldl crcByte c = (data.flatMap Spec.bitsOfByte).foldl Spec.crcStep c := by
  induction data generalizing c with
  | nil => rfl
  | cons b rest ih =>
    simp only [List.foldl_cons, List.flatMap_cons, List.foldl_append]
    rw [ih, crcByte_eq]

theorem crcBV_eq_spec (data : Bytes) : (crc16 data).toBitVec = Spec.crc data := by
  unfold crc16 crcBV Spec.crc Spec.crcBits
  exact crcBV_fold data _


theorem le16_eq_iff (l h : UInt8) (c : UInt16) : le16 l h = c ↔ (l = lo8 c ∧ h = hi8 c) := by
  unfold le16 lo8 hi8
  have hl := l.toNat_lt
  have hh := h.toNat_lt
  have hc := c.toNat_lt
  constructor
  · intro e
    subst e
    constructor
    · apply UInt8.toNat_inj.1
      simp
      try omega
    · apply UInt8.toNat_inj.1
      simp
      try omega
  · rintro ⟨e1, e2⟩
    subst e1 e2
    apply UInt16.toNat_inj.1
    simp
    try omega

theorem take_drop_trailer (body : Bytes) (l h : UInt8) :
    (body ++ [l, h]).take ((body ++ [l, h]).length - 2) = body ∧
    (body ++ [l, h]).drop ((body ++ [l, h]).length - 2) = [l, h] := by
  simp

theorem crcMatches_iff (body : Bytes) (l h : UInt8) :
    crcMatches (body ++ [l, h]) = true ↔ (l = lo8 (crc16 body) ∧ h = hi8 (crc16 body)) := by
  unfold crcMatches
  have ⟨h1, h2⟩ := take_drop_trailer body l h
  simp only [h1, h2]
  simp [le16_eq_iff]


/-- "not the bad-CRC error" -/
def NotBad : PErr → Prop := fun e => e ≠ .badCRC

theorem NB_reqRTUfc (fc : UInt8) (s : Slice) : ErrSat NotBad (parseReqRTUfc fc s) := by
  unfold parseReqRTUfc parseReadReqRTU parseWCoilReqRTU parseWRegReqRTU parseWCoilsReqRTU parseWRegsReqRTU
    parseSidReqRTU parseRWReqRTU NotBad
  errsat

theorem NB_parseRTURequest (s : Slice) : ErrSat NotBad (parseRTURequest s) := by
  unfold parseRTURequest
  split
  · exact ErrSat.err (by simp [NotBad])
  · exact ErrSat.bind (ErrSat.idx _ _) (fun _ => NB_reqRTUfc _ _)

theorem NB_respRTUfc (fc : UInt8) (s : Slice) : ErrSat NotBad (parseRespRTUfc fc s) := by
  unfold parseRespRTUfc parseByteCountRespRTU parseFixedRespRTU parseSidRespRTU mkWCoilResp mkWRegResp
    mkWMultiResp NotBad
  errsat

/-- `AsRTUErrorPacket` never fails, and the only errors it recognises are RTU exceptions -/
theorem asRTUErr_cases (s : Slice) :
    asRTUErrorPacket s = .panic ∨ asRTUErrorPacket s = .ok none ∨
      ∃ u f c, asRTUErrorPacket s = .ok (some (.excR u f c)) := by
  unfold asRTUErrorPacket
  split
  · exact Or.inr (Or.inl rfl)
  · cases h1 : s.idx (ε := PErr) 1 with
    | panic => exact Or.inl rfl
    | err e => exact absurd h1 ((ErrSat.idx (P := fun _ => False) s 1).h e) |> False.elim
    | ok f =>
      simp only [Res.bind_ok]
      split
      · cases h0 : s.idx (ε := PErr) 0 with
        | panic => exact Or.inl rfl
        | err e => exact absurd h0 ((ErrSat.idx (P := fun _ => False) s 0).h e) |> False.elim
        | ok u =>
          simp only [Res.bind_ok]
          cases h2 : s.idx (ε := PErr) 2 with
          | panic => exact Or.inl rfl
          | err e => exact absurd h2 ((ErrSat.idx (P := fun _ => False) s 2).h e) |> False.elim
          | ok c => exact Or.inr (Or.inr ⟨u, f - 128, c, rfl⟩)
      · exact Or.inr (Or.inl rfl)

theorem NB_parseRTUResponse (s : Slice) : ErrSat NotBad (parseRTUResponse s) := by
  unfold parseRTUResponse
  split
  · exact ErrSat.err (by simp [NotBad])
  · rcases asRTUErr_cases s with h | h | ⟨u, f, c, h⟩
    · rw [h]; exact ErrSat.panic
    · rw [h]; simp only [Res.bind_ok]; exact ErrSat.bind (ErrSat.idx _ _) (fun _ => NB_respRTUfc _ _)
    · rw [h]; simp only [Res.bind_ok]; exact ErrSat.err (by simp [NotBad])

theorem reqWithCRC_badCRC_iff (body : Bytes) (l h : UInt8) (sp : Bytes) (hlen : 2 ≤ body.length) :
    parseRTURequestWithCRC ⟨body ++ [l, h], sp⟩ = .err .badCRC ↔
      ¬ (l = lo8 (crc16 body) ∧ h = hi8 (crc16 body)) := by
  unfold parseRTURequestWithCRC
  dsimp only
  have hl : ¬ ((body ++ [l, h]).length < 4) := by simp; omega
  rw [if_neg hl]
  rw [← crcMatches_iff]
  by_cases hm : crcMatches (body ++ [l, h]) = true
  · simp only [hm, Bool.not_true, Bool.false_eq_true, if_false, not_true_eq_false, iff_false]
    intro hh; exact (NB_parseRTURequest _).h _ hh rfl
  · simp [hm]

theorem respWithCRC_badCRC_iff (body : Bytes) (l h : UInt8) (sp : Bytes) (hlen : 2 ≤ body.length) :
    parseRTUResponseWithCRC ⟨body ++ [l, h], sp⟩ = .err .badCRC ↔
      ¬ (l = lo8 (crc16 body) ∧ h = hi8 (crc16 body)) := by
  unfold parseRTUResponseWithCRC
  dsimp only
  have hl : ¬ ((body ++ [l, h]).length < 4) := by simp; omega
  rw [if_neg hl]
  rw [← crcMatches_iff]
  by_cases hm : crcMatches (body ++ [l, h]) = true
  · simp only [hm, Bool.not_true, Bool.false_eq_true, if_false, not_true_eq_false, iff_false]
    intro hh; exact (NB_parseRTUResponse _).h _ hh rfl
  · simp [hm]

end Modbus.Lemmas
