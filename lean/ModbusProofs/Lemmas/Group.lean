import ModbusProofs.Lemmas.Batch
/-
  Grouping of fields into slots and groups (splitter.go: groupForSingleConnection, AddField), sorting.
-/
namespace Modbus.Lemmas
open Modbus Modbus.Model

theorem Field.size_pos (f : Field) (hv : f.valid = true) : 1 ≤ f.size := by
  unfold Field.size
  unfold Field.valid at hv
  simp only [Bool.and_eq_true, Bool.not_eq_true', Bool.and_eq_false_iff, beq_eq_false_iff_ne, bne_iff_ne,
    decide_eq_true_eq] at hv
  split_ifs with h1 h2 h3 h4 <;> try omega
  -- string with even length: the length is not 0
  rcases hv.2 with h | h
  · exact absurd h3 h
  · have : f.length.toNat ≠ 0 := fun h0 => h (UInt8.toNat_inj.1 (by simpa using h0))
    omega

/-- a slot: non-empty, all its fields at its address, its size the largest field size -/
structure SlotOK (s : Slot) : Prop where
  ne : s.fields ≠ []
  at_ : ∀ f ∈ s.fields, f.addr = s.addr ∧ f.size ≤ s.size
  att : ∃ f ∈ s.fields, f.size = s.size

def SlotsOK (ss : List Slot) : Prop := (∀ s ∈ ss, SlotOK s) ∧ (ss.map (·.addr)).Nodup

def mergeSlot (s : Slot) (f : Field) : Slot :=
  { s with fields := s.fields ++ [f], size := if f.size > s.size then f.size else s.size }

theorem addToSlots_eq (s : Slot) (rest : List Slot) (f : Field) (h : s.addr = f.addr) :
    addToSlots (s :: rest) f = mergeSlot s f :: rest := by
  simp [addToSlots, h, mergeSlot]

theorem addToSlots_ne' (s : Slot) (rest : List Slot) (f : Field) (h : ¬ s.addr = f.addr) :
    addToSlots (s :: rest) f = s :: addToSlots rest f := by
  simp [addToSlots, h]

theorem mergeSlot_ok (s : Slot) (f : Field) (hs : SlotOK s) (he : s.addr = f.addr) : SlotOK (mergeSlot s f) := by
  refine ⟨by simp [mergeSlot], ?_, ?_⟩
  · intro g hg
    simp only [mergeSlot] at hg ⊢
    rcases List.mem_append.1 hg with hg | hg
    · have := hs.at_ g hg
      refine ⟨this.1, ?_⟩
      by_cases hgt : f.size > s.size
      · simp only [hgt, if_true]; omega
      · simp only [hgt, if_false]; exact this.2
    · simp at hg; subst hg
      refine ⟨he.symm, ?_⟩
      by_cases hgt : g.size > s.size
      · simp only [hgt, if_true]; exact Nat.le_refl _
      · simp only [hgt, if_false]; omega
  · simp only [mergeSlot]
    by_cases hgt : f.size > s.size
    · simp only [hgt, if_true]
      exact ⟨f, by simp, rfl⟩
    · simp only [hgt, if_false]
      obtain ⟨g, hg, hge⟩ := hs.att
      exact ⟨g, List.mem_append_left _ hg, hge⟩

theorem addToSlots_addrs (ss : List Slot) (f : Field) (a : UInt16) :
    a ∈ (addToSlots ss f).map (·.addr) ↔ a ∈ ss.map (·.addr) ∨ a = f.addr := by
  induction ss with
  | nil => simp [addToSlots]
  | cons s rest ih =>
    by_cases h : s.addr = f.addr
    · rw [addToSlots_eq s rest f h]
      simp only [List.map_cons, List.mem_cons, mergeSlot]
      constructor
      · rintro (h1 | h1)
        · exact Or.inl (Or.inl h1)
        · exact Or.inl (Or.inr h1)
      · rintro ((h1 | h1) | h1)
        · exact Or.inl h1
        · exact Or.inr h1
        · exact Or.inl (h1.trans h.symm)
    · rw [addToSlots_ne' s rest f h]
      simp only [List.map_cons, List.mem_cons, ih]
      constructor
      · rintro (h1 | h1 | h1)
        · exact Or.inl (Or.inl h1)
        · exact Or.inl (Or.inr h1)
        · exact Or.inr h1
      · rintro ((h1 | h1) | h1)
        · exact Or.inl h1
        · exact Or.inr (Or.inl h1)
        · exact Or.inr (Or.inr h1)

theorem addToSlots_ok (ss : List Slot) (f : Field) (h : SlotsOK ss) : SlotsOK (addToSlots ss f) := by
  induction ss with
  | nil =>
    refine ⟨?_, by simp [addToSlots]⟩
    intro s hs
    simp [addToSlots] at hs
    subst hs
    exact ⟨by simp, by intro g hg; simp at hg; subst hg; exact ⟨rfl, Nat.le_refl _⟩, ⟨f, by simp, rfl⟩⟩
  | cons s rest ih =>
    obtain ⟨hall, hnd⟩ := h
    have hs := hall s (by simp)
    have hrest : SlotsOK rest := ⟨fun t ht => hall t (by simp [ht]), (List.nodup_cons.1 hnd).2⟩
    by_cases he : s.addr = f.addr
    · rw [addToSlots_eq s rest f he]
      refine ⟨?_, by simpa [mergeSlot] using hnd⟩
      intro t ht
      simp only [List.mem_cons] at ht
      rcases ht with rfl | ht
      · exact mergeSlot_ok s f hs he
      · exact hall t (by simp [ht])
    · rw [addToSlots_ne' s rest f he]
      have ih' := ih hrest
      refine ⟨?_, ?_⟩
      · intro t ht
        simp only [List.mem_cons] at ht
        rcases ht with rfl | ht
        · exact hs
        · exact ih'.1 t ht
      · simp only [List.map_cons, List.nodup_cons]
        refine ⟨?_, ih'.2⟩
        intro hmem
        rcases (addToSlots_addrs rest f s.addr).1 hmem with h1 | h1
        · exact (List.nodup_cons.1 hnd).1 h1
        · exact he h1

theorem addToSlots_perm (ss : List Slot) (f : Field) :
    ((addToSlots ss f).flatMap (·.fields)).Perm (ss.flatMap (·.fields) ++ [f]) := by
  induction ss with
  | nil => simp [addToSlots]
  | cons s rest ih =>
    by_cases he : s.addr = f.addr
    · rw [addToSlots_eq s rest f he]
      simp only [List.flatMap_cons, List.append_assoc, mergeSlot]
      exact (List.perm_append_left_iff _).2 List.perm_append_comm
    · rw [addToSlots_ne' s rest f he]
      simp only [List.flatMap_cons, List.append_assoc]
      exact (List.perm_append_left_iff _).2 ih

theorem addToSlots_nonempty (ss : List Slot) (f : Field) : addToSlots ss f ≠ [] := by
  cases ss with
  | nil => simp [addToSlots]
  | cons s rest =>
    by_cases he : s.addr = f.addr
    · rw [addToSlots_eq s rest f he]; simp
    · rw [addToSlots_ne' s rest f he]; simp


/-! ### groups -/

def gkey (g : Group) : String × UInt8 × Bool := (g.server, g.unit, g.isCoil)
def fkey (f : Field) : String × UInt8 × Bool := (f.server, f.unit, f.isCoil)

structure GroupOK (g : Group) : Prop where
  slots : SlotsOK g.slots
  ne : g.slots ≠ []
  mem : ∀ s ∈ g.slots, ∀ f ∈ s.fields, (fkey f) = (gkey g)
  valid : ∀ s ∈ g.slots, ∀ f ∈ s.fields, f.valid = true

def GroupsOK (gs : List Group) : Prop := (∀ g ∈ gs, GroupOK g) ∧ (gs.map gkey).Nodup

def allFields (gs : List Group) : List Field := gs.flatMap fun g => g.slots.flatMap (·.fields)

theorem key_eq_iff (g : Group) (f : Field) :
    (g.server = f.server ∧ g.unit = f.unit ∧ g.isCoil = f.isCoil) ↔ (gkey g) = (fkey f) := by
  simp [gkey, fkey]

theorem addToGroups_eq (g : Group) (rest : List Group) (f : Field) (h : (gkey g) = (fkey f)) :
    addToGroups (g :: rest) f = { g with slots := addToSlots g.slots f } :: rest := by
  simp [addToGroups, (key_eq_iff g f).2 h]

theorem addToGroups_ne (g : Group) (rest : List Group) (f : Field) (h : ¬ (gkey g) = (fkey f)) :
    addToGroups (g :: rest) f = g :: addToGroups rest f := by
  have : ¬ (g.server = f.server ∧ g.unit = f.unit ∧ g.isCoil = f.isCoil) := fun hh => h ((key_eq_iff g f).1 hh)
  simp [addToGroups, this]

theorem mem_addToSlots_fields (ss : List Slot) (f g : Field) (s : Slot) (hs : s ∈ addToSlots ss f)
    (hg : g ∈ s.fields) : g = f ∨ ∃ t ∈ ss, g ∈ t.fields := by
  have hp := (addToSlots_perm ss f).mem_iff (a := g)
  have : g ∈ (addToSlots ss f).flatMap (·.fields) := List.mem_flatMap.2 ⟨s, hs, hg⟩
  rcases List.mem_append.1 (hp.1 this) with h | h
  · obtain ⟨t, ht, hgt⟩ := List.mem_flatMap.1 h
    exact Or.inr ⟨t, ht, hgt⟩
  · simp at h; exact Or.inl h

theorem group_add_ok (g : Group) (f : Field) (hg : GroupOK g) (hk : (gkey g) = (fkey f)) (hv : f.valid = true) :
    GroupOK { g with slots := addToSlots g.slots f } := by
  refine ⟨addToSlots_ok _ _ hg.slots, addToSlots_nonempty _ _, ?_, ?_⟩
  · intro s hs x hx
    rcases mem_addToSlots_fields g.slots f x s hs hx with rfl | ⟨t, ht, hxt⟩
    · exact hk.symm
    · exact hg.mem t ht x hxt
  · intro s hs x hx
    rcases mem_addToSlots_fields g.slots f x s hs hx with rfl | ⟨t, ht, hxt⟩
    · exact hv
    · exact hg.valid t ht x hxt

theorem addToGroups_keys (gs : List Group) (f : Field) (k : String × UInt8 × Bool) :
    k ∈ (addToGroups gs f).map gkey ↔ k ∈ gs.map gkey ∨ k = (fkey f) := by
  induction gs with
  | nil => simp [addToGroups, gkey, fkey]
  | cons g rest ih =>
    by_cases h : (gkey g) = (fkey f)
    · rw [addToGroups_eq g rest f h]
      have : gkey { g with slots := addToSlots g.slots f } = (gkey g) := rfl
      simp only [List.map_cons, List.mem_cons, this]
      constructor
      · rintro (h1 | h1)
        · exact Or.inl (Or.inl h1)
        · exact Or.inl (Or.inr h1)
      · rintro ((h1 | h1) | h1)
        · exact Or.inl h1
        · exact Or.inr h1
        · exact Or.inl (h1.trans h.symm)
    · rw [addToGroups_ne g rest f h]
      simp only [List.map_cons, List.mem_cons, ih]
      constructor
      · rintro (h1 | h1 | h1)
        · exact Or.inl (Or.inl h1)
        · exact Or.inl (Or.inr h1)
        · exact Or.inr h1
      · rintro ((h1 | h1) | h1)
        · exact Or.inl h1
        · exact Or.inr (Or.inl h1)
        · exact Or.inr (Or.inr h1)

theorem addToGroups_ok (gs : List Group) (f : Field) (h : GroupsOK gs) (hv : f.valid = true) :
    GroupsOK (addToGroups gs f) := by
  induction gs with
  | nil =>
    refine ⟨?_, by simp [addToGroups]⟩
    intro g hg
    simp [addToGroups] at hg
    subst hg
    have hs : SlotsOK (addToSlots [] f) := addToSlots_ok [] f ⟨by simp, by simp⟩
    refine ⟨hs, addToSlots_nonempty _ _, ?_, ?_⟩
    · intro s hs' x hx
      rcases mem_addToSlots_fields [] f x s hs' hx with rfl | ⟨t, ht, _⟩
      · rfl
      · simp at ht
    · intro s hs' x hx
      rcases mem_addToSlots_fields [] f x s hs' hx with rfl | ⟨t, ht, _⟩
      · exact hv
      · simp at ht
  | cons g rest ih =>
    obtain ⟨hall, hnd⟩ := h
    have hg := hall g (by simp)
    have hrest : GroupsOK rest := ⟨fun t ht => hall t (by simp [ht]), (List.nodup_cons.1 hnd).2⟩
    by_cases hk : (gkey g) = (fkey f)
    · rw [addToGroups_eq g rest f hk]
      refine ⟨?_, by simpa [gkey] using hnd⟩
      intro t ht
      simp only [List.mem_cons] at ht
      rcases ht with rfl | ht
      · exact group_add_ok g f hg hk hv
      · exact hall t (by simp [ht])
    · rw [addToGroups_ne g rest f hk]
      have ih' := ih hrest
      refine ⟨?_, ?_⟩
      · intro t ht
        simp only [List.mem_cons] at ht
        rcases ht with rfl | ht
        · exact hg
        · exact ih'.1 t ht
      · simp only [List.map_cons, List.nodup_cons]
        refine ⟨?_, ih'.2⟩
        intro hmem
        rcases (addToGroups_keys rest f (gkey g)).1 hmem with h1 | h1
        · exact (List.nodup_cons.1 hnd).1 h1
        · exact hk h1

theorem addToGroups_perm (gs : List Group) (f : Field) :
    (allFields (addToGroups gs f)).Perm (allFields gs ++ [f]) := by
  induction gs with
  | nil =>
    simp only [addToGroups, allFields, List.flatMap_cons, List.flatMap_nil, List.append_nil, List.nil_append]
    simpa using addToSlots_perm [] f
  | cons g rest ih =>
    by_cases hk : (gkey g) = (fkey f)
    · rw [addToGroups_eq g rest f hk]
      simp only [allFields, List.flatMap_cons, List.append_assoc]
      have h1 := addToSlots_perm g.slots f
      refine (List.Perm.append_right _ h1).trans ?_
      rw [List.append_assoc]
      exact (List.perm_append_left_iff _).2 List.perm_append_comm
    · rw [addToGroups_ne g rest f hk]
      simp only [allFields, List.flatMap_cons, List.append_assoc] at *
      exact (List.perm_append_left_iff _).2 ih

theorem addToGroups_coil (gs : List Group) (f : Field) (c : Bool) (h : ∀ g ∈ gs, g.isCoil = c) (hf : f.isCoil = c) :
    ∀ g ∈ addToGroups gs f, g.isCoil = c := by
  intro g hg
  have : (gkey g) ∈ (addToGroups gs f).map gkey := List.mem_map_of_mem hg
  rcases (addToGroups_keys gs f (gkey g)).1 this with h1 | h1
  · obtain ⟨g', hg', hk⟩ := List.mem_map.1 h1
    have := h g' hg'
    simp [gkey] at hk
    rw [← hk.2.2]; exact this
  · simp [gkey, fkey] at h1
    rw [h1.2.2]; exact hf

/-- `groupForSingleConnection` -/
theorem groupFields_go (fields : List Field) (c : Bool) :
    ∀ (gs gs' : List Group), GroupsOK gs → (∀ g ∈ gs, g.isCoil = c) → groupFields.go c fields gs = .ok gs' →
      GroupsOK gs' ∧ (∀ g ∈ gs', g.isCoil = c) ∧
      (allFields gs').Perm (allFields gs ++ fields.filter (fun f => f.isCoil == c)) ∧
      (∀ f ∈ fields, f.valid = true) := by
  induction fields with
  | nil =>
    intro gs gs' hok hc h
    simp [groupFields.go] at h
    subst h
    exact ⟨hok, hc, by simp, by simp⟩
  | cons f rest ih =>
    intro gs gs' hok hc h
    unfold groupFields.go at h
    by_cases hv : f.valid = true
    · simp only [hv, Bool.not_true, Bool.false_eq_true, if_false] at h
      by_cases hk : (f.isCoil != c) = true
      · simp only [hk, if_true] at h
        obtain ⟨h1, h2, h3, h4⟩ := ih gs gs' hok hc h
        refine ⟨h1, h2, ?_, ?_⟩
        · have : (f.isCoil == c) = false := by simpa using hk
          simpa [List.filter_cons, this] using h3
        · intro x hx; simp at hx; rcases hx with rfl | hx
          · exact hv
          · exact h4 x hx
      · simp only [hk, if_false] at h
        have hfc : f.isCoil = c := by simpa using hk
        obtain ⟨h1, h2, h3, h4⟩ := ih (addToGroups gs f) gs' (addToGroups_ok gs f hok hv)
          (addToGroups_coil gs f c hc hfc) h
        refine ⟨h1, h2, ?_, ?_⟩
        · have : (f.isCoil == c) = true := by simpa using hfc
          simp only [List.filter_cons, this, if_true]
          refine h3.trans ?_
          have := addToGroups_perm gs f
          refine (List.Perm.append_right _ this).trans ?_
          simp
        · intro x hx; simp at hx; rcases hx with rfl | hx
          · exact hv
          · exact h4 x hx
    · simp [hv] at h

end Modbus.Lemmas
