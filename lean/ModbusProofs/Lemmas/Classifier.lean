import ModbusProofs.Lemmas.RoundTrip
import ModbusProofs.Lemmas.Accepted
/-
  The TCP stream classifier `LooksLikeModbusTCP` in closed form, and the shape of every error the
  request dispatcher returns on a frame the classifier delimited.
-/
namespace Modbus.Lemmas
open Modbus Modbus.Model

/-- `LooksLikeModbusTCP` on at least 8 bytes, in closed form over the header bytes -/
theorem looksLike_eq (v sp : Bytes) (allow : Bool) (h8 : 8 ≤ v.length) :
    looksLike ⟨v, sp⟩ allow =
      if ¬(v.getD 2 0 = 0 ∧ v.getD 3 0 = 0) then .ok (0, some .notTCP) else
      if be16 (v.getD 4 0) (v.getD 5 0) < 3 then .ok (0, some .notTCP) else
      if v.getD 7 0 = 0 then .ok (0, some .notTCP) else
      if allow then .ok ((be16 (v.getD 4 0) (v.getD 5 0)).toNat + 6, none) else
      if supportedFunctionCodes.contains (v.getD 7 0) then .ok ((be16 (v.getD 4 0) (v.getD 5 0)).toNat + 6, none) else
      .ok ((be16 (v.getD 4 0) (v.getD 5 0)).toNat + 6,
        some (.tcp 1 (be16 (v.getD 0 0) (v.getD 1 0)) (v.getD 6 0) (v.getD 7 0))) := by
  unfold looksLike
  dsimp only
  have : ¬ v.length < 8 := by omega
  simp (disch := omega) only [this, if_false, idx_eq, rd16_eq, Res.bind_ok, Nat.reduceAdd]

theorem looksLike_short (v sp : Bytes) (allow : Bool) (h8 : v.length < 8) :
    looksLike ⟨v, sp⟩ allow = .ok (0, some .tooShortT) := by
  unfold looksLike
  dsimp only
  simp only [h8, if_true]

/-- every error satisfies `P` (inductive twin of `OkSat` for error returns; panics are excluded) -/
inductive ErrOk {ε α} (P : ε → Prop) : Res ε α → Prop
  | ok {a : α} : ErrOk P (.ok a)
  | err {e : ε} : P e → ErrOk P (.err e)

open Lean Elab Tactic Meta in
elab "guard_ite_head'" : tactic => do
  let g := (← instantiateMVars (← getMainTarget)).consumeMData
  let args := g.getAppArgs
  if args.size = 4 then
    let x := (args[3]!).consumeMData
    if x.isAppOf ``ite then return
    if x.isAppOf ``Res.bind then
      let bargs := x.getAppArgs
      if bargs.size ≥ 5 && (bargs[3]!).isAppOf ``ite then return
    throwError "no if at the head"
  else throwError "not a 4-ary predicate goal"

macro "errok" : tactic => `(tactic| ((try dsimp only); repeat' (first
  | with_reducible exact ErrOk.ok
  | (simp (disch := omega) only [idx_eq, rd16_eq, bytes_eq, from_eq, copyOut_eq, Res.bind_ok, Res.bind_err,
      Nat.reduceAdd, ne_eq, not_true_eq_false, not_false_eq_true, if_true, if_false])
  | (simp only [*, ↓reduceIte, if_true, if_false])
  | (guard_ite_head'; split_ifs))))

/-- the exception the server sends for a frame (with a supported function code) that its parser refuses: the
frame's transaction id and unit id, the frame's function code, code 3 (illegal data value). (Code 1 is produced by
the classifier for unsupported function codes; the parsers' own "illegal function" branch is unreachable through
the dispatcher, which selects the parser by the frame's function code.) -/
def ErrFor (v : Bytes) (e : PErr) : Prop :=
  e = .tcp 3 (be16 (v.getD 0 0) (v.getD 1 0)) (v.getD 6 0) (v.getD 7 0)

macro "errfor_leaf" : tactic => `(tactic|
  (apply ErrOk.err
   first
     | (show _ = _; simp_all; done)
     | (exfalso; simp_all; done)
     | (exfalso; omega)))

/-- once the MBAP header parses and the frame has at least 8 bytes, every error of a per-function TCP
parser that was selected by the frame's own function code is an `ErrFor` -/
theorem errfor_read (fc : UInt8) (v sp : Bytes) (h8 : 8 ≤ v.length) (hm : MBAPrest v) (hfc : v.getD 7 0 = fc) :
    ErrOk (ErrFor v) (parseReadReqTCP fc 125 ⟨v, sp⟩) := by
  unfold parseReadReqTCP; simp only [parseMBAP_eq]
  have h7 : ¬ v.length < 7 := by omega
  simp only [h7, hm, if_false, if_true, Res.bind_ok]
  errok
  all_goals errfor_leaf


macro "errfor" : tactic => `(tactic|
  (simp only [parseMBAP_eq]
   simp only [*, if_false, if_true, Res.bind_ok]
   errok
   all_goals errfor_leaf))

theorem errfor_wcoil (v sp : Bytes) (h7 : ¬ v.length < 7) (hm : MBAPrest v) (hfc : v.getD 7 0 = 5) :
    ErrOk (ErrFor v) (parseWCoilReqTCP ⟨v, sp⟩) := by
  unfold parseWCoilReqTCP; errfor
theorem errfor_wreg (v sp : Bytes) (h7 : ¬ v.length < 7) (hm : MBAPrest v) (hfc : v.getD 7 0 = 6) :
    ErrOk (ErrFor v) (parseWRegReqTCP ⟨v, sp⟩) := by
  unfold parseWRegReqTCP; errfor
theorem errfor_wcoils (v sp : Bytes) (h7 : ¬ v.length < 7) (hm : MBAPrest v) (hfc : v.getD 7 0 = 15) :
    ErrOk (ErrFor v) (parseWCoilsReqTCP ⟨v, sp⟩) := by
  unfold parseWCoilsReqTCP; errfor
theorem errfor_wregs (v sp : Bytes) (h7 : ¬ v.length < 7) (hm : MBAPrest v) (hfc : v.getD 7 0 = 16) :
    ErrOk (ErrFor v) (parseWRegsReqTCP ⟨v, sp⟩) := by
  unfold parseWRegsReqTCP; errfor
theorem errfor_sid (v sp : Bytes) (h7 : ¬ v.length < 7) (hm : MBAPrest v) (hfc : v.getD 7 0 = 17) :
    ErrOk (ErrFor v) (parseSidReqTCP ⟨v, sp⟩) := by
  unfold parseSidReqTCP; errfor
theorem errfor_rw (v sp : Bytes) (h7 : ¬ v.length < 7) (hm : MBAPrest v) (hfc : v.getD 7 0 = 23) :
    ErrOk (ErrFor v) (parseRWReqTCP ⟨v, sp⟩) := by
  unfold parseRWReqTCP; errfor

/-- on a frame with a valid MBAP header and a supported function code, the request dispatcher either
accepts or returns an error that is an exception addressed to the frame's own header -/
theorem errfor_dispatch (v sp : Bytes) (h8 : 8 ≤ v.length) (hm : MBAPrest v)
    (hs : supportedFunctionCodes.contains (v.getD 7 0) = true) :
    ErrOk (ErrFor v) (parseTCPRequest ⟨v, sp⟩) := by
  unfold parseTCPRequest
  dsimp only
  have hlt : ¬ v.length < 8 := by omega
  have h7 : ¬ v.length < 7 := by omega
  simp (disch := omega) only [hlt, if_false, idx_eq, Res.bind_ok]
  have hmem : v.getD 7 0 ∈ supportedFunctionCodes := by simpa using hs
  simp only [supportedFunctionCodes, List.mem_cons, List.mem_nil_iff, or_false] at hmem
  unfold parseReqTCPfc
  rcases hmem with e | e | e | e | e | e | e | e | e | e <;> rw [e]
  · exact errfor_read 1 v sp h8 hm e
  · exact errfor_read 2 v sp h8 hm e
  · exact errfor_read 3 v sp h8 hm e
  · exact errfor_read 4 v sp h8 hm e
  · exact errfor_wcoil v sp h7 hm e
  · exact errfor_wreg v sp h7 hm e
  · exact errfor_wcoils v sp h7 hm e
  · exact errfor_wregs v sp h7 hm e
  · exact errfor_sid v sp h7 hm e
  · exact errfor_rw v sp h7 hm e

end Modbus.Lemmas
