import ModbusProofs.Lemmas.Group
/-
  `sort.Sort(slotsSorter)` modelled as insertion sort: a permutation that is ascending by address.
-/
namespace Modbus.Lemmas
open Modbus Modbus.Model

def Asc : List Slot → Prop
  | [] => True
  | [_] => True
  | s :: t :: rest => s.addr.toNat ≤ t.addr.toNat ∧ Asc (t :: rest)

theorem insertSlot_perm (s : Slot) (l : List Slot) : (insertSlot s l).Perm (s :: l) := by
  induction l with
  | nil => simp [insertSlot]
  | cons t rest ih =>
    unfold insertSlot
    split_ifs
    · exact List.Perm.refl _
    · exact (List.Perm.cons t ih).trans (List.Perm.swap s t rest)

theorem sortSlots_perm (l : List Slot) : (sortSlots l).Perm l := by
  induction l with
  | nil => exact List.Perm.refl _
  | cons s rest ih => exact (insertSlot_perm s _).trans (List.Perm.cons s ih)

theorem insertSlot_asc (s : Slot) (l : List Slot) (h : Asc l) : Asc (insertSlot s l) := by
  induction l with
  | nil => simp [insertSlot, Asc]
  | cons t rest ih =>
    unfold insertSlot
    split_ifs with hle
    · exact ⟨hle, h⟩
    · cases rest with
      | nil =>
        simp only [insertSlot]
        exact ⟨by omega, trivial⟩
      | cons u rest' =>
        have ih' := ih h.2
        unfold insertSlot at ih' ⊢
        split_ifs at ih' ⊢ with h2
        · exact ⟨by omega, h2, h.2⟩
        · exact ⟨h.1, ih'⟩

theorem sortSlots_asc (l : List Slot) : Asc (sortSlots l) := by
  induction l with
  | nil => trivial
  | cons s rest ih => exact insertSlot_asc s _ ih

theorem asc_sortedFrom (s : Slot) (rest : List Slot) (h : Asc (s :: rest)) (hsz : ∀ t ∈ rest, 1 ≤ t.size) :
    SortedFrom s.addr.toNat rest := by
  induction rest generalizing s with
  | nil => trivial
  | cons t rest ih =>
    exact ⟨h.1, hsz t (by simp), ih t h.2 (fun u hu => hsz u (by simp [hu]))⟩

end Modbus.Lemmas
