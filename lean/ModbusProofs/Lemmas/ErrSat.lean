import Modbus.Model.Response
/-
  "Every error a parser can return satisfies P": a compositional predicate over the `Res` monad,
  with a small tactic that walks the bind / if structure of the model's parsers.
-/
namespace Modbus.Lemmas
open Modbus Modbus.Model

/-- all error returns of `x` satisfy `P` (a structure, so that `intro`/`split` do not look through it) -/
structure ErrSat {α} (P : PErr → Prop) (x : PRes α) : Prop where
  h : ∀ e, x = .err e → P e

variable {α β : Type} {P : PErr → Prop}

theorem ErrSat.bind {x : PRes α} {f : α → PRes β} (hx : ErrSat P x) (hf : ∀ a, ErrSat P (f a)) :
    ErrSat P (x.bind f) := by
  cases x with
  | ok a => exact hf a
  | err e => exact ⟨fun e' he => by simp [Res.bind] at he; subst he; exact hx.h e rfl⟩
  | panic => exact ⟨fun e' he => by simp [Res.bind] at he⟩

theorem ErrSat.idx (s : Slice) (i : Nat) : ErrSat P (s.idx (ε := PErr) i) := by
  unfold Slice.idx; split <;> exact ⟨fun e he => by simp at he⟩
theorem ErrSat.sub (s : Slice) (a b : Nat) : ErrSat P (s.sub (ε := PErr) a b) := by
  unfold Slice.sub; split <;> exact ⟨fun e he => by simp at he⟩
theorem ErrSat.from_ (s : Slice) (a : Nat) : ErrSat P (s.from_ (ε := PErr) a) := by
  unfold Slice.from_; split <;> exact ⟨fun e he => by simp at he⟩
theorem ErrSat.ok (a : α) : ErrSat P (Res.ok a : PRes α) := ⟨fun e he => by simp at he⟩
theorem ErrSat.panic : ErrSat P (Res.panic : PRes α) := ⟨fun e he => by simp at he⟩
theorem ErrSat.err {e : PErr} (he : P e) : ErrSat P (Res.err e : PRes α) :=
  ⟨fun e' h => by injection h with h; subst h; exact he⟩
theorem ErrSat.rd16 (s : Slice) (a : Nat) : ErrSat P (s.rd16 (ε := PErr) a) := by
  unfold Slice.rd16
  apply ErrSat.bind (ErrSat.sub _ _ _)
  intro t; split
  · exact ErrSat.ok _
  · exact ErrSat.panic
theorem ErrSat.bytes (s : Slice) (a b : Nat) : ErrSat P (s.bytes (ε := PErr) a b) := by
  unfold Slice.bytes
  exact ErrSat.bind (ErrSat.sub _ _ _) (fun _ => ErrSat.ok _)
theorem ErrSat.copyOut (s : Slice) (a n : Nat) : ErrSat P (copyOut s a n) := by
  unfold Modbus.Model.copyOut; split
  · exact ErrSat.bytes _ _ _
  · exact ErrSat.ok _

/-- walk the structure of a parser; leaves the `P e` obligations of the error leaves as goals
(closed by `simp` when `P` is decidable on constructors) -/
macro "errsat" : tactic => `(tactic| repeat' (first
  | with_reducible exact ErrSat.idx _ _ | with_reducible exact ErrSat.rd16 _ _
  | with_reducible exact ErrSat.bytes _ _ _ | with_reducible exact ErrSat.copyOut _ _ _
  | with_reducible exact ErrSat.from_ _ _
  | with_reducible exact ErrSat.ok _ | with_reducible exact ErrSat.panic
  | with_reducible apply ErrSat.bind
  | (refine ErrSat.err ?_; simp; done)
  | (intro _; show ErrSat _ _) | (show ErrSat _ _; split) | (show ErrSat _ _; dsimp only)))

end Modbus.Lemmas
