import ModbusProofs.Lemmas.Slice
import Modbus.Spec.Registers
import Mathlib.Tactic.SplitIfs
/-
  Helper lemmas for C04 / C13: the window logic of `Registers` over natural numbers.
-/
namespace Modbus.Lemmas
open Modbus Modbus.Model

/-- a `Registers` value as `NewRegisters` builds it: `n ≥ 1` registers, window inside the address space -/
structure RegWF (r : Registers) (d sp : Bytes) (n : Nat) : Prop where
  data : r.data = ⟨d, sp⟩
  len : d.length = 2 * n
  pos : 1 ≤ n
  end_ : r.end_ = r.start.toNat + n
  fits : r.start.toNat + n ≤ 65536

theorem newRegisters_wf (d sp : Bytes) (start : UInt16) (n : Nat) (hl : d.length = 2 * n) (hn : 1 ≤ n)
    (hf : start.toNat + n ≤ 65536) :
    ∃ r, newRegisters ⟨d, sp⟩ start = .ok r ∧ r.order = 9 ∧ r.start = start ∧ RegWF r d sp n := by
  refine ⟨{ order := 9, start := start, end_ := start.toNat + d.length / 2, data := ⟨d, sp⟩ }, ?_, rfl, rfl, ?_⟩
  · unfold newRegisters
    dsimp only
    rw [if_neg (by omega), if_neg (by omega)]
  · exact ⟨rfl, hl, hn, by simp; omega, hf⟩

theorem sub_toNat (a s : UInt16) (h : ¬ a < s) : (a - s).toNat = a.toNat - s.toNat := by
  have h' : s.toNat ≤ a.toNat := by
    rw [UInt16.lt_iff_toNat_lt] at h; omega
  rw [UInt16.toNat_sub_of_le _ _ (UInt16.le_iff_toNat_le.2 h')]

/-- the `k` registers starting at `addr`, when they all lie in the window -/
def inWin (r : Registers) (n : Nat) (addr : UInt16) (k : Nat) : Prop :=
  r.start.toNat ≤ addr.toNat ∧ addr.toNat + k ≤ r.start.toNat + n

instance (r : Registers) (n : Nat) (addr : UInt16) (k : Nat) : Decidable (inWin r n addr k) := by
  unfold inWin; infer_instance

/-- the wire bytes of those registers -/
def winBytes (r : Registers) (d : Bytes) (addr : UInt16) (k : Nat) : Bytes :=
  (d.drop (2 * (addr.toNat - r.start.toNat))).take (2 * k)

theorem winBytes_len (r : Registers) (d : Bytes) (n : Nat) (addr : UInt16) (k : Nat) (hl : d.length = 2 * n)
    (h : inWin r n addr k) : (winBytes r d addr k).length = 2 * k := by
  unfold winBytes inWin at *
  simp; omega

theorem register_eq (r : Registers) (d sp : Bytes) (n : Nat) (wf : RegWF r d sp n) (addr : UInt16) :
    r.register addr = if inWin r n addr 1 then .ok (winBytes r d addr 1) else .err .plain := by
  unfold Registers.register inWin winBytes
  rw [wf.data, wf.end_]
  by_cases h1 : addr < r.start
  · have : ¬ r.start.toNat ≤ addr.toNat := by rw [UInt16.lt_iff_toNat_lt] at h1; omega
    simp [h1, this]
  · have hs := sub_toNat addr r.start h1
    have hle : r.start.toNat ≤ addr.toNat := by rw [UInt16.lt_iff_toNat_lt] at h1; omega
    by_cases h2 : addr.toNat ≥ r.start.toNat + n
    · have : ¬ (addr.toNat + 1 ≤ r.start.toNat + n) := by omega
      simp [h1, h2, this]
    · have hin : addr.toNat + 1 ≤ r.start.toNat + n := by omega
      simp only [h1, h2, if_false, hle, hin, and_self, if_true, hs]
      have hl := wf.len
      rw [bytes_eq d sp _ _ (by omega) (by omega)]
      have e1 : (addr.toNat - r.start.toNat) * 2 + 2 - (addr.toNat - r.start.toNat) * 2 = 2 * 1 := by omega
      have e2 : (addr.toNat - r.start.toNat) * 2 = 2 * (addr.toNat - r.start.toNat) := by omega
      rw [e1, e2]


theorem drop_take_succ (l : Bytes) (i k : Nat) (h : i < l.length) :
    (l.drop i).take (k + 1) = l.getD i 0 :: (l.drop (i + 1)).take k := by
  rw [List.drop_eq_getElem_cons h, List.take_succ_cons]
  simp [List.getD_eq_getElem?_getD, List.getElem?_eq_getElem h]

theorem take4 (l : Bytes) (i : Nat) (h : i + 4 ≤ l.length) :
    (l.drop i).take 4 = [l.getD i 0, l.getD (i + 1) 0, l.getD (i + 2) 0, l.getD (i + 3) 0] := by
  rw [drop_take_succ l i 3 (by omega), drop_take_succ l (i + 1) 2 (by omega),
    drop_take_succ l (i + 1 + 1) 1 (by omega), drop_take_succ l (i + 1 + 1 + 1) 0 (by omega)]
  simp

theorem take8 (l : Bytes) (i : Nat) (h : i + 8 ≤ l.length) :
    (l.drop i).take 8 = [l.getD i 0, l.getD (i + 1) 0, l.getD (i + 2) 0, l.getD (i + 3) 0,
      l.getD (i + 4) 0, l.getD (i + 5) 0, l.getD (i + 6) 0, l.getD (i + 7) 0] := by
  rw [drop_take_succ l i 7 (by omega), drop_take_succ l (i + 1) 6 (by omega),
    drop_take_succ l (i + 1 + 1) 5 (by omega), drop_take_succ l (i + 1 + 1 + 1) 4 (by omega),
    drop_take_succ l (i + 1 + 1 + 1 + 1) 3 (by omega), drop_take_succ l (i + 1 + 1 + 1 + 1 + 1) 2 (by omega),
    drop_take_succ l (i + 1 + 1 + 1 + 1 + 1 + 1) 1 (by omega),
    drop_take_succ l (i + 1 + 1 + 1 + 1 + 1 + 1 + 1) 0 (by omega)]
  simp

/-- word order of a multi-register value: reversed when the LowWordFirst flag (4) is set -/
def reorder (o : ByteOrder) (w : Bytes) : Bytes :=
  (if o &&& 4 ≠ 0 then (Spec.words w).reverse else Spec.words w).flatten

theorem doubleRegister_eq (r : Registers) (d sp : Bytes) (n : Nat) (wf : RegWF r d sp n) (addr : UInt16)
    (o : ByteOrder) :
    r.doubleRegister addr o = if inWin r n addr 2 then .ok (reorder o (winBytes r d addr 2)) else .err .plain := by
  unfold Registers.doubleRegister inWin winBytes reorder
  rw [wf.data, wf.end_]
  by_cases h1 : addr < r.start
  · have : ¬ r.start.toNat ≤ addr.toNat := by rw [UInt16.lt_iff_toNat_lt] at h1; omega
    simp [h1, this]
  · have hs := sub_toNat addr r.start h1
    have hle : r.start.toNat ≤ addr.toNat := by rw [UInt16.lt_iff_toNat_lt] at h1; omega
    by_cases h2 : addr.toNat + 2 > r.start.toNat + n
    · have : ¬ (addr.toNat + 2 ≤ r.start.toNat + n) := by omega
      simp [h1, h2, this]
    · have hin : addr.toNat + 2 ≤ r.start.toNat + n := by omega
      have hl := wf.len
      simp only [h1, h2, if_false, hle, hin, and_self, if_true, hs]
      have e2 : (addr.toNat - r.start.toNat) * 2 = 2 * (addr.toNat - r.start.toNat) := by omega
      rw [e2]
      generalize hi : 2 * (addr.toNat - r.start.toNat) = i
      have hb : i + 4 ≤ d.length := by omega
      rw [show 2 * 2 = 4 from rfl, take4 d i hb]
      by_cases ho : o &&& 4 ≠ 0
      · simp (disch := omega) only [ho, if_true, idx_eq, Res.bind_ok, ne_eq, not_false_eq_true]
        simp [Spec.words]
      · simp only [ho, if_false]
        rw [bytes_eq d sp _ _ (by omega) (by omega)]
        have : i + 4 - i = 4 := by omega
        rw [this, take4 d i hb]
        simp [Spec.words]

theorem quadRegister_eq (r : Registers) (d sp : Bytes) (n : Nat) (wf : RegWF r d sp n) (addr : UInt16)
    (o : ByteOrder) :
    r.quadRegister addr o = if inWin r n addr 4 then .ok (reorder o (winBytes r d addr 4)) else .err .plain := by
  unfold Registers.quadRegister inWin winBytes reorder
  rw [wf.data, wf.end_]
  by_cases h1 : addr < r.start
  · have : ¬ r.start.toNat ≤ addr.toNat := by rw [UInt16.lt_iff_toNat_lt] at h1; omega
    simp [h1, this]
  · have hs := sub_toNat addr r.start h1
    have hle : r.start.toNat ≤ addr.toNat := by rw [UInt16.lt_iff_toNat_lt] at h1; omega
    by_cases h2 : addr.toNat + 4 > r.start.toNat + n
    · have : ¬ (addr.toNat + 4 ≤ r.start.toNat + n) := by omega
      simp [h1, h2, this]
    · have hin : addr.toNat + 4 ≤ r.start.toNat + n := by omega
      have hl := wf.len
      simp only [h1, h2, if_false, hle, hin, and_self, if_true, hs]
      have e2 : (addr.toNat - r.start.toNat) * 2 = 2 * (addr.toNat - r.start.toNat) := by omega
      rw [e2]
      generalize hi : 2 * (addr.toNat - r.start.toNat) = i
      have hb : i + 8 ≤ d.length := by omega
      rw [show 2 * 4 = 8 from rfl, take8 d i hb]
      by_cases ho : o &&& 4 ≠ 0
      · simp (disch := omega) only [ho, if_true, idx_eq, Res.bind_ok, ne_eq, not_false_eq_true]
        simp [Spec.words]
      · simp only [ho, if_false]
        rw [bytes_eq d sp _ _ (by omega) (by omega)]
        have : i + 8 - i = 8 := by omega
        rw [this, take8 d i hb]
        simp [Spec.words]


theorem words_flatten (l : Bytes) (h : l.length % 2 = 0) : (Spec.words l).flatten = l := by
  fun_induction Spec.words l with
  | case1 a b rest ih =>
    simp only [List.length_cons] at h
    simp [ih (by omega)]
  | case2 l hne =>
    match l with
    | [] => rfl
    | [x] => simp at h
    | a :: b :: rest => exact absurd rfl (hne a b rest)

theorem words_rev_flatten (l : Bytes) (h : l.length % 2 = 0) :
    ((Spec.words l).map List.reverse).flatten = swapPairs l := by
  fun_induction Spec.words l with
  | case1 a b rest ih =>
    simp only [List.length_cons] at h
    simp [swapPairs, ih (by omega)]
  | case2 l hne =>
    match l with
    | [] => rfl
    | [x] => simp at h
    | a :: b :: rest => exact absurd rfl (hne a b rest)

theorem string_eq (r : Registers) (d sp : Bytes) (n : Nat) (wf : RegWF r d sp n) (addr : UInt16)
    (len : UInt8) (o : ByteOrder) :
    r.string addr len o =
      if inWin r n addr ((len.toNat + 1) / 2) then
        .ok (Spec.strVal (r.ord o) len.toNat (winBytes r d addr ((len.toNat + 1) / 2)))
      else .err .plain := by
  unfold Registers.string inWin winBytes Spec.strVal
  rw [wf.data]
  dsimp only
  by_cases h1 : addr < r.start
  · have : ¬ r.start.toNat ≤ addr.toNat := by rw [UInt16.lt_iff_toNat_lt] at h1; omega
    simp [h1, this]
  · have hs := sub_toNat addr r.start h1
    have hle : r.start.toNat ≤ addr.toNat := by rw [UInt16.lt_iff_toNat_lt] at h1; omega
    have hl := wf.len
    have hk : len.toNat + (if len.toNat % 2 ≠ 0 then 1 else 0) = 2 * ((len.toNat + 1) / 2) := by
      split_ifs <;> omega
    simp only [h1, if_false, hs, Nat.add_assoc, hk]
    by_cases h2 : (addr.toNat - r.start.toNat) * 2 + 2 * ((len.toNat + 1) / 2) > d.length
    · have : ¬ (addr.toNat + (len.toNat + 1) / 2 ≤ r.start.toNat + n) := by omega
      simp [h2, this, hle]
    · have hin : addr.toNat + (len.toNat + 1) / 2 ≤ r.start.toNat + n := by omega
      simp only [h2, if_false, hle, hin, and_self, if_true]
      rw [bytes_eq d sp _ _ (by omega) (by omega)]
      simp only [Res.bind_ok]
      have e1 : (addr.toNat - r.start.toNat) * 2 + 2 * ((len.toNat + 1) / 2) - (addr.toNat - r.start.toNat) * 2
          = 2 * ((len.toNat + 1) / 2) := by omega
      have e2 : (addr.toNat - r.start.toNat) * 2 = 2 * (addr.toNat - r.start.toNat) := by omega
      rw [e1, e2]
      generalize hw : (d.drop (2 * (addr.toNat - r.start.toNat))).take (2 * ((len.toNat + 1) / 2)) = w
      have hwl : w.length % 2 = 0 := by
        rw [← hw]; simp; omega
      by_cases ho : r.ord o &&& 1 ≠ 0
      · simp only [ho, if_true, ne_eq, not_false_eq_true, words_rev_flatten w hwl]
      · simp only [ho, if_false, words_flatten w hwl]

end Modbus.Lemmas
