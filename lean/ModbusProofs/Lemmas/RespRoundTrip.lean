import ModbusProofs.Lemmas.RoundTrip
import ModbusProofs.Lemmas.Accepted
/-
  Response side: encode → parse round trips and decoder soundness (used by C02, C07, C12).
-/
namespace Modbus.Lemmas
open Modbus Modbus.Model

/-- response values the parsers return unchanged -/
def Resp.WF : Resp → Prop
  | .bits fc _ bl d => (fc = 1 ∨ fc = 2) ∧ bl.toNat = d.length ∧ 1 ≤ d.length
  | .regs fc _ bl d => (fc = 3 ∨ fc = 4 ∨ fc = 23) ∧ bl.toNat = d.length ∧ 2 ≤ d.length
  | .wcoil .. => True
  | .wreg .. => True
  | .wmulti fc .. => fc = 15 ∨ fc = 16
  | .sid _ _ id _ => 1 ≤ id.length ∧ id.length ≤ 255

theorem rt_bytecount_tcp (mk : UInt8 → UInt8 → Bytes → Resp) (fc : UInt8) (minLen : Nat) (tid : UInt16)
    (u bl : UInt8) (d : Bytes) (hpdu : (mk u bl d).pdu = [u, fc, bl] ++ d)
    (hbl : bl.toNat = d.length) (hmin : minLen ≤ 9 + d.length) (sp : Bytes) :
    parseByteCountRespTCP mk minLen ⟨(mk u bl d).bytesTCP tid, sp⟩ = .ok (tid, mk u bl d) := by
  unfold Resp.bytesTCP mbap put16 parseByteCountRespTCP
  rw [hpdu]
  have hl := bl.toNat_lt
  rt_simp
  split_ifs <;> first | omega | skip
  have : 9 + bl.toNat - 9 = d.length := by omega
  rw [this, List.take_length]

theorem rt_bytecount_rtu (mk : UInt8 → UInt8 → Bytes → Resp) (fc : UInt8) (minLen : Nat)
    (u bl : UInt8) (d : Bytes) (hpdu : (mk u bl d).pdu = [u, fc, bl] ++ d)
    (hbl : bl.toNat = d.length) (hmin : minLen ≤ 5 + d.length) (l h : UInt8) (sp : Bytes) :
    parseByteCountRespRTU mk minLen ⟨(mk u bl d).pdu ++ [l, h], sp⟩ = .ok (mk u bl d) := by
  unfold parseByteCountRespRTU
  rw [hpdu]
  have hl := bl.toNat_lt
  rt_simp
  split_ifs <;> first | omega | skip
  have : 3 + bl.toNat - 3 = d.length := by omega
  rw [this, List.take_left']
  rfl

theorem u16_6 : (UInt16.ofNat 6).toNat = 6 := by decide

theorem rt_wcoil_resp_tcp (tid : UInt16) (u : UInt8) (a : UInt16) (st : Bool) (sp : Bytes) :
    parseFixedRespTCP (mkWCoilResp 8) ⟨(Resp.wcoil u a st).bytesTCP tid, sp⟩ = .ok (tid, .wcoil u a st) := by
  unfold Resp.bytesTCP Resp.pdu mbap put16 parseFixedRespTCP mkWCoilResp
  rt_simp
  cases st <;> simp [u16_6]

theorem rt_wreg_resp_tcp (tid : UInt16) (u : UInt8) (a : UInt16) (d0 d1 : UInt8) (sp : Bytes) :
    parseFixedRespTCP (mkWRegResp 8) ⟨(Resp.wreg u a d0 d1).bytesTCP tid, sp⟩ = .ok (tid, .wreg u a d0 d1) := by
  unfold Resp.bytesTCP Resp.pdu mbap put16 parseFixedRespTCP mkWRegResp
  rt_simp
  simp [u16_6]

theorem rt_wmulti_resp_tcp (fc : UInt8) (tid : UInt16) (u : UInt8) (a c : UInt16) (sp : Bytes) :
    parseFixedRespTCP (mkWMultiResp fc 8) ⟨(Resp.wmulti fc u a c).bytesTCP tid, sp⟩ = .ok (tid, .wmulti fc u a c) := by
  unfold Resp.bytesTCP Resp.pdu mbap put16 parseFixedRespTCP mkWMultiResp
  rt_simp
  simp [u16_6]

theorem rt_wcoil_resp_rtu (u : UInt8) (a : UInt16) (st : Bool) (l h : UInt8) (sp : Bytes) :
    parseFixedRespRTU (mkWCoilResp 2) ⟨(Resp.wcoil u a st).pdu ++ [l, h], sp⟩ = .ok (.wcoil u a st) := by
  unfold Resp.pdu put16 parseFixedRespRTU mkWCoilResp
  rt_simp
  cases st <;> simp

theorem rt_wreg_resp_rtu (u : UInt8) (a : UInt16) (d0 d1 : UInt8) (l h : UInt8) (sp : Bytes) :
    parseFixedRespRTU (mkWRegResp 2) ⟨(Resp.wreg u a d0 d1).pdu ++ [l, h], sp⟩ = .ok (.wreg u a d0 d1) := by
  unfold Resp.pdu put16 parseFixedRespRTU mkWRegResp
  rt_simp
  simp

theorem rt_wmulti_resp_rtu (fc : UInt8) (u : UInt8) (a c : UInt16) (l h : UInt8) (sp : Bytes) :
    parseFixedRespRTU (mkWMultiResp fc 2) ⟨(Resp.wmulti fc u a c).pdu ++ [l, h], sp⟩ = .ok (.wmulti fc u a c) := by
  unfold Resp.pdu put16 parseFixedRespRTU mkWMultiResp
  rt_simp
  simp

end Modbus.Lemmas

namespace Modbus.Lemmas
open Modbus Modbus.Model

/-- well-formed response values of the nine functions other than FC17 -/
def Resp.WF9 : Resp → Prop
  | .sid .. => False
  | r => Resp.WF r

theorem rt_resp_tcp_fc (tid : UInt16) (r : Resp) (h : Resp.WF9 r) (sp : Bytes) :
    parseRespTCPfc r.fc ⟨r.bytesTCP tid, sp⟩ = .ok (tid, r) := by
  cases r with
  | bits fc u bl d =>
    obtain ⟨hfc, hbl, hd⟩ := h
    have hpdu : (Resp.bits fc u bl d).pdu = [u, fc, bl] ++ d := by
      simp [Resp.pdu, ← hbl]
    rcases hfc with rfl | rfl <;>
      exact rt_bytecount_tcp (Resp.bits _) _ 10 tid u bl d hpdu hbl (by omega) sp
  | regs fc u bl d =>
    obtain ⟨hfc, hbl, hd⟩ := h
    have hpdu : (Resp.regs fc u bl d).pdu = [u, fc, bl] ++ d := by
      simp [Resp.pdu, hbl]
    rcases hfc with rfl | rfl | rfl <;>
      exact rt_bytecount_tcp (Resp.regs _) _ 11 tid u bl d hpdu hbl (by omega) sp
  | wcoil u a s => exact rt_wcoil_resp_tcp tid u a s sp
  | wreg u a d0 d1 => exact rt_wreg_resp_tcp tid u a d0 d1 sp
  | wmulti fc u a c =>
    rcases h with rfl | rfl <;> exact rt_wmulti_resp_tcp _ tid u a c sp
  | sid u st id add => exact absurd h (by simp [Resp.WF9])

theorem rt_resp_rtu_fc (r : Resp) (h : Resp.WF9 r) (l hh : UInt8) (sp : Bytes) :
    parseRespRTUfc r.fc ⟨r.pdu ++ [l, hh], sp⟩ = .ok r := by
  cases r with
  | bits fc u bl d =>
    obtain ⟨hfc, hbl, hd⟩ := h
    have hpdu : (Resp.bits fc u bl d).pdu = [u, fc, bl] ++ d := by
      simp [Resp.pdu, ← hbl]
    rcases hfc with rfl | rfl <;>
      exact rt_bytecount_rtu (Resp.bits _) _ 6 u bl d hpdu hbl (by omega) l hh sp
  | regs fc u bl d =>
    obtain ⟨hfc, hbl, hd⟩ := h
    have hpdu : (Resp.regs fc u bl d).pdu = [u, fc, bl] ++ d := by
      simp [Resp.pdu, hbl]
    rcases hfc with rfl | rfl | rfl <;>
      exact rt_bytecount_rtu (Resp.regs _) _ 7 u bl d hpdu hbl (by omega) l hh sp
  | wcoil u a s => exact rt_wcoil_resp_rtu u a s l hh sp
  | wreg u a d0 d1 => exact rt_wreg_resp_rtu u a d0 d1 l hh sp
  | wmulti fc u a c =>
    rcases h with rfl | rfl <;> exact rt_wmulti_resp_rtu _ u a c l hh sp
  | sid u st id add => exact absurd h (by simp [Resp.WF9])

/-! ### read server id (FC17): id length, id bytes, run status, optional additional data -/

theorem rt_sidresp_tcp_aux (tid : UInt16) (len : UInt16) (u st bl : UInt8) (id t : Bytes)
    (hbl : bl.toNat = id.length) (h1 : 1 ≤ id.length) (sp : Bytes) :
    parseSidRespTCP ⟨mbap tid len ++ ([u, 17, bl] ++ id ++ [st] ++ t), sp⟩ =
      .ok (tid, .sid u st id (if t = [] then none else some t)) := by
  unfold mbap put16 parseSidRespTCP
  have hl := bl.toNat_lt
  have hb0 : bl ≠ 0 := by
    intro e; rw [e] at hbl; simp at hbl; omega
  rt_simp
  rw [hbl]
  have e1 : List.take (9 + id.length - 9) (id ++ [st] ++ t) = id := by
    rw [show 9 + id.length - 9 = id.length by omega, List.append_assoc, List.take_left']; rfl
  have e2 : (lo8 tid :: 0 :: 0 :: hi8 len :: lo8 len :: u :: 17 :: bl :: (id ++ [st] ++ t)).getD (8 + id.length) 0 = st := by
    rw [show 8 + id.length = id.length + 8 by omega]
    simp [List.getD_eq_getElem?_getD, List.getElem?_append_right]
  have e3 : List.drop (8 + id.length) (0 :: 0 :: hi8 len :: lo8 len :: u :: 17 :: bl :: (id ++ [st] ++ t)) = t := by
    rw [show 8 + id.length = id.length + 8 by omega]
    simp [List.drop_append]
  rw [e1, e2, e3]
  by_cases ht : t = []
  · subst ht
    have c1 : ¬ (id.length + 1 + 1 + 1 + 1 + 1 + 1 + 1 + 1 + 1 + 1 < 11) := by omega
    have c2 : ¬ (id.length + 1 + 1 + 1 + 1 + 1 + 1 + 1 + 1 + 1 ≤ 8 + id.length) := by omega
    have c3 : ¬ (8 + id.length < id.length + 8) := by omega
    simp [hb0, c1, c2, c3]
  · have hp : 0 < t.length := List.length_pos_iff.2 ht
    simp only [hb0, ht, if_false]
    split_ifs <;> first | omega | rfl

theorem rt_sidresp_rtu_aux (u st bl l h : UInt8) (id t : Bytes)
    (hbl : bl.toNat = id.length) (h1 : 1 ≤ id.length) (sp : Bytes) :
    parseSidRespRTU ⟨[u, 17, bl] ++ id ++ [st] ++ t ++ [l, h], sp⟩ = .ok (.sid u st id (some t)) := by
  unfold parseSidRespRTU
  have hl := bl.toNat_lt
  have hb0 : bl ≠ 0 := by
    intro e; rw [e] at hbl; simp at hbl; omega
  rt_simp
  rw [hbl]
  have e1 : List.take (3 + id.length - 3) (id ++ [st] ++ t ++ [l, h]) = id := by
    rw [show 3 + id.length - 3 = id.length by omega, List.append_assoc, List.append_assoc, List.take_left']; rfl
  have e2 : (17 :: bl :: (id ++ [st] ++ t ++ [l, h])).getD (2 + id.length) 0 = st := by
    rw [show 2 + id.length = id.length + 2 by omega]
    simp [List.getD_eq_getElem?_getD]
  have e3 : List.take (id.length + 1 + t.length + 2 + 1 + 1 + 1 - 2 - (2 + id.length + 1 + 1))
      (List.drop (2 + id.length) (bl :: (id ++ [st] ++ t ++ [l, h]))) = t := by
    rw [show 2 + id.length = id.length + 2 by omega]
    rw [show id.length + 1 + t.length + 2 + 1 + 1 + 1 - 2 - (id.length + 2 + 1 + 1) = t.length by omega]
    simp [List.drop_append]
    rw [List.drop_eq_nil_of_le (by omega), List.nil_append, List.take_left']; rfl
  rw [e1, e2, e3]
  simp only [hb0, if_false]
  split_ifs <;> first | omega | rfl

end Modbus.Lemmas
