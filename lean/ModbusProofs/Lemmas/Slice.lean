import Modbus.Model.Response
/-
  In-bounds accessors on a Go slice do not look at (or depend on) the spare capacity.
-/
namespace Modbus.Lemmas
open Modbus Modbus.Model

variable {ε : Type}

theorem idx_eq (v sp : Bytes) (i : Nat) (h : i < v.length) :
    (Slice.mk v sp).idx (ε := ε) i = .ok (v.getD i 0) := by
  unfold Slice.idx
  simp [h, List.getD_eq_getElem?_getD, List.getElem?_eq_getElem h]

theorem sub_eq (v sp : Bytes) (a b : Nat) (hab : a ≤ b) (hb : b ≤ v.length) :
    (Slice.mk v sp).sub (ε := ε) a b = .ok ⟨(v.drop a).take (b - a), (v ++ sp).drop b⟩ := by
  unfold Slice.sub Slice.cap Slice.all
  have : a ≤ b ∧ b ≤ v.length + sp.length := ⟨hab, by omega⟩
  simp only [this, and_self, if_true]
  congr 2
  rw [List.drop_append_of_le_length (by omega), List.take_append_of_le_length (by simp; omega)]

theorem bytes_eq (v sp : Bytes) (a b : Nat) (hab : a ≤ b) (hb : b ≤ v.length) :
    (Slice.mk v sp).bytes (ε := ε) a b = .ok ((v.drop a).take (b - a)) := by
  unfold Slice.bytes
  rw [sub_eq v sp a b hab hb]
  rfl

theorem rd16_eq (v sp : Bytes) (a : Nat) (h : a + 2 ≤ v.length) :
    (Slice.mk v sp).rd16 (ε := ε) a = .ok (be16 (v.getD a 0) (v.getD (a + 1) 0)) := by
  unfold Slice.rd16
  rw [sub_eq v sp a (a + 2) (by omega) h]
  simp only [Res.bind_ok]
  have h2 : (v.drop a).take (a + 2 - a) = [v.getD a 0, v.getD (a + 1) 0] := by
    have : a + 2 - a = 2 := by omega
    rw [this]
    apply List.ext_getElem
    · simp; omega
    · intro i h1 h2
      have hi : i < 2 := by simpa using h2
      simp only [List.getElem_take, List.getElem_drop]
      rcases i with _ | _ | i
      · simp [List.getD_eq_getElem?_getD, List.getElem?_eq_getElem (show a < v.length by omega)]
      · simp [List.getD_eq_getElem?_getD, List.getElem?_eq_getElem (show a + 1 < v.length by omega)]
      · omega
  rw [h2]

theorem from_eq (v sp : Bytes) (a : Nat) (h : a ≤ v.length) :
    (Slice.mk v sp).from_ (ε := ε) a = .ok ⟨v.drop a, sp⟩ := by
  unfold Slice.from_ Slice.len
  simp [h]

theorem copyOut_eq (v sp : Bytes) (a n : Nat) (h : a + n ≤ v.length) :
    copyOut (Slice.mk v sp) a n = .ok ((v.drop a).take n) := by
  unfold copyOut
  split
  · rw [bytes_eq v sp a (a + n) (by omega) h]
    congr 2
    omega
  · have : n = 0 := by omega
    subst this
    simp

end Modbus.Lemmas
