import ModbusProofs.Lemmas.Classifier
import Modbus.Model.Assembler
import ModbusProofs.Lemmas.Safe
/-
  The reassembly loop of the TCP server (`ModbusTCPAssembler.ReceiveRead`).
-/
namespace Modbus.Lemmas
open Modbus Modbus.Model

theorem getD_append_left (a b : Bytes) (i : Nat) (hi : i < a.length) : (a ++ b).getD i 0 = a.getD i 0 := by
  simp only [List.getD_eq_getElem?_getD]
  rw [List.getElem?_append_left hi]

/-- the classifier only looks at the first eight bytes -/
theorem looksLike_append (a b sp sp' : Bytes) (allow : Bool) (h8 : 8 ≤ a.length) :
    looksLike ⟨a ++ b, sp⟩ allow = looksLike ⟨a, sp'⟩ allow := by
  rw [looksLike_eq (a ++ b) sp allow (by simp; omega), looksLike_eq a sp' allow h8]
  rw [getD_append_left a b 0 (by omega), getD_append_left a b 1 (by omega), getD_append_left a b 2 (by omega),
    getD_append_left a b 3 (by omega), getD_append_left a b 4 (by omega), getD_append_left a b 5 (by omega),
    getD_append_left a b 6 (by omega), getD_append_left a b 7 (by omega)]

/-- the expected length the classifier reports is at least 9 -/
theorem looksLike_len (a sp : Bytes) (n : Nat) (e : Option PErr) (h : looksLike ⟨a, sp⟩ false = .ok (n, e))
    (hne : e ≠ some .tooShortT) (hnt : e ≠ some .notTCP) : 8 ≤ a.length ∧ 9 ≤ n := by
  by_cases h8 : a.length < 8
  · rw [looksLike_short a sp false h8] at h
    injection h with h; injection h with _ h2; exact absurd h2.symm hne
  · have h8' : 8 ≤ a.length := by omega
    refine ⟨h8', ?_⟩
    rw [looksLike_eq a sp false h8'] at h
    by_cases h1 : ¬(a.getD 2 0 = 0 ∧ a.getD 3 0 = 0)
    · rw [if_pos h1] at h; injection h with h; injection h with _ he; exact absurd he.symm hnt
    · rw [if_neg h1] at h
      by_cases h2 : be16 (a.getD 4 0) (a.getD 5 0) < 3
      · rw [if_pos h2] at h; injection h with h; injection h with _ he; exact absurd he.symm hnt
      · rw [if_neg h2] at h
        have hge : 3 ≤ (be16 (a.getD 4 0) (a.getD 5 0)).toNat := by
          rw [UInt16.lt_iff_toNat_lt] at h2
          have : (3 : UInt16).toNat = 3 := rfl
          omega
        by_cases h3 : a.getD 7 0 = 0
        · rw [if_pos h3] at h; injection h with h; injection h with _ he; exact absurd he.symm hnt
        · rw [if_neg h3] at h
          simp only [Bool.false_eq_true, if_false] at h
          split_ifs at h <;> (injection h with h; injection h with hn _; omega)

/-- the loop does not depend on the amount of fuel once there is enough of it -/
theorem asmLoop_fuel (h : Handler) : ∀ (f1 f2 : Nat) (buf out : Bytes), buf.length < f1 → buf.length < f2 →
    asmLoop h f1 buf out = asmLoop h f2 buf out := by
  intro f1
  induction f1 with
  | zero => intro f2 buf out h1 _; omega
  | succ f1 ih =>
    intro f2 buf out h1 h2
    cases f2 with
    | zero => omega
    | succ f2 =>
      unfold asmLoop
      cases hl : looksLike ⟨buf, []⟩ false with
      | panic => rfl
      | err e => rfl
      | ok x =>
        obtain ⟨n, e⟩ := x
        by_cases hts : e = some .tooShortT
        · subst hts; rfl
        · by_cases hnt : e = some .notTCP
          · subst hnt; rfl
          · have ⟨_, h9⟩ := looksLike_len buf [] n e hl hts hnt
            have hstep : ∀ (o : Bytes), asmLoop h f1 (buf.drop n) o = asmLoop h f2 (buf.drop n) o := by
              intro o
              by_cases hb : buf.length < n
              · -- not used in this case
                exact ih f2 _ _ (by simp; omega) (by simp; omega)
              · exact ih f2 _ _ (by simp; omega) (by simp; omega)
            cases e with
            | none =>
              simp only []
              split_ifs
              · rfl
              · cases handleFrame h (buf.take n) (buf.drop n) with
                | none => rfl
                | some r => exact hstep _
            | some err =>
              cases err <;> simp only [] <;> first
                | exact absurd rfl hts
                | exact absurd rfl hnt
                | (split_ifs
                   · rfl
                   · exact hstep _)

/-- the reply to a delimited frame does not depend on what follows it in the reassembly buffer -/
theorem handleFrame_spare (h : Handler) (frame sp1 sp2 : Bytes) : handleFrame h frame sp1 = handleFrame h frame sp2 := by
  unfold handleFrame
  rw [(safe_parseTCPRequest frame sp1).1, (safe_parseTCPRequest frame sp2).1]

/-- what one round of the loop does, for a buffer whose head is a complete frame of `n` bytes -/
theorem asmLoop_step (h : Handler) (f : Nat) (buf out : Bytes) (n : Nat) (e : Option PErr)
    (hl : looksLike ⟨buf, []⟩ false = .ok (n, e)) (hts : e ≠ some .tooShortT) (hnt : e ≠ some .notTCP)
    (hn : n ≤ buf.length) :
    asmLoop h (f + 1) buf out =
      match e with
      | some err => asmLoop h f (buf.drop n) (out ++ (err.bytes).getD [])
      | none =>
        match handleFrame h (buf.take n) (buf.drop n) with
        | some r => asmLoop h f (buf.drop n) (out ++ r)
        | none => { reply := out, close := true, buf := buf.drop n, panicked := true } := by
  rw [asmLoop]
  simp only [hl]
  have hlt : ¬ buf.length < n := by omega
  cases e with
  | none => rw [if_neg hlt]; rfl
  | some err =>
    cases err <;> first
      | exact absurd rfl hts
      | exact absurd rfl hnt
      | rw [if_neg hlt]

/-- the residual buffer is a suffix of the buffer: never longer -/
theorem asmLoop_buf_le (h : Handler) : ∀ (f : Nat) (buf out : Bytes), (asmLoop h f buf out).buf.length ≤ buf.length := by
  intro f
  induction f with
  | zero => intro buf out; simp [asmLoop]
  | succ f ih =>
    intro buf out
    cases hl : looksLike ⟨buf, []⟩ false with
    | panic => simp [asmLoop, hl]
    | err e => simp [asmLoop, hl]
    | ok x =>
      obtain ⟨n, e⟩ := x
      by_cases hts : e = some .tooShortT
      · subst hts; simp [asmLoop, hl]
      · by_cases hnt : e = some .notTCP
        · subst hnt; simp [asmLoop, hl]
        · by_cases hn : n ≤ buf.length
          · rw [asmLoop_step h f buf out n e hl hts hnt hn]
            have hd : (buf.drop n).length ≤ buf.length := by simp
            cases e with
            | some err => exact Nat.le_trans (ih _ _) hd
            | none =>
              simp only []
              cases handleFrame h (buf.take n) (buf.drop n) with
              | none => exact hd
              | some r => exact Nat.le_trans (ih _ _) hd
          · rw [asmLoop]
            simp only [hl]
            have hlt : buf.length < n := by omega
            cases e with
            | none => simp [hlt]
            | some err => cases err <;> first | exact absurd rfl hts | exact absurd rfl hnt | simp [hlt]

/-- **segmentation independence, core**: running the loop on `a`, then on what is left plus `b`, is the same as
running it on `a ++ b` -/
theorem asmLoop_append (h : Handler) : ∀ (f : Nat) (a b out : Bytes), a.length < f →
    (asmLoop h f a out).close = false → (asmLoop h f a out).panicked = false →
    ∀ F, (a ++ b).length < F →
      asmLoop h F (a ++ b) out = asmLoop h F ((asmLoop h f a out).buf ++ b) (asmLoop h f a out).reply := by
  intro f
  induction f with
  | zero => intro a b out h0; omega
  | succ f ih =>
    intro a b out hf hc hp F hF
    cases hl : looksLike ⟨a, []⟩ false with
    | panic => simp [asmLoop, hl] at hp
    | err e => simp [asmLoop, hl] at hp
    | ok x =>
      obtain ⟨n, e⟩ := x
      by_cases hts : e = some .tooShortT
      · subst hts; simp [asmLoop, hl]
      · by_cases hnt : e = some .notTCP
        · subst hnt; simp [asmLoop, hl] at hc
        · have ⟨h8, h9⟩ := looksLike_len a [] n e hl hts hnt
          by_cases hn : n ≤ a.length
          · -- a complete frame at the head of `a`: the same frame is at the head of `a ++ b`
            have hlab : looksLike ⟨a ++ b, []⟩ false = .ok (n, e) := by rw [looksLike_append a b [] [] false h8, hl]
            have hnab : n ≤ (a ++ b).length := by simp; omega
            obtain ⟨F', rfl⟩ : ∃ F', F = F' + 1 := ⟨F - 1, by omega⟩
            rw [asmLoop_step h f a out n e hl hts hnt hn] at hc hp ⊢
            rw [asmLoop_step h F' (a ++ b) out n e hlab hts hnt hnab]
            have htake : (a ++ b).take n = a.take n := List.take_append_of_le_length hn
            have hdrop : (a ++ b).drop n = a.drop n ++ b := List.drop_append_of_le_length hn
            have hlen : (a.drop n).length < f := by simp; omega
            have hF' : (a.drop n ++ b).length < F' := by simp at hF ⊢; omega
            rw [htake, hdrop]
            cases e with
            | some err =>
              simp only [] at hc hp ⊢
              have := ih (a.drop n) b (out ++ (err.bytes).getD []) hlen hc hp F' hF'
              rw [this]
              have hb := asmLoop_buf_le h f (a.drop n) (out ++ (err.bytes).getD [])
              have h2 : (a.drop n ++ b).length = (a.drop n).length + b.length := List.length_append
              apply asmLoop_fuel <;> (rw [List.length_append]; omega)
            | none =>
              simp only [] at hc hp ⊢
              rw [handleFrame_spare h (a.take n) (a.drop n ++ b) (a.drop n)]
              cases hh : handleFrame h (a.take n) (a.drop n) with
              | none => simp [hh] at hp
              | some r =>
                simp only [hh] at hc hp ⊢
                have := ih (a.drop n) b (out ++ r) hlen hc hp F' hF'
                rw [this]
                have hb := asmLoop_buf_le h f (a.drop n) (out ++ r)
                have h2 : (a.drop n ++ b).length = (a.drop n).length + b.length := List.length_append
                apply asmLoop_fuel <;> (rw [List.length_append]; omega)
          · -- the frame at the head of `a` is incomplete: nothing happens on `a`
            have : asmLoop h (f + 1) a out = { reply := out, close := false, buf := a } := by
              rw [asmLoop]
              simp only [hl]
              have hlt : a.length < n := by omega
              cases e with
              | none => simp [hlt]
              | some err => cases err <;> first | exact absurd rfl hts | exact absurd rfl hnt | simp [hlt]
            rw [this]

end Modbus.Lemmas

namespace Modbus.Lemmas
open Modbus Modbus.Model

/-- the output accumulator is only ever extended -/
theorem asmLoop_out (h : Handler) : ∀ (f : Nat) (buf out : Bytes),
    asmLoop h f buf out = { asmLoop h f buf [] with reply := out ++ (asmLoop h f buf []).reply } := by
  intro f
  induction f with
  | zero => intro buf out; simp [asmLoop]
  | succ f ih =>
    intro buf out
    cases hl : looksLike ⟨buf, []⟩ false with
    | panic => simp [asmLoop, hl]
    | err e => simp [asmLoop, hl]
    | ok x =>
      obtain ⟨n, e⟩ := x
      by_cases hts : e = some .tooShortT
      · subst hts; simp [asmLoop, hl]
      · by_cases hnt : e = some .notTCP
        · subst hnt; simp [asmLoop, hl]
        · by_cases hn : n ≤ buf.length
          · rw [asmLoop_step h f buf out n e hl hts hnt hn, asmLoop_step h f buf [] n e hl hts hnt hn]
            cases e with
            | some err =>
              simp only [List.nil_append]
              rw [ih _ (out ++ _), ih _ ((err.bytes).getD [])]
              simp [List.append_assoc]
            | none =>
              simp only [List.nil_append]
              cases handleFrame h (buf.take n) (buf.drop n) with
              | none => simp
              | some r =>
                simp only []
                rw [ih _ (out ++ r), ih _ r]
                simp [List.append_assoc]
          · have hlt : buf.length < n := by omega
            rw [asmLoop, asmLoop]
            simp only [hl]
            cases e with
            | none => simp [hlt]
            | some err => cases err <;> first | exact absurd rfl hts | exact absurd rfl hnt | simp [hlt]

/-- a frame the classifier delimits: it reports the frame's own length, with or without an
"unsupported function" exception -/
def Delimited (f : Bytes) : Prop :=
  ∃ e, looksLike ⟨f, []⟩ false = .ok (f.length, e) ∧ e ≠ some .tooShortT ∧ e ≠ some .notTCP

/-- bytes that are the beginning of a frame still being received: fewer than 8 bytes, or a header announcing more -/
def Pending (p : Bytes) : Prop :=
  p.length < 8 ∨ ∃ n e, looksLike ⟨p, []⟩ false = .ok (n, e) ∧ e ≠ some .tooShortT ∧ e ≠ some .notTCP ∧ p.length < n

/-- the reply to one delimited frame arriving on its own; `none` = the handler panicked -/
def frameReply (h : Handler) (f : Bytes) : Option Bytes :=
  match looksLike ⟨f, []⟩ false with
  | .ok (_, some err) => some ((err.bytes).getD [])
  | .ok (_, none) => handleFrame h f []
  | _ => none

theorem asmLoop_pending (h : Handler) (f : Nat) (p out : Bytes) (hp : Pending p) :
    asmLoop h (f + 1) p out = { reply := out, close := false, buf := p } := by
  rcases hp with h8 | ⟨n, e, hl, hts, hnt, hlt⟩
  · rw [asmLoop, looksLike_short p [] false h8]
  · rw [asmLoop]
    simp only [hl]
    cases e with
    | none => simp [hlt]
    | some err => cases err <;> first | exact absurd rfl hts | exact absurd rfl hnt | simp [hlt]

/-- **exactly once, in order**: a buffer that consists of delimited frames followed by the beginning of the next
one yields the frames' replies in order and keeps exactly the pending bytes -/
theorem asmLoop_frames (h : Handler) : ∀ (fs : List Bytes) (p out : Bytes) (F : Nat),
    (∀ f ∈ fs, Delimited f) → Pending p → (∀ f ∈ fs, (frameReply h f).isSome) → (fs.flatten ++ p).length < F →
    asmLoop h F (fs.flatten ++ p) out =
      { reply := out ++ (fs.map fun f => (frameReply h f).getD []).flatten, close := false, buf := p } := by
  intro fs
  induction fs with
  | nil =>
    intro p out F _ hp _ hF
    obtain ⟨F', rfl⟩ : ∃ F', F = F' + 1 := ⟨F - 1, by omega⟩
    simpa using asmLoop_pending h F' p out hp
  | cons f rest ih =>
    intro p out F hd hp hr hF
    obtain ⟨e, hl, hts, hnt⟩ := hd f (by simp)
    have ⟨h8, h9⟩ := looksLike_len f [] f.length e hl hts hnt
    obtain ⟨F', rfl⟩ : ∃ F', F = F' + 1 := ⟨F - 1, by omega⟩
    have hbuf : (f :: rest).flatten ++ p = f ++ (rest.flatten ++ p) := by simp
    rw [hbuf]
    have hlab : looksLike ⟨f ++ (rest.flatten ++ p), []⟩ false = .ok (f.length, e) := by
      rw [looksLike_append f _ [] [] false h8, hl]
    rw [asmLoop_step h F' _ out f.length e hlab hts hnt (by simp)]
    have htake : (f ++ (rest.flatten ++ p)).take f.length = f := by simp
    have hdrop : (f ++ (rest.flatten ++ p)).drop f.length = rest.flatten ++ p := by simp
    rw [htake, hdrop]
    have hF' : (rest.flatten ++ p).length < F' := by
      rw [hbuf] at hF; simp at hF ⊢; omega
    have hfr := hr f (by simp)
    unfold frameReply at hfr ⊢
    rw [hl] at hfr
    cases e with
    | some err =>
      simp only [] at hfr ⊢
      rw [ih p _ F' (fun g hg => hd g (by simp [hg])) hp (fun g hg => hr g (by simp [hg])) hF']
      simp [frameReply, hl, List.append_assoc]
    | none =>
      simp only [] at hfr ⊢
      rw [handleFrame_spare h f (rest.flatten ++ p) []]
      cases hh : handleFrame h f [] with
      | none => rw [hh] at hfr; simp at hfr
      | some r =>
        simp only []
        rw [ih p _ F' (fun g hg => hd g (by simp [hg])) hp (fun g hg => hr g (by simp [hg])) hF']
        simp [frameReply, hl, hh, List.append_assoc]

end Modbus.Lemmas

namespace Modbus.Lemmas
open Modbus Modbus.Model

theorem looksLike_ok (a sp : Bytes) (allow : Bool) : ∃ x, looksLike ⟨a, sp⟩ allow = .ok x := by
  by_cases h8 : a.length < 8
  · exact ⟨_, looksLike_short a sp allow h8⟩
  · rw [looksLike_eq a sp allow (by omega)]
    split_ifs <;> exact ⟨_, rfl⟩

def Stopped (o : AsmOut) : Prop := o.close = true ∨ o.panicked = true

/-- a connection that is closed (or whose handler panicked) on the bytes received so far would also have been
closed had more bytes arrived in the same read -/
theorem asmLoop_append_stopped (h : Handler) : ∀ (f : Nat) (a b out : Bytes), a.length < f →
    Stopped (asmLoop h f a out) → ∀ F, (a ++ b).length < F → Stopped (asmLoop h F (a ++ b) out) := by
  intro f
  induction f with
  | zero => intro a b out h0; omega
  | succ f ih =>
    intro a b out hf hs F hF
    obtain ⟨x, hl⟩ := looksLike_ok a [] false
    obtain ⟨n, e⟩ := x
    by_cases hts : e = some .tooShortT
    · subst hts
      simp [asmLoop, hl, Stopped] at hs
    · by_cases hnt : e = some .notTCP
      · subst hnt
        -- not Modbus: at least 8 bytes were there, the verdict is the same on the longer buffer
        have h8 : 8 ≤ a.length := by
          by_cases h8 : a.length < 8
          · rw [looksLike_short a [] false h8] at hl; simp at hl
          · omega
        obtain ⟨F', rfl⟩ : ∃ F', F = F' + 1 := ⟨F - 1, by omega⟩
        rw [asmLoop, looksLike_append a b [] [] false h8, hl]
        exact Or.inl rfl
      · have ⟨h8, h9⟩ := looksLike_len a [] n e hl hts hnt
        by_cases hn : n ≤ a.length
        · have hlab : looksLike ⟨a ++ b, []⟩ false = .ok (n, e) := by rw [looksLike_append a b [] [] false h8, hl]
          have hnab : n ≤ (a ++ b).length := by simp; omega
          obtain ⟨F', rfl⟩ : ∃ F', F = F' + 1 := ⟨F - 1, by omega⟩
          rw [asmLoop_step h f a out n e hl hts hnt hn] at hs
          rw [asmLoop_step h F' (a ++ b) out n e hlab hts hnt hnab]
          have htake : (a ++ b).take n = a.take n := List.take_append_of_le_length hn
          have hdrop : (a ++ b).drop n = a.drop n ++ b := List.drop_append_of_le_length hn
          have hlen : (a.drop n).length < f := by simp; omega
          have hF' : (a.drop n ++ b).length < F' := by simp at hF ⊢; omega
          rw [htake, hdrop]
          cases e with
          | some err => exact ih _ _ _ hlen hs F' hF'
          | none =>
            simp only [] at hs ⊢
            rw [handleFrame_spare h (a.take n) (a.drop n ++ b) (a.drop n)]
            cases hh : handleFrame h (a.take n) (a.drop n) with
            | none => exact Or.inl rfl
            | some r =>
              simp only [hh] at hs ⊢
              exact ih _ _ _ hlen hs F' hF'
        · exfalso
          have : asmLoop h (f + 1) a out = { reply := out, close := false, buf := a } := by
            rw [asmLoop]
            simp only [hl]
            have hlt : a.length < n := by omega
            cases e with
            | none => simp [hlt]
            | some err => cases err <;> first | exact absurd rfl hts | exact absurd rfl hnt | simp [hlt]
          rw [this] at hs
          simp [Stopped] at hs

end Modbus.Lemmas
