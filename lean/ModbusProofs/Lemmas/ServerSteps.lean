import ModbusProofs.Lemmas.ServerInv
/-
  Every step of every process preserves the invariant.
-/
namespace Modbus.Lemmas.ServerLife
open Modbus.Model.ServerLife

/-! ### environment -/

theorem inv_clientSend (cfg : Cfg) (s : St) (c r : Nat) (k : Kind) (h : Inv cfg s) : Inv cfg (step cfg s (.clientSend c r k)) := by
  simp only [step]
  split
  · exact inv_conn_irrelevant cfg s c _ h rfl rfl rfl rfl rfl rfl rfl rfl rfl rfl
  · exact h

theorem inv_clientClose (cfg : Cfg) (s : St) (c : Nat) (h : Inv cfg s) : Inv cfg (step cfg s (.clientClose c)) := by
  simp only [step]
  exact inv_conn_irrelevant cfg s c _ h rfl rfl rfl rfl rfl rfl rfl rfl rfl rfl

theorem inv_conn (cfg : Cfg) (s : St) (c : Nat) (h : Inv cfg s) : Inv cfg (step cfg s (.conn c)) := by
  simp only [step, connStep]
  apply inv_conn_upd cfg s c _ _ h (cinv_connTrans cfg _ _ _ _ (h.cinv c))
  · intro hf; rw [connTrans_notStarted _ _ _ _ _ hf.pc]; exact Or.inl hf
  · exact connTrans_counted cfg _ _ _ _
  · intro hm; exact Or.inl ((connTrans_inMap cfg _ _ _ _).1 hm)
  · exact (connTrans_inMap cfg _ _ _ _).2

theorem inv_ctxCancel (cfg : Cfg) (s : St) (h : Inv cfg s) : Inv cfg (step cfg s .ctxCancel) := by
  simp only [step]
  apply inv_globals cfg s _ h
  · rfl
  · rfl
  · rfl
  · exact ⟨h.qnodup, fun _ hc => hc⟩
  · intro c hc; exact Or.inl ⟨hc, (h.accC c hc).2.2⟩
  · exact h.shut
  · exact h.remMap
  · exact h.sweep
  · exact h.retOk
  · exact h.lis
  · intro _; exact Or.inr (Or.inl rfl)
  · exact h.accRet

theorem inv_sdCtxExpire (cfg : Cfg) (s : St) (h : Inv cfg s) : Inv cfg (step cfg s .sdCtxExpire) := by
  simp only [step]
  apply inv_globals cfg s _ h
  · rfl
  · rfl
  · rfl
  · exact ⟨h.qnodup, fun _ hc => hc⟩
  · intro c hc; exact Or.inl ⟨hc, (h.accC c hc).2.2⟩
  · exact h.shut
  · exact h.remMap
  · exact h.sweep
  · exact h.retOk
  · exact h.lis
  · exact h.lisC
  · exact h.accRet

theorem inv_afterFunc (cfg : Cfg) (s : St) (h : Inv cfg s) : Inv cfg (step cfg s .afterFunc) := by
  simp only [step]
  split
  · rename_i hc
    simp only [Bool.and_eq_true] at hc
    apply inv_globals cfg s _ h
    · rfl
    · rfl
    · rfl
    · exact ⟨h.qnodup, fun _ hc => hc⟩
    · intro c hc; exact Or.inl ⟨hc, (h.accC c hc).2.2⟩
    · exact h.shut
    · exact h.remMap
    · exact h.sweep
    · exact h.retOk
    · intro _ _; rfl
    · intro _; exact Or.inr (Or.inl hc.1)
    · exact h.accRet
  · exact h

theorem fresh_clientOpen {cn : Conn} (h : Fresh cn) (b : Bool) : Fresh { cn with clientOpen := b } :=
  ⟨h.pc, h.open_, h.rej, h.ref, h.cbs, h.map, h.st, h.started⟩

theorem inv_clientConnect (cfg : Cfg) (s : St) (c : Nat) (h : Inv cfg s) : Inv cfg (step cfg s (.clientConnect c)) := by
  simp only [step]
  split
  · exact h
  · rename_i hc
    have hc : c ∉ s.ids := by simpa using hc
    have hfc := h.fresh c hc
    have hcq : c ∉ s.queue := fun hq => hc (h.qsub c hq).1
    split
    · -- the connection enters the backlog
      have hconn : ∀ d, d ≠ c → (s.setC c { s.conns c with clientOpen := true }).conns d = s.conns d :=
        fun d hd => setC_conns_other _ _ _ _ hd
      have hF : ∀ d, Fresh (s.conns d) → Fresh ((s.setC c { s.conns c with clientOpen := true }).conns d) := by
        intro d hd
        by_cases hdc : d = c
        · subst hdc; rw [setC_conns_same]; exact fresh_clientOpen hd true
        · rw [hconn d hdc]; exact hd
      have hI : ∀ d, ((s.setC c { s.conns c with clientOpen := true }).conns d).inMap = (s.conns d).inMap := by
        intro d
        by_cases hdc : d = c
        · subst hdc; rw [setC_conns_same]
        · rw [hconn d hdc]
      constructor
      · exact List.nodup_append.2 ⟨h.nodup, (by simp : [c].Nodup), by
          intro a ha b hb; rw [List.mem_singleton.1 hb]; exact fun e => hc (e ▸ ha)⟩
      · exact List.nodup_append.2 ⟨h.qnodup, (by simp : [c].Nodup), by
          intro a ha b hb; rw [List.mem_singleton.1 hb]; exact fun e => hcq (e ▸ ha)⟩
      · intro d hd
        simp only [List.mem_append, List.mem_singleton] at hd ⊢
        rcases hd with hd | hd
        · exact ⟨Or.inl (h.qsub d hd).1, hF d (h.qsub d hd).2⟩
        · subst hd; exact ⟨Or.inr rfl, hF d hfc⟩
      · intro d hd
        have := h.accC d hd
        simp only [List.mem_append, List.mem_singleton]
        refine ⟨Or.inl this.1, hF d this.2.1, ?_⟩
        rintro (hq | hq)
        · exact this.2.2 hq
        · exact hc (hq ▸ this.1)
      · intro d hd
        simp only [List.mem_append, List.mem_singleton, not_or] at hd
        exact hF d (h.fresh d hd.1)
      · intro d
        by_cases hdc : d = c
        · subst hdc; show CInv cfg ((s.setC d _).conns d); rw [setC_conns_same]; exact (fresh_clientOpen hfc true).cinv
        · show CInv cfg ((s.setC c _).conns d); rw [hconn d hdc]; exact h.cinv d
      · show s.count = ((List.countP _ (s.ids ++ [c]) : Nat) : Int)
        rw [List.countP_append, h.count]
        have e1 : List.countP (fun d => Counted ((s.setC c { s.conns c with clientOpen := true }).conns d)) s.ids = liveCount s := by
          unfold liveCount
          apply List.countP_congr
          intro x hx
          have : x ≠ c := fun e => hc (e ▸ hx)
          rw [hconn x this]
        have e2 : List.countP (fun d => Counted ((s.setC c { s.conns c with clientOpen := true }).conns d)) [c] = 0 := by
          simp [Counted, hfc.pc]
        rw [e1, e2]; simp
      · exact h.shut
      · intro rem ai hs
        refine ⟨(h.remMap rem ai hs).1, ?_⟩
        intro d hd; rw [hI]; exact (h.remMap rem ai hs).2 d hd
      · intro rem ai hs ha d hd hm
        rw [hI] at hm
        simp only [List.mem_append, List.mem_singleton] at hd
        rcases hd with hd | hd
        · exact h.sweep rem ai hs ha d hd hm
        · subst hd; rw [hfc.map] at hm; cases hm
      · intro r hs hr d; rw [hI]; exact h.retOk r hs hr d
      · exact h.lis
      · exact h.lisC
      · exact h.accRet
    · -- connection refused: the client is only remembered
      constructor
      · exact List.nodup_append.2 ⟨h.nodup, (by simp : [c].Nodup), by
          intro a ha b hb; rw [List.mem_singleton.1 hb]; exact fun e => hc (e ▸ ha)⟩
      · exact h.qnodup
      · intro d hd
        simp only [List.mem_append, List.mem_singleton]
        exact ⟨Or.inl (h.qsub d hd).1, (h.qsub d hd).2⟩
      · intro d hd
        have := h.accC d hd
        simp only [List.mem_append, List.mem_singleton]
        exact ⟨Or.inl this.1, this.2.1, this.2.2⟩
      · intro d hd
        simp only [List.mem_append, List.mem_singleton, not_or] at hd
        exact h.fresh d hd.1
      · exact h.cinv
      · show s.count = ((List.countP _ (s.ids ++ [c]) : Nat) : Int)
        rw [List.countP_append, h.count]
        have e2 : List.countP (fun d => Counted (s.conns d)) [c] = 0 := by simp [Counted, hfc.pc]
        rw [e2]; simp [liveCount]
      · exact h.shut
      · exact h.remMap
      · intro rem ai hs ha d hd hm
        simp only [List.mem_append, List.mem_singleton] at hd
        rcases hd with hd | hd
        · exact h.sweep rem ai hs ha d hd hm
        · subst hd; rw [hfc.map] at hm; cases hm
      · exact h.retOk
      · exact h.lis
      · exact h.lisC
      · exact h.accRet

/-! ### Shutdown -/

theorem inv_shutdownCall (cfg : Cfg) (s : St) (h : Inv cfg s) : Inv cfg (step cfg s .shutdownCall) := by
  simp only [step]
  cases hs : s.sd with
  | notCalled =>
    simp only []
    apply inv_globals cfg s _ h
    · rfl
    · rfl
    · rfl
    · exact ⟨h.qnodup, fun _ hc => hc⟩
    · intro c hc; exact Or.inl ⟨hc, (h.accC c hc).2.2⟩
    · simp
    · intro rem ai he
      simp only [SPc.sweeping.injEq] at he
      rw [← he.1]
      refine ⟨h.nodup.filter _, ?_⟩
      intro c hc
      simpa using (List.mem_filter.1 hc).2
    · intro rem ai he _ c hc hm
      simp only [SPc.sweeping.injEq] at he
      rw [← he.1]
      exact List.mem_filter.2 ⟨hc, by simpa using hm⟩
    · intro r he hr; cases he <;> exact absurd rfl hr
    · intro _ hl; simp only [] at hl; simp [hl]
    · intro _; exact Or.inl rfl
    · exact h.accRet
  | sweeping rem ai => simp only []; exact h
  | returned r =>
    cases r with
    | ok => simp only []; exact h
    | lerr => simp only []; exact h
    | ctxErr =>
      -- Shutdown is called again after a call that gave up: a new sweep over the map as it is now
      simp only []
      have hsh : s.isShutdown = true := h.shut.2 (by rw [hs]; intro e; cases e)
      apply inv_globals cfg s _ h
      · rfl
      · rfl
      · rfl
      · exact ⟨h.qnodup, fun _ hc => hc⟩
      · intro c hc; exact Or.inl ⟨hc, (h.accC c hc).2.2⟩
      · simp [hsh]
      · intro rem ai he
        simp only [SPc.sweeping.injEq] at he
        rw [← he.1]
        refine ⟨h.nodup.filter _, ?_⟩
        intro c hc
        simpa using (List.mem_filter.1 hc).2
      · intro rem ai he _ c hc hm
        simp only [SPc.sweeping.injEq] at he
        rw [← he.1]
        exact List.mem_filter.2 ⟨hc, by simpa using hm⟩
      · intro r he hr; cases he <;> exact absurd rfl hr
      · exact h.lis
      · exact h.lisC
      · exact h.accRet

theorem inv_shutdownTick (cfg : Cfg) (s : St) (h : Inv cfg s) : Inv cfg (step cfg s .shutdownTick) := by
  simp only [step]
  cases hs : s.sd with
  | notCalled => simp only []; exact h
  | returned r => simp only []; exact h
  | sweeping rem ai =>
    cases rem with
    | cons a as => simp only []; exact h
    | nil =>
      simp only []
      have hsh : s.isShutdown = true := h.shut.2 (by rw [hs]; intro e; cases e)
      split
      · rename_i hai
        apply inv_globals cfg s _ h
        · rfl
        · rfl
        · rfl
        · exact ⟨h.qnodup, fun _ hc => hc⟩
        · intro c hc; exact Or.inl ⟨hc, (h.accC c hc).2.2⟩
        · simp [hsh]
        · intro rem ai he; cases he
        · intro rem ai he; cases he
        · intro r _ _ c
          by_cases hc : c ∈ s.ids
          · cases hm : (s.conns c).inMap with
            | false => rfl
            | true => have := h.sweep [] ai hs hai c hc hm; cases this
          · exact (h.fresh c hc).map
        · exact h.lis
        · exact h.lisC
        · exact h.accRet
      · split
        · apply inv_globals cfg s _ h
          · rfl
          · rfl
          · rfl
          · exact ⟨h.qnodup, fun _ hc => hc⟩
          · intro c hc; exact Or.inl ⟨hc, (h.accC c hc).2.2⟩
          · simp [hsh]
          · intro rem ai he; cases he
          · intro rem ai he; cases he
          · intro r he hr; cases he <;> exact absurd rfl hr
          · exact h.lis
          · exact h.lisC
          · exact h.accRet
        · apply inv_globals cfg s _ h
          · rfl
          · rfl
          · rfl
          · exact ⟨h.qnodup, fun _ hc => hc⟩
          · intro c hc; exact Or.inl ⟨hc, (h.accC c hc).2.2⟩
          · simp [hsh]
          · intro rem ai he
            simp only [SPc.sweeping.injEq] at he
            rw [← he.1]
            refine ⟨h.nodup.filter _, ?_⟩
            intro c hc
            simpa using (List.mem_filter.1 hc).2
          · intro rem ai he _ c hc hm
            simp only [SPc.sweeping.injEq] at he
            rw [← he.1]
            exact List.mem_filter.2 ⟨hc, by simpa using hm⟩
          · intro r he hr; cases he <;> exact absurd rfl hr
          · exact h.lis
          · exact h.lisC
          · exact h.accRet

theorem inv_shutdownScan (cfg : Cfg) (s : St) (c : Nat) (h : Inv cfg s) : Inv cfg (step cfg s (.shutdownScan c)) := by
  simp only [step]
  cases hs : s.sd with
  | notCalled => simp only []; exact h
  | returned r => simp only []; exact h
  | sweeping rem ai =>
    simp only []
    have hsh : s.isShutdown = true := h.shut.2 (by rw [hs]; intro e; cases e)
    have hrem := h.remMap rem ai hs
    split
    · rename_i hcr
      have hcr : c ∈ rem := by simpa using hcr
      have hcm := hrem.2 c hcr
      have hci := h.cinv c
      have hcounted := hci.inmap hcm
      have hpc : (s.conns c).pc ≠ .notStarted := by
        intro e; simp [Counted, e] at hcounted
      have hcids := h.mem_ids c hpc
      have hnotfresh : ¬ Fresh (s.conns c) := fun hf => hpc hf.pc
      have herase : ∀ d, d ∈ rem.erase c ↔ d ∈ rem ∧ d ≠ c := by
        intro d; rw [hrem.1.mem_erase_iff]; exact And.comm
      split
      · -- idle: closed by Shutdown and removed from the map
        rename_i hidle
        have hconn : ∀ d, d ≠ c → (s.setC c { s.conns c with state := .closedByShutdown, serverClosed := true, inMap := false }).conns d = s.conns d :=
          fun d hd => setC_conns_other _ _ _ _ hd
        have hF : ∀ d, Fresh (s.conns d) → Fresh ((s.setC c { s.conns c with state := .closedByShutdown, serverClosed := true, inMap := false }).conns d) := by
          intro d hd
          by_cases hdc : d = c
          · subst hdc; exact absurd hd hnotfresh
          · rw [hconn d hdc]; exact hd
        constructor
        · exact h.nodup
        · exact h.qnodup
        · intro d hd; exact ⟨(h.qsub d hd).1, hF d (h.qsub d hd).2⟩
        · intro d hd; exact ⟨(h.accC d hd).1, hF d (h.accC d hd).2.1, (h.accC d hd).2.2⟩
        · intro d hd; exact hF d (h.fresh d hd)
        · intro d
          by_cases hdc : d = c
          · subst hdc
            show CInv cfg ((s.setC d _).conns d)
            rw [setC_conns_same]
            have hnr : InRequest (s.conns d) = false := by
              cases hr : InRequest (s.conns d) with
              | false => rfl
              | true => have := hci.busy hr; rw [hidle] at this; cases this
            constructor
            · exact hci.cb_running
            · exact hci.cb_done
            · exact hci.cb_notStarted
            · intro hr; exact absurd (hci.rej hr).1 hpc
            · intro hr; exact absurd (hci.ref hr).1 hpc
            · intro hr; simp only [InRequest] at hr hnr; rw [hnr] at hr; cases hr
            · intro _; exact ⟨rfl, rfl⟩
            · intro _ _; rfl
            · intro hm; cases hm
            · intro _ _; rfl
            · intro _; rfl
            · exact hci.flight
          · show CInv cfg ((s.setC c _).conns d); rw [hconn d hdc]; exact h.cinv d
        · show s.count = ((liveCount (s.setC c _) : Nat) : Int)
          rw [liveCount_setC_same _ _ _ (by simp only [Counted])]; exact h.count
        · simp [hsh]
        · intro rem' ai' he
          simp only [SPc.sweeping.injEq] at he
          rw [← he.1]
          refine ⟨hrem.1.erase c, ?_⟩
          intro d hd
          have := (herase d).1 hd
          show ((s.setC c _).conns d).inMap = true
          rw [hconn d this.2]; exact hrem.2 d this.1
        · intro rem' ai' he hai d hd hm
          simp only [SPc.sweeping.injEq] at he
          rw [← he.1]
          by_cases hdc : d = c
          · subst hdc; rw [show ((s.setC d _).conns d).inMap = false from by rw [setC_conns_same]] at hm; cases hm
          · rw [show ((s.setC c _).conns d).inMap = (s.conns d).inMap from by rw [hconn d hdc]] at hm
            exact (herase d).2 ⟨h.sweep rem ai hs (he.2 ▸ hai) d hd hm, hdc⟩
        · intro r he hr; cases he <;> exact absurd rfl hr
        · exact h.lis
        · exact h.lisC
        · exact h.accRet
      · -- busy: Shutdown has to wait
        apply inv_globals cfg s _ h
        · rfl
        · rfl
        · rfl
        · exact ⟨h.qnodup, fun _ hc => hc⟩
        · intro c hc; exact Or.inl ⟨hc, (h.accC c hc).2.2⟩
        · simp [hsh]
        · intro rem' ai' he
          simp only [SPc.sweeping.injEq] at he
          rw [← he.1]
          exact ⟨hrem.1.erase c, fun d hd => hrem.2 d ((herase d).1 hd).1⟩
        · intro rem' ai' he hai
          simp only [SPc.sweeping.injEq] at he
          rw [← he.2] at hai; cases hai
        · intro r he hr; cases he <;> exact absurd rfl hr
        · exact h.lis
        · exact h.lisC
        · exact h.accRet
    · exact h

/-! ### the accept loop -/

theorem cinv_closed {cfg : Cfg} {cn : Conn} (h : Fresh cn) : CInv cfg { cn with serverClosed := true } := by
  constructor <;> simp [h.pc, h.rej, h.ref, h.cbs, h.map, h.st, h.started, InRequest, Active, Counted, Cleaned]

theorem cinv_rejected {cfg : Cfg} {cn : Conn} (h : Fresh cn) : CInv cfg { cn with serverClosed := true, rejected := true } := by
  constructor <;> simp [h.pc, h.rej, h.ref, h.cbs, h.map, h.st, h.started, InRequest, Active, Counted, Cleaned]

theorem cinv_refused {cfg : Cfg} {cn : Conn} (h : Fresh cn) :
    CInv cfg { cn with serverClosed := true, refused := true,
                       closeCbs := cn.closeCbs ++ (if cfg.onClose then [true] else []) } := by
  constructor <;> simp [h.pc, h.rej, h.ref, h.cbs, h.map, h.st, h.started, InRequest, Active, Counted, Cleaned]
  split <;> simp_all

theorem cinv_tracked {cfg : Cfg} {cn : Conn} (h : Fresh cn) : CInv cfg { cn with inMap := true, pc := .loopTop } := by
  constructor <;> simp [h.pc, h.rej, h.ref, h.cbs, h.map, h.st, h.started, h.open_, InRequest, Active, Counted, Cleaned]

/-- the accept loop lets go of the connection it holds (it goes back to Accept or returns) -/
theorem inv_acc_release (cfg : Cfg) (s : St) (acc' : APc) (lo : Bool) (h : Inv cfg s)
    (hn : accConn acc' = none)
    (hlo : lo = s.listenerOpen ∨ (lo = false ∧ ∃ r, acc' = .returned r))
    (hr : ∀ r, acc' = .returned r → r = .closed)
    (hacc : ∀ r, s.acc ≠ .returned r) :
    Inv cfg { s with listenerOpen := lo, acc := acc' } := by
  apply inv_globals cfg s _ h
  · rfl
  · rfl
  · rfl
  · exact ⟨h.qnodup, fun _ hc => hc⟩
  · intro c hc; simp only [] at hc; rw [hn] at hc; cases hc
  · exact h.shut
  · exact h.remMap
  · exact h.sweep
  · exact h.retOk
  · intro h1 h2
    rcases hlo with e | e
    · simp only []; rw [e]; exact h.lis h1 h2
    · exact e.1
  · intro h1
    simp only [] at h1 ⊢
    rcases hlo with e | e
    · rw [e] at h1
      rcases h.lisC h1 with x | x | ⟨r, x⟩
      · exact Or.inl x
      · exact Or.inr (Or.inl x)
      · exact absurd x (hacc r)
    · exact Or.inr (Or.inr e.2)
  · exact hr

theorem inv_acc (cfg : Cfg) (s : St) (h : Inv cfg s) : Inv cfg (step cfg s .acc) := by
  simp only [step, accStep]
  cases hacc : s.acc with
  | returned r => simp only []; exact h
  | init =>
    simp only []
    split
    · exact h
    · split
      · exact inv_acc_release cfg s _ _ h rfl (Or.inr ⟨rfl, _, rfl⟩) (by intro r e; cases e; rfl) (by intro r e; rw [hacc] at e; cases e)
      · rename_i hns
        apply inv_globals cfg s _ h
        · rfl
        · rfl
        · rfl
        · exact ⟨h.qnodup, fun _ hc => hc⟩
        · intro c hc; simp [accConn] at hc
        · exact h.shut
        · exact h.remMap
        · exact h.sweep
        · exact h.retOk
        · intro h1; exact absurd h1 hns
        · intro h1
          rcases h.lisC h1 with x | x | ⟨r, x⟩
          · exact Or.inl x
          · exact Or.inr (Or.inl x)
          · rw [hacc] at x; cases x
        · intro r e; cases e
  | accept =>
    simp only []
    split
    · rename_i hlo
      have hlo : s.listenerOpen = false := by simpa using hlo
      have : s.isShutdown = true ∨ s.ctxCancelled = true := by
        rcases h.lisC hlo with x | x | ⟨r, x⟩
        · exact Or.inl x
        · exact Or.inr x
        · rw [hacc] at x; cases x
      have e : (s.isShutdown || s.ctxCancelled) = true := by rcases this with x | x <;> simp [x]
      rw [e]
      have := inv_acc_release cfg s (.returned .closed) s.listenerOpen h rfl (Or.inl rfl)
        (by intro r e; cases e; rfl) (by intro r e; rw [hacc] at e; cases e)
      exact this
    · rename_i hlo
      have hlo : s.listenerOpen = true := by simpa using hlo
      split
      · rename_i c rest hq
        have hnd : (c :: rest).Nodup := hq ▸ h.qnodup
        apply inv_globals cfg s _ h
        · rfl
        · rfl
        · rfl
        · exact ⟨(List.nodup_cons.1 hnd).2, fun d hd => by rw [hq]; exact List.mem_cons_of_mem _ hd⟩
        · intro d hd
          simp only [accConn, Option.some.injEq] at hd
          subst hd
          exact Or.inr ⟨by rw [hq]; exact List.mem_cons_self, (List.nodup_cons.1 hnd).1⟩
        · exact h.shut
        · exact h.remMap
        · exact h.sweep
        · exact h.retOk
        · exact h.lis
        · intro h1; simp only [] at h1; rw [hlo] at h1; cases h1
        · intro r e; cases e
      · exact h
  | ctxCheck c =>
    simp only []
    have hc := h.accC c (by rw [hacc]; rfl)
    split
    · have h1 := inv_acc_release cfg s (.returned .closed) false h rfl (Or.inr ⟨rfl, _, rfl⟩)
        (by intro r e; cases e; rfl) (by intro r e; rw [hacc] at e; cases e)
      have h2 := inv_conn_upd cfg _ c { s.conns c with serverClosed := true } 0 h1 (cinv_closed hc.2.1)
        (fun _ => Or.inr ⟨hc.1, hc.2.2, by simp [accConn]⟩)
        (by simp [Counted, hc.2.1.pc]) (by intro e; exact Or.inl e) (by intro e; exact Or.inl e)
      rw [setC_count_zero] at h2; exact h2
    · apply inv_globals cfg s _ h
      · rfl
      · rfl
      · rfl
      · exact ⟨h.qnodup, fun _ hc => hc⟩
      · intro d hd
        simp only [accConn, Option.some.injEq] at hd
        subst hd; exact Or.inl ⟨by rw [hacc]; rfl, hc.2.2⟩
      · exact h.shut
      · exact h.remMap
      · exact h.sweep
      · exact h.retOk
      · exact h.lis
      · intro h1
        rcases h.lisC h1 with x | x | ⟨r, x⟩
        · exact Or.inl x
        · exact Or.inr (Or.inl x)
        · rw [hacc] at x; cases x
      · intro r e; cases e
  | callCb c =>
    simp only []
    have hc := h.accC c (by rw [hacc]; rfl)
    split
    · have h1 := inv_conn_irrelevant cfg s c { s.conns c with acceptArg := some (s.count + 1) } h rfl rfl rfl rfl rfl rfl rfl rfl rfl rfl
      apply inv_globals cfg _ _ h1
      · rfl
      · rfl
      · rfl
      · exact ⟨h.qnodup, fun _ hc => hc⟩
      · intro d hd
        simp only [accConn, Option.some.injEq] at hd
        subst hd; exact Or.inl ⟨by simp only [setC_acc]; rw [hacc]; rfl, hc.2.2⟩
      · exact h1.shut
      · exact h1.remMap
      · exact h1.sweep
      · exact h1.retOk
      · exact h1.lis
      · intro e
        rcases h1.lisC e with x | x | ⟨r, x⟩
        · exact Or.inl x
        · exact Or.inr (Or.inl x)
        · simp only [setC_acc] at x; rw [hacc] at x; cases x
      · intro r e; cases e
    · apply inv_globals cfg s _ h
      · rfl
      · rfl
      · rfl
      · exact ⟨h.qnodup, fun _ hc => hc⟩
      · intro d hd
        simp only [accConn, Option.some.injEq] at hd
        subst hd; exact Or.inl ⟨by rw [hacc]; rfl, hc.2.2⟩
      · exact h.shut
      · exact h.remMap
      · exact h.sweep
      · exact h.retOk
      · exact h.lis
      · intro h1
        rcases h.lisC h1 with x | x | ⟨r, x⟩
        · exact Or.inl x
        · exact Or.inr (Or.inl x)
        · rw [hacc] at x; cases x
      · intro r e; cases e
  | inCb c =>
    simp only []
    have hc := h.accC c (by rw [hacc]; rfl)
    split
    · have h1 := inv_acc_release cfg s .accept s.listenerOpen h rfl (Or.inl rfl)
        (by intro r e; cases e) (by intro r e; rw [hacc] at e; cases e)
      have h2 := inv_conn_upd cfg _ c { s.conns c with serverClosed := true, rejected := true } 0 h1 (cinv_rejected hc.2.1)
        (fun _ => Or.inr ⟨hc.1, hc.2.2, by simp [accConn]⟩)
        (by simp [Counted, hc.2.1.pc]) (by intro e; exact Or.inl e) (by intro e; exact Or.inl e)
      rw [setC_count_zero] at h2; exact h2
    · apply inv_globals cfg s _ h
      · rfl
      · rfl
      · rfl
      · exact ⟨h.qnodup, fun _ hc => hc⟩
      · intro d hd
        simp only [accConn, Option.some.injEq] at hd
        subst hd; exact Or.inl ⟨by rw [hacc]; rfl, hc.2.2⟩
      · exact h.shut
      · exact h.remMap
      · exact h.sweep
      · exact h.retOk
      · exact h.lis
      · intro h1
        rcases h.lisC h1 with x | x | ⟨r, x⟩
        · exact Or.inl x
        · exact Or.inr (Or.inl x)
        · rw [hacc] at x; cases x
      · intro r e; cases e
  | track c =>
    simp only []
    have hc := h.accC c (by rw [hacc]; rfl)
    split
    · exact h
    · split
      · have h1 := inv_acc_release cfg s (.returned .closed) false h rfl (Or.inr ⟨rfl, _, rfl⟩)
          (by intro r e; cases e; rfl) (by intro r e; rw [hacc] at e; cases e)
        have h2 := inv_conn_upd cfg _ c
          { s.conns c with serverClosed := true, refused := true,
                           closeCbs := (s.conns c).closeCbs ++ (if cfg.onClose then [true] else []) } 0 h1
          (cinv_refused hc.2.1)
          (fun _ => Or.inr ⟨hc.1, hc.2.2, by simp [accConn]⟩)
          (by simp [Counted, hc.2.1.pc]) (by intro e; exact Or.inl e) (by intro e; exact Or.inl e)
        rw [setC_count_zero] at h2; exact h2
      · rename_i hns
        have hnc : s.sd = .notCalled := by
          cases hsd : s.sd with
          | notCalled => rfl
          | _ => exact absurd (h.shut.2 (by rw [hsd]; intro e; cases e)) hns
        have h1 := inv_acc_release cfg s .accept s.listenerOpen h rfl (Or.inl rfl)
          (by intro r e; cases e) (by intro r e; rw [hacc] at e; cases e)
        have h2 := inv_conn_upd cfg _ c { s.conns c with inMap := true, pc := .loopTop } 1 h1 (cinv_tracked hc.2.1)
          (fun _ => Or.inr ⟨hc.1, hc.2.2, by simp [accConn]⟩)
          (by simp [Counted, hc.2.1.pc]) (by intro _; exact Or.inr hnc)
          (by intro e; simp only [] at e; rw [hc.2.1.map] at e; cases e)
        exact h2

/-! ### every step, every schedule -/

theorem inv_step (cfg : Cfg) (s : St) (l : Step) (h : Inv cfg s) : Inv cfg (step cfg s l) := by
  cases l with
  | clientConnect c => exact inv_clientConnect cfg s c h
  | clientSend c r k => exact inv_clientSend cfg s c r k h
  | clientClose c => exact inv_clientClose cfg s c h
  | ctxCancel => exact inv_ctxCancel cfg s h
  | afterFunc => exact inv_afterFunc cfg s h
  | sdCtxExpire => exact inv_sdCtxExpire cfg s h
  | acc => exact inv_acc cfg s h
  | conn c => exact inv_conn cfg s c h
  | shutdownCall => exact inv_shutdownCall cfg s h
  | shutdownScan c => exact inv_shutdownScan cfg s c h
  | shutdownTick => exact inv_shutdownTick cfg s h

theorem inv_run (cfg : Cfg) (s : St) (sched : List Step) (h : Inv cfg s) : Inv cfg (run cfg s sched) := by
  induction sched generalizing s with
  | nil => exact h
  | cons l ls ih => exact ih _ (inv_step cfg s l h)

end Modbus.Lemmas.ServerLife
