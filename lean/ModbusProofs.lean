import ModbusProofs.Properties.C01
import ModbusProofs.Properties.C03
import ModbusProofs.Properties.C09
import ModbusProofs.Properties.C10
