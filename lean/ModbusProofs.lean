import ModbusProofs.Properties.C03
