import ModbusProofs.Properties.C01
import ModbusProofs.Properties.C02
import ModbusProofs.Properties.C03
import ModbusProofs.Properties.C09
import ModbusProofs.Properties.C10
import ModbusProofs.Properties.C11
import ModbusProofs.Properties.C18
