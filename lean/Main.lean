import Modbus.Driver.JudgePacket
import Modbus.Driver.Regs
import Modbus.Driver.Split
import Modbus.Driver.Extract
import Modbus.Driver.Xf
import Modbus.Driver.Client
import Modbus.Driver.Asm
import Modbus.Driver.Conc
import Modbus.Driver.Srv
import Std.Data.HashSet
import Std.Data.HashMap
/-
  Driver of the correspondence check.
    usage: driver <property-id>   (stdin: one `op<TAB>implementation-output` per line)
  For every line the model's output is computed and compared with the implementation's;
  the property's oracle is evaluated on the implementation's output. Lines printed:
    VIOL <tab> reason <tab> op <tab> go=… <tab> model=…     implementation violates the property here
    DIFF <tab> op <tab> go=… <tab> model=…                   correspondence broken here (no violation at this line)
    KF   <tab> id <tab> op <tab> go=…                        known finding region (model = implementation, property fails)
    BAD  <tab> line                                          unparsable operation
    STATS <json>
-/
open Modbus Modbus.Driver

structure Family where
  modelOut : String
  /-- schedule-dependent operations: the model validates the observed history (trace replay) -/
  modelOf : Option (String → String) := none
  kf : Option String
  expect : String → Expect
  kind : String

def dispatch (prop : String) (ts : List String) : Option Family :=
  match parsePOp ts with
  | some op =>
    let kind := match op with
      | .parse e _ _ => "parse:" ++ e
      | _ => ts.headD "?"
    some { modelOut := op.modelOut, kf := op.kf prop, expect := op.judge prop, kind }
  | none =>
    match parseRegsOp ts with
    | some op => some { modelOut := op.modelOut, kf := none, expect := op.judge prop, kind := "regs" }
    | none =>
      match parseSplitOp ts with
      | some op => some { modelOut := op.modelOut, kf := none, expect := op.judge prop, kind := "split" }
      | none =>
        match parseExtractOp ts with
        | some op =>
          let m := op.modelOut
          some { modelOut := m, kf := op.kf prop m, expect := op.judge prop, kind := "extract" }
        | none =>
          match parseXfOp ts with
          | some op => some { modelOut := op.modelOut, kf := none, expect := op.judge prop, kind := "xf" }
          | none =>
          match parseDorOp ts with
          | some op => some { modelOut := op.modelOut, kf := op.kf prop, expect := op.judge prop, kind := "dor:" ++ (ts.getD 1 "?") }
          | none =>
          match parseDoOp ts with
          | some op => some { modelOut := op.modelOut, kf := op.kf prop, expect := op.judge prop,
                              kind := "do:" ++ (ts.getD 1 "?") }
          | none =>
            match parseAsmOp ts with
            | some op => some { modelOut := op.modelOut, kf := op.kf prop, expect := op.judge prop,
                                kind := "asm:" ++ (ts.getD 1 "?") }
            | none =>
              match parseConcOp ts with
              | some op => some { modelOut := "", modelOf := some op.modelOf, kf := none, expect := op.judge prop,
                                  kind := "conc:" ++ (ts.getD 1 "?") }
              | none =>
                match parseLockOp ts with
                | some op => some { modelOut := "", modelOf := some id, kf := none, expect := op.judge prop,
                                    kind := "lockfacts" }
                | none =>
                  match parseSrvOp ts with
                  | some op => some { modelOut := op.modelOut, kf := none, expect := op.judge prop, kind := "srv" }
                  | none => none

structure St where
  lines : Nat := 0
  viol : Nat := 0
  diff : Nat := 0
  bad : Nat := 0
  constrained : Nat := 0
  distinct : Std.HashSet UInt64 := {}
  kinds : Std.HashMap String Nat := {}
  outcomes : Std.HashMap String Nat := {}
  kfs : Std.HashMap String Nat := {}
  samples : Std.HashMap String (List String) := {}
  printed : Nat := 0
  printedV : Nat := 0

def outcomeClass (s : String) : String :=
  if s.startsWith "ok" then "ok"
  else if s.startsWith "err" then
    match s.splitOn " " with
    | _ :: c :: _ => "err-" ++ c
    | _ => "err"
  else if isPanicStr s then "panic"
  else "other"

def jsonStr (s : String) : String :=
  "\"" ++ (s.replace "\\" "\\\\").replace "\"" "\\\"" ++ "\""

def mapJson (m : Std.HashMap String Nat) : String :=
  "{" ++ ", ".intercalate (m.toList.map fun (k, v) => jsonStr k ++ ": " ++ toString v) ++ "}"

def samplesJson (m : Std.HashMap String (List String)) : String :=
  "{" ++ ", ".intercalate (m.toList.map fun (k, v) =>
    jsonStr k ++ ": [" ++ ", ".intercalate (v.map jsonStr) ++ "]") ++ "}"

def maxPrint : Nat := 200

partial def loop (prop : String) (h : IO.FS.Stream) (st : St) : IO St := do
  let line ← h.getLine
  if line.isEmpty then return st
  let line := (line.dropEndWhile (fun c => c == '\n' || c == '\r')).toString
  if line.isEmpty then return (← loop prop h st)
  let (opStr, goOut) := match line.splitOn "\t" with
    | [a, b] => (a, b)
    | _ => (line, "")
  let ts := opStr.splitOn " "
  match dispatch prop ts with
  | none =>
    IO.println s!"BAD\t{line}"
    loop prop h { st with lines := st.lines + 1, bad := st.bad + 1 }
  | some fam =>
    let m := match fam.modelOf with
      | some f => f goOut
      | none => fam.modelOut
    let e := fam.expect goOut
    let holds := e.holds goOut
    let isConstrained := match e with
      | .free => false
      | .noPanic => false
      | _ => true
    let mut st := { st with lines := st.lines + 1 }
    st := { st with kinds := st.kinds.insert fam.kind (st.kinds.getD fam.kind 0 + 1) }
    let oc := fam.kind.takeWhile (· != ':') |>.toString
    let ock := oc ++ "/" ++ outcomeClass m
    st := { st with outcomes := st.outcomes.insert ock (st.outcomes.getD ock 0 + 1) }
    if isConstrained then
      st := { st with constrained := st.constrained + 1, distinct := st.distinct.insert (hash opStr) }
    let sm := st.samples.getD fam.kind []
    if sm.length < 2 then
      st := { st with samples := st.samples.insert fam.kind (sm ++ [line.replace "\t" " => "]) }
    if goOut == m then
      if !holds then
        match fam.kf with
        | some id =>
          let c := st.kfs.getD id 0
          if c < 3 then IO.println s!"KF\t{id}\t{opStr}\tgo={goOut}"
          st := { st with kfs := st.kfs.insert id (c + 1) }
        | none =>
          if st.printedV < maxPrint then IO.println s!"VIOL\t{e.descr}\t{opStr}\tgo={goOut}\tmodel={m}"
          st := { st with viol := st.viol + 1, printedV := st.printedV + 1 }
    else
      if !holds then
        if st.printedV < maxPrint then IO.println s!"VIOL\t{e.descr}\t{opStr}\tgo={goOut}\tmodel={m}"
        st := { st with viol := st.viol + 1, diff := st.diff + 1, printedV := st.printedV + 1 }
      else
        if st.printed < maxPrint then IO.println s!"DIFF\t{opStr}\tgo={goOut}\tmodel={m}"
        st := { st with diff := st.diff + 1, printed := st.printed + 1 }
    loop prop h st

def main (args : List String) : IO UInt32 := do
  let prop := args.headD "C00"
  let stdin ← IO.getStdin
  let st ← loop prop stdin {}
  IO.println ("STATS {" ++
    s!"\"lines\": {st.lines}, \"viol\": {st.viol}, \"diff\": {st.diff}, \"bad\": {st.bad}, " ++
    s!"\"constrained\": {st.constrained}, \"distinct_constrained\": {st.distinct.size}, " ++
    s!"\"kinds\": {mapJson st.kinds}, \"outcomes\": {mapJson st.outcomes}, \"kfs\": {mapJson st.kfs}, " ++
    s!"\"samples\": {samplesJson st.samples}" ++ "}")
  return 0
